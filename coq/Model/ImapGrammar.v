(* C10/C11 — recursive-descent model of the IMAP command parser.

   Go code mirrored (function by function):
     rfcparser/parser.go      Check/Consume/ConsumeWith/Matches/MatchesWith/ConsumeBytesFold/CollectBytesWhileMatches*,
                              ParseNumber (int64 overflow check), ParseNumberN, ParseAtom, ParseQuoted, ParseLiteral
                              (size guards + Scanner.ConsumeBytes), ParseString, ParseAString, TryParseString
     imap/command/parser.go   Parser.Parse, parseTag, parseCommand (keyword -> builder)
     imap/command/*.go        ParseMailbox, ParseNString, ParseFlag/ParseFlagList/TryParseFlagList, ParseNZNumber,
                              ParseSeqNumber/ParseSeqRange/ParseSeqSet, ParseDate/ParseDateTime/ParseTime/ParseZone/...,
                              and FromParser of LOGIN SELECT EXAMINE CREATE DELETE SUBSCRIBE UNSUBSCRIBE RENAME LIST LSUB
                              STATUS APPEND COPY MOVE STORE FETCH SEARCH UID(+EXPUNGE) ID and the argument-less commands.

   The input is a byte list whose head is the parser's current token ([] = EOF token, see ImapTokens.v).
   Results: ROut (out of fuel = the Go loop would not terminate), RErr kind at (error raised while the current token is
   the head of `at`; the bytes of `at` after its head are still unread in the scanner), ROk value rest.
   Loops whose body is a parser and the recursion of search keys take explicit fuel; the theorems of Props/C11.v show
   that fuel = length of the input + 1 is never exhausted.  All token classes come from the generated tables. *)
From Coq Require Import List NArith Bool String Ascii.
From Gluon Require Import Gen.FactsTokens Model.ImapTokens.
Import ListNotations.
Open Scope N_scope.

(* ------------------------------------------------------------------ results and the parser monad *)
Inductive ekind := EParse   (* *rfcparser.Error: the session answers BAD and skips the rest of the line *)
                 | EFatal   (* any other error: the command reader goroutine returns, the connection is closed *)
                 | ECrash.  (* the Go code would panic (index out of range) *)

Inductive res (A : Type) : Type :=
| ROut
| RErr (k : ekind) (at_ : bytes)
| ROk (a : A) (rest : bytes).
Arguments ROut {A}.
Arguments RErr {A} k at_.
Arguments ROk {A} a rest.

Definition P (A : Type) := bytes -> res A.

Definition ret {A} (a : A) : P A := fun bs => ROk a bs.
Definition bind {A B} (p : P A) (f : A -> P B) : P B :=
  fun bs => match p bs with
            | ROut => ROut
            | RErr k at_ => RErr k at_
            | ROk a r => f a r
            end.
Definition fail {A} : P A := fun bs => RErr EParse bs.          (* p.MakeError / MakeErrorAtOffset *)
Definition fail_kind {A} (k : ekind) : P A := fun bs => RErr k bs.

Notation "x <- p ;; q" := (bind p (fun x => q)) (at level 61, p at next level, right associativity).
Notation "p ;;; q" := (bind p (fun _ => q)) (at level 61, right associativity).

(* ------------------------------------------------------------------ rfcparser primitives *)
(* Parser.Check / CheckWith *)
Definition p_check (f : N -> bool) : P bool := fun bs => ROk (f (cur_tok bs)) bs.
(* Parser.ConsumeWith / Consume: returns previousToken.Value *)
Definition p_consume (f : N -> bool) : P N :=
  fun bs => if f (cur_tok bs) then ROk (cur_val bs) (tl bs) else RErr EParse bs.
(* Parser.MatchesWith / Matches: Some previousToken.Value when the token was taken *)
Definition p_match (f : N -> bool) : P (option N) :=
  fun bs => if f (cur_tok bs) then ROk (Some (cur_val bs)) (tl bs) else ROk None bs.
Definition p_matchb (f : N -> bool) : P bool :=
  fun bs => if f (cur_tok bs) then ROk true (tl bs) else ROk false bs.

(* Parser.CollectBytesWhileMatchesWith.  At the end of the input the Go loop stops only if the predicate rejects the EOF
   token (the scanner returns EOF for ever): otherwise it would spin, which the model reports as ROut. *)
Fixpoint p_collect (f : N -> bool) (bs : bytes) : res bytes :=
  match bs with
  | [] => if f scan_eof then ROut else ROk [] []
  | b :: r => if f (tok_of_byte b)
              then match p_collect f r with
                   | ROk l r' => ROk (b :: l) r'
                   | ROut => ROut
                   | RErr k a => RErr k a
                   end
              else ROk [] bs
  end.

(* Parser.ConsumeBytesFold *)
Fixpoint p_bytes_fold (cs : bytes) (bs : bytes) : res unit :=
  match cs with
  | [] => ROk tt bs
  | c :: cs' => if to_lower (cur_val bs) =? to_lower c then p_bytes_fold cs' (tl bs) else RErr EParse bs
  end.

(* keyword made of letters, lower-cased: CollectBytesWhileMatches(TokenTypeChar) + ToLower *)
Definition p_kw : P bytes := s <- p_collect (tok_is TT_Char) ;; ret (lower s).

(* ---- numbers *)
Definition max_int : N := 9223372036854775807.   (* math.MaxInt (int is 64 bit) *)
Definition max_uint32 : N := 4294967295.
Definition digit_val (b : N) : N := b - 48.        (* ByteToInt *)

(* the loop of ParseNumber after the first digit; `number > (MaxInt-digit)/10` -> "number is too large" *)
Fixpoint p_digits (acc : N) (bs : bytes) : res N :=
  match bs with
  | [] => if scan_eof =? TT_Digit then ROut else ROk acc []
  | b :: r => if tok_of_byte b =? TT_Digit
              then let d := digit_val b in
                   if (max_int - d) / 10 <? acc then RErr EParse r
                   else p_digits (acc * 10 + d) r
              else ROk acc bs
  end.
Definition p_number : P N := d <- p_consume (tok_is TT_Digit) ;; p_digits (digit_val d).

(* ParseNumberN n (n >= 1): first digit, then at most n-1 further digits *)
Fixpoint p_digits_n (k : nat) (acc : N) (bs : bytes) : res N :=
  match k with
  | O => ROk acc bs
  | S k' => if cur_tok bs =? TT_Digit
            then p_digits_n k' (acc * 10 + digit_val (cur_val bs)) (tl bs)
            else ROk acc bs
  end.
Definition p_number_n (n : nat) : P N :=
  match n with
  | O => fail
  | S k => d <- p_consume (tok_is TT_Digit) ;; p_digits_n k (digit_val d)
  end.

(* command.ParseNZNumber *)
Definition p_nznumber : P N := n <- p_number ;; if n =? 0 then fail else ret n.

(* ---- strings *)
(* the loop of ParseQuoted *)
Fixpoint p_quoted_loop (bs : bytes) : res bytes :=
  match bs with
  | [] => if is_quoted_char scan_eof then ROut else ROk [] []
  | b :: r =>
      if is_quoted_char (tok_of_byte b)
      then match p_quoted_loop r with ROk l r' => ROk (b :: l) r' | ROut => ROut | RErr k a => RErr k a end
      else if tok_of_byte b =? TT_Backslash
           then match r with
                | [] => if quoted_escape_ok scan_eof then ROut else RErr EParse []
                | c :: r' => if quoted_escape_ok (tok_of_byte c)
                             then match p_quoted_loop r' with
                                  | ROk l r'' => ROk (c :: l) r'' | ROut => ROut | RErr k a => RErr k a end
                             else RErr EParse r
                end
           else ROk [] bs
  end.
Definition p_quoted : P bytes :=
  p_consume (tok_is TT_DQuote) ;;; s <- p_quoted_loop ;; p_consume (tok_is TT_DQuote) ;;; ret s.

(* Scanner.ConsumeBytes(make([]byte, n)): dst[0] is the byte of the current token, the other n-1 bytes are read from
   the source; a short read is io.EOF (not a parser error). *)
Fixpoint take_bytes (n : N) (bs : bytes) : option (bytes * bytes) :=
  if n =? 0 then Some ([], bs)
  else match bs with
       | [] => None
       | b :: r => match take_bytes (n - 1) r with Some (l, r') => Some (b :: l, r') | None => None end
       end.
Definition p_take (n : N) : P bytes := fun bs =>
  if n =? 0
  then (if literal_zero_returns_early then ROk [] bs else RErr ECrash bs)   (* dst[0] on an empty slice *)
  else match take_bytes n bs with
       | Some (l, r) => ROk l r
       | None => match bs with
                 | [] => if n =? 1 then ROk [bLF] []      (* stale currentByte (the LF), nothing else to read *)
                         else RErr EFatal []
                 | _ => RErr EFatal []
                 end
       end.

Definition guard_kind (parser_error : bool) : ekind := if parser_error then EParse else EFatal.

(* ParseLiteral up to and including the LF: yields the announced size (what `make([]byte, literalSize)` allocates) *)
Definition p_literal_header : P N :=
  p_consume (tok_is TT_LCurly) ;;;
  n <- p_number ;;
  if n <? literal_min_size then fail_kind (guard_kind literal_min_guard_is_parser_error)
  else if literal_cap <=? n then fail_kind (guard_kind literal_cap_guard_is_parser_error)
  else p_consume (tok_is TT_RCurly) ;;; p_consume (tok_is TT_CR) ;;; p_consume (tok_is TT_LF) ;;; ret n.
Definition p_literal : P bytes := n <- p_literal_header ;; p_take n.
(* ParseLiteral invokes literalContinuationCb (the session answers "+ Ready") between the CR and the LF of the header,
   whenever the LF is there; `literal_continuation_unconditional` (read from the source) says that this does not depend on
   the announced size.  A client using a synchronising literal waits for that line before it sends the n bytes. *)
Definition lit_continuation_sent (n : N) : bool := literal_continuation_unconditional || (0 <? n).

(* ParseString / TryParseString / ParseAString *)
Definition starts_string (bs : bytes) : bool := (cur_tok bs =? TT_DQuote) || (cur_tok bs =? TT_LCurly).
Definition p_string : P bytes := fun bs =>
  if cur_tok bs =? TT_DQuote then p_quoted bs
  else if cur_tok bs =? TT_LCurly then p_literal bs
  else RErr EParse bs.
Definition p_astring : P bytes := fun bs =>
  if starts_string bs then p_string bs else p_collect is_astring_char bs.

(* ParseAtom *)
Definition p_atom : P bytes := c <- p_consume is_atom_char ;; r <- p_collect is_atom_char ;; ret (c :: r).

(* ---- keyword strings *)
Fixpoint s2b (s : string) : bytes :=
  match s with EmptyString => [] | String a r => N_of_ascii a :: s2b r end.
Definition kw_is (name : bytes) (s : string) : bool := bytes_eqb name (s2b s).

(* command.ParseMailbox: strings.EqualFold(v, "INBOX") -> "INBOX" *)
Definition p_mailbox : P bytes :=
  s <- p_astring ;; ret (if bytes_eqb (lower s) (s2b "inbox") then s2b "INBOX" else s).

(* command.ParseNString: None = NIL *)
Definition p_nstring : P (option bytes) := fun bs =>
  if starts_string bs then (s <- p_string ;; ret (Some s)) bs
  else (p_bytes_fold (s2b "NIL") ;;; ret None) bs.

(* ---- `first, then while Matches(sep) { item }` loops *)
Section Loops.
  Context {A : Type}.
  Fixpoint p_many_sep (fuel : nat) (sep : N -> bool) (item : P A) (bs : bytes) : res (list A) :=
    if sep (cur_tok bs)
    then match fuel with
         | O => ROut
         | S f => match item (tl bs) with
                  | ROk a r => match p_many_sep f sep item r with
                               | ROk l r' => ROk (a :: l) r' | ROut => ROut | RErr k e => RErr k e end
                  | ROut => ROut
                  | RErr k e => RErr k e
                  end
         end
    else ROk [] bs.
  Definition p_sep_list (fuel : nat) (sep : N -> bool) (item : P A) : P (list A) :=
    a <- item ;; l <- p_many_sep fuel sep item ;; ret (a :: l).
End Loops.

(* ---- flags (imap/command/flags.go) *)
(* ParseFlag: an optional backslash, then an atom.  "\Recent" (any letter case) is refused; the KEYWORD recent - the same
   letters without the backslash - is an ordinary flag-keyword.  `recent_rejected_only_with_backslash` (read from the
   source) says that the strings.EqualFold(flag, "recent") test sits inside `if hasBackslash`; otherwise the test is
   applied to both forms. *)
Definition p_flag : P bytes :=
  bsl <- p_matchb (tok_is TT_Backslash) ;;
  a <- p_atom ;;
  if (bsl || negb recent_rejected_only_with_backslash) && bytes_eqb (lower a) (s2b "recent") then fail
  else ret (if bsl then bBS :: a else a).
Definition p_flag_list (fuel : nat) : P (list bytes) :=
  p_consume (tok_is TT_LParen) ;;;
  fl <- (fun bs => if cur_tok bs =? TT_RParen then ROk [] bs else p_sep_list fuel (tok_is TT_SP) p_flag bs) ;;
  p_consume (tok_is TT_RParen) ;;; ret fl.

(* ---- sequence sets (imap/command/seq_set.go); 0 is command.SeqNumValueAsterisk *)
Definition seqrange := (N * N)%type.
Definition seqset := list seqrange.
Definition p_seqnum : P N :=
  st <- p_matchb (tok_is TT_Asterisk) ;;
  if st then ret 0
  else n <- p_nznumber ;; if max_uint32 <? n then fail else ret n.
Definition p_seqrange : P seqrange :=
  a <- p_seqnum ;; c <- p_matchb (tok_is TT_Colon) ;;
  if c then b <- p_seqnum ;; ret (a, b) else ret (a, a).
Definition p_seqset (fuel : nat) : P seqset := p_sep_list fuel (tok_is TT_Comma) p_seqrange.

(* ---- dates (imap/command/date_time.go) *)
Record date := mkDate { d_day : N; d_month : N; d_year : N }.
Record datetime := mkDT { dt_date : date; dt_hour : N; dt_min : N; dt_sec : N;
                          dt_zneg : bool; dt_zone : N }.   (* zone = (hh*3600+mm*60), sign separately *)

Definition month_names : list string :=
  ["jan"; "feb"; "mar"; "apr"; "may"; "jun"; "jul"; "aug"; "sep"; "oct"; "nov"; "dec"]%string.
Fixpoint month_lookup (name : bytes) (l : list string) (i : N) : option N :=
  match l with
  | [] => None
  | m :: t => if kw_is name m then Some i else month_lookup name t (i + 1)
  end.
Definition p_month : P N :=
  a <- p_consume (tok_is TT_Char) ;; b <- p_consume (tok_is TT_Char) ;; c <- p_consume (tok_is TT_Char) ;;
  match month_lookup (lower [a; b; c]) month_names 1 with Some m => ret m | None => fail end.
Definition p_date_text : P date :=
  d <- p_number_n 2 ;; p_consume (tok_is TT_Minus) ;;; m <- p_month ;; p_consume (tok_is TT_Minus) ;;;
  y <- p_number_n 4 ;; ret (mkDate d m y).
Definition p_date : P date :=
  q <- p_matchb (tok_is TT_DQuote) ;; d <- p_date_text ;;
  if q then p_consume (tok_is TT_DQuote) ;;; ret d else ret d.
Definition p_day_fixed : P N :=
  sp <- p_matchb (tok_is TT_SP) ;;
  if sp then d <- p_consume (tok_is TT_Digit) ;; ret (digit_val d) else p_number_n 2.
Definition p_time : P (N * N * N) :=
  h <- p_number_n 2 ;; p_consume (tok_is TT_Colon) ;;; m <- p_number_n 2 ;; p_consume (tok_is TT_Colon) ;;;
  s <- p_number_n 2 ;; ret (h, m, s).
Definition p_zone : P (bool * N) :=
  pl <- p_matchb (tok_is TT_Plus) ;;
  neg <- (if pl then ret false
          else mi <- p_matchb (tok_is TT_Minus) ;; if mi then ret true else fail) ;;
  zh <- p_number_n 2 ;; zm <- p_number_n 2 ;; ret (neg, zh * 3600 + zm * 60).
Definition p_date_time : P datetime :=
  p_consume (tok_is TT_DQuote) ;;;
  d <- p_day_fixed ;; p_consume (tok_is TT_Minus) ;;; m <- p_month ;; p_consume (tok_is TT_Minus) ;;;
  y <- p_number_n 4 ;; p_consume (tok_is TT_SP) ;;;
  t <- p_time ;; p_consume (tok_is TT_SP) ;;;
  z <- p_zone ;; p_consume (tok_is TT_DQuote) ;;;
  ret (mkDT (mkDate d m y) (fst (fst t)) (snd (fst t)) (snd t) (fst z) (snd z)).

(* ------------------------------------------------------------------ command AST *)
Inductive noarg := NCapability | NIdle | NNoop | NLogout | NCheck | NClose | NExpunge | NUnselect | NStartTLS.
Inductive mboxcmd := MSelect | MExamine | MCreate | MDelete | MSubscribe | MUnsubscribe.
Inductive store_action := StAdd | StRem | StSet.
Inductive status_att := SaMessages | SaRecent | SaUidNext | SaUidValidity | SaUnseen.

Inductive msgtext := MTHeader | MTHeaderFields (neg : bool) (fields : list bytes) | MTText | MTMime.
Inductive section := SecEmpty | SecMsg (m : msgtext) | SecPart (part : list N) (t : option msgtext).
Inductive fetch_att :=
| FAll | FFull | FFast | FEnvelope | FFlags | FInternalDate | FRfc822 | FRfc822Header | FRfc822Size | FRfc822Text
| FBody | FBodyStructure | FUid
| FBodySection (peek : bool) (s : section) (partial : option (N * N)).

(* search keys grouped by the shape of their argument *)
Inductive sk_flag := KAll | KAnswered | KDeleted | KFlagged | KNew | KOld | KRecent | KSeen | KUnanswered | KUndeleted
                   | KUnflagged | KUnseen | KDraft | KUndraft.
Inductive sk_str := KBcc | KBody | KCc | KFrom | KSubject | KText | KTo.
Inductive sk_date := KBefore | KOn | KSince | KSentBefore | KSentOn | KSentSince.
Inductive sk_atom := KKeyword | KUnkeyword.
Inductive sk_num := KLarger | KSmaller.
Inductive skey :=
| SKFlag (k : sk_flag)
| SKStr (k : sk_str) (s : bytes)
| SKDate (k : sk_date) (d : date)
| SKAtom (k : sk_atom) (a : bytes)
| SKNum (k : sk_num) (n : N)
| SKHeader (f v : bytes)
| SKUid (s : seqset)
| SKSeqSet (s : seqset)
| SKNot (k : skey)
| SKOr (a b : skey)
| SKList (l : list skey).

(* commands valid in the selected state, also reachable through UID *)
Inductive selcmd :=
| SCopy (move : bool) (s : seqset) (m : bytes)
| SStore (s : seqset) (a : store_action) (silent : bool) (flags : list bytes)
| SFetch (s : seqset) (atts : list fetch_att)
| SSearch (charset : bytes) (keys : list skey).

Inductive cmd :=
| CNoArg (k : noarg)
| CMbox (k : mboxcmd) (m : bytes)
| CRename (a b : bytes)
| CList (lsub : bool) (m pat : bytes)
| CLogin (u p : bytes)
| CStatus (m : bytes) (atts : list status_att)
| CAppend (m : bytes) (flags : list bytes) (dt : option datetime) (lit : bytes)
| CSel (uid : bool) (c : selcmd)
| CUidExpunge (s : seqset)
| CIdGet
| CIdSet (kv : list (bytes * bytes))
| CDone.

(* ------------------------------------------------------------------ per-command parsers *)
Definition sp : P N := p_consume (tok_is TT_SP).

(* STATUS (imap/command/status.go) *)
Definition p_status_att : P status_att :=
  k <- p_kw ;;
  if kw_is k "messages" then ret SaMessages
  else if kw_is k "recent" then ret SaRecent
  else if kw_is k "uidnext" then ret SaUidNext
  else if kw_is k "uidvalidity" then ret SaUidValidity
  else if kw_is k "unseen" then ret SaUnseen
  else fail.
Definition p_status (fuel : nat) : P cmd :=
  sp ;;; m <- p_mailbox ;; sp ;;; p_consume (tok_is TT_LParen) ;;;
  l <- p_sep_list fuel (tok_is TT_SP) p_status_att ;; p_consume (tok_is TT_RParen) ;;; ret (CStatus m l).

(* LIST / LSUB (imap/command/list.go, lsub.go) *)
Definition p_list_mailbox : P bytes := fun bs =>
  if list_mailbox_string_first && starts_string bs then p_string bs
  else (c <- p_match is_list_char ;;
        match c with
        | None => p_string
        | Some b => r <- p_collect is_list_char ;; ret (b :: r)
        end) bs.
Definition p_list (lsub : bool) : P cmd :=
  sp ;;; m <- p_mailbox ;; sp ;;; l <- p_list_mailbox ;; ret (CList lsub m l).

Definition p_login : P cmd := sp ;;; u <- p_astring ;; sp ;;; p <- p_astring ;; ret (CLogin u p).
Definition p_mbox (k : mboxcmd) : P cmd := sp ;;; m <- p_mailbox ;; ret (CMbox k m).
Definition p_rename : P cmd := sp ;;; a <- p_mailbox ;; sp ;;; b <- p_mailbox ;; ret (CRename a b).

(* COPY / MOVE *)
Definition p_copy (fuel : nat) (move : bool) : P selcmd :=
  sp ;;; s <- p_seqset fuel ;; sp ;;; m <- p_mailbox ;; ret (SCopy move s m).

(* STORE (imap/command/store.go) *)
Definition p_store_flags (fuel : nat) : P (list bytes) := fun bs =>
  if cur_tok bs =? TT_LParen then p_flag_list fuel bs else p_sep_list fuel (tok_is TT_SP) p_flag bs.
Definition p_store (fuel : nat) : P selcmd :=
  sp ;;; s <- p_seqset fuel ;; sp ;;;
  pl <- p_matchb (tok_is TT_Plus) ;;
  a <- (if pl then ret StAdd else mi <- p_matchb (tok_is TT_Minus) ;; ret (if mi then StRem else StSet)) ;;
  p_bytes_fold (s2b "FLAGS") ;;;
  dot <- p_matchb (tok_is TT_Period) ;;
  silent <- (if dot then p_bytes_fold (s2b "SILENT") ;;; ret true else ret false) ;;
  sp ;;; fl <- p_store_flags fuel ;; ret (SStore s a silent fl).

(* FETCH (imap/command/fetch.go) *)
Definition p_header_list (fuel : nat) : P (list bytes) :=
  p_consume (tok_is TT_LParen) ;;; l <- p_sep_list fuel (tok_is TT_SP) p_astring ;;
  p_consume (tok_is TT_RParen) ;;; ret l.
(* parseHeaderFieldsSectionMessageText *)
Definition p_header_fields (fuel : nat) : P msgtext :=
  t <- p_kw ;;
  if negb (kw_is t "fields") then fail
  else dot <- p_matchb (tok_is TT_Period) ;;
       neg <- (if dot then t2 <- p_kw ;; if kw_is t2 "not" then ret true else fail else ret false) ;;
       sp ;;; l <- p_header_list fuel ;; ret (MTHeaderFields neg l).
(* handleSectionMessageText *)
Definition p_handle_msgtext (fuel : nat) (t : bytes) : P msgtext :=
  if kw_is t "header"
  then dot <- p_matchb (tok_is TT_Period) ;; if dot then p_header_fields fuel else ret MTHeader
  else if kw_is t "text" then ret MTText
  else fail.
(* parseSectionText: section-msgtext / "MIME" *)
Definition p_section_text (fuel : nat) : P msgtext :=
  t <- p_kw ;; if kw_is t "mime" then ret MTMime else p_handle_msgtext fuel t.
(* parseSectionPart: nz-number *("." nz-number); a trailing "." before section-text is consumed here *)
Fixpoint p_section_part_loop (fuel : nat) (bs : bytes) : res (list N) :=
  if cur_tok bs =? TT_Period
  then let r := tl bs in
       if cur_tok r =? TT_Digit
       then match fuel with
            | O => ROut
            | S f => match p_nznumber r with
                     | ROk n r' => match p_section_part_loop f r' with
                                   | ROk l r'' => ROk (n :: l) r'' | ROut => ROut | RErr k e => RErr k e end
                     | ROut => ROut
                     | RErr k e => RErr k e
                     end
            end
       else ROk [] r
  else ROk [] bs.
Definition p_section_part (fuel : nat) : P (list N) :=
  n <- p_nznumber ;; l <- p_section_part_loop fuel ;; ret (n :: l).
(* parseSectionSpec *)
Definition p_section_spec (fuel : nat) : P section := fun bs =>
  if cur_tok bs =? TT_Digit
  then (part <- p_section_part fuel ;;
        ch <- p_check (tok_is TT_Char) ;;
        if ch then t <- p_section_text fuel ;; ret (SecPart part (Some t)) else ret (SecPart part None)) bs
  else (t <- p_kw ;; m <- p_handle_msgtext fuel t ;; ret (SecMsg m)) bs.
(* handleBodyFetchAttribute *)
Definition p_body_att (fuel : nat) : P fetch_att := fun bs =>
  if negb (cur_tok bs =? TT_LBracket) && negb (cur_tok bs =? TT_Period) then ROk FBody bs
  else (dot <- p_matchb (tok_is TT_Period) ;;
        peek <- (if dot then p_bytes_fold (s2b "PEEK") ;;; ret true else ret false) ;;
        p_consume (tok_is TT_LBracket) ;;;
        sec <- (fun bs' => if cur_tok bs' =? TT_RBracket then ROk SecEmpty bs' else p_section_spec fuel bs') ;;
        p_consume (tok_is TT_RBracket) ;;;
        lt <- p_matchb (tok_is TT_Less) ;;
        if lt
        then o <- p_number ;; p_consume (tok_is TT_Period) ;;; c <- p_nznumber ;;
             p_consume (tok_is TT_Greater) ;;; ret (FBodySection peek sec (Some (o, c)))
        else ret (FBodySection peek sec None)) bs.
(* handleRFC822FetchAttribute *)
Definition p_rfc822_att : P fetch_att :=
  p_bytes_fold (s2b "822") ;;;
  dot <- p_matchb (tok_is TT_Period) ;;
  if dot
  then k <- p_kw ;;
       if kw_is k "header" then ret FRfc822Header
       else if kw_is k "size" then ret FRfc822Size
       else if kw_is k "text" then ret FRfc822Text
       else fail
  else ret FRfc822.
(* handleFetchAttribute *)
Definition p_handle_fetch_att (fuel : nat) (k : bytes) : P fetch_att :=
  if kw_is k "envelope" then ret FEnvelope
  else if kw_is k "flags" then ret FFlags
  else if kw_is k "internaldate" then ret FInternalDate
  else if kw_is k "bodystructure" then ret FBodyStructure
  else if kw_is k "uid" then ret FUid
  else if kw_is k "rfc" then p_rfc822_att
  else if kw_is k "body" then p_body_att fuel
  else fail.
Definition p_fetch_att (fuel : nat) : P fetch_att := k <- p_kw ;; p_handle_fetch_att fuel k.
Definition p_fetch (fuel : nat) : P selcmd :=
  sp ;;; s <- p_seqset fuel ;; sp ;;;
  atts <- (fun bs =>
             if cur_tok bs =? TT_LParen
             then (p_consume (tok_is TT_LParen) ;;; l <- p_sep_list fuel (tok_is TT_SP) (p_fetch_att fuel) ;;
                   p_consume (tok_is TT_RParen) ;;; ret l) bs
             else (k <- p_kw ;;
                   if kw_is k "all" then ret [FAll]
                   else if kw_is k "full" then ret [FFull]
                   else if kw_is k "fast" then ret [FFast]
                   else a <- p_handle_fetch_att fuel k ;; ret [a]) bs) ;;
  ret (SFetch s atts).

(* SEARCH (imap/command/search.go) *)
Definition sk_flag_of (k : bytes) : option sk_flag :=
  if kw_is k "all" then Some KAll else if kw_is k "answered" then Some KAnswered
  else if kw_is k "deleted" then Some KDeleted else if kw_is k "flagged" then Some KFlagged
  else if kw_is k "new" then Some KNew else if kw_is k "old" then Some KOld
  else if kw_is k "recent" then Some KRecent else if kw_is k "seen" then Some KSeen
  else if kw_is k "unanswered" then Some KUnanswered else if kw_is k "undeleted" then Some KUndeleted
  else if kw_is k "unflagged" then Some KUnflagged else if kw_is k "unseen" then Some KUnseen
  else if kw_is k "draft" then Some KDraft else if kw_is k "undraft" then Some KUndraft else None.
Definition sk_str_of (k : bytes) : option sk_str :=
  if kw_is k "bcc" then Some KBcc else if kw_is k "body" then Some KBody else if kw_is k "cc" then Some KCc
  else if kw_is k "from" then Some KFrom else if kw_is k "subject" then Some KSubject
  else if kw_is k "text" then Some KText else if kw_is k "to" then Some KTo else None.
Definition sk_date_of (k : bytes) : option sk_date :=
  if kw_is k "before" then Some KBefore else if kw_is k "on" then Some KOn else if kw_is k "since" then Some KSince
  else if kw_is k "sentbefore" then Some KSentBefore else if kw_is k "senton" then Some KSentOn
  else if kw_is k "sentsince" then Some KSentSince else None.
Definition sk_atom_of (k : bytes) : option sk_atom :=
  if kw_is k "keyword" then Some KKeyword else if kw_is k "unkeyword" then Some KUnkeyword else None.
Definition sk_num_of (k : bytes) : option sk_num :=
  if kw_is k "larger" then Some KLarger else if kw_is k "smaller" then Some KSmaller else None.

(* handleSearchKey, with the recursive calls of parseSearchKey abstracted as `self` *)
Definition p_handle_search_key (self : P skey) (gf : nat) (k : bytes) : P skey :=
  match sk_flag_of k with Some f => ret (SKFlag f) | None =>
  match sk_str_of k with Some f => sp ;;; s <- p_astring ;; ret (SKStr f s) | None =>
  match sk_date_of k with Some f => sp ;;; d <- p_date ;; ret (SKDate f d) | None =>
  match sk_atom_of k with Some f => sp ;;; a <- p_atom ;; ret (SKAtom f a) | None =>
  match sk_num_of k with Some f => sp ;;; n <- p_number ;; ret (SKNum f n) | None =>
  if kw_is k "header" then sp ;;; f <- p_astring ;; sp ;;; v <- p_astring ;; ret (SKHeader f v)
  else if kw_is k "not" then sp ;;; x <- self ;; ret (SKNot x)
  else if kw_is k "or" then sp ;;; a <- self ;; sp ;;; b <- self ;; ret (SKOr a b)
  else if kw_is k "uid" then sp ;;; s <- p_seqset gf ;; ret (SKUid s)
  else fail
  end end end end end.
(* parseSearchKey / parseSearchKeyList: gf = fuel of the inner loops, the second argument bounds the recursion *)
Fixpoint p_search_key (gf : nat) (depth : nat) : P skey :=
  match depth with
  | O => fun _ => ROut
  | S d => fun bs =>
      let self := p_search_key gf d in
      if cur_tok bs =? TT_LParen
      then (p_consume (tok_is TT_LParen) ;;; l <- p_sep_list gf (tok_is TT_SP) self ;;
            p_consume (tok_is TT_RParen) ;;; ret (SKList l)) bs
      else if (cur_tok bs =? TT_Digit) || (cur_tok bs =? TT_Asterisk)
           then (s <- p_seqset gf ;; ret (SKSeqSet s)) bs
           else (k <- p_kw ;; p_handle_search_key self gf k) bs
  end.
Definition p_search (fuel : nat) : P selcmd :=
  let key := p_search_key fuel fuel in
  sp ;;;
  c <- p_match (tok_is TT_Char) ;;
  ck <- (match c with
         | Some ch =>
             if to_lower ch =? 99 (* 'c' *)
             then (fun bs =>
                     if to_lower (cur_val bs) =? 99
                     then (p_consume (tok_is TT_Char) ;;; k <- p_handle_search_key key fuel (s2b "cc") ;;
                           ret ([], [k])) bs
                     else (p_bytes_fold (s2b "HARSET") ;;; sp ;;; e <- p_astring ;; ret (e, [])) bs)
             else r <- p_collect (tok_is TT_Char) ;; k <- p_handle_search_key key fuel (lower (ch :: r)) ;;
                  ret ([], [k])
         | None => k <- key ;; ret ([], [k])
         end) ;;
  rest <- p_many_sep fuel (tok_is TT_SP) key ;;
  match snd ck ++ rest with
  | [] => fail
  | keys => ret (SSearch (fst ck) keys)
  end.

(* APPEND (imap/command/append.go) *)
Definition p_append (fuel : nat) : P cmd :=
  sp ;;; m <- p_mailbox ;; sp ;;;
  fl <- (fun bs => if cur_tok bs =? TT_LParen then (l <- p_flag_list fuel ;; sp ;;; ret l) bs else ROk [] bs) ;;
  dt <- (fun bs => if cur_tok bs =? TT_LCurly then ROk None bs
                   else (d <- p_date_time ;; sp ;;; ret (Some d)) bs) ;;
  lit <- p_literal ;; ret (CAppend m fl dt lit).

(* ID (imap/command/id.go): the Go code stores the pairs in a map *)
Fixpoint p_id_params (fuel : nat) (bs : bytes) : res (list (bytes * bytes)) :=
  if starts_string bs
  then match fuel with
       | O => ROut
       | S f =>
           match (k <- p_string ;; sp ;;; v <- p_nstring ;;
                  rp <- p_check (tok_is TT_RParen) ;;
                  (if rp then ret tt else sp ;;; ret tt) ;;;
                  ret (k, match v with Some s => s | None => [] end)) bs with
           | ROk kv r => match p_id_params f r with
                         | ROk l r' => ROk (kv :: l) r' | ROut => ROut | RErr k e => RErr k e end
           | ROut => ROut
           | RErr k e => RErr k e
           end
       end
  else ROk [] bs.
Definition p_id (fuel : nat) : P cmd :=
  sp ;;;
  (fun bs => if cur_tok bs =? TT_Char then (p_bytes_fold (s2b "NIL") ;;; ret CIdGet) bs
             else (p_consume (tok_is TT_LParen) ;;; l <- p_id_params fuel ;;
                   p_consume (tok_is TT_RParen) ;;; ret (CIdSet l)) bs).

(* UID (imap/command/uid.go) *)
Definition p_uid (fuel : nat) : P cmd :=
  sp ;;; k <- p_kw ;;
  if kw_is k "expunge" then sp ;;; s <- p_seqset fuel ;; ret (CUidExpunge s)
  else if kw_is k "copy" then c <- p_copy fuel false ;; ret (CSel true c)
  else if kw_is k "move" then c <- p_copy fuel true ;; ret (CSel true c)
  else if kw_is k "fetch" then c <- p_fetch fuel ;; ret (CSel true c)
  else if kw_is k "search" then c <- p_search fuel ;; ret (CSel true c)
  else if kw_is k "store" then c <- p_store fuel ;; ret (CSel true c)
  else fail.

(* command.Parser.parseCommand: keyword -> Builder.FromParser *)
Definition p_payload (fuel : nat) (k : bytes) : P cmd :=
  if kw_is k "list" then p_list false
  else if kw_is k "lsub" then p_list true
  else if kw_is k "append" then p_append fuel
  else if kw_is k "search" then c <- p_search fuel ;; ret (CSel false c)
  else if kw_is k "fetch" then c <- p_fetch fuel ;; ret (CSel false c)
  else if kw_is k "store" then c <- p_store fuel ;; ret (CSel false c)
  else if kw_is k "copy" then c <- p_copy fuel false ;; ret (CSel false c)
  else if kw_is k "move" then c <- p_copy fuel true ;; ret (CSel false c)
  else if kw_is k "uid" then p_uid fuel
  else if kw_is k "capability" then ret (CNoArg NCapability)
  else if kw_is k "idle" then ret (CNoArg NIdle)
  else if kw_is k "noop" then ret (CNoArg NNoop)
  else if kw_is k "logout" then ret (CNoArg NLogout)
  else if kw_is k "check" then ret (CNoArg NCheck)
  else if kw_is k "close" then ret (CNoArg NClose)
  else if kw_is k "expunge" then ret (CNoArg NExpunge)
  else if kw_is k "unselect" then ret (CNoArg NUnselect)
  else if kw_is k "starttls" then ret (CNoArg NStartTLS)
  else if kw_is k "status" then p_status fuel
  else if kw_is k "select" then p_mbox MSelect
  else if kw_is k "examine" then p_mbox MExamine
  else if kw_is k "create" then p_mbox MCreate
  else if kw_is k "delete" then p_mbox MDelete
  else if kw_is k "subscribe" then p_mbox MSubscribe
  else if kw_is k "unsubscribe" then p_mbox MUnsubscribe
  else if kw_is k "rename" then p_rename
  else if kw_is k "login" then p_login
  else if kw_is k "id" then p_id fuel
  else fail.

(* the keywords the model dispatches on (compared with the generated key sets of the Go maps in Props) *)
Definition model_command_keywords : list string :=
  ["append"; "capability"; "check"; "close"; "copy"; "create"; "delete"; "examine"; "expunge"; "fetch"; "id"; "idle";
   "list"; "login"; "logout"; "lsub"; "move"; "noop"; "rename"; "search"; "select"; "starttls"; "status"; "store";
   "subscribe"; "uid"; "unselect"; "unsubscribe"]%string.
Definition model_uid_keywords : list string := ["copy"; "fetch"; "move"; "search"; "store"]%string.

(* parseTag *)
Definition p_tag : P bytes := c <- p_consume is_tag_char ;; r <- p_collect is_tag_char ;; ret (c :: r).

(* ------------------------------------------------------------------ command.Parser.Parse
   The stream handed to parse_command starts right after the LF that ended the previous command (Parse begins with
   Advance).  On success the LF has been looked at (it is the current token), so the remaining stream starts after it.
   The tag reported with an error is Command.Tag of the value returned next to the error. *)
Inductive pres :=
| POut
| PErr (tag : bytes) (k : ekind) (at_ : bytes)
| POk (tag : bytes) (c : cmd) (rest : bytes).

Definition parse_command (fuel : nat) (bs : bytes) : pres :=
  match p_tag bs with
  | ROut => POut
  | RErr k a => PErr [] k a
  | ROk tag r1 =>
      let body : res (bytes * cmd) :=
        if bytes_eqb (lower tag) (s2b "done") then ROk ([], CDone) r1
        else match (sp ;;; k <- p_kw ;; p_payload fuel k) r1 with
             | ROk c r => ROk (tag, c) r
             | ROut => ROut
             | RErr k a => RErr k a
             end in
      match body with
      | ROut => POut
      | RErr k a => PErr tag k a      (* `return result, err` with result.Tag = tag *)
      | ROk (t, c) r2 =>
          let etag := if parse_trailing_error_keeps_tag then t else [] in
          match p_consume (tok_is TT_CR) r2 with
          | ROk _ r3 => if cur_tok r3 =? TT_LF then POk t c (tl r3) else PErr etag EParse r3
          | RErr k a => PErr etag k a
          | ROut => POut
          end
      end
  end.
