(* C12/C13 — the section tree: index ranges into the one literal.
   Impl model of: rfc822/parser.go Parse, parse, Section.{Header,Body,Literal,Children,load,Part} and
   internal/state/mailbox_fetch.go fetchBodySection (which bytes a section specifier selects).
   Section.Part follows the code AFTER notes/C13-fix-3.diff.
   The media type of a section is decided by mime.ParseMediaType on the Content-Type field: an external function,
   here the Section variable [ctype_of] (header bytes -> classification); the correspondence run feeds it with the
   answers the real function gave.
   No proofs in this file. *)
From Coq Require Import List NArith Bool Arith.
From Gluon Require Import Base.DecBytes Model.Rfc822Split Model.Rfc822Header.
Import ListNotations.

Inductive ctype := CtOther | CtMessage | CtMultipart (boundary : bytes).

(* A section of [lit]: header = lit[sh:sb], body = lit[sb:se].  For the children of an embedded message the Go code
   re-bases the literal to the body of the message/rfc822 part; [base] is the offset of that literal inside the
   outermost one, so that all ranges here are absolute. *)
Record sect := mkSect { s_h : nat; s_b : nat; s_e : nat }.

Definition sect_header (lit : bytes) (s : sect) : bytes := slice lit (s_h s) (s_b s).
Definition sect_body (lit : bytes) (s : sect) : bytes := slice lit (s_b s) (s_e s).
Definition sect_literal (lit : bytes) (s : sect) : bytes := slice lit (s_h s) (s_e s).

(* parse(literal, identifier, begin, end): header, _ := Split(literal[begin:end]); a header that does not parse is
   dropped (the whole range becomes body) *)
Definition parse_sect (lit : bytes) (b e : nat) : sect :=
  let hdr := split_header (slice lit b e) in
  match new_header hdr with
  | HOk _ => mkSect b (b + length hdr) e
  | _ => mkSect b b e
  end.

Inductive stree := SNode (s : sect) (children : list stree).
Inductive tres := TOk (t : list stree) | TCrash | TFuel.

(* one child section per scanned part: parse(literal, ..., body+Offset, body+Offset+len(Data)), then its own children *)
Definition build_children (rec : sect -> tres) (lit : bytes) (body : nat) : list (nat * nat) -> tres :=
  fix build (ps : list (nat * nat)) : tres :=
    match ps with
    | [] => TOk []
    | (off, n) :: ps' =>
      let c := parse_sect lit (body + off) (body + off + n) in
      match rec c, build ps' with
      | TOk cc, TOk rest => TOk (SNode c cc :: rest)
      | TCrash, _ => TCrash
      | _, TCrash => TCrash
      | _, _ => TFuel
      end
    end.

Section WithCType.
  Variable ctype_of : bytes -> ctype.

  (* children of a section (Section.load); fuel bounds the nesting depth *)
  Fixpoint children_of (fuel : nat) (lit : bytes) (s : sect) : tres :=
    match fuel with
    | 0 => TFuel
    | S f =>
      match ctype_of (sect_header lit s) with
      | CtOther => TOk []
      | CtMessage =>
        (* child := parse(literal[body:end], ..., 0, end-body); child.load(); children = child.children *)
        children_of f lit (parse_sect lit (s_b s) (s_e s))
      | CtMultipart boundary =>
        match scan_parts (sect_body lit s) boundary with
        | SCrash => TCrash
        | SFuel => TFuel
        | SParts parts => build_children (children_of f lit) lit (s_b s) parts
        end
      end
    end.

  Definition root_sect (lit : bytes) : sect := parse_sect lit 0 (length lit).

  (* the whole tree; None = out of fuel / crash *)
  Definition section_tree (lit : bytes) : tres :=
    match children_of (S (length lit)) lit (root_sect lit) with
    | TOk cc => TOk [SNode (root_sect lit) cc]
    | r => r
    end.

  (* direct children only (what Section.Children returns), one level of fuel semantics as above *)
  Definition direct_children (fuel : nat) (lit : bytes) (s : sect) : option (list sect) :=
    match children_of fuel lit s with
    | TOk cc => Some (map (fun t => match t with SNode c _ => c end) cc)
    | _ => None
    end.

  (* Section.Part(identifier...) ; None = ErrNoSuchPart / "invalid part index" *)
  Fixpoint part_of (lit : bytes) (s : sect) (path : list nat) : option sect :=
    match path with
    | [] => Some s
    | n :: rest =>
      match direct_children (S (length lit)) lit s with
      | None => None
      | Some cs =>
        if (n =? 0) || (length cs <? n - 1) then None
        else match cs with
             | _ :: _ => match nth_error cs (n - 1) with
                         | Some c => part_of lit c rest
                         | None => None
                         end
             | [] =>
               match ctype_of (sect_header lit s) with
               | CtMessage => part_of lit (parse_sect lit (s_b s) (s_e s)) rest
               | _ => Some s
               end
             end
      end
    end.

  (* handleEmbeddedParts *)
  Definition embedded (lit : bytes) (s : sect) : sect :=
    match ctype_of (sect_header lit s) with
    | CtMessage => parse_sect lit (s_b s) (s_e s)
    | _ => s
    end.

  Inductive spec := SpAll | SpBody | SpMime | SpHeader | SpText | SpFields (neg : bool) (fields : list bytes).

  (* fetchBodyLiteral/fetchBodySection: the bytes selected by BODY[path.spec]; SpAll with an empty path is BODY[] *)
  Definition fetch_section (lit : bytes) (path : list nat) (sp : spec) : option bytes :=
    match path, sp with
    | [], SpAll => Some lit
    | _, _ =>
      (* a message whose own type is message/rfc822 and whose embedded message is not a multipart has the single part 1,
         its own body; the numbers below it are resolved in the embedded message (C13-fix-5) *)
      let root := root_sect lit in
      let target :=
        match path, ctype_of (sect_header lit root), direct_children (S (length lit)) lit root with
        | n :: rest, CtMessage, Some [] => if n =? 1 then part_of lit root rest else None
        | _, _, _ => part_of lit root path
        end in
      match target with
      | None => None
      | Some r =>
        (* HEADER / TEXT / HEADER.FIELDS of a part addressed by number: of the message it embeds if it is message/rfc822;
           without part number: of the message itself (code after notes/C13-fix-4.diff) *)
        let m := match path with [] => r | _ :: _ => embedded lit r end in
        match sp with
        | SpAll | SpBody => Some (sect_body lit r)
        | SpMime => Some (sect_header lit r)
        | SpHeader => Some (sect_header lit m)
        | SpText => Some (sect_body lit m)
        | SpFields neg fields => header_fields neg (sect_header lit m) fields
        end
      end
    end.
End WithCType.
