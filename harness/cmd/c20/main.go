// Harness for C20: a message handed to APPEND is never silently lost. The scriptable connector fails
// CreateMessage / AddMessagesToMailbox / RemoveMessagesFromMailbox / MoveMessages on a schedule across histories of
// APPEND, COPY and MOVE (including repeated APPENDs of the same bytes and of near-duplicates); the oracle evaluates the
// clauses of the property on the bytes found in the mailboxes.
package main

import (
	"fmt"
	"os"
	"path/filepath"
	"regexp"
	"strconv"
	"strings"

	"verifharness/common"
	"verifharness/mstore"
)

func main() { common.Main("C20", runC20) }

// canonical rendering of the recorded finding D17 (the recovery mailbox deduplicates by rfc822.GetMessageHash)
const canonD17 = "append-rejected-not-recovered: bytes equal to an already recovered message modulo headers outside the hashed set (Date, Message-Id, X-*)"

type violation struct {
	Kind   string
	Detail string
	D17    bool
}

type c20Case struct {
	ID    int         `json:"id"`
	Ops   []mstore.Op `json:"ops"`
	Dedup bool        `json:"dedup_remote,omitempty"` // the scripted remote de-duplicates
}

const (
	nclasses    = 4
	nvariants   = 3
	nunhashable = 2 // literals nclasses*nvariants .. +1: rfc822.GetMessageHash fails for them
)

func newLits() *mstore.Literals {
	l := &mstore.Literals{}
	for v := 0; v < nvariants; v++ {
		for c := 0; c < nclasses; c++ {
			l.Add(c, v)
		}
	}
	for k := 0; k < nunhashable; k++ {
		l.AddUnhashable(k)
	}
	// literals nclasses*nvariants+nunhashable ..: one multipart message and variants that differ in exactly one hashed
	// item (own class each) or only in Date / Message-Id / X- header (class of the base message)
	family, _ = l.AddHashFamily(20)
	// one single-part text message under every Content-Transfer-Encoding with two different (decoded) bodies, and the
	// same message with its six Content-Type parameters in other orders
	encPairs, reordered = l.AddEncodingFamily(40, 41)
	return l
}

var family []int
var encPairs [][2]int
var reordered []int

// litLegend says what the literals of the transfer-encoding family are that occur in ops.
func litLegend(ops []mstore.Op) string {
	var out []string
	done := map[int]bool{}
	for _, o := range ops {
		if o.Kind != "append" || done[o.Lit] {
			continue
		}
		done[o.Lit] = true
		for e, p := range encPairs {
			for k, l := range p {
				if l == o.Lit {
					out = append(out, fmt.Sprintf("L%d = text/plain with six Content-Type parameters, Content-Transfer-Encoding %s, body %s", l, mstore.EncodingNames[e], []string{"A", "B"}[k]))
				}
			}
		}
		for _, l := range reordered {
			if l == o.Lit {
				out = append(out, fmt.Sprintf("L%d = text/plain with six Content-Type parameters (not in alphabetical order), 7bit, body A", l))
			}
		}
	}
	if len(out) == 0 {
		return ""
	}
	return " | " + strings.Join(out, "; ")
}

func isRecov(n string) bool { return strings.EqualFold(n, mstore.RecoveryName) }

func targetsRecovery(o mstore.Op) bool {
	switch o.Kind {
	case "append", "delete":
		return isRecov(o.Name)
	case "create":
		return strings.HasPrefix(strings.ToLower(o.Name), strings.ToLower(mstore.RecoveryName))
	case "rename":
		return isRecov(o.Name) || isRecov(o.Name2)
	case "copy", "move":
		return isRecov(o.Name2)
	}
	return false
}

func countLit(m *mstore.MboxDump, lit int) int {
	n := 0
	if m != nil {
		for _, r := range m.Rows {
			if r.Lit == lit {
				n++
			}
		}
	}
	return n
}

func sameRows(a, b *mstore.MboxDump) bool {
	if a == nil || b == nil || len(a.Rows) != len(b.Rows) || a.UIDNext != b.UIDNext || a.UIDV != b.UIDV {
		return false
	}
	for i := range a.Rows {
		if a.Rows[i].UID != b.Rows[i].UID || a.Rows[i].Lit != b.Rows[i].Lit {
			return false
		}
	}
	return true
}

func observe(lits *mstore.Literals, o mstore.Op, ob mstore.Obs, before, after mstore.Dump, dedup bool) []violation {
	var vs []violation
	rb, ra := before.Get(mstore.RecoveryName), after.Get(mstore.RecoveryName)
	if ra == nil {
		return []violation{{Kind: "recovery-mailbox-missing", Detail: "STATUS of the recovery mailbox failed"}}
	}
	if ob.Class == "other" {
		vs = append(vs, violation{Kind: "unexpected-response", Detail: o.String() + ": " + ob.Text})
	}
	// every message found anywhere must be one of the literals handed in (byte-exact)
	for _, m := range after.Mboxes {
		for _, r := range m.Rows {
			if r.Lit < 0 {
				vs = append(vs, violation{Kind: "bytes-altered", Detail: fmt.Sprintf("%q UID %d holds bytes that were never appended", m.Name, r.UID)})
			}
		}
	}
	// listed exactly while non-empty
	if after.Listed != (ra.Count > 0) {
		vs = append(vs, violation{Kind: "recovery-listing", Detail: fmt.Sprintf("listed=%v with %d messages", after.Listed, ra.Count)})
	}
	// once per distinct message
	seen := map[int]bool{}
	for _, r := range ra.Rows {
		if seen[r.Lit] {
			vs = append(vs, violation{Kind: "recovered-twice", Detail: fmt.Sprintf("literal %d is in the recovery mailbox more than once", r.Lit)})
		}
		seen[r.Lit] = true
	}
	// protected against client commands
	if targetsRecovery(o) {
		if ob.Class == "ok" {
			vs = append(vs, violation{Kind: "recovery-not-protected", Detail: o.String() + " answered OK"})
		}
		if !sameRows(rb, ra) {
			vs = append(vs, violation{Kind: "recovery-not-protected", Detail: o.String() + " changed the recovery mailbox"})
		}
		return vs
	}
	switch o.Kind {
	case "append":
		tgtBefore := before.Get(o.Name)
		if ob.Class == "ok" {
			m := after.Get(o.Name)
			ok := false
			if m != nil && len(ob.Pairs) == 1 {
				for _, r := range m.Rows {
					if r.UID == ob.Pairs[0][1] && r.Lit == o.Lit {
						ok = true
					}
				}
			}
			if !ok {
				vs = append(vs, violation{Kind: "ok-but-not-present", Detail: fmt.Sprintf("%s answered OK %v but the bytes are not under that UID", o, ob.Pairs)})
			}
		}
		if ob.StoreFailed {
			// local storage fault while keeping the recovery copy: the client must not be told OK, nothing half-done may stay
			if ob.Class == "ok" {
				vs = append(vs, violation{Kind: "rejected-but-ok", Detail: o.String()})
			}
			if !sameRows(rb, ra) {
				vs = append(vs, violation{Kind: "failed-recovery-left-a-trace", Detail: o.String() + " changed the recovery mailbox although the copy could not be stored"})
			}
			break
		}
		if o.Remote == "fail" && tgtBefore != nil {
			if ob.Class == "ok" {
				vs = append(vs, violation{Kind: "rejected-but-ok", Detail: o.String()})
			}
			if n := countLit(ra, o.Lit); n != 1 {
				v := violation{Kind: "append-rejected-not-recovered", Detail: fmt.Sprintf("%s: remote rejected, the bytes are in the recovery mailbox %d times (answer: %s %s)", o, n, ob.Class, ob.Text)}
				if n == 0 {
					for _, r := range ra.Rows {
						if r.Lit >= 0 && r.Lit != o.Lit && lits.Class[o.Lit] >= 0 && lits.Class[r.Lit] == lits.Class[o.Lit] {
							v.D17 = true
						}
					}
				}
				vs = append(vs, v)
			}
		}
	case "copy", "move":
		if isRecov(o.Name) && o.CreateOK && o.LabelOK && before.Get(o.Name2) != nil {
			sel := []mstore.Row{}
			for _, r := range rb.Rows {
				for _, u := range o.UIDs {
					if r.UID == u {
						sel = append(sel, r)
					}
				}
			}
			if ob.Class != "ok" {
				vs = append(vs, violation{Kind: "cannot-move-out-of-recovery", Detail: fmt.Sprintf("%s answered %s %s", o, ob.Class, ob.Text)})
				break
			}
			dst := after.Get(o.Name2)
			if dedup {
				// a de-duplicating remote may name messages that exist already: whatever it names, the bytes of every selected
				// message must be in the destination afterwards
				for _, s := range sel {
					if countLit(dst, s.Lit) == 0 {
						vs = append(vs, violation{Kind: "moved-out-not-present", Detail: fmt.Sprintf("%s (de-duplicating remote): the bytes of recovery UID %d are not in %q", o, s.UID, o.Name2)})
					}
				}
			} else {
				if len(ob.Pairs) != len(sel) {
					vs = append(vs, violation{Kind: "moved-out-partially", Detail: fmt.Sprintf("%s: %d selected, announced %v", o, len(sel), ob.Pairs)})
				}
				for i, p := range ob.Pairs {
					ok := false
					for _, r := range dst.Rows {
						if i < len(sel) && r.UID == p[1] && r.Lit == sel[i].Lit {
							ok = true
						}
					}
					if !ok {
						vs = append(vs, violation{Kind: "moved-out-not-present", Detail: fmt.Sprintf("%s: pair %v: bytes not found in %q", o, p, o.Name2)})
					}
				}
			}
			if o.Kind == "move" {
				for _, s := range sel {
					for _, r := range ra.Rows {
						if r.UID == s.UID {
							vs = append(vs, violation{Kind: "moved-out-still-there", Detail: fmt.Sprintf("%s: UID %d still in the recovery mailbox", o, s.UID)})
						}
					}
				}
			}
		}
	}
	return vs
}

var boxes = []string{"INBOX", "x", "y"}

func genOp(rng *common.Rng, d mstore.Dump, nlits int) mstore.Op {
	var normal []string
	for _, m := range d.Mboxes {
		if m.Name != mstore.RecoveryName {
			normal = append(normal, m.Name)
		}
	}
	rec := d.Get(mstore.RecoveryName)
	pick := func(xs []string) string { return xs[rng.Pick(len(xs))] }
	uids := func(m *mstore.MboxDump) []int {
		var u []int
		for _, r := range m.Rows {
			if rng.Chance(0.5) {
				u = append(u, r.UID)
			}
		}
		if len(u) == 0 {
			u = []int{m.Rows[rng.Pick(len(m.Rows))].UID}
		}
		return u
	}
	// literal: small set of classes so that repeats and near-duplicates are frequent
	lit := func() int {
		l := rng.Pick(2)
		if rng.Chance(0.2) {
			l += 2
		}
		if rng.Chance(0.2) {
			l += nclasses * rng.Range(1, nvariants-1) // a near-duplicate
		}
		if rng.Chance(0.18) {
			l = nclasses*nvariants + rng.Pick(nunhashable) // un-hashable
		}
		if rng.Chance(0.12) {
			l = family[rng.Pick(len(family))] // differs from its siblings in exactly one item
		}
		if rng.Chance(0.12) {
			// the same message under another transfer encoding / with another body; identity encodings other than 7bit/8bit
			// most of the time
			e := rng.Pick(len(encPairs))
			if rng.Chance(0.5) {
				e = rng.Pick(2)
			}
			l = encPairs[e][rng.Pick(2)]
		}
		return l
	}
	allUIDs := func(m *mstore.MboxDump) []int {
		var u []int
		for _, r := range m.Rows {
			u = append(u, r.UID)
		}
		return u
	}
	for {
		switch x := rng.Pick(100); {
		case x < 40:
			rem := "fail"
			if rng.Chance(0.3) {
				rem = "ok"
			} else if rng.Chance(0.1) {
				rem = "size"
			}
			l := lit()
			if l >= nlits {
				l = nlits - 1
			}
			fl := ""
			if rng.Chance(0.3) {
				fl = []string{`\Deleted`, `\Seen \Deleted`, `\Seen`, `\Deleted \Flagged`, `\Flagged \Seen`}[rng.Pick(5)]
			}
			return mstore.Op{Kind: "append", Name: pick(normal), Lit: l, Flags: fl, Remote: rem, Sess: rng.Pick(2)}
		case x < 60:
			if rec == nil || len(rec.Rows) == 0 {
				continue
			}
			kind := "move"
			if rng.Chance(0.4) {
				kind = "copy"
			}
			u := uids(rec)
			if rng.Chance(0.35) {
				u = allUIDs(rec)
			}
			return mstore.Op{Kind: kind, Name: mstore.RecoveryName, UIDs: u, Name2: pick(normal), CreateOK: !rng.Chance(0.2), LabelOK: !rng.Chance(0.3), Sess: rng.Pick(2)}
		case x < 66:
			if rec == nil || len(rec.Rows) == 0 {
				continue
			}
			u := uids(rec)
			if rng.Chance(0.5) {
				u = allUIDs(rec) // several recovered messages thrown away at once
			}
			return mstore.Op{Kind: "expunge", Name: mstore.RecoveryName, UIDs: u, RemoteOK: true, Sess: rng.Pick(2)}
		case x < 76:
			var with []*mstore.MboxDump
			for i := range d.Mboxes {
				if d.Mboxes[i].Name != mstore.RecoveryName && len(d.Mboxes[i].Rows) > 0 {
					with = append(with, &d.Mboxes[i])
				}
			}
			if len(with) == 0 {
				continue
			}
			m := with[rng.Pick(len(with))]
			kind := "move"
			if rng.Chance(0.5) {
				kind = "copy"
			}
			return mstore.Op{Kind: kind, Name: m.Name, UIDs: uids(m), Name2: pick(normal), CreateOK: true, LabelOK: !rng.Chance(0.3), Sess: rng.Pick(2)}
		case x < 80:
			return mstore.Op{Kind: "create", Name: pick(boxes[1:]), RemoteOK: true, Sess: rng.Pick(2)}
		case x < 84:
			return mstore.Op{Kind: "restart"}
		default:
			// client commands aimed at the recovery mailbox
			switch rng.Pick(8) {
			case 0:
				return mstore.Op{Kind: "append", Name: mstore.RecoveryName, Lit: lit() % nlits, Remote: "ok", Sess: rng.Pick(2)}
			case 1:
				return mstore.Op{Kind: "create", Name: pick([]string{mstore.RecoveryName, "recovered messages", mstore.RecoveryName + "/sub"}), RemoteOK: true}
			case 2:
				return mstore.Op{Kind: "delete", Name: pick([]string{mstore.RecoveryName, "RECOVERED MESSAGES"}), RemoteOK: true}
			case 3:
				return mstore.Op{Kind: "rename", Name: mstore.RecoveryName, Name2: "stolen", RemoteOK: true}
			case 4:
				n := pick(normal)
				if n == "INBOX" {
					continue
				}
				return mstore.Op{Kind: "rename", Name: n, Name2: mstore.RecoveryName, RemoteOK: true}
			default:
				var with []*mstore.MboxDump
				for i := range d.Mboxes {
					if d.Mboxes[i].Name != mstore.RecoveryName && len(d.Mboxes[i].Rows) > 0 {
						with = append(with, &d.Mboxes[i])
					}
				}
				if len(with) == 0 {
					continue
				}
				m := with[rng.Pick(len(with))]
				kind := "move"
				if rng.Chance(0.5) {
					kind = "copy"
				}
				return mstore.Op{Kind: kind, Name: m.Name, UIDs: uids(m), Name2: mstore.RecoveryName, CreateOK: true, LabelOK: true, Sess: rng.Pick(2)}
			}
		}
	}
}

func boolInt(b bool) int {
	if b {
		return 1
	}
	return 0
}

func runOps(ops []mstore.Op, dedup bool) (*violation, error) {
	lits := newLits()
	w, err := mstore.NewWorld(mstore.Config{Burn: 20, BurnStep: 60, Dedup: dedup, Store: &mstore.FailingStore{}}, lits)
	if err != nil {
		return nil, err
	}
	defer w.Close()
	var first *violation
	_, _, err = mstore.Replay(w, ops, func(i int, o mstore.Op, ob mstore.Obs, before, aft mstore.Dump) bool {
		for _, v := range observe(lits, o, ob, before, aft, dedup) {
			if v.D17 {
				continue
			}
			vv := v
			first = &vv
			return false
		}
		return true
	})
	if what, ok := mstore.AsProbe(err); ok && first == nil {
		return &violation{Kind: "mailbox-unreadable", Detail: what}, nil
	}
	return first, err
}

func runC20(ctx *common.Ctx) error {
	res := ctx.Res
	rng := ctx.Rng
	res.Rule = "wire histories of APPEND (remote accepting / rejecting / rejecting for size) with repeated and near-duplicate literals (same Subject/From/To/body, other Date/Message-Id/X-header), COPY/MOVE out of the recovery mailbox and between mailboxes with CreateMessage/AddMessagesToMailbox/MoveMessages failing on a schedule, expunge in the recovery mailbox, restart, and client commands aimed at the recovery mailbox; after every operation the bytes in all mailboxes are compared with the clauses of C20; non-trivial = distinct histories with at least one remote rejection"
	nlits := len(newLits().Bytes)
	// the literal table against the real rfc822.GetMessageHash: error <=> class raw, equal hash <=> same class. A mismatch
	// is not a violation by itself; the histories below then show which rejected message is lost or kept twice.
	tableErr := newLits().Validate()
	if tableErr != nil {
		res.Notes = append(res.Notes, "literal table vs rfc822.GetMessageHash: "+tableErr.Error())
	}
	res.Evaluations += len(newLits().Bytes) * mstore.HashCalls
	res.Count("scenario:hash-of-the-same-bytes-repeated")
	if uh, ok := tableErr.(*mstore.UnstableHash); ok {
		// not a function of the bytes: a retry of a rejected APPEND cannot be recognised (the histories below show it too)
		res.Fail(fmt.Sprintf("content-hash-differs-between-calls [rfc822.GetMessageHash called %d times on the bytes of one message]", mstore.HashCalls),
			tableErr.Error()+": "+strings.SplitN(string(newLits().Bytes[uh.Lit]), "\r\n\r\n", 2)[0], &c20Case{ID: 0, Ops: []mstore.Op{{Kind: "append", Name: "INBOX", Lit: uh.Lit, Remote: "fail"}}})
	}
	var lines []string
	id := 0
	ncases := ctx.Budget(40, 500)
	nops := 14
	if ctx.Tier == "thorough" {
		nops = 30
	}
	report := func(cs *c20Case, v violation) {
		if v.D17 {
			res.Fail(canonD17, v.Detail+" | history: "+mstore.OpsString(cs.Ops), cs)
			return
		}
		ops := mstore.Shrink(cs.Ops, 40, func(c []mstore.Op) bool {
			v2, err := runOps(c, cs.Dedup)
			return err == nil && v2 != nil && v2.Kind == v.Kind
		})
		pre := ""
		if cs.Dedup {
			pre = "de-duplicating remote: "
		}
		res.Fail(v.Kind+" ["+pre+mstore.OpsString(ops)+"]", v.Detail+litLegend(ops), cs)
	}
	runCase := func(cs *c20Case, next func(d mstore.Dump, i int) *mstore.Op) error {
		lits := newLits()
		w, err := mstore.NewWorld(mstore.Config{Burn: 20, BurnStep: 60, Dedup: cs.Dedup, Store: &mstore.FailingStore{}}, lits)
		if err != nil {
			return err
		}
		g0 := w.G0
		names := mstore.NewNames()
		var viol *violation
		rejected, d17 := false, false
		steps, final, err := mstore.RunHistory(w, next, func(i int, o mstore.Op, ob mstore.Obs, before, aft mstore.Dump) bool {
			res.Evaluations++
			res.Count("op:" + o.Kind)
			res.Count("result:" + ob.Class)
			if o.Kind == "append" && o.Remote == "fail" {
				rejected = true
			}
			if targetsRecovery(o) {
				res.Count("aimed-at-recovery")
			}
			for _, v := range observe(lits, o, ob, before, aft, cs.Dedup) {
				if v.D17 {
					// recorded finding: the history stays consistent with the model (which deduplicates by hash), go on
					if !d17 {
						res.Fail(canonD17, v.Detail+" | history: "+mstore.OpsString(cs.Ops), cs)
					}
					d17 = true
					continue
				}
				vv := v
				viol = &vv
				return false
			}
			return true
		})
		w.Close()
		if what, ok := mstore.AsProbe(err); ok {
			viol = &violation{Kind: "mailbox-unreadable", Detail: what}
		} else if err != nil {
			return fmt.Errorf("case %d [%s]: %w", cs.ID, mstore.OpsString(cs.Ops), err)
		}
		if viol != nil {
			report(cs, *viol)
		} else {
			lines = append(lines, mstore.CoqCase(cs.ID, nil, lits, g0, names, steps, final))
		}
		if rejected {
			res.Nontrivial(mstore.OpsString(cs.Ops))
		}
		res.Sample(cs)
		return nil
	}
	fixedD := func(ops []mstore.Op, dedup bool) error {
		id++
		cs := &c20Case{ID: id, Ops: ops, Dedup: dedup}
		ctx.Current("history ["+mstore.OpsString(ops)+"]", cs)
		return runCase(cs, func(d mstore.Dump, i int) *mstore.Op {
			if i >= len(ops) {
				return nil
			}
			return &ops[i]
		})
	}
	fixed := func(ops []mstore.Op) error { return fixedD(ops, false) }
	// ---- corpus ----
	// near-duplicate: literal 4 = class 0 variant 1 (other Date, Message-Id, extra header)
	if err := fixed([]mstore.Op{{Kind: "append", Name: "INBOX", Lit: 0, Remote: "fail"}, {Kind: "append", Name: "INBOX", Lit: 4, Remote: "fail"}}); err != nil {
		return err
	}
	// rolled-back MOVE out of the recovery mailbox followed by a rejected APPEND of the same bytes
	if err := fixed([]mstore.Op{{Kind: "create", Name: "x", RemoteOK: true}, {Kind: "append", Name: "x", Lit: 1, Remote: "fail"},
		{Kind: "move", Name: mstore.RecoveryName, UIDs: []int{1}, Name2: "x", CreateOK: true, LabelOK: false},
		{Kind: "append", Name: "x", Lit: 1, Remote: "fail"}}); err != nil {
		return err
	}
	// same bytes twice; moved out; rejected again; restart; rejected again
	if err := fixed([]mstore.Op{{Kind: "append", Name: "INBOX", Lit: 2, Remote: "fail"}, {Kind: "append", Name: "INBOX", Lit: 2, Remote: "fail"},
		{Kind: "move", Name: mstore.RecoveryName, UIDs: []int{1}, Name2: "INBOX", CreateOK: true, LabelOK: true},
		{Kind: "append", Name: "INBOX", Lit: 2, Remote: "fail"}, {Kind: "restart"}, {Kind: "append", Name: "INBOX", Lit: 2, Remote: "fail"},
		{Kind: "append", Name: "INBOX", Lit: 3, Remote: "size"}, {Kind: "copy", Name: mstore.RecoveryName, UIDs: []int{2}, Name2: "INBOX", CreateOK: true, LabelOK: true}}); err != nil {
		return err
	}
	// un-hashable literal (12, 13): rejected -> must be kept; rejected twice -> kept once (key = hash of the raw bytes)
	if err := fixed([]mstore.Op{{Kind: "append", Name: "INBOX", Lit: 12, Remote: "fail"}, {Kind: "append", Name: "INBOX", Lit: 13, Remote: "fail"},
		{Kind: "append", Name: "INBOX", Lit: 12, Remote: "fail"}, {Kind: "append", Name: "INBOX", Lit: 0, Remote: "fail"}, {Kind: "restart"},
		{Kind: "append", Name: "INBOX", Lit: 0, Remote: "fail"}, {Kind: "append", Name: "INBOX", Lit: 13, Remote: "fail"},
		{Kind: "append", Name: "INBOX", Lit: 12, Remote: "ok"}, {Kind: "move", Name: mstore.RecoveryName, UIDs: []int{1, 2}, Name2: "INBOX", CreateOK: true, LabelOK: true}}); err != nil {
		return err
	}
	// un-hashable and ordinary message thrown away together, the ordinary one rejected again -> must be kept again
	if err := fixed([]mstore.Op{{Kind: "append", Name: "INBOX", Lit: 12, Remote: "fail"}, {Kind: "append", Name: "INBOX", Lit: 1, Remote: "fail"},
		{Kind: "expunge", Name: mstore.RecoveryName, UIDs: []int{1, 2}, RemoteOK: true}, {Kind: "append", Name: "INBOX", Lit: 1, Remote: "fail"},
		{Kind: "append", Name: "INBOX", Lit: 13, Remote: "fail"}, {Kind: "append", Name: "INBOX", Lit: 2, Remote: "fail"},
		{Kind: "move", Name: mstore.RecoveryName, UIDs: []int{3, 4, 5}, Name2: "INBOX", CreateOK: true, LabelOK: true},
		{Kind: "append", Name: "INBOX", Lit: 2, Remote: "fail"}, {Kind: "append", Name: "INBOX", Lit: 1, Remote: "fail"}}); err != nil {
		return err
	}
	// de-duplicating remote: the recovered message is moved / copied out while the remote already has the same bytes in
	// ANOTHER mailbox, in the DESTINATION, nowhere
	rejA := func(name string, lit int) mstore.Op {
		return mstore.Op{Kind: "append", Name: name, Lit: lit, Remote: "fail"}
	}
	okA := func(name string, lit int) mstore.Op {
		return mstore.Op{Kind: "append", Name: name, Lit: lit, Remote: "ok"}
	}
	out := func(kind string, uids []int, dst string) mstore.Op {
		return mstore.Op{Kind: kind, Name: mstore.RecoveryName, UIDs: uids, Name2: dst, CreateOK: true, LabelOK: true}
	}
	mkx := mstore.Op{Kind: "create", Name: "x", RemoteOK: true}
	for _, ops := range [][]mstore.Op{
		{mkx, rejA("INBOX", 0), okA("x", 0), out("move", []int{1}, "INBOX")},
		{mkx, rejA("INBOX", 0), okA("x", 0), out("copy", []int{1}, "INBOX"), out("move", []int{1}, "INBOX")},
		{mkx, rejA("x", 1), okA("INBOX", 1), out("move", []int{1}, "INBOX"), rejA("x", 1), out("copy", []int{2}, "x")},
		{mkx, rejA("x", 2), rejA("x", 3), okA("x", 3), out("move", []int{1, 2}, "INBOX"), okA("INBOX", 2), okA("x", 2)},
		{mkx, okA("x", 0), okA("INBOX", 0), okA("x", 0), rejA("INBOX", 0), out("move", []int{1}, "x")},
	} {
		if err := fixedD(ops, true); err != nil {
			return err
		}
	}
	// APPEND with flag lists, \Deleted alone and combined, accepted and rejected
	{
		var ops []mstore.Op
		for i, f := range []string{`\Deleted`, `\Seen \Deleted`, `\Deleted \Flagged`, `\Seen`, `\Seen \Flagged \Deleted`} {
			ops = append(ops, mstore.Op{Kind: "append", Name: "INBOX", Lit: i, Flags: f, Remote: "fail"},
				mstore.Op{Kind: "append", Name: "INBOX", Lit: i, Flags: f, Remote: "ok"})
		}
		if err := fixed(ops); err != nil {
			return err
		}
	}
	// every literal of the family rejected once: the ones that differ in a hashed item must all be kept
	{
		var ops []mstore.Op
		for _, l := range family {
			ops = append(ops, mstore.Op{Kind: "append", Name: "INBOX", Lit: l, Remote: "fail"})
		}
		if err := fixed(ops); err != nil {
			return err
		}
	}
	// per transfer encoding: two messages that differ only in the (encoded) body, each rejected three times, a restart in
	// between: both must be kept, each once (the body reaches the hash under every encoding; the hash of the same bytes is
	// the same on every call - the Content-Type of these messages has six parameters)
	for e := range encPairs {
		a, b := encPairs[e][0], encPairs[e][1]
		rej := func(l int) mstore.Op { return mstore.Op{Kind: "append", Name: "INBOX", Lit: l, Remote: "fail"} }
		if err := fixed([]mstore.Op{rej(a), rej(b), rej(a), rej(b), {Kind: "restart"}, rej(b), rej(a),
			{Kind: "move", Name: mstore.RecoveryName, UIDs: []int{1, 2}, Name2: "INBOX", CreateOK: true, LabelOK: true}, rej(a), rej(a)}); err != nil {
			return err
		}
		res.Count("scenario:transfer-encoding:" + mstore.EncodingNames[e])
	}
	// the same rejected bytes handed in again and again (also after a restart): kept once
	{
		var ops []mstore.Op
		for i := 0; i < 12; i++ {
			ops = append(ops, mstore.Op{Kind: "append", Name: "INBOX", Lit: reordered[0], Remote: "fail"})
			if i == 7 {
				ops = append(ops, mstore.Op{Kind: "restart"})
			}
		}
		if err := fixed(ops); err != nil {
			return err
		}
		res.Count("scenario:retries-of-one-literal")
	}
	// the local store refuses the recovery copy once (disk full, I/O error): the client is told NO; when the same bytes are
	// rejected again with the store working they must be kept - nothing may remember the failed attempt
	{
		sf := func(l int) mstore.Op { return mstore.Op{Kind: "append", Name: "INBOX", Lit: l, Remote: "fail", StoreFails: true} }
		rej := func(l int) mstore.Op { return mstore.Op{Kind: "append", Name: "INBOX", Lit: l, Remote: "fail"} }
		for _, ops := range [][]mstore.Op{
			{sf(0), rej(0), rej(0)},
			{rej(1), sf(2), sf(12), rej(12), rej(2), {Kind: "restart"}, sf(3), rej(3), rej(2)},
		} {
			if err := fixed(ops); err != nil {
				return err
			}
		}
		res.Count("scenario:recovery-copy-cannot-be-stored")
	}
	// one recovered message loses its cache file, restart: the hash map is rebuilt from the readable ones, so a repeated
	// rejected APPEND of an INTACT recovered message is still recognised (oracle only: the damaged message cannot be fetched)
	{
		id++
		cs := &c20Case{ID: id}
		canon := "recovered-twice [append(INBOX,L0,fail); append(INBOX,L1,fail); cache file of the first recovered message deleted; restart; append(INBOX,L1,fail)]"
		ctx.Current(canon, cs)
		detail, err := lostCacheFile()
		if err != nil {
			return fmt.Errorf("lost cache file: %w", err)
		}
		res.Evaluations++
		res.Count("scenario:lost-cache-file")
		res.Nontrivial("lost-cache-file")
		if detail != "" {
			res.Fail(canon, detail, cs)
		}
	}
	// ---- random histories ----
	for ci := 0; ci < ncases; ci++ {
		id++
		cs := &c20Case{ID: id, Dedup: ci%4 == 3}
		restarts := 0
		if err := runCase(cs, func(d mstore.Dump, i int) *mstore.Op {
			if i >= nops {
				return nil
			}
			var o mstore.Op
			for {
				o = genOp(rng, d, nlits)
				if cs.Dedup && (o.Kind == "copy" || o.Kind == "move") {
					// the scripted remote is not transactional: a label / move call failing after other remote calls of the same
					// command succeeded would leave it with a different idea of where the messages are than gluon (rolled back),
					// and its de-duplication answers would no longer be the ones the model computes
					o.LabelOK = true
				}
				if o.Kind == "restart" {
					if restarts >= 2 {
						continue
					}
					restarts++
				}
				break
			}
			cs.Ops = append(cs.Ops, o)
			ctx.Current("history ["+mstore.OpsString(cs.Ops)+"]", cs)
			return &o
		}); err != nil {
			return err
		}
	}
	res.ModelCases = len(lines)
	if tableErr != nil && len(res.Failures) == 0 {
		return fmt.Errorf("the literal table disagrees with rfc822.GetMessageHash (%v) but no history showed a violation", tableErr)
	}
	return mstore.WriteCases(ctx.Out, "Run.RunC20", lines, nil)
}

var reMessages = regexp.MustCompile(`MESSAGES (\d+)`)

func lostCacheFile() (string, error) {
	lits := newLits()
	w, err := mstore.NewWorld(mstore.Config{Burn: 20, BurnStep: 60}, lits)
	if err != nil {
		return "", err
	}
	defer w.Close()
	storeDir := filepath.Join(w.Dir, "store", "user-0")
	list := func() (map[string]bool, error) {
		es, err := os.ReadDir(storeDir)
		if err != nil {
			return nil, err
		}
		m := map[string]bool{}
		for _, e := range es {
			if !e.IsDir() {
				m[e.Name()] = true
			}
		}
		return m, nil
	}
	reject := func(lit int) (mstore.Obs, error) {
		return w.Do(mstore.Op{Kind: "append", Name: "INBOX", Lit: lit, Remote: "fail"})
	}
	count := func() (int, error) {
		r, err := w.Probe.Cmd(`STATUS "` + mstore.RecoveryName + `" (MESSAGES)`)
		if err != nil || r.Status != "OK" {
			return 0, fmt.Errorf("STATUS: %v %s", err, r.Text)
		}
		for _, l := range r.Untagged {
			if m := reMessages.FindStringSubmatch(l.Text); m != nil {
				n, _ := strconv.Atoi(m[1])
				return n, nil
			}
		}
		return 0, fmt.Errorf("STATUS: no MESSAGES item")
	}
	before, err := list()
	if err != nil {
		return "", err
	}
	if _, err := reject(0); err != nil {
		return "", err
	}
	mid, err := list()
	if err != nil {
		return "", err
	}
	var first []string
	for f := range mid {
		if !before[f] {
			first = append(first, f)
		}
	}
	if len(first) != 1 {
		return "", fmt.Errorf("expected one new cache file after the first rejected APPEND, found %v", first)
	}
	if _, err := reject(1); err != nil {
		return "", err
	}
	if n, err := count(); err != nil || n != 2 {
		return "", fmt.Errorf("recovery mailbox holds %d messages before the restart (%v)", n, err)
	}
	if err := os.Remove(filepath.Join(storeDir, first[0])); err != nil {
		return "", err
	}
	if err := w.Restart(); err != nil {
		return "", err
	}
	ob, err := reject(1)
	if err != nil {
		return "", err
	}
	n, err := count()
	if err != nil {
		return "", err
	}
	if n != 2 {
		return fmt.Sprintf("after the restart the rejected APPEND of the intact recovered message was answered %q and the recovery mailbox holds %d messages (2 expected: it is there already)", ob.Class+" "+ob.Text, n), nil
	}
	return "", nil
}
