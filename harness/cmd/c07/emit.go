package main

// Emission of the trace-correspondence cases for coq/Run/RunC07.v.

import (
	"fmt"
	"sort"
	"strconv"
	"strings"
)

type emitter struct {
	lines []string
	msg   map[string]int
	meta  map[string]int
	flag  map[string]int
}

func (e *emitter) init() {
	if e.msg == nil {
		e.msg = map[string]int{}
		e.meta = map[string]int{}
		e.flag = map[string]int{"": 0}
	}
}

func (e *emitter) mid(iid string) int {
	if v, ok := e.msg[iid]; ok {
		return v
	}
	v := len(e.msg) + 1
	e.msg[iid] = v
	return v
}

func (e *emitter) metaTok(mb snapMb) int {
	k := fmt.Sprintf("%s|%d|%v|%s", mb.Name, mb.UIDV, mb.Sub, mb.RID)
	if v, ok := e.meta[k]; ok {
		return v
	}
	v := len(e.meta) + 1
	e.meta[k] = v
	return v
}

func (e *emitter) flagTok(fs []string) int {
	k := strings.Join(normFlags(fs), " ")
	if v, ok := e.flag[k]; ok {
		return v
	}
	v := len(e.flag)
	e.flag[k] = v
	return v
}

func jl(xs []string) string { return "[" + strings.Join(xs, "; ") + "]" }

// canonical order of message tokens: by remote id (internal ids are random)
func (e *emitter) assign(s *dbSnap) {
	ms := append([]snapMsg{}, s.Ms...)
	sort.Slice(ms, func(i, j int) bool { return ms[i].RID < ms[j].RID })
	for _, m := range ms {
		if !strings.HasPrefix(m.RID, "DELETED-") {
			e.mid(m.IID)
		}
	}
	for _, m := range ms {
		e.mid(m.IID)
	}
}

func (e *emitter) db(s *dbSnap) string {
	var mbs, msgs, rows, flags []string
	for _, mb := range s.Mb {
		mbs = append(mbs, fmt.Sprintf("(%d, %d)", mb.IID, e.metaTok(mb)))
	}
	ms := append([]snapMsg{}, s.Ms...)
	sort.Slice(ms, func(i, j int) bool { return e.mid(ms[i].IID) < e.mid(ms[j].IID) })
	for _, m := range ms {
		msgs = append(msgs, fmt.Sprintf("(%d, %v)", e.mid(m.IID), m.Deleted))
		if t := e.flagTok(m.Flags); t != 0 {
			flags = append(flags, fmt.Sprintf("(%d, %d)", e.mid(m.IID), t))
		}
	}
	for _, r := range s.Rows {
		rows = append(rows, fmt.Sprintf("(%d, %d, %d)", r.Mb, r.UID, e.mid(r.Msg)))
	}
	return fmt.Sprintf("(mkDb %s %s %s %s)", jl(mbs), jl(msgs), jl(rows), jl(flags))
}

func (e *emitter) files(fs []string) []string {
	var ids []int
	for _, f := range fs {
		ids = append(ids, e.mid(f))
	}
	sort.Ints(ids)
	var out []string
	for _, i := range ids {
		out = append(out, fmt.Sprint(i))
	}
	return out
}

func (e *emitter) machine(s *dbSnap, files []string) string {
	var st []string
	for _, f := range e.files(files) {
		st = append(st, fmt.Sprintf("(%s, [0])", f))
	}
	return fmt.Sprintf("(mkM %s %s None)", jl(st), e.db(s))
}

func mbByName(s *dbSnap, name string) *snapMb {
	for i := range s.Mb {
		if s.Mb[i].Name == name {
			return &s.Mb[i]
		}
	}
	return nil
}

func mbByRID(s *dbSnap, rid string) *snapMb {
	for i := range s.Mb {
		if s.Mb[i].RID == rid {
			return &s.Mb[i]
		}
	}
	return nil
}

func msByRID(s *dbSnap, rid string) *snapMsg {
	for i := range s.Ms {
		if s.Ms[i].RID == rid {
			return &s.Ms[i]
		}
	}
	return nil
}

func rowsOf(s *dbSnap, mb uint64) []snapRow {
	var out []snapRow
	for _, r := range s.Rows {
		if r.Mb == mb {
			out = append(out, r)
		}
	}
	sort.Slice(out, func(i, j int) bool { return out[i].UID < out[j].UID })
	return out
}

func hasRow(s *dbSnap, mb uint64, msg string) bool {
	for _, r := range s.Rows {
		if r.Mb == mb && r.Msg == msg {
			return true
		}
	}
	return false
}

// newRows: rows of the mailbox that exist after but not before, by ascending uid
func newRows(ref *refRun, mb uint64) []snapRow {
	var out []snapRow
	for _, r := range rowsOf(ref.snapAfter, mb) {
		if !hasRow(ref.snapBefore, mb, r.Msg) {
			out = append(out, r)
		}
	}
	return out
}

// ---- events -> model steps ----
func (e *emitter) steps(ev []event, ref *refRun) []string {
	// parallel store writes arrive in any order: emit each run of writes in token order
	ev = append([]event{}, ev...)
	for i := 0; i < len(ev); {
		j := i
		for j < len(ev) && (ev[j].K == "set" || ev[j].K == "del") && ev[j].K == ev[i].K && len(ev[j].Args) == 1 {
			j++
		}
		if j > i+1 {
			run := ev[i:j]
			sort.SliceStable(run, func(a, b int) bool { return e.mid(run[a].Args[0]) < e.mid(run[b].Args[0]) })
		}
		if j == i {
			j++
		}
		i = j
	}
	var out []string
	u := func(s string) uint64 { v, _ := strconv.ParseUint(s, 10, 64); return v }
	for _, x := range ev {
		switch x.K {
		case "begin-w":
			out = append(out, "SBegin")
		case "commit":
			out = append(out, "SCommit")
		case "rollback":
			// a rolled back transaction leaves no trace in the database: its begin and statements become reads
			// (store calls inside it are real and stay)
			for i := len(out) - 1; i >= 0; i-- {
				if out[i] == "SBegin" {
					out[i] = "SRead"
					break
				}
				if strings.HasPrefix(out[i], "SStmt") {
					out[i] = "SRead"
				}
			}
			out = append(out, "SRead")
		case "begin-r", "end-r", "stmt-err", "list", "init":
			out = append(out, "SRead")
		case "set":
			out = append(out, fmt.Sprintf("SSet %d [0]", e.mid(x.Args[0])))
		case "get":
			out = append(out, fmt.Sprintf("SGet %d", e.mid(x.Args[0])))
		case "del":
			for _, a := range x.Args {
				out = append(out, fmt.Sprintf("SDel %d", e.mid(a)))
			}
		case "stmt":
			if !x.W {
				out = append(out, "SRead")
				continue
			}
			st := func(s string) { out = append(out, "SStmt ("+s+")") }
			switch x.N {
			case "CreateMessages":
				for _, a := range x.Args {
					st(fmt.Sprintf("StInsertMsg %d", e.mid(a)))
				}
			case "CreateMessageAndAddToMailbox":
				st(fmt.Sprintf("StInsertMsg %d", e.mid(x.Args[2])))
				st(fmt.Sprintf("StInsertRow %d %s %d", u(x.Args[0]), x.Args[1], e.mid(x.Args[2])))
			case "AddMessagesToMailbox":
				type pr struct {
					uid int
					id  string
				}
				var ps []pr
				for i := 1; i+1 < len(x.Args); i += 2 {
					uid, _ := strconv.Atoi(x.Args[i])
					ps = append(ps, pr{uid, x.Args[i+1]})
				}
				sort.Slice(ps, func(i, j int) bool { return ps[i].uid < ps[j].uid })
				for _, p := range ps {
					st(fmt.Sprintf("StInsertRow %d %d %d", u(x.Args[0]), p.uid, e.mid(p.id)))
				}
			case "RemoveMessagesFromMailbox":
				for _, a := range x.Args[1:] {
					st(fmt.Sprintf("StDeleteRow %d %d", u(x.Args[0]), e.mid(a)))
				}
			case "MarkMessageAsDeleted", "MarkMessageAsDeletedAndAssignRandomRemoteID":
				st(fmt.Sprintf("StMark %d", e.mid(x.Args[0])))
			case "MarkMessageAsDeletedWithRemoteID":
				if m := msByRID(ref.snapBefore, strings.TrimPrefix(x.Args[0], "rid:")); m != nil {
					st(fmt.Sprintf("StMark %d", e.mid(m.IID)))
				}
			case "DeleteMessages":
				var toks []int
				for _, a := range x.Args {
					toks = append(toks, e.mid(a))
				}
				sort.Ints(toks)
				for _, t := range toks {
					st(fmt.Sprintf("StDeleteMsg %d", t))
				}
			case "CreateMailbox":
				if len(x.Args) == 1 {
					st(fmt.Sprintf("StCreateMb %d 0", u(x.Args[0])))
				}
			case "CreateMailboxIfNotExists", "GetOrCreateMailbox", "GetOrCreateMailboxAlt":
				if len(x.Args) == 1 {
					name := strings.TrimPrefix(x.Args[0], "name:")
					if mbByName(ref.snapBefore, name) == nil {
						if mb := mbByName(ref.snapAfter, name); mb != nil {
							st(fmt.Sprintf("StCreateMb %d 0", mb.IID))
							continue
						}
					}
				}
				st("StNeutral")
			case "DeleteMailboxWithRemoteID":
				if mb := mbByRID(ref.snapBefore, strings.TrimPrefix(x.Args[0], "rid:")); mb != nil {
					st(fmt.Sprintf("StDeleteMb %d", mb.IID))
				}
			case "RenameMailboxWithRemoteID":
				if mb := mbByRID(ref.snapBefore, strings.TrimPrefix(x.Args[0], "rid:")); mb != nil {
					st(fmt.Sprintf("StSetMeta %d 0", mb.IID))
				}
			case "SetMailboxSubscribed", "UpdateRemoteMailboxID", "SetMailboxUIDValidity":
				st(fmt.Sprintf("StSetMeta %d 0", u(x.Args[0])))
			case "AddFlagToMessages", "RemoveFlagFromMessages", "SetFlagsOnMessages", "SetMailboxMessagesDeletedFlag":
				var toks []int
				for _, a := range x.Args {
					toks = append(toks, e.mid(a))
				}
				sort.Ints(toks)
				for _, t := range toks {
					st(fmt.Sprintf("StSetFlags %d 0", t))
				}
			default:
				st("StNeutral")
			}
		}
	}
	return out
}

// restrict cuts the snapshots and file lists of a reference run down to the objects of its prefix plus everything the
// recorded trace mentions (the directory accumulates the objects of all scenarios).
func restrict(ref *refRun) *refRun {
	inTrace := map[string]bool{}
	mbTrace := map[uint64]bool{}
	for _, x := range ref.events {
		for _, a := range x.Args {
			inTrace[a] = true
			if v, err := strconv.ParseUint(a, 10, 64); err == nil && x.K == "stmt" {
				mbTrace[v] = true
			}
		}
	}
	cut := func(s *dbSnap, other *dbSnap) *dbSnap {
		out := &dbSnap{}
		keepMb := map[uint64]bool{}
		for _, mb := range s.Mb {
			if strings.HasPrefix(mb.Name, ref.pfx) || strings.HasPrefix(mb.RID, ref.pfx) || (mbTrace[mb.IID] && mb.RID == "GLUON-INTERNAL-RECOVERY-MBOX") {
				keepMb[mb.IID] = true
			}
		}
		for _, mb := range other.Mb {
			if strings.HasPrefix(mb.Name, ref.pfx) || strings.HasPrefix(mb.RID, ref.pfx) || (mbTrace[mb.IID] && mb.RID == "GLUON-INTERNAL-RECOVERY-MBOX") {
				keepMb[mb.IID] = true
			}
		}
		keepMs := map[string]bool{}
		for _, r := range s.Rows {
			if keepMb[r.Mb] {
				keepMs[r.Msg] = true
			}
		}
		for _, r := range other.Rows {
			if keepMb[r.Mb] {
				keepMs[r.Msg] = true
			}
		}
		for _, m := range append(append([]snapMsg{}, s.Ms...), other.Ms...) {
			if strings.HasPrefix(m.RID, ref.pfx) || inTrace[m.IID] {
				keepMs[m.IID] = true
			}
		}
		for _, mb := range s.Mb {
			if keepMb[mb.IID] {
				out.Mb = append(out.Mb, mb)
			}
		}
		for _, r := range s.Rows {
			if keepMb[r.Mb] {
				out.Rows = append(out.Rows, r)
			}
		}
		for _, m := range s.Ms {
			if keepMs[m.IID] {
				out.Ms = append(out.Ms, m)
			}
		}
		return out
	}
	r := *ref
	r.snapBefore = cut(ref.snapBefore, ref.snapAfter)
	r.snapAfter = cut(ref.snapAfter, ref.snapBefore)
	keep := map[string]bool{}
	for _, m := range append(append([]snapMsg{}, r.snapBefore.Ms...), r.snapAfter.Ms...) {
		keep[m.IID] = true
	}
	for a := range inTrace {
		keep[a] = true
	}
	ff := func(fs []string) []string {
		var out []string
		for _, f := range fs {
			if keep[f] {
				out = append(out, f)
			}
		}
		return out
	}
	r.filesBefore, r.filesAfter = ff(ref.filesBefore), ff(ref.filesAfter)
	return &r
}

func (e *emitter) emit(sc scenario, ref *refRun) {
	e.init()
	if sc.model == nil {
		return
	}
	ref = restrict(ref)
	e.assign(ref.snapBefore)
	e.assign(ref.snapAfter)
	op := sc.model(e, ref)
	if op == "" {
		return
	}
	id := len(e.lines) + 1
	e.lines = append(e.lines, fmt.Sprintf("mkCase %d %s %s %s %s %s", id, op, e.machine(ref.snapBefore, ref.filesBefore),
		jl(e.steps(ref.events, ref)), e.db(ref.snapAfter), jl(e.files(ref.filesAfter))))
}

func (e *emitter) emitStartup(ref *refRun) {
	e.init()
	e.assign(ref.snapBefore)
	e.assign(ref.snapAfter)
	for _, f := range ref.filesBefore {
		e.mid(f)
	}
	id := len(e.lines) + 1
	e.lines = append(e.lines, fmt.Sprintf("mkCase %d OpStartup %s %s %s %s", id, e.machine(ref.snapBefore, ref.filesBefore),
		jl(e.steps(ref.events, ref)), e.db(ref.snapAfter), jl(e.files(ref.filesAfter))))
}

// ---- the model operation of each scenario, derived from the request and the states before / after ----
func itemsOf(e *emitter, rows []snapRow) string {
	var xs []string
	for _, r := range rows {
		xs = append(xs, fmt.Sprintf("(%d, %d)", r.UID, e.mid(r.Msg)))
	}
	return jl(xs)
}

func modelAppend(e *emitter, ref *refRun) string {
	mb := mbByName(ref.snapBefore, ref.pfx+"A")
	nr := newRows(ref, mb.IID)
	if len(nr) != 1 {
		return ""
	}
	return fmt.Sprintf("(OpAppend %d %d %d [0])", mb.IID, nr[0].UID, e.mid(nr[0].Msg))
}

func modelCopy(e *emitter, ref *refRun) string {
	dst := mbByName(ref.snapBefore, ref.pfx+"B")
	return fmt.Sprintf("(OpCopy %d %s)", dst.IID, itemsOf(e, newRows(ref, dst.IID)))
}

func modelMove(e *emitter, ref *refRun) string {
	src, dst := mbByName(ref.snapBefore, ref.pfx+"A"), mbByName(ref.snapBefore, ref.pfx+"B")
	return fmt.Sprintf("(OpMove %d %d %s)", src.IID, dst.IID, itemsOf(e, newRows(ref, dst.IID)))
}

func modelExpunge(e *emitter, ref *refRun) string {
	mb := mbByName(ref.snapBefore, ref.pfx+"A")
	var ids []string
	for _, r := range rowsOf(ref.snapBefore, mb.IID) {
		if !hasRow(ref.snapAfter, mb.IID, r.Msg) {
			ids = append(ids, fmt.Sprint(e.mid(r.Msg)))
		}
	}
	return fmt.Sprintf("(OpExpunge %d %s)", mb.IID, jl(ids))
}

func modelStore(e *emitter, ref *refRun) string {
	mb := mbByName(ref.snapBefore, ref.pfx+"A")
	var items []string
	for _, r := range rowsOf(ref.snapBefore, mb.IID) {
		var fb, fa []string
		for _, m := range ref.snapBefore.Ms {
			if m.IID == r.Msg {
				fb = m.Flags
			}
		}
		for _, m := range ref.snapAfter.Ms {
			if m.IID == r.Msg {
				fa = m.Flags
			}
		}
		if e.flagTok(fb) != e.flagTok(fa) {
			items = append(items, fmt.Sprintf("(%d, %d)", e.mid(r.Msg), e.flagTok(fa)))
		}
	}
	return fmt.Sprintf("(OpStore %s)", jl(items))
}

func newMailboxes(e *emitter, ref *refRun) []string {
	var out []string
	for _, mb := range ref.snapAfter.Mb {
		known := false
		for _, b := range ref.snapBefore.Mb {
			if b.IID == mb.IID {
				known = true
			}
		}
		if !known {
			out = append(out, fmt.Sprintf("(%d, %d)", mb.IID, e.metaTok(mb)))
		}
	}
	return out
}

func modelCreate(e *emitter, ref *refRun) string {
	return fmt.Sprintf("(OpCreate %s)", jl(newMailboxes(e, ref)))
}

func modelDelete(e *emitter, ref *refRun) string {
	return fmt.Sprintf("(OpDelete %d)", mbByName(ref.snapBefore, ref.pfx+"A").IID)
}

func modelRename(e *emitter, ref *refRun) string {
	var ren []string
	for _, b := range ref.snapBefore.Mb {
		for _, a := range ref.snapAfter.Mb {
			if a.IID == b.IID && a.Name != b.Name {
				ren = append(ren, fmt.Sprintf("(%d, %d)", a.IID, e.metaTok(a)))
			}
		}
	}
	return fmt.Sprintf("(OpRename %s %s)", jl(newMailboxes(e, ref)), jl(ren))
}

func modelConnCreate(e *emitter, ref *refRun) string {
	// the new messages, chunk by chunk: one CreateMessages call per chunk of db.ChunkLimit, in item order
	var chunks, rows []string
	for _, x := range ref.events {
		if x.K == "stmt" && x.N == "CreateMessages" {
			var ch []string
			for _, a := range x.Args {
				ch = append(ch, fmt.Sprintf("(%d, [0])", e.mid(a)))
			}
			chunks = append(chunks, jl(ch))
		}
	}
	for _, mb := range ref.snapAfter.Mb {
		for _, r := range newRows(ref, mb.IID) {
			rows = append(rows, fmt.Sprintf("(%d, %d, %d)", r.Mb, r.UID, e.mid(r.Msg)))
		}
	}
	// mailboxes in the order the implementation handled them (a Go map: any order)
	mbOrder := map[uint64]int{}
	for _, x := range ref.events {
		if x.K == "stmt" && x.N == "AddMessagesToMailbox" && len(x.Args) > 0 {
			v, _ := strconv.ParseUint(x.Args[0], 10, 64)
			if _, ok := mbOrder[v]; !ok {
				mbOrder[v] = len(mbOrder)
			}
		}
	}
	sort.SliceStable(rows, func(i, j int) bool {
		var a, b uint64
		fmt.Sscanf(rows[i], "(%d,", &a)
		fmt.Sscanf(rows[j], "(%d,", &b)
		return mbOrder[a] < mbOrder[b]
	})
	return fmt.Sprintf("(OpConnCreate %s %s)", jl(chunks), jl(rows))
}

func modelConnUpdate(e *emitter, ref *refRun) string {
	old := msByRID(ref.snapBefore, ref.pfx+"r1")
	nw := msByRID(ref.snapAfter, ref.pfx+"r1")
	if old == nil || nw == nil {
		return ""
	}
	var oldrows, newrows []string
	for _, mb := range ref.snapBefore.Mb {
		if hasRow(ref.snapBefore, mb.IID, old.IID) {
			oldrows = append(oldrows, fmt.Sprint(mb.IID))
		}
	}
	for _, mb := range ref.snapAfter.Mb {
		for _, r := range rowsOf(ref.snapAfter, mb.IID) {
			if r.Msg == nw.IID {
				newrows = append(newrows, fmt.Sprintf("(%d, %d)", mb.IID, r.UID))
			}
		}
	}
	return fmt.Sprintf("(OpConnUpdate %d %d [0] %s %s)", e.mid(old.IID), e.mid(nw.IID), jl(oldrows), jl(newrows))
}

func modelConnDelete(e *emitter, ref *refRun) string {
	m := msByRID(ref.snapBefore, ref.pfx+"r1")
	if m == nil {
		return ""
	}
	var mbs []string
	for _, mb := range ref.snapBefore.Mb {
		if hasRow(ref.snapBefore, mb.IID, m.IID) {
			mbs = append(mbs, fmt.Sprint(mb.IID))
		}
	}
	return fmt.Sprintf("(OpConnDelete %d %s)", e.mid(m.IID), jl(mbs))
}

func modelSessionEnd(e *emitter, ref *refRun) string {
	var ids []string
	for _, x := range ref.events {
		if x.K == "stmt" && x.N == "DeleteMessages" {
			for _, a := range x.Args {
				ids = append(ids, fmt.Sprint(e.mid(a)))
			}
		}
	}
	return fmt.Sprintf("(OpSessionEnd %s)", jl(ids))
}

func modelAppendRecovered(e *emitter, ref *refRun) string {
	mb := mbByRID(ref.snapBefore, "GLUON-INTERNAL-RECOVERY-MBOX")
	if mb == nil {
		return ""
	}
	nr := newRows(ref, mb.IID)
	if len(nr) != 1 {
		return ""
	}
	return fmt.Sprintf("(OpAppendRecovered %d %d %d [0])", mb.IID, nr[0].UID, e.mid(nr[0].Msg))
}
