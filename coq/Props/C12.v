(* C12 — any message bytes yield well-formed ENVELOPE / BODY / BODYSTRUCTURE without crashing.
   Property theorems only; every proof is `exact <lemma>` and is followed by Print Assumptions.
   Models: Model/Rfc822Header.v (headerParser.next), Rfc822Split.v (Split, boundary scanner), Rfc822Sections.v
   (section tree), PList.v (grammar + checker), StructWriter.v (paramList writer and the call sequences of
   structure/envelope).  Runtime behaviour a Gallina model cannot exhibit — goroutine stack depth (recursive descent
   over nested multiparts / comments) and running time — is only exercised by the harness: this claim is PARTIAL there. *)
From Coq Require Import List NArith Bool Arith.
From Gluon Require Import Base.DecBytes Model.Rfc822Split Model.Rfc822Header Model.Rfc822Sections Model.LiteralFrame
  Model.PList Model.StructWriter
  Model.TokenLoop Gen.FactsRfc5322
  Gen.FactsHeaderKey
  Proofs.Rfc822HeaderProofs Proofs.Rfc822SectionsProofs Proofs.PListProofs Proofs.StructWriterProofs Proofs.TokenLoopProofs
  Proofs.Rfc822SpliceProofs.
Import ListNotations.

(* ---- the header parser, for ANY bytes ---- *)
(* total: the loop over next() ends (the fuel given by the length of the header is never exhausted) *)
Theorem C12_header_parser_total : forall h, new_header h <> HFuel.
Proof. exact new_header_total. Qed.
Print Assumptions C12_header_parser_total.

(* on success every entry satisfies keyStart <= keyEnd <= valueStart <= valueEnd <= len *)
Theorem C12_header_parser_bounded : forall h es, new_header h = HOk es -> Forall (entry_bounded (length h)) es.
Proof. intros h es H. exact (tile_bounded _ _ _ (new_header_tile h es H)). Qed.
Print Assumptions C12_header_parser_bounded.

(* offsets strictly increase from entry to entry, entries do not overlap *)
Theorem C12_header_parser_monotone : forall h es, new_header h = HOk es -> strictly_increasing es.
Proof. intros h es H. exact (tile_increasing _ _ _ (new_header_tile h es H)). Qed.
Print Assumptions C12_header_parser_monotone.

(* ---- which bytes a header field name may consist of: exactly 33..126 without ':' ----
   (a name outside this set makes NewHeader fail and the entity lose its whole header, so the set matters) *)
(* T1 (translator/facts_headerkey.go): the comparison constants read from validateHeaderField are the model's *)
Theorem C12_field_name_byte_range_is_the_sources : forall b,
  key_byte_ok b = (N.leb header_key_lo b && N.leb b header_key_hi) /\ header_key_lo = 33%N /\ header_key_hi = 126%N.
Proof. exact key_byte_ok_is_fact_range. Qed.
Print Assumptions C12_field_name_byte_range_is_the_sources.

(* only such names: every key-bearing entry has a non-empty name of bytes 33..126 other than ':' *)
Theorem C12_field_name_bytes : forall h e n, keyStart e <= length h ->
  hp_next (length h) (skipn (keyStart e) h) (keyStart e) = NOk e n -> has_key e = true ->
  e_key h e <> [] /\ forallb (fun b => key_byte_ok b && negb (N.eqb b COLON)) (e_key h e) = true.
Proof. exact keyed_entry_name_bytes. Qed.
Print Assumptions C12_field_name_bytes.

(* all such names: a line `name: value CRLF` whose name is any non-empty string over that set, followed by a byte that
   is no white space / CR / LF / ':', parses as one entry with exactly that name *)
Theorem C12_field_name_accepted : forall len key val R k, valid_key key -> no_crlf val = true -> plain_head R ->
  exists e, hp_next len (join_line key val ++ R) k = NOk e (k + length (join_line key val)) /\
            keyStart e = k /\ keyEnd e = k + length key /\ valueEnd e = k + length (join_line key val).
Proof. exact hp_next_inserted_line. Qed.
Print Assumptions C12_field_name_accepted.

(* ---- the boundary scanner, for ANY data and boundary ---- *)
(* it neither panics (no slice expression out of range) nor loops; every part it reports lies inside the data,
   strictly behind its start *)
Theorem C12_scanner_total_and_bounded : forall data boundary,
  match scan_parts data boundary with
  | SParts parts => Forall (fun p => 1 <= fst p /\ fst p + snd p <= length data) parts
  | SCrash | SFuel => False
  end.
Proof. exact scan_parts_ok. Qed.
Print Assumptions C12_scanner_total_and_bounded.

(* ---- sections, for ANY bytes and ANY media-type oracle ---- *)
(* every reported part lies inside the message and inside (the body of) its parent *)
Theorem C12_sections_nested : forall ctype_of lit t,
  section_tree ctype_of lit = TOk [t] -> tree_ok (length lit) 0 (length lit) t.
Proof. exact sections_nested. Qed.
Print Assumptions C12_sections_nested.

(* header ++ body = section *)
Theorem C12_section_header_plus_body : forall lit s, sect_ok (length lit) s ->
  sect_header lit s ++ sect_body lit s = sect_literal lit s.
Proof. exact sect_header_plus_body. Qed.
Print Assumptions C12_section_header_plus_body.

(* computing the tree terminates without crash, provided an empty Content-Type is not classified message/rfc822
   (the code defaults it to text/plain) *)
Theorem C12_sections_total : forall ctype_of, ctype_of [] <> CtMessage ->
  forall lit, exists t, section_tree ctype_of lit = TOk [t].
Proof. exact section_tree_total. Qed.
Print Assumptions C12_sections_total.

(* ---- the checker is the grammar ---- *)
Theorem C12_wf_plist_sound_and_complete : forall b, wf_plist b = true <-> WF b.
Proof. exact wf_plist_iff. Qed.
Print Assumptions C12_wf_plist_sound_and_complete.

(* ---- the writer: for EVERY tree and envelope the three texts are well-formed parenthesised lists ----
   esc v = what strconv.Quote puts between the quotes; hypothesis: it is the content of a lexically closed quoted
   string.  msg_single = which rule structure() uses to choose the single-part form (false: the code as it is,
   true: notes/C12-fix-2.diff); Gen/FactsStructure.v, regenerated by T1, says which one the source has. *)
Theorem C12_writer_wellformed_structure : forall esc, (forall v, qc_ok (esc v) = true) ->
  forall lines_any_message msg_single t,
    wf_plist (write_body esc lines_any_message msg_single t) = true /\
    wf_plist (write_bodystructure esc lines_any_message msg_single t) = true.
Proof.
  intros esc H la ms t. exact (conj (writer_structure_wf esc H la ms false t) (writer_structure_wf esc H la ms true t)).
Qed.
Print Assumptions C12_writer_wellformed_structure.

Theorem C12_writer_wellformed_envelope : forall esc, (forall v, qc_ok (esc v) = true) ->
  forall e, wf_plist (write_envelope esc e) = true.
Proof. exact writer_envelope_wf. Qed.
Print Assumptions C12_writer_wellformed_envelope.

(* ---- the written structure is that tree ----
   Full statement: for every MIME tree the text read back is the syntax tree whose elements are, in the positions RFC
   3501 prescribes, the data of that tree: for a multipart the structures of its children, then the subtype (+ extension
   data); for every other node type, subtype, parameters sorted by key, id, description, encoding, size, for
   message/rfc822 the envelope and structure of the embedded message, line count (+ extension data).
   Proved: (1) the text reads back as the syntax tree of the writer's call sequence, for both decision rules; the
   rendering of valid syntax trees is injective, so no other tree has this text; (2) with the rule of C12-fix-2 a
   message/rfc822 node is written in the single-part form, whatever it embeds.  Refuted for the code as it is:
   C12_structure_of_built_message_refuted. *)
Theorem C12_structure_of_built_message_partial : forall esc, (forall v, qc_ok (esc v) = true) ->
  forall lines_any_message msg_single ext t,
    parse_plist (write_structure esc lines_any_message msg_single ext t) =
    Some (PList (ast_list esc (structure_calls lines_any_message msg_single ext t) true)).
Proof. exact writer_structure_reads_back. Qed.
Print Assumptions C12_structure_of_built_message_partial.

Theorem C12_message_part_is_single_part_after_fix : forall la ext h env size lines child children, is_msg h = true ->
  structure_calls la true ext (MNode h env size lines (Some child) children) =
    [CStr (h_type h); CStr (h_sub h); map_calls Auto (h_params h); CStr (h_id h); CStr (h_desc h); CStr (h_enc h); CNum size]
    ++ [envelope_calls Forced (node_env child); CList Adj (structure_calls la true ext child)]
    ++ [CNum lines]
    ++ only_ext ext [CStr (h_md5 h); disp_calls h; CStr (h_lang h); CStr (h_loc h)].
Proof. exact writer_message_single. Qed.
Print Assumptions C12_message_part_is_single_part_after_fix.

(* line counts: with the condition the source has (lines_any_message = false: type text, and message/rfc822) a childless
   part of any other type - message/delivery-status, message/partial, application/... - is written with exactly the
   seven basic fields (+ extension data): no line count behind the size (RFC 3501 body-type-basic) *)
Theorem C12_other_leaf_has_no_line_count : forall msg_single ext h env size lines,
  is_text h = false -> is_msg h = false ->
  structure_calls false msg_single ext (MNode h env size lines None []) =
    [CStr (h_type h); CStr (h_sub h); map_calls Auto (h_params h); CStr (h_id h); CStr (h_desc h); CStr (h_enc h); CNum size]
    ++ only_ext ext [CStr (h_md5 h); disp_calls h; CStr (h_lang h); CStr (h_loc h)].
Proof. exact writer_other_leaf_has_no_lines. Qed.
Print Assumptions C12_other_leaf_has_no_line_count.

(* the code as it is (msg_single = false): a message/rfc822 node that embeds a multipart/mixed with one text/plain part
   is written as  ((QtextQ QplainQ () NIL NIL NIL 1 1) Qrfc822Q)  -- a multipart of subtype rfc822: type, size,
   envelope and line count of the message part and the subtype of the embedded multipart are lost (Q = double quote).
   The same tree replayed through imap.NewParsedMessage is known finding C12-rfc822-multipart-structure. *)
Theorem C12_structure_of_built_message_refuted :
  let env0 := mkEnv [] [] None None None None None None [] [] in
  let leaf := MNode (mkHInfo str_text [112;108;97;105;110]%N [] [] [] [] [] None [] []) env0 1 1 None [] in
  let multi := MNode (mkHInfo [109;117;108;116;105;112;97;114;116]%N [109;105;120;101;100]%N [] [] [] [] [] None [] [])
                 env0 20 3 None [leaf] in
  let msg := MNode (mkHInfo str_msg str_rfc822 [] [] [] [] [] None [] []) env0 60 5 (Some multi) [] in
  write_body esc_go false false msg =
    [40;40;34;116;101;120;116;34;32;34;112;108;97;105;110;34;32;40;41;32;78;73;76;32;78;73;76;32;78;73;76;32;49;32;49;41;
     32;34;114;102;99;56;50;50;34;41]%N
  /\ write_body esc_go false true msg <> write_body esc_go false false msg.
Proof. vm_compute. split; [reflexivity|discriminate]. Qed.
Print Assumptions C12_structure_of_built_message_refuted.

Theorem C12_text_determines_tree : forall l1 l2, valid (PList l1) = true -> valid (PList l2) = true ->
  render (PList l1) = render (PList l2) -> l1 = l2.
Proof. exact render_injective. Qed.
Print Assumptions C12_text_determines_tree.

(* ---- the collecting loops of the address / encoded-word / comment parser end ----
   Behind the end of the input the scanner yields EOF tokens for ever; a loop `collect while the token is in class cls`
   ends for every input (fuel: length of the input + 1 iterations) iff cls rejects EOF. *)
Theorem C12_token_loop_terminates : forall cls, cls TEOF = false ->
  forall s fuel acc, length s < fuel -> collect_while fuel cls s acc <> None.
Proof. exact collect_while_terminates. Qed.
Print Assumptions C12_token_loop_terminates.

Theorem C12_token_loop_spins_if_class_accepts_eof : forall cls, cls TEOF = true ->
  forall fuel acc, collect_while fuel cls [] acc = None.
Proof. exact collect_while_spins. Qed.
Print Assumptions C12_token_loop_spins_if_class_accepts_eof.

(* T1 (translator/facts_rfc5322.go -> Gen/FactsRfc5322.v): every token class function of package rfc5322 (isAText,
   isCText, isDText, isEncodedAtomToken, isEncodedText, isObsNoWSCTL, isQText, isVChar, isWSP), evaluated on
   TokenTypeEOF from the current source, answers false - the hypothesis of C12_token_loop_terminates for each of them. *)
Theorem C12_eof_ends_every_token_class : forallb negb eof_in_token_classes = true.
Proof. exact eof_rejected_by_all_classes. Qed.
Print Assumptions C12_eof_ends_every_token_class.

(* C12_depth (stack depth / running time of the recursive functions on deeply nested input): runtime, not provable on
   a Gallina model; exercised by the harness (nested multiparts, nested messages, comment nesting up to 16-24 MB). *)

(* ---- non-vacuity ---- *)
(* strconv.Quote as modelled for the correspondence run satisfies the hypothesis *)
Example C12_quote_hypothesis_satisfiable : forall v, qc_ok (esc_go v) = true.
Proof. exact esc_go_closed. Qed.

Example C12_wf_examples :
  (* (QaQ NIL ()(12)) accepted; (QaQNIL) : missing separator; ( 1) : space after the parenthesis; (Qa) : open quote
     -- Q stands for the double quote *)
  wf_plist [40;34;97;34;32;78;73;76;32;40;41;40;49;50;41;41]%N = true /\
  wf_plist [40;34;97;34;78;73;76;41]%N = false /\
  wf_plist [40;32;49;41]%N = false /\
  wf_plist [40;34;97;41]%N = false.
Proof. vm_compute. repeat split. Qed.

Example C12_structure_example :
  let leaf := MNode (mkHInfo str_text [112;108;97;105;110]%N [] [] [] [] [] None [] []) (mkEnv [] [] None None None None None None [] []) 5 1 None [] in
  write_body esc_go false false leaf = [40;34;116;101;120;116;34;32;34;112;108;97;105;110;34;32;40;41;32;78;73;76;32;78;73;76;32;78;73;76;32;53;32;49;41]%N.
Proof. vm_compute. reflexivity. Qed.
