(* C11 — the collector holds exactly what was read since the last Reset: no more (bounded memory), no less. *)
From Coq Require Import List NArith Bool Lia.
From Gluon Require Import Model.ImapCollector.
Import ListNotations.
Open Scope N_scope.

Lemma fold_collect : forall ops st, fold_left coll_step ops st = since_reset ops st.
Proof.
  induction ops as [|o t IH]; intro st; [reflexivity|]. cbn [fold_left since_reset].
  destruct o; cbn [coll_step delivered_of]; rewrite IH; try reflexivity. rewrite app_nil_r. reflexivity.
Qed.

Lemma collected_exact : forall ops, collected ops = since_reset ops [].
Proof. intro ops. apply fold_collect. Qed.

Fixpoint delivered_len (ops : list cop) (acc : nat) : nat :=
  match ops with
  | [] => acc
  | CReset :: t => delivered_len t 0
  | o :: t => delivered_len t (acc + length (delivered_of o))
  end.

Lemma since_reset_length : forall ops acc, length (since_reset ops acc) = delivered_len ops (length acc).
Proof.
  induction ops as [|o t IH]; intro acc; [reflexivity|].
  destruct o; cbn [since_reset delivered_len delivered_of]; rewrite IH; try rewrite app_length; reflexivity.
Qed.

(* the size of the buffer is the number of bytes delivered since the last Reset - in particular it does not depend on the
   sizes of the destination buffers passed to Read *)
Lemma collected_length : forall ops, length (collected ops) = delivered_len ops 0.
Proof. intro ops. rewrite collected_exact. apply (since_reset_length ops []). Qed.
