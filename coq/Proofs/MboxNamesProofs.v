(* C14 — lemmas about mailbox names: Split/Join, superiors, INBOX at the first level. *)
From Coq Require Import List NArith Bool Lia PeanoNat Arith.
From Gluon Require Import Model.MboxNames.
Import ListNotations.
Open Scope N_scope.

Lemma name_eqb_eq : forall a b, name_eqb a b = true <-> a = b.
Proof.
  induction a as [|x a IH]; destruct b as [|y b]; simpl; split; intro H; auto; try discriminate.
  - apply andb_true_iff in H as [H1 H2]. apply N.eqb_eq in H1. apply IH in H2. subst; auto.
  - injection H as H1 H2. subst. rewrite N.eqb_refl. simpl. apply IH. auto.
Qed.

Lemma name_eqb_refl : forall a, name_eqb a a = true.
Proof. intro a. apply name_eqb_eq. auto. Qed.

Lemma name_eqb_neq : forall a b, name_eqb a b = false <-> a <> b.
Proof.
  intros a b. split; intro H.
  - intro E. apply name_eqb_eq in E. rewrite E in H. discriminate.
  - destruct (name_eqb a b) eqn:E; auto. apply name_eqb_eq in E. exfalso; auto.
Qed.

Lemma name_eqb_sym : forall a b, name_eqb a b = name_eqb b a.
Proof.
  intros a b. destruct (name_eqb a b) eqn:E.
  - apply name_eqb_eq in E. subst. symmetry. apply name_eqb_refl.
  - symmetry. apply name_eqb_neq. apply name_eqb_neq in E. auto.
Qed.

Lemma name_eq_dec : forall a b : name, {a = b} + {a <> b}.
Proof. intros a b. destruct (name_eqb a b) eqn:E; [left; apply name_eqb_eq; auto | right; apply name_eqb_neq; auto]. Qed.

Lemma mb_contains_In : forall l x, mb_contains l x = true <-> In x l.
Proof.
  intros l x. unfold mb_contains. rewrite existsb_exists. split.
  - intros [y [H1 H2]]. apply name_eqb_eq in H2. subst. auto.
  - intro H. exists x. split; auto. apply name_eqb_refl.
Qed.

Lemma mb_contains_false : forall l x, mb_contains l x = false <-> ~ In x l.
Proof.
  intros l x. split; intro H.
  - intro I. apply mb_contains_In in I. rewrite I in H. discriminate.
  - destruct (mb_contains l x) eqn:E; auto. apply mb_contains_In in E. exfalso; auto.
Qed.

(* ---------- prefixes ---------- *)
Lemma mb_prefixb_spec : forall p s, mb_prefixb p s = true <-> exists rest, s = p ++ rest.
Proof.
  induction p as [|x p IH]; intro s; simpl.
  - split; [intros _; exists s; auto | auto].
  - destruct s as [|y s].
    + split; [discriminate | intros [r E]; discriminate].
    + rewrite andb_true_iff, IH. split.
      * intros [H1 [r E]]. apply N.eqb_eq in H1. subst. exists r. auto.
      * intros [r E]. injection E as E1 E2. subst. split; [apply N.eqb_refl | exists r; auto].
Qed.

Lemma is_superior_b_spec : forall d p n, is_superior_b d p n = true <-> is_superior d p n.
Proof.
  intros d p n. unfold is_superior_b, is_superior. rewrite mb_prefixb_spec.
  split; intros [r E]; exists r; rewrite E; rewrite <- app_assoc; auto.
Qed.

Lemma is_superior_trans : forall d a b c, is_superior d a b -> is_superior d b c -> is_superior d a c.
Proof.
  intros d a b c [r1 E1] [r2 E2]. subst. exists (r1 ++ d :: r2). rewrite <- app_assoc. auto.
Qed.

Lemma is_superior_length : forall d p n, is_superior d p n -> (length p < length n)%nat.
Proof. intros d p n [r E]. subst. rewrite app_length. simpl. lia. Qed.

Lemma is_superior_neq : forall d p n, is_superior d p n -> p <> n.
Proof. intros d p n H E. apply is_superior_length in H. subst. lia. Qed.

Lemma prefixes_at_spec : forall d n p, In p (prefixes_at d n) <-> is_superior d p n.
Proof.
  induction n as [|c n IH]; intro p; simpl.
  - split; [tauto|]. intros [r E]. destruct p; discriminate.
  - rewrite in_app_iff, in_map_iff. split.
    + intros [H|[q [E H]]].
      * destruct (c =? d) eqn:C; [|destruct H]. apply N.eqb_eq in C. subst c.
        destruct H as [H|[]]. subst p. exists n. auto.
      * subst p. apply IH in H. destruct H as [r E]. exists r. rewrite E. auto.
    + intros [r E]. destruct p as [|x p].
      * simpl in E. injection E as E1 E2. subst c. rewrite N.eqb_refl. left. left. auto.
      * simpl in E. injection E as E1 E2. subst x. right. exists p. split; auto. apply IH. exists r. auto.
Qed.

(* ---------- Split / Join ---------- *)
Lemma mb_split_nonempty : forall d s, mb_split d s <> [].
Proof.
  induction s as [|c s IH]; simpl; [discriminate|].
  destruct (c =? d); [discriminate|]. destruct (mb_split d s); discriminate.
Qed.

Lemma mb_join_cons : forall d x l, l <> [] -> mb_join d (x :: l) = x ++ d :: mb_join d l.
Proof. intros d x l H. destruct l; [exfalso; auto | reflexivity]. Qed.

Lemma mb_join_cons_char : forall d c h r, mb_join d ((c :: h) :: r) = c :: mb_join d (h :: r).
Proof. intros d c h r. destruct r; reflexivity. Qed.

Lemma mb_join_split : forall d s, mb_join d (mb_split d s) = s.
Proof.
  induction s as [|c s IH]; [reflexivity|].
  cbn [mb_split]. destruct (c =? d) eqn:C.
  - apply N.eqb_eq in C. subst c. rewrite mb_join_cons; [|apply mb_split_nonempty]. rewrite IH. auto.
  - destruct (mb_split d s) as [|h r] eqn:E; [exfalso; apply (mb_split_nonempty d s); auto|].
    rewrite mb_join_cons_char. f_equal. exact IH.
Qed.

Lemma join_firstn_cons_ne : forall d c h r i,
  mb_join d (firstn (S i) ((c :: h) :: r)) = c :: mb_join d (firstn (S i) (h :: r)).
Proof.
  intros d c h r i. simpl. destruct (firstn i r); reflexivity.
Qed.

Lemma join_firstn_nil : forall d sp i, sp <> [] ->
  mb_join d (firstn (S (S i)) ([] :: sp)) = d :: mb_join d (firstn (S i) sp).
Proof.
  intros d sp i H. destruct sp as [|h r]; [exfalso; auto|]. reflexivity.
Qed.

Lemma len_cons_pred : forall (A : Type) (x : A) l, (length (x :: l) - 1)%nat = length l.
Proof. intros. simpl. apply Nat.sub_0_r. Qed.
Lemma list_superiors_prefixes : forall d n, list_superiors d n = prefixes_at d n.
Proof.
  intros d n. unfold list_superiors. induction n as [|c n IH]; [reflexivity|].
  cbn [mb_split prefixes_at].
  assert (NE := mb_split_nonempty d n).
  destruct (mb_split d n) as [|h r] eqn:E; [exfalso; auto|].
  rewrite len_cons_pred in IH.
  destruct (c =? d) eqn:C.
  - apply N.eqb_eq in C. subst c.
    rewrite len_cons_pred.
    cbn [length seq map]. change (mb_join d (firstn 1 ([] :: h :: r))) with (@nil N).
    cbn [app]. f_equal. rewrite <- IH.
    rewrite <- seq_shift, map_map, map_map. apply map_ext_in. intros i Hi.
    apply in_seq in Hi. destruct i as [|i]; [lia|].
    apply join_firstn_nil. discriminate.
  - rewrite len_cons_pred.
    cbn [app]. rewrite <- IH. rewrite map_map. apply map_ext_in. intros i Hi.
    apply in_seq in Hi. destruct i as [|i]; [lia|].
    apply join_firstn_cons_ne.
Qed.

Lemma list_superiors_spec : forall d n p, In p (list_superiors d n) <-> is_superior d p n.
Proof. intros d n p. rewrite list_superiors_prefixes. apply prefixes_at_spec. Qed.

(* the hierarchy reading: the superiors of a name are the joins of the proper non-empty prefixes of its levels *)
Lemma superior_iff_levels : forall d p n,
  is_superior d p n <->
  exists i, (1 <= i < length (mb_split d n))%nat /\ p = mb_join d (firstn i (mb_split d n)).
Proof.
  intros d p n. rewrite <- list_superiors_spec. unfold list_superiors. rewrite in_map_iff. split.
  - intros [i [E H]]. apply in_seq in H. exists i. split; [lia|auto].
  - intros [i [H E]]. exists i. split; auto. apply in_seq. lia.
Qed.

(* ---------- INBOX at the first level ---------- *)
Lemma first_comp_app : forall d s, let (f, r) := first_comp d s in s = f ++ r.
Proof.
  induction s as [|c s IH]; simpl; auto.
  destruct (c =? d); auto. destruct (first_comp d s) as [f r]. simpl. rewrite IH. auto.
Qed.

Lemma first_comp_nodelim : forall d s f r, first_comp d s = (f, r) ->
  ~ In d f /\ (r = [] \/ exists r', r = d :: r').
Proof.
  induction s as [|c s IH]; intros f r H; simpl in H.
  - injection H as H1 H2. subst. split; auto.
  - destruct (c =? d) eqn:C.
    + injection H as H1 H2. subst. apply N.eqb_eq in C. subst. split; auto. right. exists s. auto.
    + destruct (first_comp d s) as [f' r'] eqn:E. injection H as H1 H2.
      destruct (IH f' r' eq_refl) as [A B]. subst. split; auto.
      intros [X|X]; [apply N.eqb_neq in C; auto | auto].
Qed.

Lemma first_comp_of_app : forall d f r, ~ In d f -> (r = [] \/ exists r', r = d :: r') -> first_comp d (f ++ r) = (f, r).
Proof.
  induction f as [|c f IH]; intros r H R; simpl.
  - destruct R as [R|[r' R]]; subst; simpl; auto. rewrite N.eqb_refl. auto.
  - destruct (c =? d) eqn:C.
    + apply N.eqb_eq in C. subst. exfalso. apply H. left. auto.
    + rewrite IH; auto. intro X. apply H. right. auto.
Qed.

Definition delim_ok (d : N) : Prop := ~ In (mb_upper d) INBOX.

Lemma eqfold_inbox_nodelim : forall d f, delim_ok d -> mb_eqfold f INBOX = true -> ~ In d f.
Proof.
  intros d f D E X. unfold mb_eqfold in E. apply name_eqb_eq in E.
  apply D. assert (Y : In (mb_upper d) (map mb_upper f)) by (apply in_map; auto).
  rewrite E in Y. exact Y.
Qed.

Lemma canon_first_idem : forall d n, delim_ok d -> canon_first d (canon_first d n) = canon_first d n.
Proof.
  intros d n D. unfold canon_first.
  destruct (first_comp d n) as [f r] eqn:E.
  destruct (mb_eqfold f INBOX) eqn:F.
  - destruct (first_comp_nodelim d n f r E) as [A B].
    rewrite first_comp_of_app; auto; try exact (eqfold_inbox_nodelim d INBOX D eq_refl).
  - rewrite E, F. auto.
Qed.

(* every spelling of INBOX is the same name *)
Lemma canon_first_inbox : forall d n, delim_ok d -> mb_eqfold n INBOX = true -> canon_first d n = INBOX.
Proof.
  intros d n D E. unfold canon_first.
  assert (A := eqfold_inbox_nodelim d n D E).
  assert (X : first_comp d (n ++ []) = (n, [])) by (apply first_comp_of_app; auto).
  rewrite app_nil_r in X. rewrite X, E. apply app_nil_r.
Qed.

Lemma canon_first_inbox_child : forall d n rest, delim_ok d -> mb_eqfold n INBOX = true ->
  canon_first d (n ++ d :: rest) = INBOX ++ d :: rest.
Proof.
  intros d n rest D E. unfold canon_first.
  assert (A := eqfold_inbox_nodelim d n D E).
  rewrite first_comp_of_app; auto.
  - rewrite E. auto.
  - right. exists rest. auto.
Qed.

Lemma eqfold_length : forall a b, mb_eqfold a b = true -> length a = length b.
Proof.
  intros a b H. unfold mb_eqfold in H. apply name_eqb_eq in H.
  assert (X : length (map mb_upper a) = length (map mb_upper b)) by (rewrite H; auto).
  rewrite !map_length in X. auto.
Qed.

(* after canonicalisation "is INBOX in some spelling" means "is INBOX" *)
Lemma canon_first_eqfold_inbox : forall d n, delim_ok d ->
  mb_eqfold (canon_first d n) INBOX = name_eqb (canon_first d n) INBOX.
Proof.
  intros d n D. destruct (mb_eqfold (canon_first d n) INBOX) eqn:E.
  - symmetry. apply name_eqb_eq.
    rewrite <- (canon_first_idem d n D). apply canon_first_inbox; auto.
  - symmetry. apply name_eqb_neq. intro X. rewrite X in E. discriminate.
Qed.
