(* C12 — the checker of Model/PList.v is sound and complete w.r.t. the rendering of valid syntax trees. *)
From Coq Require Import List NArith Bool Arith Lia.
From Gluon Require Import Base.DecBytes Model.Rfc822Split Model.LiteralFrame Model.PList Proofs.LiteralFrameProofs.
Import ListNotations.

(* ---------- induction principle for the nested type ---------- *)
Section PItemInd.
  Variable P : pitem -> Prop.
  Hypothesis HNil : P PNil.
  Hypothesis HNum : forall ds, P (PNum ds).
  Hypothesis HQ : forall q, P (PQuoted q).
  Hypothesis HLit : forall p, P (PLit p).
  Hypothesis HList : forall l, Forall (fun e => P (snd e)) l -> P (PList l).
  Fixpoint pitem_ind2 (i : pitem) : P i :=
    match i with
    | PNil => HNil
    | PNum ds => HNum ds
    | PQuoted q => HQ q
    | PLit p => HLit p
    | PList l =>
      HList l ((fix go (l : list (bool * pitem)) : Forall (fun e => P (snd e)) l :=
                  match l with
                  | [] => Forall_nil _
                  | e :: t => Forall_cons e (pitem_ind2 (snd e)) (go t)
                  end) l)
    end.
End PItemInd.

Lemma render_list : forall l, render (PList l) = LP :: render_items l ++ [RP].
Proof. reflexivity. Qed.

Lemma valid_list : forall l, valid (PList l) = valid_items true false l.
Proof. reflexivity. Qed.

Lemma bytes_eqb_eq : forall a b, bytes_eqb a b = true <-> a = b.
Proof.
  induction a as [|x a IH]; destruct b as [|y b]; cbn [bytes_eqb]; split; intros H; try discriminate; auto.
  - apply andb_true_iff in H as [H1 H2]. apply N.eqb_eq in H1. apply IH in H2. subst. reflexivity.
  - inversion H; subst. rewrite N.eqb_refl. cbn. apply IH. reflexivity.
Qed.

(* ---------- quoted strings ---------- *)
Lemma scan_quoted_complete : forall n q r, length q <= n -> qc_ok q = true -> scan_quoted (q ++ DQ :: r) = Some (q, r).
Proof.
  induction n as [|n IH]; intros q r Hn H.
  - destruct q; [|cbn in Hn; lia]. cbn. reflexivity.
  - destruct q as [|b t]; [cbn; reflexivity|]. cbn [length] in Hn. cbn [qc_ok] in H. cbn [app scan_quoted].
    destruct (N.eqb b BSL) eqn:Eb.
    + destruct t as [|c t']; [discriminate|]. apply andb_true_iff in H as [Hc Ht].
      assert (Edq : N.eqb b DQ = false) by (apply N.eqb_eq in Eb; subst b; reflexivity).
      rewrite Edq. cbn [app]. apply negb_true_iff in Hc. rewrite Hc.
      cbn [length] in Hn. rewrite (IH t' r) by (auto; lia). reflexivity.
    + destruct (N.eqb b DQ); [discriminate|]. apply andb_true_iff in H as [Hc Ht].
      apply negb_true_iff in Hc. rewrite Hc. rewrite (IH t r) by (auto; lia). reflexivity.
Qed.

Lemma scan_quoted_sound : forall n s q r, length s <= n -> scan_quoted s = Some (q, r) ->
  s = q ++ DQ :: r /\ qc_ok q = true.
Proof.
  induction n as [|n IH]; intros s q r Hn H.
  - destruct s; [discriminate|cbn in Hn; lia].
  - destruct s as [|b t]; [discriminate|]. cbn [length] in Hn. cbn [scan_quoted] in H.
    destruct (N.eqb b DQ) eqn:Edq.
    + inversion H; subst. apply N.eqb_eq in Edq. subst b. split; reflexivity.
    + destruct (N.eqb b BSL) eqn:Eb.
      * destruct t as [|c t']; [discriminate|]. destruct (is_crlf c) eqn:Ec; [discriminate|].
        destruct (scan_quoted t') as [[q' r']|] eqn:Es; [|discriminate]. inversion H; subst.
        cbn [length] in Hn. destruct (IH t' q' r ltac:(lia) Es) as [-> Hq].
        split; [reflexivity|]. cbn [qc_ok]. rewrite Eb, Ec, Hq. reflexivity.
      * destruct (is_crlf b) eqn:Ec; [discriminate|].
        destruct (scan_quoted t) as [[q' r']|] eqn:Es; [|discriminate]. inversion H; subst.
        destruct (IH t q' r ltac:(lia) Es) as [-> Hq].
        split; [reflexivity|]. cbn [qc_ok]. rewrite Eb, Edq, Ec, Hq. reflexivity.
Qed.

(* ---------- literals ---------- *)
Lemma is_prefix_b_sound : forall p s, is_prefix_b p s = true -> s = p ++ skipn (length p) s.
Proof.
  induction p as [|x p IH]; intros s H; [reflexivity|].
  destruct s as [|y s]; [discriminate|]. cbn [is_prefix_b] in H. apply andb_true_iff in H as [H1 H2].
  apply N.eqb_eq in H1. subst y. cbn [length skipn app]. f_equal. apply IH. exact H2.
Qed.

Lemma parse_literal_complete : forall p r, parse_literal (frame_literal p ++ r) = Some (p, r).
Proof.
  intros p r. unfold frame_literal, parse_literal. cbn [app].
  replace (N.eqb 123 LBR) with true by reflexivity.
  rewrite <- app_assoc. cbn [app]. rewrite span_digits_dec. rewrite undec_dec.
  assert (E : bytes_eqb (dec (N.of_nat (length p))) (dec (N.of_nat (length p))) = true) by (apply bytes_eqb_eq; reflexivity).
  rewrite E. cbn [is_prefix_b N.eqb Pos.eqb andb skipn]. rewrite Nnat.Nat2N.id. rewrite app_length.
  destruct (Nat.ltb_spec (length p + length r) (length p)) as [H|H]; [lia|].
  rewrite firstn_app, skipn_app, Nat.sub_diag, firstn_all, skipn_all. cbn [firstn skipn app].
  rewrite app_nil_r. reflexivity.
Qed.

Lemma parse_literal_sound : forall s p r, parse_literal s = Some (p, r) -> s = frame_literal p ++ r.
Proof.
  intros s p r H. unfold parse_literal in H. destruct s as [|b t]; [discriminate|].
  destruct (N.eqb b LBR) eqn:Eb; [|discriminate]. apply N.eqb_eq in Eb. subst b.
  destruct (span_digits t) as [d rest] eqn:Es. apply span_digits_sound in Es. destruct Es as [-> Hd].
  destruct (undec d) as [n|] eqn:Eu; [|discriminate].
  destruct (bytes_eqb d (dec n) && is_prefix_b [125%N; 13%N; 10%N] rest) eqn:Ed; [|discriminate].
  apply andb_true_iff in Ed as [Ed Ep]. apply bytes_eqb_eq in Ed. apply is_prefix_b_sound in Ep.
  cbn [length] in Ep. set (payload := skipn 3 rest) in *.
  destruct (Nat.ltb_spec (length payload) (N.to_nat n)) as [Hl|Hl]; [discriminate|].
  inversion H; subst p r; clear H.
  unfold frame_literal. rewrite firstn_length. replace (Nat.min (N.to_nat n) (length payload)) with (N.to_nat n) by lia.
  rewrite Nnat.N2Nat.id. rewrite <- Ed. rewrite Ep. unfold LBR. cbn [app]. rewrite <- !app_assoc. cbn [app].
  rewrite firstn_skipn. reflexivity.
Qed.

(* ---------- heads of renderings ---------- *)
Lemma dec_head_digit : forall n, exists b t, dec n = b :: t /\ is_digit b = true.
Proof.
  intros n. pose proof (dec_nonempty n) as Hne. pose proof (dec_digits n) as Hd.
  destruct (dec n) as [|b t]; [contradiction|]. cbn [forallb] in Hd. apply andb_true_iff in Hd as [Hb _].
  exists b, t. auto.
Qed.

(* a valid item renders to a non-empty text whose first byte decides how it is parsed *)
Inductive head_of : pitem -> N -> Prop :=
| HdNil : head_of PNil 78%N
| HdNum : forall b ds, is_digit b = true -> head_of (PNum (b :: ds)) b
| HdQ : forall q, head_of (PQuoted q) DQ
| HdLit : forall p, head_of (PLit p) LBR
| HdList : forall l, head_of (PList l) LP.

Lemma render_head : forall i, valid i = true -> exists b t, render i = b :: t /\ head_of i b.
Proof.
  intros i H. destruct i as [|ds|q|p|l].
  - exists 78%N, [73%N; 76%N]. split; [reflexivity|constructor].
  - cbn [valid] in H. destruct ds as [|b ds]; [discriminate|]. cbn [negb andb forallb] in H.
    apply andb_true_iff in H as [Hb _]. exists b, ds. split; [reflexivity|constructor; auto].
  - exists DQ, (q ++ [DQ]). split; [reflexivity|constructor].
  - exists LBR, (dec (N.of_nat (length p)) ++ [125%N; 13%N; 10%N] ++ p). split; [reflexivity|constructor].
  - rewrite render_list. eexists _, _. split; [reflexivity|constructor].
Qed.

Lemma digit_facts : forall b, is_digit b = true ->
  N.eqb b LP = false /\ N.eqb b RP = false /\ N.eqb b SP = false /\ N.eqb b DQ = false /\ N.eqb b LBR = false /\
  is_prefix_b NIL_bytes [b] = false /\ N.eqb b 78 = false.
Proof.
  intros b H. unfold is_digit in H. apply andb_true_iff in H as [H1 H2].
  apply N.leb_le in H1. apply N.leb_le in H2.
  unfold LP, RP, SP, DQ, LBR. repeat split; try (apply N.eqb_neq; lia).
  cbn [is_prefix_b NIL_bytes]. replace (N.eqb 78 b) with false; [reflexivity|]. symmetry. apply N.eqb_neq. lia.
Qed.

(* ---------- completeness ---------- *)
Definition delim_ok (i : pitem) (r : bytes) : Prop :=
  match i with PNum _ => starts_with_digit r = false | _ => True end.

Definition item_complete (i : pitem) : Prop :=
  valid i = true -> forall fuel r, length (render i) < fuel -> delim_ok i r ->
  parse_item fuel (render i ++ r) = Some (i, r).

Lemma items_complete : forall l, Forall (fun e => item_complete (snd e)) l ->
  forall fuel first prevlist r, valid_items first prevlist l = true ->
  length (render_items l) + 1 < fuel ->
  parse_items fuel first prevlist (render_items l ++ RP :: r) = Some (l, r).
Proof.
  induction l as [|[sp x] t IH]; intros HF fuel first prevlist r Hv Hf.
  - cbn [render_items app]. destruct fuel; [cbn in Hf; lia|]. cbn [parse_items]. rewrite N.eqb_refl. reflexivity.
  - inversion HF as [|? ? Hx Ht]; subst. cbn [snd] in Hx.
    cbn [valid_items] in Hv. apply andb_true_iff in Hv as [Hv Hvt]. apply andb_true_iff in Hv as [Hsep Hvx].
    destruct (render_head x Hvx) as (b & tl & Ehead & Hhd).
    cbn [render_items] in *. rewrite !app_length in Hf.
    destruct fuel as [|f]; [lia|].
    set (rest := render_items t ++ RP :: r).
    assert (Hdelim : delim_ok x rest).
    { destruct x; cbn [delim_ok]; auto. unfold rest. destruct t as [|[sp' y] t'].
      - reflexivity.
      - cbn [valid_items is_list] in Hvt. apply andb_true_iff in Hvt as [Hvt _]. apply andb_true_iff in Hvt as [Hs _].
        unfold sep_ok in Hs. cbn in Hs. rewrite orb_false_r in Hs. subst sp'. reflexivity. }
    destruct sp.
    + (* preceded by a space *)
      unfold sep_ok in Hsep. destruct first; [discriminate|].
      cbn [app]. rewrite <- app_assoc. cbn [parse_items].
      replace (N.eqb SP RP) with false by reflexivity. rewrite N.eqb_refl.
      fold rest. rewrite (Hx Hvx f rest) by (auto; cbn [length] in Hf; lia).
      unfold rest. rewrite (IH Ht f false (is_list x) r Hvt) by (cbn [length] in Hf; rewrite Ehead in Hf; cbn [length] in Hf; lia).
      reflexivity.
    + cbn [app]. rewrite <- app_assoc. fold rest.
      assert (Hb : N.eqb b RP = false /\ N.eqb b SP = false /\ (first || prevlist && N.eqb b LP) = true).
      { unfold sep_ok in Hsep. inversion Hhd; subst; cbn [is_list] in Hsep.
        - repeat split; try reflexivity. destruct first; [reflexivity|]. cbn in Hsep. rewrite andb_false_r in Hsep. discriminate.
        - destruct (digit_facts b H) as (A1 & A2 & A3 & _). repeat split; auto.
          destruct first; [reflexivity|]. cbn in Hsep. rewrite andb_false_r in Hsep. discriminate.
        - repeat split; try reflexivity. destruct first; [reflexivity|]. cbn in Hsep. rewrite andb_false_r in Hsep. discriminate.
        - repeat split; try reflexivity. destruct first; [reflexivity|]. cbn in Hsep. rewrite andb_false_r in Hsep. discriminate.
        - repeat split; try reflexivity. destruct first; [reflexivity|]. cbn in Hsep. rewrite andb_true_r in Hsep.
          rewrite Hsep. reflexivity. }
      destruct Hb as (B1 & B2 & B3).
      pose proof (Hx Hvx f rest) as Hpx. rewrite Ehead in *. cbn [app] in *. cbn [parse_items].
      rewrite B1, B2, B3. cbn [length] in Hf.
      rewrite Hpx by (auto; cbn [length]; lia).
      unfold rest. rewrite (IH Ht f false (is_list x) r Hvt) by lia. reflexivity.
Qed.

Lemma item_complete_all : forall i, item_complete i.
Proof.
  induction i using pitem_ind2; unfold item_complete; intros Hv fuel r Hf Hd.
  - destruct fuel; [cbn in Hf; lia|]. cbn [render NIL_bytes app parse_item]. reflexivity.
  - cbn [valid] in Hv. destruct ds as [|b ds]; [discriminate|]. cbn [negb andb] in Hv.
    destruct fuel; [cbn in Hf; lia|]. cbn [render app parse_item].
    pose proof Hv as Hv'. cbn [forallb] in Hv'. apply andb_true_iff in Hv' as [Hb _].
    destruct (digit_facts b Hb) as (A1 & A2 & A3 & A4 & A5 & A6 & A7).
    rewrite A1, A4, A5. cbn [is_prefix_b NIL_bytes]. rewrite N.eqb_sym, A7. cbn [andb]. rewrite Hb.
    change (b :: ds ++ r) with ((b :: ds) ++ r).
    cbn [delim_ok] in Hd.
    rewrite (span_digits_app (b :: ds) r Hv).
    + reflexivity.
    + destruct r as [|c r']; [reflexivity|]. cbn [starts_with_digit] in Hd. rewrite Hd. reflexivity.
  - cbn [valid] in Hv. destruct fuel; [cbn in Hf; lia|]. cbn [render app parse_item].
    replace (N.eqb DQ LP) with false by reflexivity. rewrite N.eqb_refl.
    rewrite <- app_assoc. cbn [app]. rewrite (scan_quoted_complete (length q) q r (le_n _) Hv). reflexivity.
  - destruct fuel; [cbn in Hf; lia|]. cbn [render].
    pose proof (parse_literal_complete p r) as Hp.
    assert (Hs : exists t, frame_literal p ++ r = LBR :: t) by (eexists; reflexivity).
    destruct Hs as [t Hs]. rewrite Hs in *. cbn [parse_item].
    replace (N.eqb LBR LP) with false by reflexivity. replace (N.eqb LBR DQ) with false by reflexivity.
    rewrite N.eqb_refl. rewrite Hp. reflexivity.
  - rewrite valid_list in Hv. rewrite render_list in *. destruct fuel; [cbn in Hf; lia|].
    cbn [app parse_item]. rewrite N.eqb_refl. rewrite <- app_assoc. cbn [app].
    cbn [length] in Hf. rewrite app_length in Hf. cbn [length] in Hf.
    rewrite (items_complete l H fuel true false r Hv) by lia. reflexivity.
Qed.

(* ---------- soundness ---------- *)
Lemma parse_sound : forall fuel,
  (forall s i r, parse_item fuel s = Some (i, r) -> s = render i ++ r /\ valid i = true) /\
  (forall first prevlist s l r, parse_items fuel first prevlist s = Some (l, r) ->
     s = render_items l ++ RP :: r /\ valid_items first prevlist l = true).
Proof.
  induction fuel as [|f [IHi IHl]]; [split; intros; discriminate|].
  split.
  - intros s i r H. cbn [parse_item] in H. destruct s as [|b t]; [discriminate|].
    destruct (N.eqb b LP) eqn:E1.
    { destruct (parse_items f true false t) as [[l r']|] eqn:Ep; [|discriminate]. inversion H; subst.
      apply IHl in Ep. destruct Ep as [-> Hv]. apply N.eqb_eq in E1. subst b.
      rewrite render_list, valid_list. split; [|exact Hv]. cbn [app]. rewrite <- app_assoc. reflexivity. }
    destruct (N.eqb b DQ) eqn:E2.
    { destruct (scan_quoted t) as [[q r']|] eqn:Es; [|discriminate]. inversion H; subst.
      apply (scan_quoted_sound (length t) t q r (le_n _)) in Es. destruct Es as [-> Hq].
      apply N.eqb_eq in E2. subst b. cbn [render valid app]. rewrite <- app_assoc. auto. }
    destruct (N.eqb b LBR) eqn:E3.
    { destruct (parse_literal (b :: t)) as [[p r']|] eqn:Es; [|discriminate]. inversion H; subst.
      apply parse_literal_sound in Es. split; [exact Es|reflexivity]. }
    destruct (is_prefix_b NIL_bytes (b :: t)) eqn:E4.
    { inversion H; subst. cbn [render valid]. split; [|reflexivity].
      cbn [is_prefix_b NIL_bytes] in E4. apply andb_true_iff in E4 as [A E4]. apply N.eqb_eq in A. subst b.
      destruct t as [|c1 t]; [discriminate|]. apply andb_true_iff in E4 as [A E4]. apply N.eqb_eq in A. subst c1.
      destruct t as [|c2 t]; [discriminate|]. apply andb_true_iff in E4 as [A E4]. apply N.eqb_eq in A. subst c2.
      reflexivity. }
    destruct (is_digit b) eqn:E5; [|discriminate].
    destruct (span_digits (b :: t)) as [ds r'] eqn:Es. inversion H; subst.
    pose proof Es as Es'. apply span_digits_sound in Es'. destruct Es' as [Heq Hd].
    split; [exact Heq|]. cbn [valid]. rewrite Hd. cbn [span_digits] in Es. rewrite E5 in Es.
    destruct (span_digits t). inversion Es; subst. reflexivity.
  - intros first prevlist s l r H. cbn [parse_items] in H. destruct s as [|b t]; [discriminate|].
    destruct (N.eqb b RP) eqn:E1.
    { inversion H; subst. apply N.eqb_eq in E1. subst b. split; reflexivity. }
    destruct (N.eqb b SP) eqn:E2.
    { destruct first; [discriminate|].
      destruct (parse_item f t) as [[x r']|] eqn:Ex; [|discriminate].
      destruct (parse_items f false (is_list x) r') as [[l' r'']|] eqn:El; [|discriminate].
      inversion H; subst. apply IHi in Ex. destruct Ex as [-> Hvx]. apply IHl in El. destruct El as [-> Hvl].
      apply N.eqb_eq in E2. subst b. split.
      - cbn [render_items app]. rewrite <- app_assoc. reflexivity.
      - cbn [valid_items]. rewrite Hvx, Hvl. reflexivity. }
    destruct (first || prevlist && N.eqb b LP) eqn:E3; [|discriminate].
    destruct (parse_item f (b :: t)) as [[x r']|] eqn:Ex; [|discriminate].
    destruct (parse_items f false (is_list x) r') as [[l' r'']|] eqn:El; [|discriminate].
    inversion H; subst. pose proof Ex as Ex'. apply IHi in Ex'. destruct Ex' as [Heq Hvx].
    apply IHl in El. destruct El as [-> Hvl]. split.
    + cbn [render_items app]. rewrite Heq. rewrite <- app_assoc. reflexivity.
    + cbn [valid_items]. rewrite Hvx, Hvl. rewrite andb_true_r.
      unfold sep_ok. destruct first; [reflexivity|]. cbn [orb] in E3. apply andb_true_iff in E3 as [Hp Hb].
      rewrite Hp. cbn [orb andb]. apply N.eqb_eq in Hb. subst b.
      destruct f; [discriminate|]. cbn [parse_item] in Ex. rewrite N.eqb_refl in Ex.
      destruct (parse_items f true false t) as [[? ?]|]; [|discriminate]. inversion Ex; subst. reflexivity.
Qed.

(* ---------- the two directions ---------- *)
Lemma parse_plist_render : forall l, valid (PList l) = true -> parse_plist (render (PList l)) = Some (PList l).
Proof.
  intros l Hv. unfold parse_plist.
  pose proof (item_complete_all (PList l) Hv (S (length (render (PList l)))) [] (Nat.lt_succ_diag_r _) I) as H.
  rewrite app_nil_r in H. rewrite H. reflexivity.
Qed.

Lemma parse_plist_sound : forall s i, parse_plist s = Some i -> s = render i /\ valid i = true /\ is_list i = true.
Proof.
  intros s i H. unfold parse_plist in H.
  destruct (parse_item (S (length s)) s) as [[x r]|] eqn:E; [|discriminate].
  destruct x; try discriminate. destruct r; [|discriminate]. inversion H; subst.
  apply (proj1 (parse_sound _)) in E. destruct E as [E Hv]. rewrite app_nil_r in E. auto.
Qed.

Lemma wf_plist_complete : forall b, WF b -> wf_plist b = true.
Proof.
  intros b (l & Hv & <-). unfold wf_plist. rewrite (parse_plist_render l Hv). reflexivity.
Qed.

Lemma wf_plist_sound : forall b, wf_plist b = true -> WF b.
Proof.
  intros b H. unfold wf_plist in H. destruct (parse_plist b) as [i|] eqn:E; [|discriminate].
  apply parse_plist_sound in E. destruct E as (-> & Hv & Hl). destruct i; try discriminate.
  exists l. auto.
Qed.

Lemma wf_plist_iff : forall b, wf_plist b = true <-> WF b.
Proof. intros; split; [apply wf_plist_sound|apply wf_plist_complete]. Qed.

(* rendering is injective on valid lists: the text determines the tree *)
Lemma render_injective : forall l1 l2, valid (PList l1) = true -> valid (PList l2) = true ->
  render (PList l1) = render (PList l2) -> l1 = l2.
Proof.
  intros l1 l2 H1 H2 E. pose proof (parse_plist_render l1 H1) as P1. pose proof (parse_plist_render l2 H2) as P2.
  rewrite E in P1. rewrite P1 in P2. inversion P2. reflexivity.
Qed.
