From Coq Require Import List NArith ZArith Bool Lia.
From Gluon Require Import Model.SeqSet.
Import ListNotations.
Open Scope N_scope.

Arguments N.modulo : simpl never.
Arguments N.add : simpl never.
Arguments N.sub : simpl never.
Arguments N.ltb : simpl never.
Arguments N.leb : simpl never.
Arguments N.eqb : simpl never.

Ltac dcmp :=
  repeat match goal with
  | |- context [N.ltb ?a ?b] => destruct (N.ltb_spec a b)
  | |- context [N.leb ?a ?b] => destruct (N.leb_spec a b)
  | |- context [N.eqb ?a ?b] => destruct (N.eqb_spec a b)
  | H : context [N.ltb ?a ?b] |- _ => destruct (N.ltb_spec a b)
  | H : context [N.leb ?a ?b] |- _ => destruct (N.leb_spec a b)
  | H : context [N.eqb ?a ?b] |- _ => destruct (N.eqb_spec a b)
  end.

Lemma two32_val : two32 = 4294967296. Proof. reflexivity. Qed.
Lemma two63_val : two63 = 9223372036854775808. Proof. reflexivity. Qed.

Lemma narrow32_small n : n < two32 -> narrow32 n = n.
Proof. intros H. unfold narrow32. apply N.mod_small. exact H. Qed.

(* ---------- nseq / interval_list ---------- *)
Lemma nseq_In p a len : In p (nseq a len) <-> a <= p < a + N.of_nat len.
Proof.
  revert a. induction len as [|k IH]; intros a; cbn [nseq In].
  - lia.
  - rewrite IH. lia.
Qed.

Lemma interval_list_In p lo hi : In p (interval_list lo hi) <-> lo <= p <= hi.
Proof. unfold interval_list. rewrite nseq_In. lia. Qed.

Lemma interval_list_single a : interval_list a a = [a].
Proof. unfold interval_list. replace (a + 1 - a) with 1 by lia. reflexivity. Qed.

(* ---------- parser ---------- *)
Lemma parse_seqnum_spec w :
  match parse_seqnum w with
  | Some PStar => w = WStar
  | Some (PNum k) => w = WNum k /\ 0 < k < two32
  | None => exists n, w = WNum n /\ (n = 0 \/ two32 <= n)
  end.
Proof.
  destruct w as [n|]; cbn; [|reflexivity].
  unfold parse_nz, parse_number. rewrite two63_val, two32_val.
  destruct (N.ltb_spec n 9223372036854775808).
  - destruct (N.eqb_spec n 0).
    + exists n. split; auto.
    + destruct (N.ltb_spec n 4294967296).
      * split; auto. lia.
      * exists n. split; auto.
  - exists n. split; auto. right. lia.
Qed.

Definition w_fail (w : wnum) : Prop := exists n, w = WNum n /\ (n = 0 \/ two32 <= n).

Lemma w_fail_not_ok cnt w : cnt < two32 -> w_fail w -> w_ok cnt w = false.
Proof.
  intros Hc (n & -> & Hn). cbn. destruct Hn as [->|Hn]; [reflexivity|].
  destruct (N.ltb_spec 0 n); cbn; [|reflexivity].
  destruct (N.leb_spec n cnt); [lia|reflexivity].
Qed.

(* value of a parsed number under the seq resolver *)
Lemma resolve_seq_val cnt w p : cnt < two32 -> parse_seqnum w = Some p ->
  resolve_seq cnt p = w_val cnt w /\ (is_star p = true <-> w = WStar).
Proof.
  intros Hc Hp. pose proof (parse_seqnum_spec w) as S. rewrite Hp in S.
  destruct p as [k|].
  - destruct S as [-> [H0 H1]]. cbn. split; [apply narrow32_small; exact H1|]. split; discriminate.
  - subst w. cbn. split; [apply narrow32_small; exact Hc|]. split; reflexivity.
Qed.

Lemma pnum_eqb_spec_val (cnt : N) w1 w2 p1 p2 :
  parse_seqnum w1 = Some p1 -> parse_seqnum w2 = Some p2 ->
  pnum_eqb p1 p2 = true -> w1 = w2.
Proof.
  intros H1 H2 E. pose proof (parse_seqnum_spec w1) as S1. pose proof (parse_seqnum_spec w2) as S2.
  rewrite H1 in S1. rewrite H2 in S2.
  destruct p1 as [a|], p2 as [b|]; cbn in E; try discriminate.
  - destruct S1 as [-> _]. destruct S2 as [-> _]. apply N.eqb_eq in E. now subst.
  - now subst.
Qed.

Lemma pnum_eqb_false_val w1 w2 p1 p2 :
  parse_seqnum w1 = Some p1 -> parse_seqnum w2 = Some p2 ->
  pnum_eqb p1 p2 = false -> w1 <> w2.
Proof.
  intros H1 H2 E Heq. subst w2. rewrite H1 in H2. injection H2 as <-.
  destruct p1; cbn in E; [rewrite N.eqb_refl in E|]; discriminate.
Qed.

(* The interval computed for one parsed range, in terms of the written values. *)
Lemma resolve_interval_seq cnt w1 w2 p1 p2 :
  cnt < two32 -> parse_seqnum w1 = Some p1 -> parse_seqnum w2 = Some p2 ->
  let r := (w1, w2) in
  let i := resolve_interval (resolve_seq cnt) (p1, p2) in
  (w_ok cnt w1 && w_ok cnt w2 = true -> i = (w_lo cnt r, w_hi cnt r)) /\
  (w_ok cnt w1 && w_ok cnt w2 = false -> seq_interval_msgs cnt i = None).
Proof.
  intros Hc H1 H2 r i.
  destruct (resolve_seq_val cnt w1 p1 Hc H1) as [V1 S1].
  destruct (resolve_seq_val cnt w2 p2 Hc H2) as [V2 S2].
  pose proof (parse_seqnum_spec w1) as P1. rewrite H1 in P1.
  pose proof (parse_seqnum_spec w2) as P2. rewrite H2 in P2.
  subst i r. unfold resolve_interval, w_lo, w_hi. cbn [fst snd].
  destruct (pnum_eqb p1 p2) eqn:E.
  - pose proof (pnum_eqb_spec_val cnt _ _ _ _ H1 H2 E) as <-.
    rewrite V1. rewrite N.min_id, N.max_id. split; [reflexivity|].
    intros Hok. rewrite andb_diag in Hok. unfold seq_interval_msgs. rewrite N.eqb_refl.
    destruct w1 as [n|]; cbn in Hok |- *.
    + destruct p1 as [k|]; [|discriminate]. destruct P1 as [[= <-] [Hk0 Hk1]].
      destruct (N.eqb_spec cnt 0); [reflexivity|]. cbn.
      destruct (N.ltb_spec cnt n); [reflexivity|].
      apply andb_false_iff in Hok. destruct Hok as [Hok|Hok].
      * apply N.ltb_ge in Hok. lia.
      * apply N.leb_gt in Hok. lia.
    + apply N.ltb_ge in Hok. assert (cnt = 0) as -> by lia. reflexivity.
  - (* distinct endpoints *)
    destruct p1 as [a|], p2 as [b|]; cbn [is_star] ; cbn in E.
    + destruct P1 as [-> [Ha0 Ha1]]. destruct P2 as [-> [Hb0 Hb1]].
      cbn [w_val] in V1, V2. cbn [w_val w_ok]. rewrite V1, V2.
      destruct (N.ltb_spec b a).
      * split.
        -- intros _. f_equal; lia.
        -- intros Hok. unfold seq_interval_msgs.
           destruct (N.eqb_spec b a); [lia|].
           apply andb_false_iff in Hok.
           destruct (N.ltb_spec cnt b); cbn; [reflexivity|].
           destruct (N.ltb_spec cnt a); cbn; [reflexivity|].
           exfalso. destruct Hok as [Hok|Hok]; apply andb_false_iff in Hok; destruct Hok as [Hok|Hok];
             try (apply N.ltb_ge in Hok; lia); try (apply N.leb_gt in Hok; lia).
      * split.
        -- intros _. f_equal; lia.
        -- intros Hok. unfold seq_interval_msgs.
           apply N.eqb_neq in E.
           destruct (N.eqb_spec a b); [lia|].
           apply andb_false_iff in Hok.
           destruct (N.ltb_spec cnt a); cbn; [reflexivity|].
           destruct (N.ltb_spec cnt b); cbn; [reflexivity|].
           exfalso. destruct Hok as [Hok|Hok]; apply andb_false_iff in Hok; destruct Hok as [Hok|Hok];
             try (apply N.ltb_ge in Hok; lia); try (apply N.leb_gt in Hok; lia).
    + (* a : * *)
      destruct P1 as [-> [Ha0 Ha1]]. subst w2. cbn [w_val] in V1, V2. cbn [w_val w_ok]. rewrite V1, V2.
      destruct (N.ltb_spec cnt a).
      * split.
        -- intros Hok. apply andb_true_iff in Hok as [Hok _]. apply andb_true_iff in Hok as [_ Hok].
           apply N.leb_le in Hok. lia.
        -- intros _. unfold seq_interval_msgs. rewrite N.eqb_refl.
           destruct (N.eqb_spec cnt 0); cbn; [reflexivity|].
           destruct (N.ltb_spec cnt a); [reflexivity|lia].
      * split.
        -- intros _. f_equal; lia.
        -- intros Hok. exfalso. apply andb_false_iff in Hok. destruct Hok as [Hok|Hok].
           ++ apply andb_false_iff in Hok. destruct Hok as [Hok|Hok];
                [apply N.ltb_ge in Hok; lia | apply N.leb_gt in Hok; lia].
           ++ apply N.ltb_ge in Hok. lia.
    + (* * : b  -> swapped *)
      subst w1. destruct P2 as [-> [Hb0 Hb1]]. cbn [w_val] in V1, V2. cbn [w_val w_ok]. rewrite V1, V2.
      destruct (N.ltb_spec cnt b).
      * split.
        -- intros Hok. apply andb_true_iff in Hok as [_ Hok]. apply andb_true_iff in Hok as [_ Hok].
           apply N.leb_le in Hok. lia.
        -- intros _. unfold seq_interval_msgs. rewrite N.eqb_refl.
           destruct (N.eqb_spec cnt 0); cbn; [reflexivity|].
           destruct (N.ltb_spec cnt b); [reflexivity|lia].
      * split.
        -- intros _. f_equal; lia.
        -- intros Hok. exfalso. apply andb_false_iff in Hok. destruct Hok as [Hok|Hok].
           ++ apply N.ltb_ge in Hok. lia.
           ++ apply andb_false_iff in Hok. destruct Hok as [Hok|Hok];
                [apply N.ltb_ge in Hok; lia | apply N.leb_gt in Hok; lia].
    + discriminate.
Qed.

Lemma seq_interval_ok cnt r :
  w_ok cnt (fst r) && w_ok cnt (snd r) = true ->
  seq_interval_msgs cnt (w_lo cnt r, w_hi cnt r) = Some (interval_list (w_lo cnt r) (w_hi cnt r)).
Proof.
  destruct r as [w1 w2]. cbn [fst snd]. intros Hok. apply andb_true_iff in Hok as [O1 O2].
  assert (B1: 0 < w_val cnt w1 <= cnt).
  { destruct w1; cbn in O1 |- *.
    - apply andb_true_iff in O1 as [A B]. apply N.ltb_lt in A. apply N.leb_le in B. lia.
    - apply N.ltb_lt in O1. lia. }
  assert (B2: 0 < w_val cnt w2 <= cnt).
  { destruct w2; cbn in O2 |- *.
    - apply andb_true_iff in O2 as [A B]. apply N.ltb_lt in A. apply N.leb_le in B. lia.
    - apply N.ltb_lt in O2. lia. }
  unfold seq_interval_msgs, w_lo, w_hi. cbn [fst snd].
  set (a := w_val cnt w1) in *. set (b := w_val cnt w2) in *.
  destruct (N.eqb_spec (N.min a b) (N.max a b)) as [Heq|Hne].
  - destruct (N.eqb_spec cnt 0); [lia|]. cbn.
    destruct (N.ltb_spec cnt (N.min a b)); [lia|].
    destruct (N.eqb_spec (N.min a b) 0); [lia|].
    rewrite <- Heq. rewrite interval_list_single. reflexivity.
  - destruct (N.ltb_spec cnt (N.min a b)); [lia|]. cbn.
    destruct (N.ltb_spec cnt (N.max a b)); [lia|].
    destruct (N.eqb_spec (N.min a b) 0); [lia|]. reflexivity.
Qed.

(* ---------- dedup_first ---------- *)
Lemma existsb_eqb_In x l : existsb (N.eqb x) l = true <-> In x l.
Proof. rewrite existsb_exists. split; [intros (y & Hy & E); apply N.eqb_eq in E; now subst|].
  intros H. exists x. split; [exact H|apply N.eqb_refl]. Qed.

Lemma dedup_first_aux_In seen l x : In x (dedup_first_aux seen l) <-> In x l /\ ~ In x seen.
Proof.
  revert seen. induction l as [|a t IH]; intros seen; cbn [dedup_first_aux In]; [tauto|].
  destruct (existsb (N.eqb a) seen) eqn:E.
  - apply existsb_eqb_In in E. rewrite IH. split; [tauto|]. intros [[<-|H] Hn]; [contradiction|tauto].
  - assert (~ In a seen) as Hna by (intros H; apply existsb_eqb_In in H; congruence).
    cbn [In]. rewrite IH. cbn [In]. split.
    + intros [<-|[H Hn]]; [tauto|]. split; [tauto|]. intros H'. apply Hn. right. exact H'.
    + intros [[<-|H] Hn]; [left; reflexivity|]. destruct (N.eq_dec a x) as [->|Hne]; [left; reflexivity|].
      right. split; [exact H|]. intros [H'|H']; [contradiction|contradiction].
Qed.

Lemma dedup_first_In l x : In x (dedup_first l) <-> In x l.
Proof. unfold dedup_first. rewrite dedup_first_aux_In. cbn. tauto. Qed.

Lemma dedup_first_aux_NoDup seen l : NoDup (dedup_first_aux seen l).
Proof.
  revert seen. induction l as [|a t IH]; intros seen; cbn [dedup_first_aux]; [constructor|].
  destruct (existsb (N.eqb a) seen); [apply IH|]. constructor; [|apply IH].
  rewrite dedup_first_aux_In. cbn [In]. tauto.
Qed.

Lemma dedup_first_NoDup l : NoDup (dedup_first l).
Proof. apply dedup_first_aux_NoDup. Qed.

(* ---------- whole sets, sequence mode ---------- *)
Definition spec_seq_list (cnt : N) (s : wset) : list N :=
  concat (map (fun r => interval_list (w_lo cnt r) (w_hi cnt r)) s).

Lemma set_ok_cons cnt w1 w2 t : set_ok cnt ((w1, w2) :: t) = w_ok cnt w1 && w_ok cnt w2 && set_ok cnt t.
Proof. reflexivity. Qed.

Lemma impl_seq_parse_fail cnt s : cnt < two32 -> parse_set s = None -> set_ok cnt s = false.
Proof.
  intros Hc. induction s as [|[w1 w2] t IH]; [discriminate|]. rewrite set_ok_cons. cbn [parse_set].
  unfold parse_range. cbn [fst snd].
  pose proof (parse_seqnum_spec w1) as P1. pose proof (parse_seqnum_spec w2) as P2.
  destruct (parse_seqnum w1) as [p1|].
  - destruct (parse_seqnum w2) as [p2|].
    + destruct (parse_set t); [discriminate|]. intros _. rewrite IH by reflexivity. apply andb_false_r.
    + intros _. rewrite (w_fail_not_ok cnt w2 Hc P2). rewrite andb_false_r. reflexivity.
  - intros _. rewrite (w_fail_not_ok cnt w1 Hc P1). reflexivity.
Qed.

Theorem impl_seq_correct cnt s : cnt < two32 ->
  impl_seq cnt s = if set_ok cnt s then Some (dedup_first (spec_seq_list cnt s)) else None.
Proof.
  intros Hc. unfold impl_seq.
  enough (E: match parse_set s with None => None
             | Some ps => seq_msgs cnt (map (resolve_interval (resolve_seq cnt)) ps) end
             = if set_ok cnt s then Some (spec_seq_list cnt s) else None).
  { destruct (parse_set s) as [ps|].
    - rewrite E. destruct (set_ok cnt s); reflexivity.
    - destruct (set_ok cnt s); [discriminate|reflexivity]. }
  destruct (parse_set s) as [ps|] eqn:Hp.
  2:{ rewrite (impl_seq_parse_fail cnt s Hc Hp). reflexivity. }
  revert ps Hp. induction s as [|[w1 w2] t IH]; intros ps Hp.
  - cbn in Hp. injection Hp as <-. reflexivity.
  - cbn [parse_set] in Hp. unfold parse_range in Hp. cbn [fst snd] in Hp.
    destruct (parse_seqnum w1) as [p1|] eqn:H1; [|discriminate].
    destruct (parse_seqnum w2) as [p2|] eqn:H2; [|discriminate].
    destruct (parse_set t) as [pt|] eqn:Ht; [|discriminate].
    injection Hp as <-. specialize (IH pt eq_refl).
    rewrite set_ok_cons.
    cbn [map seq_msgs].
    destruct (resolve_interval_seq cnt w1 w2 p1 p2 Hc H1 H2) as [Hok Hbad]. cbn zeta in Hok, Hbad.
    destruct (w_ok cnt w1 && w_ok cnt w2) eqn:O.
    + rewrite (Hok eq_refl). rewrite (seq_interval_ok cnt (w1,w2) O).
      rewrite IH. cbn [andb]. destruct (set_ok cnt t); reflexivity.
    + rewrite (Hbad eq_refl). reflexivity.
Qed.

Lemma spec_seq_list_In cnt s p : In p (spec_seq_list cnt s) <-> spec_seq_mem cnt s p.
Proof.
  unfold spec_seq_list, spec_seq_mem. rewrite in_concat. split.
  - intros (l & Hl & Hp). apply in_map_iff in Hl as (r & <- & Hr). exists r. split; auto.
    now apply interval_list_In.
  - intros (r & Hr & Hp). exists (interval_list (w_lo cnt r) (w_hi cnt r)). split.
    + apply in_map_iff. exists r; auto.
    + now apply interval_list_In.
Qed.

Lemma set_ok_false_witness cnt s : set_ok cnt s = false <->
  exists r, In r s /\ (w_ok cnt (fst r) = false \/ w_ok cnt (snd r) = false).
Proof.
  unfold set_ok. induction s as [|r t IH]; cbn [forallb].
  - split; [discriminate|]. intros (r & [] & _).
  - rewrite andb_false_iff, IH, andb_false_iff. split.
    + intros [H|(r' & Hin & H)]; [exists r; split; [left; reflexivity|exact H] | exists r'; split; [right; exact Hin|exact H]].
    + intros (r' & [<-|Hin] & H); [left; exact H | right; exists r'; auto].
Qed.

(* ---------- UID mode ---------- *)
Fixpoint all_gt (u : N) (l : list N) : Prop := match l with [] => True | y :: r => u < y /\ all_gt u r end.
Fixpoint srt (l : list N) : Prop := match l with [] => True | x :: r => all_gt x r /\ srt r end.

Lemma all_gt_In u l : all_gt u l <-> forall y, In y l -> u < y.
Proof. induction l as [|a t IH]; cbn; [tauto|]. rewrite IH. split.
  - intros [H1 H2] y [<-|Hy]; auto.
  - intros H. split; [apply H; auto|]. intros y Hy. apply H; auto. Qed.

(* membership in the slice [lower_bound lo, upper) of a sorted list *)
Lemma lower_bound_le x l : (lower_bound x l <= length l)%nat.
Proof. induction l as [|u t IH]; cbn; [lia|]. destruct (u <? x); cbn; lia. Qed.

Lemma skipn_lower_bound x l : srt l -> forall u, In u (skipn (lower_bound x l) l) <-> In u l /\ x <= u.
Proof.
  induction l as [|a t IH]; cbn [lower_bound skipn srt In].
  - intros _ u. tauto.
  - intros [Hg Hs] u. destruct (N.ltb_spec a x).
    + cbn [skipn]. rewrite (IH Hs). split; [intros [A B]; auto|].
      intros [[<-|A] B]; [lia|auto].
    + cbn [skipn In]. rewrite all_gt_In in Hg. split; [|tauto].
      intros [<-|A]; [split; [auto|lia]|]. split; [auto|]. specialize (Hg u A). lia.
Qed.

Lemma firstn_lower_bound x l : srt l -> forall u, In u (firstn (lower_bound x l) l) <-> In u l /\ u < x.
Proof.
  induction l as [|a t IH]; cbn [lower_bound firstn srt In].
  - intros _ u. tauto.
  - intros [Hg Hs] u. destruct (N.ltb_spec a x).
    + cbn [firstn In]. rewrite (IH Hs). split; [intros [<-|[A B]]; auto|].
      intros [[<-|A] B]; auto.
    + cbn [firstn In]. rewrite all_gt_In in Hg. split; [tauto|].
      intros [[<-|A] B]; [lia|]. specialize (Hg u A). lia.
Qed.

Lemma bs_found_In x l : srt l -> bs_found x l = true <-> In x l.
Proof.
  unfold bs_found. induction l as [|a t IH]; cbn [lower_bound nth_error srt In].
  - intros _. split; [discriminate|tauto].
  - intros [Hg Hs]. destruct (N.ltb_spec a x).
    + cbn [nth_error]. rewrite (IH Hs). split; [auto|]. intros [<-|A]; [lia|auto].
    + cbn [nth_error]. rewrite all_gt_In in Hg. split.
      * intros E. apply N.eqb_eq in E. auto.
      * intros [<-|A]; [apply N.eqb_refl|]. specialize (Hg x A). lia.
Qed.

Lemma srt_skipn n l : srt l -> srt (skipn n l).
Proof. revert l. induction n as [|k IH]; intros l; cbn [skipn]; [auto|]. destruct l as [|a t]; [auto|].
  cbn [srt]. intros [_ Hs]. apply IH. exact Hs. Qed.

(* firstn up to the upper index used by uidRange = the elements <= hi *)
Lemma firstn_S_lower_bound_found hi l : srt l -> In hi l ->
  forall v, In v (firstn (S (lower_bound hi l)) l) <-> In v l /\ v <= hi.
Proof.
  induction l as [|a t IH]; intros Hs F; [destruct F|].
  cbn [srt] in Hs. destruct Hs as [Hg Hs]. cbn [lower_bound].
  destruct (N.ltb_spec a hi).
  - destruct F as [->|F]; [lia|]. intros v. cbn [firstn In]. rewrite (IH Hs F). split.
    + intros [<-|[A B]]; [split; [auto|lia]|auto].
    + intros [[<-|A] B]; auto.
  - rewrite all_gt_In in Hg. intros v. cbn [firstn In]. split.
    + intros [<-|[]]. split; [auto|]. destruct F as [->|F]; [lia|]. specialize (Hg hi F). lia.
    + intros [[<-|A] B]; [auto|]. specialize (Hg v A). lia.
Qed.

Definition upper_index (hi : N) (l : list N) : nat :=
  let i0 := lower_bound hi l in
  let i1 := if bs_found hi l then S i0 else i0 in
  if Nat.leb (length l) i1 then length l else i1.

Lemma firstn_upper_index hi l : srt l -> forall v, In v (firstn (upper_index hi l) l) <-> In v l /\ v <= hi.
Proof.
  intros Hs. unfold upper_index.
  assert (Hin: forall v, In v (firstn (if bs_found hi l then S (lower_bound hi l) else lower_bound hi l) l)
                         <-> In v l /\ v <= hi).
  { destruct (bs_found hi l) eqn:F.
    - apply (bs_found_In hi l Hs) in F. apply firstn_S_lower_bound_found; assumption.
    - assert (Hnin: ~ In hi l) by (intros A; apply (bs_found_In hi l Hs) in A; congruence).
      intros w. rewrite (firstn_lower_bound hi l Hs). split.
      + intros [A B]. split; [auto|lia].
      + intros [A B]. split; [auto|]. destruct (N.eq_dec w hi) as [->|]; [contradiction|lia]. }
  destruct (Nat.leb_spec (length l) (if bs_found hi l then S (lower_bound hi l) else lower_bound hi l)) as [L|L].
  - intros w. rewrite <- (Hin w). rewrite firstn_all. rewrite firstn_all2 by lia. tauto.
  - exact Hin.
Qed.

Lemma In_firstn_In {A} (l : list A) j v : In v (firstn j l) -> In v l.
Proof. revert l. induction j as [|j IH]; intros l; [intros []|]. destruct l as [|a t]; [intros []|].
  cbn [firstn In]. intros [->|H]; auto. Qed.

Lemma In_skipn_In {A} (l : list A) i v : In v (skipn i l) -> In v l.
Proof. revert l. induction i as [|i IH]; intros l; [auto|]. destruct l as [|a t]; [intros []|].
  cbn [skipn]. intros H. right. auto. Qed.

Lemma slice_decomp (l0 : list N) i j v : srt l0 ->
  In v (firstn (j - i) (skipn i l0)) <-> In v (firstn j l0) /\ In v (skipn i l0).
Proof.
  revert l0 j. induction i as [|i IH]; intros l0 j Hs0.
  - cbn [skipn]. rewrite Nat.sub_0_r. split; [intros A; split; [auto|]|tauto].
    eapply In_firstn_In; eauto.
  - destruct l0 as [|a t].
    + cbn [skipn]. rewrite !firstn_nil. cbn. tauto.
    + cbn [skipn]. cbn [srt] in Hs0. destruct Hs0 as [Hg Hs0]. destruct j as [|j].
      * cbn [Nat.sub firstn In]. tauto.
      * cbn [Nat.sub firstn In]. rewrite (IH t j Hs0). split; [tauto|].
        intros [[<-|A] B]; [|tauto]. exfalso.
        rewrite all_gt_In in Hg. apply In_skipn_In in B. specialize (Hg a B). lia.
Qed.

(* uidRange / getWithUID for one resolved interval *)
Lemma uid_interval_In l lo hi : srt l -> lo <= hi ->
  forall u, In u (uid_interval_msgs l (lo, hi)) <-> In u l /\ lo <= u <= hi.
Proof.
  intros Hs Hle u. unfold uid_interval_msgs.
  destruct (N.eqb_spec lo hi) as [<-|Hne].
  - destruct (bs_found lo l) eqn:F.
    + apply (bs_found_In lo l Hs) in F. cbn [In]. split; [intros [<-|[]]; split; [auto|lia]|].
      intros [A B]. left. lia.
    + cbn [In]. split; [tauto|]. intros [A B]. assert (u = lo) as -> by lia.
      apply (bs_found_In lo l Hs) in A. congruence.
  - destruct (Nat.leb_spec (length l) (lower_bound lo l)) as [L|L].
    + cbn [In]. split; [tauto|]. intros [A B]. exfalso.
      assert (In u (skipn (lower_bound lo l) l)) as C by (apply (skipn_lower_bound lo l Hs); split; [auto|lia]).
      rewrite skipn_all2 in C by lia. destruct C.
    + fold (upper_index hi l).
      rewrite (slice_decomp l (lower_bound lo l) (upper_index hi l) u Hs).
      rewrite (firstn_upper_index hi l Hs). rewrite (skipn_lower_bound lo l Hs). tauto.
Qed.

(* ---------- whole sets, UID mode ---------- *)
Lemma srt_le_last l u : srt l -> In u l -> u <= last_uid l.
Proof.
  unfold last_uid. induction l as [|a t IH]; [intros _ []|].
  cbn [srt]. intros [Hg Hs] [<-|Hin].
  - destruct t as [|b t']; [cbn; lia|]. rewrite all_gt_In in Hg.
    assert (In (last (b :: t') 0) (b :: t')).
    { clear. generalize b. induction t' as [|c t'' IH]; intros b0; [left; reflexivity|].
      right. apply IH. }
    change (last (a :: b :: t') 0) with (last (b :: t') 0). specialize (Hg _ H). lia.
  - destruct t as [|b t']; [destruct Hin|]. change (last (a :: b :: t') 0) with (last (b :: t') 0). auto.
Qed.

Lemma resolve_uid_val uids w p : parse_seqnum w = Some p ->
  resolve_uid uids p = w_val (last_uid uids) w /\ (is_star p = true <-> w = WStar).
Proof.
  intros Hp. pose proof (parse_seqnum_spec w) as S. rewrite Hp in S.
  destruct p as [k|].
  - destruct S as [-> [H0 H1]]. cbn. split; [apply narrow32_small; exact H1|]. split; discriminate.
  - subst w. cbn. split; [reflexivity|]. split; reflexivity.
Qed.

Definition spec_uid_range_mem (uids : list N) (r : wrange) (u : N) : Prop :=
  exempt_range uids r = false /\ w_lo (last_uid uids) r <= u <= w_hi (last_uid uids) r.

Lemma uid_range_correct uids w1 w2 p1 p2 : srt uids ->
  parse_seqnum w1 = Some p1 -> parse_seqnum w2 = Some p2 ->
  forall u, In u (uid_interval_msgs uids (resolve_interval (resolve_uid uids) (p1, p2)))
            <-> In u uids /\ spec_uid_range_mem uids (w1, w2) u.
Proof.
  intros Hs H1 H2 u.
  destruct (resolve_uid_val uids w1 p1 H1) as [V1 S1].
  destruct (resolve_uid_val uids w2 p2 H2) as [V2 S2].
  pose proof (parse_seqnum_spec w1) as P1. rewrite H1 in P1.
  pose proof (parse_seqnum_spec w2) as P2. rewrite H2 in P2.
  unfold spec_uid_range_mem, resolve_interval, w_lo, w_hi. cbn [fst snd].
  set (L := last_uid uids) in *.
  destruct (pnum_eqb p1 p2) eqn:E.
  - pose proof (pnum_eqb_spec_val 0 _ _ _ _ H1 H2 E) as <-.
    rewrite V1. rewrite (uid_interval_In uids _ _ Hs) by lia.
    rewrite N.min_id, N.max_id.
    assert (exempt_range uids (w1, w1) = false) as -> by (destruct w1; reflexivity). tauto.
  - destruct p1 as [a|], p2 as [b|]; cbn [is_star]; cbn in E.
    + destruct P1 as [-> [Ha0 Ha1]]. destruct P2 as [-> [Hb0 Hb1]].
      cbn [w_val] in V1, V2. cbn [w_val exempt_range]. rewrite V1, V2.
      destruct (N.ltb_spec b a).
      * rewrite (uid_interval_In uids _ _ Hs) by lia. split; [intros [A B]; repeat split; auto; lia|].
        intros [A [_ B]]. split; [auto|lia].
      * rewrite (uid_interval_In uids _ _ Hs) by lia. split; [intros [A B]; repeat split; auto; lia|].
        intros [A [_ B]]. split; [auto|lia].
    + destruct P1 as [-> [Ha0 Ha1]]. subst w2. cbn [w_val] in V1, V2. cbn [w_val exempt_range].
      rewrite V1, V2. fold L.
      destruct (N.ltb_spec L a).
      * rewrite (uid_interval_In uids _ _ Hs) by lia. split.
        -- intros [A B]. pose proof (srt_le_last uids u Hs A). fold L in H0. lia.
        -- intros [_ [C _]]. discriminate.
      * rewrite (uid_interval_In uids _ _ Hs) by lia. split; [intros [A B]; repeat split; auto; lia|].
        intros [A [_ B]]. split; [auto|lia].
    + subst w1. destruct P2 as [-> [Hb0 Hb1]]. cbn [w_val] in V1, V2. cbn [w_val exempt_range].
      rewrite V1, V2. fold L.
      destruct (N.ltb_spec L b).
      * rewrite (uid_interval_In uids _ _ Hs) by lia. split.
        -- intros [A B]. pose proof (srt_le_last uids u Hs A). fold L in H0. lia.
        -- intros [_ [C _]]. discriminate.
      * rewrite (uid_interval_In uids _ _ Hs) by lia. split; [intros [A B]; repeat split; auto; lia|].
        intros [A [_ B]]. split; [auto|lia].
    + discriminate.
Qed.

Lemma parse_set_some_iff s : (exists ps, parse_set s = Some ps) <-> set32 s = true.
Proof.
  unfold set32. induction s as [|[w1 w2] t IH]; cbn [parse_set forallb fst snd].
  - split; [reflexivity|]. intros _. eexists; reflexivity.
  - unfold parse_range. cbn [fst snd].
    pose proof (parse_seqnum_spec w1) as P1. pose proof (parse_seqnum_spec w2) as P2.
    assert (A1: (exists p, parse_seqnum w1 = Some p) <-> w32 w1 = true).
    { destruct (parse_seqnum w1) as [[k|]|].
      - destruct P1 as [-> [A B]]. cbn. split; [intros _|intros _; eexists; reflexivity].
        apply andb_true_iff. split; [apply N.ltb_lt|apply N.ltb_lt]; assumption.
      - subst w1. cbn. split; [reflexivity|intros _; eexists; reflexivity].
      - destruct P1 as (n & -> & Hn). cbn. split; [intros [p Hp]; discriminate|].
        intros H. apply andb_true_iff in H as [A B]. apply N.ltb_lt in A, B. lia. }
    assert (A2: (exists p, parse_seqnum w2 = Some p) <-> w32 w2 = true).
    { destruct (parse_seqnum w2) as [[k|]|].
      - destruct P2 as [-> [A B]]. cbn. split; [intros _|intros _; eexists; reflexivity].
        apply andb_true_iff. split; [apply N.ltb_lt|apply N.ltb_lt]; assumption.
      - subst w2. cbn. split; [reflexivity|intros _; eexists; reflexivity].
      - destruct P2 as (n & -> & Hn). cbn. split; [intros [p Hp]; discriminate|].
        intros H. apply andb_true_iff in H as [A B]. apply N.ltb_lt in A, B. lia. }
    rewrite !andb_true_iff, <- IH, <- A1, <- A2. split.
    + destruct (parse_seqnum w1); [|intros [? ?]; discriminate].
      destruct (parse_seqnum w2); [|intros [? ?]; discriminate].
      destruct (parse_set t); [|intros [? ?]; discriminate].
      intros _. repeat split; eexists; reflexivity.
    + intros [[[p1 ->] [p2 ->]] [pt ->]]. eexists; reflexivity.
Qed.

Definition spec_uid_mem' (uids : list N) (s : wset) (u : N) : Prop :=
  In u uids /\ exists r, In r s /\ spec_uid_range_mem uids r u.

Theorem impl_uid_correct uids s : srt uids -> set32 s = true ->
  exists l, impl_uid uids s = Some l /\ forall u, In u l <-> spec_uid_mem' uids s u.
Proof.
  intros Hs H32. apply parse_set_some_iff in H32 as [ps Hp]. unfold impl_uid. rewrite Hp.
  destruct uids as [|u0 ut] eqn:Eu.
  - exists []. split; [reflexivity|]. intros u. split; [intros []|]. intros [[] _].
  - rewrite <- Eu in *. clear Eu u0 ut. eexists. split; [reflexivity|].
    intros u. rewrite dedup_first_In. revert u.
    revert ps Hp. induction s as [|[w1 w2] t IH]; intros ps Hp u.
    + cbn in Hp. injection Hp as <-. cbn. split; [intros []|]. intros [_ (r & [] & _)].
    + cbn [parse_set] in Hp. unfold parse_range in Hp. cbn [fst snd] in Hp.
      destruct (parse_seqnum w1) as [p1|] eqn:H1; [|discriminate].
      destruct (parse_seqnum w2) as [p2|] eqn:H2; [|discriminate].
      destruct (parse_set t) as [pt|] eqn:Ht; [|discriminate].
      injection Hp as <-. cbn [map concat]. rewrite in_app_iff.
      rewrite (uid_range_correct uids w1 w2 p1 p2 Hs H1 H2). rewrite (IH pt eq_refl u).
      unfold spec_uid_mem'. split.
      * intros [[A B]|[A (r & Hr & B)]].
        -- split; [auto|]. exists (w1, w2). split; [left; reflexivity|exact B].
        -- split; [auto|]. exists r. split; [right; exact Hr|exact B].
      * intros [A (r & [<-|Hr] & B)].
        -- left. auto.
        -- right. split; [auto|]. exists r. auto.
Qed.

Theorem impl_uid_invalid_is_bad uids s : set32 s = false -> impl_uid uids s = None.
Proof.
  intros H. unfold impl_uid. destruct (parse_set s) eqn:E; [|reflexivity].
  assert (set32 s = true) by (apply parse_set_some_iff; eexists; eauto). congruence.
Qed.

(* ---------- corollaries used by Props/C16.v ---------- *)
Lemma seq_selected_iff_denoted cnt s l p : cnt < two32 -> impl_seq cnt s = Some l ->
  (In p l <-> spec_seq_mem cnt s p).
Proof.
  intros Hc H. rewrite (impl_seq_correct cnt s Hc) in H. destruct (set_ok cnt s); [|discriminate].
  injection H as <-. rewrite dedup_first_In. apply spec_seq_list_In.
Qed.

Lemma seq_in_view cnt s l p : cnt < two32 -> impl_seq cnt s = Some l -> In p l -> 1 <= p <= cnt.
Proof.
  intros Hc H Hin. pose proof H as H0. rewrite (impl_seq_correct cnt s Hc) in H.
  destruct (set_ok cnt s) eqn:O; [|discriminate].
  apply (seq_selected_iff_denoted cnt s l p Hc H0) in Hin. destruct Hin as (r & Hr & Hp).
  unfold set_ok in O. rewrite forallb_forall in O. specialize (O r Hr).
  apply andb_true_iff in O as [O1 O2]. destruct r as [w1 w2]. unfold w_lo, w_hi in Hp. cbn [fst snd] in *.
  assert (B: forall w, w_ok cnt w = true -> 1 <= w_val cnt w <= cnt).
  { intros [n|] Hw; cbn in Hw |- *.
    - apply andb_true_iff in Hw as [A B]. apply N.ltb_lt in A. apply N.leb_le in B. lia.
    - apply N.ltb_lt in Hw. lia. }
  pose proof (B w1 O1). pose proof (B w2 O2). lia.
Qed.

Lemma seq_beyond_count_is_bad cnt s r n : cnt < two32 -> In r s ->
  (fst r = WNum n \/ snd r = WNum n) -> cnt < n -> impl_seq cnt s = None.
Proof.
  intros Hc Hr Hn Hgt. rewrite (impl_seq_correct cnt s Hc).
  assert (set_ok cnt s = false) as ->; [|reflexivity].
  apply set_ok_false_witness. exists r. split; [exact Hr|].
  assert (w_ok cnt (WNum n) = false).
  { cbn. destruct (N.ltb_spec 0 n); cbn; [|reflexivity]. destruct (N.leb_spec n cnt); [lia|reflexivity]. }
  destruct Hn as [->| ->]; auto.
Qed.

Lemma seq_empty_mailbox_is_bad s : s <> [] -> impl_seq 0 s = None.
Proof.
  intros Hne. rewrite (impl_seq_correct 0 s) by (rewrite two32_val; lia).
  destruct s as [|[w1 w2] t]; [congruence|]. rewrite set_ok_cons.
  assert (w_ok 0 w1 = false) as ->; [|reflexivity].
  destruct w1 as [n|]; cbn; [|reflexivity].
  destruct (N.ltb_spec 0 n); cbn; [|reflexivity]. destruct (N.leb_spec n 0); [lia|reflexivity].
Qed.

Lemma seq_bad_only_if_required cnt s : cnt < two32 -> impl_seq cnt s = None ->
  exists r, In r s /\ (w_ok cnt (fst r) = false \/ w_ok cnt (snd r) = false).
Proof.
  intros Hc H. rewrite (impl_seq_correct cnt s Hc) in H. destruct (set_ok cnt s) eqn:O; [discriminate|].
  apply set_ok_false_witness. exact O.
Qed.

Lemma seq_nodup cnt s l : impl_seq cnt s = Some l -> NoDup l.
Proof.
  unfold impl_seq. destruct (parse_set s); [|discriminate].
  destruct (seq_msgs _ _); [|discriminate]. intros [= <-]. apply dedup_first_NoDup.
Qed.

(* UID mode: each selected message is selected once, whatever the set repeats *)
Lemma uid_nodup uids s l : impl_uid uids s = Some l -> NoDup l.
Proof.
  unfold impl_uid. destruct (parse_set s); [|discriminate].
  destruct uids; intros [= <-]; [constructor|apply dedup_first_NoDup].
Qed.

(* UID mode: everything selected is the UID of a message of the view (never a number that is merely in range) *)
Lemma uid_selected_exist uids s l u : srt uids -> impl_uid uids s = Some l -> In u l -> In u uids.
Proof.
  intros Hs Hl Hu. destruct (set32 s) eqn:E32.
  - destruct (impl_uid_correct uids s Hs E32) as (l' & Hl' & Hm). rewrite Hl in Hl'. injection Hl' as <-.
    apply Hm in Hu. exact (proj1 Hu).
  - rewrite (impl_uid_invalid_is_bad uids s E32) in Hl. discriminate.
Qed.
