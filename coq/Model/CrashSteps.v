(* C07 — crash / failure model: every operation is a LIST OF STEPS over (message store, committed database, pending
   transaction); the process can die after any step, any step can return an error; [cs_recover] is the start-up
   clean-up.

   Mirrors (step lists read off the code, Appendix F of DESIGN.md, confirmed by the recorded traces of harness/cmd/c07):
   /repo/internal/state/state.go (stateDBWrite: TWO transactions, the second one only distributes state updates),
   /repo/internal/state/actions.go + mailbox.go (APPEND = actionCreateMessage: store.SetUnchecked BEFORE the row insert inside
   the transaction; COPY / MOVE / EXPUNGE: row statements only), internal/state/state.go Create/Delete/Rename,
   /repo/internal/backend/connector_updates.go (applyMessagesCreated: per chunk of db.ChunkLimit new messages the store sets, then
   the inserts; on error the new files are deleted;
   applyMessageUpdated: insert, THEN store.Set, inside the transaction; applyMessageDeleted (after C06-fix-3)),
   /repo/internal/backend/user.go (removeState: rows first, files afterwards; newUser: deleteAllMessagesMarkedDeleted,
   cleanupStaleStoreData), /repo/internal/db_impl/sqlite3/client.go (wrapTx: commit or rollback),
   /repo/store/disk.go (Set/Delete/List), /repo/internal/state/state.go getLiteral (a listed message whose cache file is missing
   is downloaded again from the connector unless it is a recovered message).

   SQLite's atomic commit is the semantics of [SCommit]/[cs_crash]: a transaction is visible iff its commit step happened.
   No proofs in this file. *)
From Coq Require Import List NArith Bool.
Import ListNotations.
Open Scope N_scope.

Definition cs_bytes := list N.

(* ---- database ---- *)
Record cs_db := mkDb {
  db_mbs : list (N * N);          (* mailbox id, meta token (name, UIDVALIDITY, subscription, remote id) *)
  db_msgs : list (N * bool);      (* message id, marked deleted *)
  db_rows : list (N * N * N);     (* mailbox, uid, message *)
  db_flags : list (N * N)         (* message, flags token *)
}.

Inductive cs_stmt :=
| StInsertMsg (id : N)
| StInsertRow (mb uid id : N)
| StDeleteRow (mb id : N)
| StMark (id : N)                  (* messages.deleted := true *)
| StDeleteMsg (id : N)             (* purge of a message row (and its flag rows) *)
| StCreateMb (mb meta : N)
| StDeleteMb (mb : N)              (* DROP TABLE mailbox_message_<mb> + DELETE FROM mailboxes *)
| StSetMeta (mb meta : N)          (* rename, subscription, UIDVALIDITY, remote id *)
| StSetFlags (id fl : N)
| StNeutral.                       (* statements on tables outside the view: recent flags, settings, deleted subscriptions *)

Definition row_mb (r : N * N * N) : N := fst (fst r).
Definition row_uid (r : N * N * N) : N := snd (fst r).
Definition row_msg (r : N * N * N) : N := snd r.

Definition cs_run_stmt (st : cs_stmt) (d : cs_db) : cs_db :=
  match st with
  | StInsertMsg id => mkDb (db_mbs d) (db_msgs d ++ [(id, false)]) (db_rows d) (db_flags d)
  | StInsertRow mb uid id => mkDb (db_mbs d) (db_msgs d) (db_rows d ++ [(mb, uid, id)]) (db_flags d)
  | StDeleteRow mb id =>
      mkDb (db_mbs d) (db_msgs d) (filter (fun r => negb ((row_mb r =? mb) && (row_msg r =? id))) (db_rows d)) (db_flags d)
  | StMark id => mkDb (db_mbs d) (map (fun p => if fst p =? id then (fst p, true) else p) (db_msgs d)) (db_rows d) (db_flags d)
  | StDeleteMsg id =>
      mkDb (db_mbs d) (filter (fun p => negb (fst p =? id)) (db_msgs d)) (db_rows d)
           (filter (fun p => negb (fst p =? id)) (db_flags d))
  | StCreateMb mb meta => mkDb (db_mbs d ++ [(mb, meta)]) (db_msgs d) (db_rows d) (db_flags d)
  | StDeleteMb mb =>
      mkDb (filter (fun p => negb (fst p =? mb)) (db_mbs d)) (db_msgs d)
           (filter (fun r => negb (row_mb r =? mb)) (db_rows d)) (db_flags d)
  | StSetMeta mb meta => mkDb (map (fun p => if fst p =? mb then (mb, meta) else p) (db_mbs d)) (db_msgs d) (db_rows d) (db_flags d)
  | StSetFlags id fl => mkDb (db_mbs d) (db_msgs d) (db_rows d) ((id, fl) :: filter (fun p => negb (fst p =? id)) (db_flags d))
  | StNeutral => d
  end.

Definition cs_has_msg (d : cs_db) (id : N) : bool := existsb (fun p => fst p =? id) (db_msgs d).
Definition cs_marked (d : cs_db) (id : N) : bool := existsb (fun p => (fst p =? id) && snd p) (db_msgs d).
Definition cs_listed (d : cs_db) (id : N) : bool := existsb (fun r => row_msg r =? id) (db_rows d).
Definition cs_flags_of (d : cs_db) (id : N) : option N :=
  match find (fun p => fst p =? id) (db_flags d) with Some p => Some (snd p) | None => None end.

(* ---- machine ---- *)
Record cs_m := mkM { m_store : list (N * cs_bytes); m_db : cs_db; m_pend : option cs_db }.

Inductive cs_step :=
| SBegin | SStmt (st : cs_stmt) | SCommit
| SSet (id : N) (b : cs_bytes) | SDel (id : N)
| SGet (id : N) | SList | SRead | SConn (call : N).      (* no effect on store or database *)

Definition cs_store_get (s : list (N * cs_bytes)) (id : N) : option cs_bytes :=
  match find (fun p => fst p =? id) s with Some p => Some (snd p) | None => None end.
Definition cs_store_del (s : list (N * cs_bytes)) (id : N) : list (N * cs_bytes) :=
  filter (fun p => negb (fst p =? id)) s.

Definition cs_exec (m : cs_m) (st : cs_step) : cs_m :=
  match st with
  | SBegin => mkM (m_store m) (m_db m) (Some (m_db m))
  | SStmt q => mkM (m_store m) (m_db m) (option_map (cs_run_stmt q) (m_pend m))
  | SCommit => match m_pend m with Some p => mkM (m_store m) p None | None => m end
  | SSet id b => mkM ((id, b) :: cs_store_del (m_store m) id) (m_db m) (m_pend m)
  | SDel id => mkM (cs_store_del (m_store m) id) (m_db m) (m_pend m)
  | _ => m
  end.

Definition cs_run (l : list cs_step) (m : cs_m) : cs_m := fold_left cs_exec l m.

(* the process dies: the pending transaction is gone (SQLite rolls the journal back when the file is opened again) *)
Definition cs_crash (m : cs_m) : cs_m := mkM (m_store m) (m_db m) None.
Definition cs_crash_after (k : nat) (l : list cs_step) (m : cs_m) : cs_m := cs_crash (cs_run (firstn k l) m).
(* step k returns an error: it has no effect, wrapTx rolls back, the operation's own clean-up steps run *)
Definition cs_fail_at (k : nat) (l cleanup : list cs_step) (m : cs_m) : cs_m :=
  cs_run cleanup (cs_crash (cs_run (firstn k l) m)).

(* ---- start-up clean-up (newUser) ---- *)
Definition cs_marked_ids (d : cs_db) : list N := map fst (filter (fun p => snd p) (db_msgs d)).

(* deleteAllMessagesMarkedDeleted, database part: one transaction; it fails as a whole (NOT NULL on the mailbox table's
   message_id, error only logged) when a marked message is still listed in a mailbox *)
Definition cs_purge_db (d : cs_db) : cs_db * list N :=
  let ids := cs_marked_ids d in
  if existsb (cs_listed d) ids then (d, [])
  else (fold_left (fun x id => cs_run_stmt (StDeleteMsg id) x) ids d, ids).

(* store.Delete(ids...): stops at the first file that is missing *)
Fixpoint cs_del_seq (s : list (N * cs_bytes)) (ids : list N) : list (N * cs_bytes) :=
  match ids with
  | [] => s
  | id :: t => match cs_store_get s id with
               | None => s
               | Some _ => cs_del_seq (cs_store_del s id) t
               end
  end.

(* cleanupStaleStoreData: every file whose id has no message row is deleted *)
Definition cs_sweep (s : list (N * cs_bytes)) (d : cs_db) : list (N * cs_bytes) :=
  filter (fun p => cs_has_msg d (fst p)) s.

(* newUser runs the purge BEFORE the sweep ([purge_first] = true; the order is read from the source by the translator:
   Gen/FactsStartup.v startup_purge_before_sweep).  With the other order the sweep sees the marked rows still referencing
   their files and the files the aborted delete loop leaves behind stay. *)
Definition cs_recover_ord (purge_first : bool) (m : cs_m) : cs_m :=
  let '(d1, ids) := cs_purge_db (m_db m) in
  if purge_first then mkM (cs_sweep (cs_del_seq (m_store m) ids) d1) d1 None
  else mkM (cs_del_seq (cs_sweep (m_store m) (m_db m)) ids) d1 None.

Definition cs_recover (m : cs_m) : cs_m := cs_recover_ord true m.

(* ---- what a client can see ---- *)
Section View.
  (* the connector's copy of a message (None: the connector does not have it) and which ids are recovered messages *)
  Variable remote : N -> option cs_bytes.
  Variable recovered : N -> bool.

  (* State.getLiteral *)
  Definition cs_fetch (m : cs_m) (id : N) : option cs_bytes :=
    match cs_store_get (m_store m) id with
    | Some b => Some b
    | None => if recovered id then None else remote id
    end.

  Definition cs_dbview (d : cs_db) : list (N * N) * list (N * N * N * option N) :=
    (db_mbs d, map (fun r => (r, cs_flags_of d (row_msg r))) (db_rows d)).

  Definition cs_view (m : cs_m) :=
    (cs_dbview (m_db m), map (fun r => cs_fetch m (row_msg r)) (db_rows (m_db m))).
End View.

(* ---- the operations as step lists ---- *)
(* stateDBWrite's second transaction: distributes the state updates (statements on recent flags only) *)
Definition cs_broadcast : list cs_step := [SBegin; SStmt StNeutral; SCommit].

Inductive cs_op :=
| OpAppend (mb uid id : N) (b : cs_bytes)
| OpAppendRecovered (rmb uid id : N) (b : cs_bytes)
| OpCopy (dst : N) (items : list (N * N))                  (* (uid in dst, message) *)
| OpMove (src dst : N) (items : list (N * N))
| OpExpunge (mb : N) (ids : list N)
| OpStore (items : list (N * N))                           (* (message, new flags token) *)
| OpCreate (mbs : list (N * N))                            (* missing parents, then the mailbox *)
| OpDelete (mb : N)
| OpRename (news : list (N * N)) (renames : list (N * N))  (* parents created, then mailbox + inferiors renamed *)
| OpConnCreate (chunks : list (list (N * cs_bytes))) (rows : list (N * N * N))   (* new messages in chunks of db.ChunkLimit *)
| OpConnUpdate (old new : N) (b : cs_bytes) (oldrows : list N) (newrows : list (N * N))
| OpConnDelete (id : N) (mbs : list N)
| OpSessionEnd (ids : list N)                              (* removeState: purge of the messages marked deleted *)
| OpStartup.

Definition cs_steps (op : cs_op) (m : cs_m) : list cs_step :=
  match op with
  | OpAppend mb uid id b =>
      [SRead; SRead; SRead; SRead; SBegin; SConn 1; SRead; SSet id b; SStmt (StInsertMsg id); SStmt (StInsertRow mb uid id); SCommit]
      ++ cs_broadcast
  | OpAppendRecovered rmb uid id b =>
      [SBegin; SSet id b; SStmt (StInsertMsg id); SStmt (StInsertRow rmb uid id); SCommit] ++ cs_broadcast
  | OpCopy dst items =>
      [SRead; SBegin; SRead; SConn 2] ++ map (fun p => SStmt (StInsertRow dst (fst p) (snd p))) items ++ [SRead; SCommit]
      ++ cs_broadcast
  | OpMove src dst items =>
      [SRead; SBegin; SRead; SRead; SConn 3] ++ map (fun p => SStmt (StDeleteRow src (snd p))) items
      ++ map (fun p => SStmt (StInsertRow dst (fst p) (snd p))) items ++ [SRead; SCommit] ++ cs_broadcast
  | OpExpunge mb ids =>
      [SBegin; SRead; SConn 4] ++ map (fun id => SStmt (StDeleteRow mb id)) ids ++ [SCommit] ++ cs_broadcast
  | OpStore items =>
      [SBegin; SRead; SConn 5] ++ map (fun p => SStmt (StSetFlags (fst p) (snd p))) items ++ [SCommit] ++ cs_broadcast
  | OpCreate mbs =>
      [SBegin; SRead; SRead] ++ flat_map (fun p => [SConn 6; SStmt (StCreateMb (fst p) (snd p))]) mbs ++ [SCommit]
  | OpDelete mb =>
      [SBegin; SRead; SConn 7; SStmt StNeutral; SStmt (StDeleteMb mb); SCommit] ++ cs_broadcast
  | OpRename news renames =>
      [SBegin; SRead] ++ flat_map (fun p => [SConn 6; SStmt (StCreateMb (fst p) (snd p))]) news
      ++ [SConn 8] ++ map (fun p => SStmt (StSetMeta (fst p) (snd p))) renames ++ [SCommit]
  | OpConnCreate chunks rows =>
      [SBegin; SRead]
      ++ flat_map (fun ch => map (fun p => SSet (fst p) (snd p)) ch ++ map (fun p => SStmt (StInsertMsg (fst p))) ch) chunks
      ++ map (fun r => SStmt (StInsertRow (row_mb r) (row_uid r) (row_msg r))) rows ++ [SCommit]
  | OpConnUpdate old new b oldrows newrows =>
      [SRead; SBegin; SGet old] ++ map (fun mb => SStmt (StDeleteRow mb old)) oldrows
      ++ [SStmt (StMark old); SStmt (StInsertMsg new); SSet new b]
      ++ map (fun p => SStmt (StInsertRow (fst p) (snd p) new)) newrows ++ [SCommit]
  | OpConnDelete id mbs =>
      [SBegin; SRead; SStmt (StMark id)] ++ map (fun mb => SStmt (StDeleteRow mb id)) mbs ++ [SCommit]
  | OpSessionEnd ids =>
      [SRead; SBegin] ++ map (fun id => SStmt (StDeleteMsg id)) ids ++ [SCommit] ++ map SDel ids
  | OpStartup =>
      let '(_, ids) := cs_purge_db (m_db m) in
      (* get-or-create of the recovery mailbox (exists already on a restart) + hash map rebuilt from store reads *)
      cs_broadcast ++ [SConn 9] ++ [SBegin] ++ [SRead] ++ map (fun id => SStmt (StDeleteMsg id)) ids ++ [SCommit]
      ++ map SDel ids ++ [SList; SRead]
      (* cleanupStaleStoreData lists the store AFTER the deletions above *)
      ++ map SDel (map fst (filter (fun p => negb (cs_has_msg (fst (cs_purge_db (m_db m))) (fst p))) (cs_del_seq (m_store m) ids)))
  end.

(* the operation's own clean-up after an error (only applyMessagesCreated has one: the files it wrote are deleted) *)
Definition cs_cleanup (op : cs_op) : list cs_step :=
  match op with
  | OpConnCreate chunks _ => map (fun p => SDel (fst p)) (concat chunks)
  | _ => []
  end.

Definition cs_exec_op (op : cs_op) (m : cs_m) : cs_m := cs_run (cs_steps op m) m.

(* ---- what the caller is told ---- *)
(* A fault at step k (k < length l) makes the operation return an error PROVIDED wrapTx hands the error of COMMIT back
   whatever it is ([f_commit]: Gen/FactsStartup.v commit_error_always_returned) and, for applyMessagesCreated, the loop
   that deletes the new cache files does not overwrite the transaction's error ([f_cleanup]:
   conn_create_cleanup_keeps_error).  k >= length l: no fault, success. *)
Definition cs_reports_error (f_commit f_cleanup : bool) (op : cs_op) (l : list cs_step) (k : nat) : bool :=
  if Nat.leb (length l) k then false
  else match nth_error l k with Some SCommit => f_commit | _ => true end
       && match op with OpConnCreate _ _ => f_cleanup | _ => true end.

Definition cs_outcome (k : nat) (l cleanup : list cs_step) (m : cs_m) : cs_m :=
  if Nat.leb (length l) k then cs_run l m else cs_fail_at k l cleanup m.

(* ---- a lost cache file: State.getLiteral downloads the message again and refills the cache ---- *)
Section Refill.
  Variable remote : N -> option cs_bytes.
  Variable recovered : N -> bool.
  (* [served_form b] = the bytes served for the connector's literal b (internal-id header set); the cache is refilled
     with the SERVED bytes when [refill_served] (Gen/FactsStartup.v redownload_refills_served_bytes), else with b *)
  Variable served_form : cs_bytes -> cs_bytes.

  Definition cs_fetch_refill (refill_served : bool) (m : cs_m) (id : N) : cs_m * option cs_bytes :=
    match cs_store_get (m_store m) id with
    | Some b => (m, Some b)
    | None =>
        if recovered id then (m, None)
        else match remote id with
             | None => (m, None)
             | Some b => (mkM ((id, if refill_served then served_form b else b) :: cs_store_del (m_store m) id) (m_db m) (m_pend m),
                          Some (served_form b))
             end
    end.
End Refill.

(* ---- a start that fails (database.Init returns an error) ---- *)
(* backend.AddUser deletes and recreates the database only after a failed MIGRATION; for every other failure of Init
   ([keeps] = Gen/FactsStartup.v failed_init_keeps_database) the files are left alone *)
Definition cs_failed_start (keeps : bool) (m : cs_m) : cs_m :=
  if keeps then cs_crash m else mkM (m_store m) (mkDb [] [] [] []) None.

(* ---- statements over id lists run in chunks of db.ChunkLimit (xslices.Chunk) ---- *)
Section Chunks.
  Context {A : Type}.
  Fixpoint cs_chunks_fuel (fuel n : nat) (l : list A) : list (list A) :=
    match fuel with
    | O => []
    | S f => match l with [] => [] | _ => firstn n l :: cs_chunks_fuel f n (skipn n l) end
    end.
  Definition cs_chunks (n : nat) (l : list A) : list (list A) := cs_chunks_fuel (length l) n l.
  (* the defect class "the statement of a chunk binds the WHOLE list": go-sqlite3 uses the first k arguments, so each
     chunk's statement works on the first (length chunk) elements of the whole list *)
  Definition cs_chunks_whole_bound (n : nat) (l : list A) : list (list A) :=
    map (fun c => firstn (length c) l) (cs_chunks n l).
End Chunks.

(* DeleteMessages (purge) and the per-message flag statements, chunk by chunk: [own] = every chunk's statement binds the
   chunk itself (Gen/FactsStartup.v chunk_loops_bind_their_chunk) *)
Definition cs_chunked_stmts (own : bool) (n : nat) (f : N -> cs_stmt) (ids : list N) : list cs_stmt :=
  map f (concat (if own then cs_chunks n ids else cs_chunks_whole_bound n ids)).

(* ---- a FLAT argument list cut into chunks ---- *)
(* writeOps.CreateMessages binds the flags of a batch as one flat list (message id, flag, message id, flag, ...) and cuts
   THAT list into chunks of db.ChunkLimit VALUES; the statement of a chunk has len(chunk)/k groups "(?,..,?)" of k
   question marks.  [rows] = the rows (k values each).  What every statement should receive: whole rows — the chunks
   of the row list (n/k rows each), flattened. *)
Definition cs_row_chunks {A : Type} (k n : nat) (rows : list (list A)) : list (list A) :=
  map (@concat A) (cs_chunks (Nat.div n k) rows).

(* the flat chunk loops found in the source (Gen/FactsConnUpdates.v flat_chunk_groups): (question marks per group, the
   K of len(chunk)/K, chunk size).  Acceptable: the group has K question marks and K divides the chunk size. *)
Definition cs_flat_groups_ok (l : list (N * N * N)) : bool :=
  forallb (fun g => let '(q, k, n) := g in (q =? k) && (0 <? k) && (n mod k =? 0)) l.

(* ---- inside store.Set: the cache file is written piece by piece ---- *)
(* store/disk.go Set opens the file and issues one write call for the header, one for the nonce and one per sealed block;
   the process can die between two calls and inside one, so [pieces] is ANY way of cutting the new file content into
   consecutive writes.  [trunc] = the file is opened with O_TRUNC (Gen/FactsStartup.v store_set_truncates); without it
   the previous content stays where it is not overwritten.  [B] = a byte of the file, [Msg] = a message literal. *)
Section SetWrites.
  Context {B Msg : Type}.

  Definition cs_file_open (trunc : bool) (old : list B) : list B := if trunc then [] else old.

  (* one write call at offset [off] of the open file: replaces what is there, extends the file at its end *)
  Definition cs_file_write (off : nat) (piece file : list B) : list B :=
    firstn off file ++ piece ++ skipn (off + length piece) file.

  Fixpoint cs_file_writes (off : nat) (pieces : list (list B)) (file : list B) : list B :=
    match pieces with
    | [] => file
    | p :: ps => cs_file_writes (off + length p) ps (cs_file_write off p file)
    end.

  (* the file on disk when the process dies after [k] write calls of a Set over a file that contained [old]
     (k >= length pieces: Set went through) *)
  Definition cs_set_file (trunc : bool) (old : list B) (pieces : list (list B)) (k : nat) : list B :=
    cs_file_writes 0 (firstn k pieces) (cs_file_open trunc old).

  (* what Get answers for a file: [strict] decodes and reports a file that ends early as an error; when Get does not
     watch the end of the data it decodes ([tracks] = Gen/FactsStartup.v store_get_decodes_from_eof_tracker is false)
     its answer is whatever the [lenient] decoder makes of the bytes that are there *)
  Definition cs_file_decoder (tracks : bool) (strict lenient : list B -> option Msg) : list B -> option Msg :=
    if tracks then strict else lenient.

  (* the cache entry the step model sees for a file: a file Get rejects counts as no entry (State.getLiteral then
     downloads the message again, the start-up sweep / the next Set replace the file) *)
  Definition cs_file_view (get : list B -> option Msg) (file : option (list B)) : option Msg :=
    match file with Some f => get f | None => None end.
End SetWrites.
