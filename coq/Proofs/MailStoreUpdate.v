(* Lemmas about Model.MailStoreUpdate: the connector's MessageUpdated preserves the store invariant and extends the store,
   so the UID theorems of C04 hold for histories that interleave it with all other operations; a pure refresh is the
   identity. *)
From Coq Require Import List ZArith NArith Bool Lia.
From Gluon Require Import Gen.FactsLimits Model.UidValidityGen Model.MailStore Model.MailStoreUpdate
  Proofs.MailStoreBase Proofs.MailStoreWf Proofs.MailStoreC04.
Import ListNotations.
Open Scope Z_scope.

Section UpdateProofs.
Variable hash : N -> option N.
Variable fx : codefacts.
Variable c : cfg.
Variable clock : nat -> Z.

Lemma good_add_each_mbox : forall ids x s s', wf s -> add_each_mbox c ids x s = Some s' -> good s s'.
Proof.
  induction ids as [|i t IH]; intros x s s' W H; cbn [add_each_mbox] in H; [inversion H; subst; apply good_refl; assumption|].
  destruct (db_add c i [x] s) as [s1|] eqn:D; [|discriminate].
  eapply good_step; [eapply good_db_add; eassumption|]. intro W1. eapply IH; eassumption.
Qed.
Lemma good_del_each_mbox : forall ids id s, wf s -> good s (del_each_mbox ids id s).
Proof.
  induction ids as [|i t IH]; intros id s W; unfold del_each_mbox; cbn [fold_left]; [apply good_refl; assumption|].
  eapply good_step; [apply good_del_msgs; assumption|]. intro W1. apply (IH id _ W1).
Qed.

Theorem good_conn_update : forall s n u l ns, wf s -> good s (fst (conn_update c s n u l ns)).
Proof.
  intros s n u l ns W. unfold conn_update. destruct (find_name n (s_mboxes s)) as [m|]; [|apply good_refl; assumption].
  destruct (find_row u (mb_rows m)) as [r|]; [|apply good_refl; assumption].
  destruct (target_ids ns (s_mboxes s)) as [targets|]; [|apply good_refl; assumption].
  cbv zeta. destruct l as [l|].
  - match goal with |- context[add_each_mbox c ?ids ?y ?x] => destruct (add_each_mbox c ids y x) as [s1|] eqn:A end; cbn [fst].
    + eapply good_step; [apply good_bump_msg; assumption|]. intro W0.
      eapply good_step; [apply good_del_each_mbox; assumption|]. intro W1. eapply good_add_each_mbox; eassumption.
    + apply good_keep_mem. assumption.
  - match goal with |- context[add_each_mbox c ?ids ?y ?x] => destruct (add_each_mbox c ids y x) as [s1|] eqn:A end; cbn [fst];
      [|apply good_refl; assumption].
    eapply good_step; [eapply good_add_each_mbox; eassumption|]. intro W1. apply good_del_each_mbox. assumption.
Qed.

Theorem good_xstep : forall s o, wf s -> good s (fst (xstep hash fx c clock s o)).
Proof. intros s [o|n u l ns] W; cbn [xstep]; [apply good_step_op | apply good_conn_update]; assumption. Qed.
Theorem good_xrun : forall h s, wf s -> good s (xrun hash fx c clock s h).
Proof.
  induction h as [|o t IH]; intros s W; cbn [xrun]; [apply good_refl; assumption|].
  eapply good_step; [apply good_xstep; assumption|]. intro W1. apply IH. assumption.
Qed.

(* the UID clauses of C04 for histories with MessageUpdated *)
Notation xrun' := (xrun hash fx c clock).
Lemma xuid_strictly_increasing : forall s h l1 e l2 e' l3, wf s ->
  s_log (xrun' s h) = l1 ++ e :: l2 ++ e' :: l3 -> e_id e = e_id e' -> e_uid e < e_uid e'.
Proof.
  intros s h l1 e l2 e' l3 W E Hid. destruct (good_xrun h s W) as [W' _].
  eapply log_incr_split; [apply W' | exact E | assumption].
Qed.
Lemma xuid_never_reused : forall s h, wf s ->
  (exists n, s_log (xrun' s h) = s_log s ++ n) /\
  (forall e e', In e (s_log (xrun' s h)) -> In e' (s_log (xrun' s h)) -> e_id e = e_id e' -> e_uid e = e_uid e' -> e = e') /\
  (forall m r, In m (s_mboxes (xrun' s h)) -> In r (mb_rows m) -> exists v, In (mb_id m, v, fst r, snd r) (s_log (xrun' s h))).
Proof.
  intros s h W. destruct (good_xrun h s W) as [W' (_ & _ & E)]. split; [exact E|]. split.
  - intros e e' He He' Hi Hu. eapply log_incr_functional; [apply W' | assumption..].
  - apply W'.
Qed.
Lemma xuidnext_bounds : forall s h m e, wf s -> In m (s_mboxes (xrun' s h)) -> In e (s_log (xrun' s h)) -> e_id e = mb_id m ->
  1 <= e_uid e < mb_seq m + 1.
Proof.
  intros s h m e W Hm He Hid. destruct (good_xrun h s W) as [W' _].
  destruct (wf_log _ _ _ W' e He) as (_ & A & B). specialize (B m Hm (eq_sym Hid)). lia.
Qed.
Lemma xuidnext_monotone : forall s h m m', wf s -> In m (s_mboxes s) -> In m' (s_mboxes (xrun' s h)) -> mb_id m = mb_id m' ->
  mb_seq m + 1 <= mb_seq m' + 1.
Proof.
  intros s h m m' W Hm Hm' Hid. destruct (good_xrun h s W) as [W' (_ & E & _)].
  destruct (E m' Hm') as (m0 & H0 & I0 & S0); [rewrite <- Hid; apply W; assumption|].
  assert (m0 = m) by (apply (nodup_same_id (s_mboxes s)); [apply W | assumption | assumption | congruence]). subst. lia.
Qed.

(* a refresh that announces exactly the mailboxes the message is in is the identity *)
Lemma filter_none : forall A (f : A -> bool) l, (forall x, In x l -> f x = false) -> filter f l = [].
Proof.
  induction l as [|x t IH]; intro H; cbn [filter]; [reflexivity|]. rewrite (H x) by (left; reflexivity).
  apply IH. intros y Hy. apply H. right. assumption.
Qed.
Theorem refresh_identity : forall s n u ns m r targets, find_name n (s_mboxes s) = Some m -> find_row u (mb_rows m) = Some r ->
  target_ids ns (s_mboxes s) = Some targets ->
  (forall i, In i targets -> nmem i (holder_ids (fst (snd r)) (s_mboxes s)) = true) ->
  (forall i, In i (holder_ids (fst (snd r)) (s_mboxes s)) -> nmem i targets = true) ->
  conn_update c s n u None ns = (s, ResOk []).
Proof.
  intros s n u ns m r targets Fn Fr Ft H1 H2. unfold conn_update. rewrite Fn, Fr, Ft. cbv zeta.
  rewrite (filter_none _ _ targets) by (intros i Hi; rewrite (H1 i Hi); reflexivity).
  rewrite (filter_none _ _ (holder_ids _ _)) by (intros i Hi; rewrite (H2 i Hi); reflexivity).
  reflexivity.
Qed.
(* ---- what exactly a MessageUpdated does to the UID table of each mailbox ---- *)
Definition without (id : N) (rows : list row) : list row := filter (fun r : row => negb (nmem (fst (snd r)) [id])) rows.

Lemma find_id_ins_msgs : forall j i ms s m, find_id j (s_mboxes s) = Some m ->
  find_id j (s_mboxes (ins_msgs i ms s)) = Some (if N.eqb j i then mb_ins ms m else m).
Proof.
  intros j i ms s m F. destruct (find_id_in _ _ _ F) as [_ Hj]. unfold ins_msgs.
  destruct (find_id i (s_mboxes s)) as [mi|] eqn:Fi.
  - cbn [add_log set_mboxes s_mboxes]. rewrite find_id_upd by reflexivity. rewrite F, Hj. reflexivity.
  - rewrite F. destruct (N.eqb j i) eqn:E; [|reflexivity]. apply N.eqb_eq in E. subst i. rewrite F in Fi. discriminate.
Qed.
Lemma find_id_del_msgs : forall j i ids s m, find_id j (s_mboxes s) = Some m ->
  find_id j (s_mboxes (del_msgs i ids s)) = Some (if N.eqb j i then mb_del ids m else m).
Proof.
  intros j i ids s m F. destruct (find_id_in _ _ _ F) as [_ Hj]. unfold del_msgs. cbn [set_mboxes s_mboxes].
  rewrite find_id_upd by reflexivity. rewrite F, Hj. reflexivity.
Qed.

Lemma assign_app : forall a b q, assign q (a ++ b) = assign q a ++ assign (q + zlen a) b.
Proof.
  induction a as [|x t IH]; intros b q; cbn [app assign].
  - unfold zlen. cbn [length]. rewrite Z.add_0_r. reflexivity.
  - rewrite IH. cbn [app]. do 3 f_equal. unfold zlen. cbn [length]. lia.
Qed.

(* adding y to the mailboxes `ids`: mailbox j gets k new rows, all for y, at the UIDs after its UIDNEXT; k > 0 iff j is in ids *)
Lemma add_each_mbox_rows : forall ids y s s', add_each_mbox c ids y s = Some s' ->
  forall j m, find_id j (s_mboxes s) = Some m ->
  exists m' k, find_id j (s_mboxes s') = Some m' /\ mb_rows m' = mb_rows m ++ assign (mb_seq m) (repeat y k) /\
    mb_seq m' = mb_seq m + Z.of_nat k /\ ((0 < k)%nat <-> nmem j ids = true).
Proof.
  induction ids as [|i t IH]; intros y s s' H j m F; cbn [add_each_mbox] in H.
  - inversion H; subst. exists m, 0%nat. cbn [repeat assign nmem existsb]. rewrite app_nil_r, Z.add_0_r.
    repeat split; try assumption; try reflexivity; [intro; lia | intro; discriminate].
  - destruct (db_add c i [y] s) as [s1|] eqn:D; [|discriminate]. apply db_add_some in D. subst s1.
    pose proof (find_id_ins_msgs j i [y] s m F) as F1.
    destruct (IH y _ s' H j _ F1) as (m' & k & F' & R & Sq & K). destruct (N.eqb j i) eqn:E.
    + exists m', (S k). split; [assumption|]. cbn [mb_ins mb_rows mb_seq] in R, Sq. unfold zlen in R, Sq. cbn [length] in R, Sq.
      split; [|split; [lia|]].
      * rewrite R, <- app_assoc. reflexivity.
      * unfold nmem. cbn [existsb]. fold (nmem j t). rewrite E. cbn [orb]. split; [reflexivity | intro; lia].
    + exists m', k. split; [assumption|]. split; [assumption|]. split; [assumption|].
      unfold nmem. cbn [existsb]. fold (nmem j t). rewrite E. cbn [orb]. exact K.
Qed.

Lemma without_idem : forall id rows, without id (without id rows) = without id rows.
Proof.
  intros id rows. unfold without. induction rows as [|r t IH]; cbn [filter]; [reflexivity|].
  destruct (negb (nmem (fst (snd r)) [id])) eqn:E; [cbn [filter]; rewrite E, IH|]; auto.
Qed.
Lemma del_each_mbox_rows : forall ids id s j m, find_id j (s_mboxes s) = Some m ->
  exists m', find_id j (s_mboxes (del_each_mbox ids id s)) = Some m' /\ mb_seq m' = mb_seq m /\
    mb_rows m' = if nmem j ids then without id (mb_rows m) else mb_rows m.
Proof.
  induction ids as [|i t IH]; intros id s j m F; unfold del_each_mbox; cbn [fold_left].
  - exists m. cbn [nmem existsb]. auto.
  - pose proof (find_id_del_msgs j i [id] s m F) as F1. destruct (IH id _ j _ F1) as (m' & F' & S & R).
    exists m'. split; [exact F'|]. unfold nmem. cbn [existsb]. fold (nmem j t). destruct (N.eqb j i) eqn:E; cbn [orb].
    + change (mb_rows (mb_del [id] m)) with (without id (mb_rows m)) in R. cbn [mb_del mb_seq] in S. split; [assumption|].
      destruct (nmem j t); [rewrite without_idem in R|]; assumption.
    + split; assumption.
Qed.
Lemma without_absent : forall id m, has_msg m id = false -> without id (mb_rows m) = mb_rows m.
Proof.
  intros id m H. unfold has_msg in H. unfold without. induction (mb_rows m) as [|r t IH]; cbn [filter]; [reflexivity|].
  cbn [existsb] in H. apply orb_false_iff in H. destruct H as [H1 H2].
  assert (E : negb (nmem (fst (snd r)) [id]) = true).
  { unfold nmem. cbn [existsb]. apply negb_true_iff. apply orb_false_iff. split; [exact H1 | reflexivity]. }
  rewrite E. f_equal. apply IH. assumption.
Qed.
Lemma holder_spec : forall id l j m, find_id j l = Some m -> nmem j (holder_ids id l) = false -> has_msg m id = false.
Proof.
  intros id l j m F H. destruct (find_id_in _ _ _ F) as [Hin Hj]. destruct (has_msg m id) eqn:E; [|reflexivity].
  assert (In j (holder_ids id l)).
  { unfold holder_ids. apply in_map_iff. exists m. split; [assumption|]. apply filter_In. split; assumption. }
  unfold nmem in H. assert (existsb (N.eqb j) (holder_ids id l) = true); [|congruence].
  apply existsb_exists. exists j. split; [assumption | apply N.eqb_refl].
Qed.

(* REPLACEMENT: in every mailbox the rows of the old message disappear, all other rows keep their UIDs, and the new message
   (a new id) gets the UIDs right after the mailbox's UIDNEXT - k > 0 of them exactly in the announced mailboxes *)
Theorem replacement_rows : forall s n u l ns s' a m0 r, find_name n (s_mboxes s) = Some m0 -> find_row u (mb_rows m0) = Some r ->
  conn_update c s n u (Some l) ns = (s', ResOk a) ->
  exists targets, target_ids ns (s_mboxes s) = Some targets /\
  forall j m, find_id j (s_mboxes s) = Some m ->
  exists m' k, find_id j (s_mboxes s') = Some m' /\
    mb_rows m' = without (fst (snd r)) (mb_rows m) ++ assign (mb_seq m) (repeat (s_nextmsg s, l) k) /\
    mb_seq m' = mb_seq m + Z.of_nat k /\ ((0 < k)%nat <-> nmem j targets = true).
Proof.
  intros s n u l ns s' a m0 r Fn Fr H. unfold conn_update in H. rewrite Fn, Fr in H.
  destruct (target_ids ns (s_mboxes s)) as [targets|]; [|inversion H]. exists targets. split; [reflexivity|]. cbv zeta in H.
  match type of H with context[add_each_mbox c ?ids ?y ?x] => destruct (add_each_mbox c ids y x) as [s1|] eqn:A end; inversion H; subst s1.
  intros j m F. set (old := fst (snd r)) in *.
  destruct (del_each_mbox_rows (holder_ids old (s_mboxes s)) old (bump_msg 1 s) j m F) as (m1 & F1 & S1 & R1).
  destruct (add_each_mbox_rows _ _ _ _ A j m1 F1) as (m' & k & F' & R & S & K). exists m', k. split; [assumption|].
  rewrite S1 in R, S. split; [|split; assumption]. rewrite R. f_equal. rewrite R1.
  destruct (nmem j (holder_ids old (s_mboxes s))) eqn:E; [reflexivity|]. symmetry. apply without_absent.
  eapply holder_spec; eassumption.
Qed.

(* REFRESH: a mailbox that holds the message and is announced keeps its UID table *)
Theorem refresh_keeps_held : forall s n u ns s' a m0 r targets, find_name n (s_mboxes s) = Some m0 -> find_row u (mb_rows m0) = Some r ->
  target_ids ns (s_mboxes s) = Some targets -> conn_update c s n u None ns = (s', ResOk a) ->
  forall j m, find_id j (s_mboxes s) = Some m ->
  nmem j targets = nmem j (holder_ids (fst (snd r)) (s_mboxes s)) ->
  exists m', find_id j (s_mboxes s') = Some m' /\ mb_rows m' = mb_rows m /\ mb_seq m' = mb_seq m.
Proof.
  intros s n u ns s' a m0 r targets Fn Fr Ft H j m F Hsame. unfold conn_update in H. rewrite Fn, Fr, Ft in H. cbv zeta in H.
  match type of H with context[add_each_mbox c ?ids ?y ?x] => destruct (add_each_mbox c ids y x) as [s1|] eqn:A end; inversion H; subst s'.
  destruct (add_each_mbox_rows _ _ _ _ A j m F) as (m1 & k & F1 & R1 & S1 & K).
  assert (k = 0%nat) as ->.
  { destruct k; [reflexivity|]. assert (Hk : (0 < S k)%nat) by lia. apply K in Hk. unfold nmem in Hk. apply existsb_exists in Hk.
    destruct Hk as (x & Hx & Ex). apply N.eqb_eq in Ex. subst x. apply filter_In in Hx. destruct Hx as [Hx1 Hx2].
    assert (nmem j targets = true) by (apply existsb_exists; exists j; split; [assumption | apply N.eqb_refl]).
    apply negb_true_iff in Hx2. assert (X : nmem j (holder_ids (fst (snd r)) (s_mboxes s)) = false) by exact Hx2.
    rewrite <- Hsame, H0 in X. discriminate. }
  cbn [repeat assign] in R1. rewrite app_nil_r in R1. rewrite Z.add_0_r in S1.
  match goal with |- context[del_each_mbox ?ids ?id s1] => destruct (del_each_mbox_rows ids id s1 j m1 F1) as (m' & F' & S & R) end.
  exists m'. split; [assumption|]. split; [|congruence]. rewrite R, R1.
  match goal with |- context[nmem j ?l] => destruct (nmem j l) eqn:E end; [|reflexivity].
  unfold nmem in E. apply existsb_exists in E. destruct E as (x & Hx & Ex). apply N.eqb_eq in Ex. subst x.
  apply filter_In in Hx. destruct Hx as [Hx1 Hx2].
  assert (X : nmem j (holder_ids (fst (snd r)) (s_mboxes s)) = true) by (apply existsb_exists; exists j; split; [exact Hx1 | apply N.eqb_refl]).
  rewrite <- Hsame in X. unfold nmem in X. rewrite X in Hx2. discriminate.
Qed.
End UpdateProofs.
