(* MailboxActions — model of how the IMAP message commands are composed from db operations.

   Models (Go, /repo/internal/state):
     mailbox.go          Mailbox.AppendRegular / Copy / Move / Store / Expunge  (one db.Write transaction per command)
     actions.go          actionCreateMessage, actionAddMessagesToMailbox, actionRemoveMessagesFromMailbox(Unchecked),
                         actionMoveMessages, actionAddMessageFlags / actionRemoveMessageFlags / actionSetMessageFlags
     updates.go          applyMessageFlagsAdded / applyMessageFlagsRemoved / applyMessageFlagsSet
     updates_mailbox.go  AddMessagesToMailbox, MoveMessagesFromMailbox, RemoveMessagesFromMailbox
   over the relational index of Model/RelDb.v at the impl level (`exec_impl F ci`: chunked statements with the
   generated bind-argument facts F; ci = the generated fact "flag removal compares case-insensitively").

   Not modelled: the connector calls (the harness' connector accepts everything and returns fresh remote ids; the
   remote id of message m is m), the IMAP limits (defaults are far above the generated sizes), the state updates
   that a command queues for the sessions (C01/C02), the message store (C09).  The model follows the code after the
   proposed repair C03-fix-3 (MOVE only touches the
   messages still in the source); CreateMessageAndAddToMailbox itself keeps \Deleted out of the shared flags.

   A command is one transaction: if any db operation fails the database is unchanged and the answer is NO. *)
From Coq Require Import String Ascii.
From Coq Require Import List NArith Bool.
From Gluon Require Import Model.Chunks Model.SqlBindFacts Model.RelDb Model.MailboxRef.
Import ListNotations.
Open Scope list_scope.
Open Scope N_scope.

Section Actions.
  Variable F : list stmt_fact.
  Variable ci : bool.

  Definition ex (o : op) (d : db) : result := exec_impl F ci o d.

  Definition rbind (r : result) (k : db -> rval -> result) : result :=
    match r with Ok d v => k d v | Fail e => Fail e end.
  Definition nums_of (v : rval) : list N := match v with RNums l => l | _ => [] end.
  Definition msgflags_of (v : rval) : list (N * N * list flag) := match v with RMsgFlags l => l | _ => [] end.
  Definition pairs (ids : list N) : list (N * N) := map (fun m => (m, m)) ids.

  (* updates_mailbox.go RemoveMessagesFromMailbox: `if len(messageIDs) > 0 { tx.RemoveMessagesFromMailbox }` *)
  Definition act_remove_unchecked (b : N) (ids : list N) (d : db) : result :=
    match ids with [] => Ok d RUnit | _ => ex (ORemoveMessages b ids) d end.

  (* actions.go actionRemoveMessagesFromMailbox *)
  Definition act_remove (b : N) (ids : list N) (d : db) : result :=
    rbind (ex (OFilterContains b ids) d) (fun d1 have =>
      let ids' := filter (fun m => nmem m (nums_of have)) ids in
      match ids' with [] => Ok d1 RUnit | _ => act_remove_unchecked b ids' d1 end).

  (* updates_mailbox.go AddMessagesToMailbox: count/UID limits check, then tx.AddMessagesToMailbox *)
  Definition st_add (b : N) (ids : list N) (d : db) : result :=
    rbind (ex (OGetCountAndUID b) d) (fun d1 _ => ex (OAddMessages b (pairs ids)) d1).

  (* actions.go actionAddMessagesToMailbox: already present -> remove, then add (new UIDs) *)
  Definition act_add (b : N) (ids : list N) (d : db) : result :=
    rbind (ex (OFilterContains b ids) d) (fun d1 have =>
      let rem := filter (fun m => nmem m (nums_of have)) ids in
      rbind (match rem with [] => Ok d1 RUnit | _ => act_remove_unchecked b rem d1 end) (fun d2 _ =>
        st_add b ids d2)).

  (* actions.go actionMoveMessages (after C03-fix-3) + updates_mailbox.go MoveMessagesFromMailbox *)
  Definition act_move (src dst : N) (ids : list N) (d : db) : result :=
    rbind (ex (OFilterContains src ids) d) (fun d1 insrc =>
      let tomove := filter (fun m => nmem m (nums_of insrc)) ids in
      if N.eqb src dst then
        rbind (act_remove_unchecked dst tomove d1) (fun d2 _ => act_add dst tomove d2)
      else
        rbind (ex (OFilterContains dst tomove) d1) (fun d2 indst =>
          let rem := filter (fun m => nmem m (nums_of indst)) tomove in
          rbind (match rem with [] => Ok d2 RUnit | _ => act_remove_unchecked dst rem d2 end) (fun d3 _ =>
            rbind (ex (OGetCountAndUID dst) d3) (fun d4 _ =>
              rbind (ex (ORemoveMessages src tomove) d4) (fun d5 _ =>
                ex (OAddMessages dst (pairs tomove)) d5))))).

  (* updates.go applyMessageFlagsAdded *)
  Fixpoint add_each (cur : list (N * N * list flag)) (fs : list flag) (d : db) : result :=
    match fs with
    | [] => Ok d RUnit
    | f :: t =>
      let toflag := map (fun x => fst (fst x)) (filter (fun x => negb (fmem_ci f (snd x))) cur) in
      rbind (ex (OAddFlag toflag f) d) (fun d1 _ => add_each cur t d1)
    end.
  Definition apply_flags_added (b : N) (ids : list N) (fs : list flag) (d : db) : result :=
    if has_ci recent_flag fs then Fail EOther
    else
      rbind (ex (OGetMessagesFlags ids) d) (fun d1 cur =>
        rbind (if has_ci deleted_flag fs then ex (OSetDeleted b ids true) d1 else Ok d1 RUnit) (fun d2 _ =>
          add_each (msgflags_of cur) (norm_store_flags fs) d2)).

  (* updates.go applyMessageFlagsRemoved *)
  Fixpoint rem_each (cur : list (N * N * list flag)) (fs : list flag) (d : db) : result :=
    match fs with
    | [] => Ok d RUnit
    | f :: t =>
      let toflag := map (fun x => fst (fst x)) (filter (fun x => fmem_ci f (snd x)) cur) in
      rbind (ex (ORemoveFlag toflag f) d) (fun d1 _ => rem_each cur t d1)
    end.
  Definition apply_flags_removed (b : N) (ids : list N) (fs : list flag) (d : db) : result :=
    if has_ci recent_flag fs then Fail EOther
    else
      rbind (ex (OGetMessagesFlags ids) d) (fun d1 cur =>
        rbind (if has_ci deleted_flag fs then ex (OSetDeleted b ids false) d1 else Ok d1 RUnit) (fun d2 _ =>
          rem_each (msgflags_of cur) (norm_store_flags fs) d2)).

  (* updates.go applyMessageFlagsSet (SetFlagsOnMessages is called also for an empty remaining set) *)
  Definition apply_flags_set (b : N) (ids : list N) (fs : list flag) (d : db) : result :=
    if has_ci recent_flag fs then Fail EOther
    else
      rbind (ex (OGetMessagesFlags ids) d) (fun d1 _ =>
        rbind (ex (OSetDeleted b ids (has_ci deleted_flag fs)) d1) (fun d2 _ =>
          ex (OSetFlags ids (norm_store_flags fs)) d2)).

  (* actions.go actionCreateMessage; the connector returned the new remote id m. *)
  (* the lookup `GetMessageIDFromRemoteID` answers "not found" for a new remote id; a known id takes the
     de-duplication path (the existing message is added to the mailbox) *)
  Definition act_append (b m : N) (fs : list flag) (d : db) : result :=
    if has_ci recent_flag fs then Fail EOther
    else
      match ex (OGetMessageIDFromRemote m) d with
      | Ok d1 (RNum known) => act_add b [known] d1
      | Ok _ _ => Fail EOther
      | Fail EOther => Fail EOther
      | Fail ENotFound =>
        ex (OCreateMessageAndAdd b (mkReq m m m (dedup_ci fs))) d
      end.

  (* mailbox.go: the mailbox named in COPY/MOVE/APPEND is looked up first (ErrNoSuchMailbox -> NO) *)
  Definition box_known (b : N) (d : db) : bool := match find_tab b (d_tabs d) with Some _ => true | None => false end.

  Definition cmd_tx (c : cmd) (d : db) : result :=
    match c with
    | CAppend b m fs => if box_known b d then act_append b m fs d else Fail EOther
    | CStore b act fs ts =>
      if box_known b d then
        match act with
        | SAdd => apply_flags_added b ts fs d
        | SRemove => apply_flags_removed b ts fs d
        | SSet => apply_flags_set b ts fs d
        end
      else Fail EOther
    | CExpunge b ts => if box_known b d then act_remove b ts d else Fail EOther
    | CCopy s t ts => if box_known s d && box_known t d then act_add t ts d else Fail EOther
    | CMove s t ts => if box_known s d && box_known t d then act_move s t ts d else Fail EOther
    | CClearRecent b => ex (OClearRecentAll b) d
    end.

  (* stateDBWrite: commit on success, roll back on error *)
  Definition impl_step (c : cmd) (d : db) : db * outcome :=
    match cmd_tx c d with Ok d' _ => (d', OK) | Fail _ => (d, NO) end.

  Fixpoint run_impl (cs : list cmd) (d : db) : db :=
    match cs with [] => d | c :: t => run_impl t (fst (impl_step c d)) end.
End Actions.

(* ---- abstraction: what a fresh session sees (GetMailboxMessageForNewSnapshot of every mailbox) ---- *)
Definition row_abs (x : mrow) : rrow := mkRR (r_uid x) (r_msg x) (r_deleted x) (r_recent x).
Definition tab_abs (t : mtab) : rbox := mkRB (t_box t) (t_seq t) (map row_abs (t_rows t)).
Definition db_has_flag (d : db) (m : N) (f : flag) : bool :=
  existsb (fun p => N.eqb (fst p) m && flag_eqb_ci (snd p) f) (d_flags d).

(* `abs_eq d r`: the database presents exactly the reference state: same mailboxes with the same rows in the same
   order (uid, message, \Deleted, \Recent, next UID), same message entities, same flags up to case *)
Definition abs_eq (d : db) (r : ref) : Prop :=
  map tab_abs (d_tabs d) = rf_boxes r /\
  map mg_id (d_msgs d) = rf_msgs r /\
  (forall m f, db_has_flag d m f = ref_has_flag r m f).
