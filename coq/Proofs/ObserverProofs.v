(* C02, capstone for the observing session: foreign updates reach the session one by one (each filtered against the
   snapshot and the pending responders it meets, as the code does) and the session's own flushes — restricted
   (FETCH/STORE/SEARCH) or permitting — fall anywhere in between. After a final permitting flush the snapshot is exactly
   what the plain meaning of the updates (view_apply) makes of the initial snapshot. *)
From Coq Require Import List NArith Bool Lia Arith Permutation.
From Gluon Require Import Model.Responders Model.Session Proofs.PopProofs Proofs.MirrorProofs Proofs.MembershipProofs
  Proofs.ViewProofs Proofs.StoreViewProofs Proofs.CommuteProofs Proofs.InterleaveProofs.
Import ListNotations.
Open Scope N_scope.

Inductive oop := ODeliver (u : update) | OFlush (permit : bool).

Section Observer.
  Variable o : nat.   (* the observer's session number *)
  Variable mb : N.    (* its selected mailbox *)

  Fixpoint orun (ops : list oop) (s : snap) (res : list responder) : option (snap * list responder) :=
    match ops with
    | [] => Some (s, res)
    | ODeliver u :: t => orun t s (res ++ delivered u o (obs mb s res []))
    | OFlush p :: t =>
        match flush_raw p (mkS s res) with Some (st, _) => orun t (s_snap st) (s_res st) | None => None end
    end.

  (* the responders the remaining deliveries will queue *)
  Fixpoint ofuture (ops : list oop) (s : snap) (res : list responder) : list responder :=
    match ops with
    | [] => []
    | ODeliver u :: t => let d := delivered u o (obs mb s res []) in d ++ ofuture t s (res ++ d)
    | OFlush p :: t =>
        match flush_raw p (mkS s res) with Some (st, _) => ofuture t (s_snap st) (s_res st) | None => [] end
    end.

  Fixpoint updates_of (ops : list oop) : list update :=
    match ops with [] => [] | ODeliver u :: t => u :: updates_of t | OFlush _ :: t => updates_of t end.

  Lemma V_delivered u s res : Forall foreign_resp res -> foreign_upd o u ->
    V (res ++ delivered u o (obs mb s res [])) s = view_apply mb u (V res s).
  Proof.
    intros Hf Hu. rewrite V_app. unfold V. exact (delivered_step_view o mb s u res Hf Hu).
  Qed.

  Theorem observer_run ops : forall s res,
    Forall (foreign_upd o) (updates_of ops) ->
    wf s (res ++ ofuture ops s res) -> (forall m, alt m (res ++ ofuture ops s res)) ->
    exists s' res', orun ops s res = Some (s', res') /\
                    V res' s' = fold_left (fun v u => view_apply mb u v) (updates_of ops) (V res s).
  Proof.
    induction ops as [|[u|p] t IH]; intros s res Hu Hwf Halt.
    - eexists _, _. split; reflexivity.
    - (* a delivery *)
      cbn [orun ofuture updates_of fold_left] in *. inversion Hu as [|? ? Hu1 Hu2]; subst.
      rewrite app_assoc in Hwf, Halt.
      destruct (IH s (res ++ delivered u o (obs mb s res [])) Hu2 Hwf Halt) as (s' & res' & R & HV).
      exists s', res'. split; [exact R|]. rewrite HV. f_equal. apply V_delivered; [|exact Hu1].
      apply wf_foreign in Hwf. apply Forall_app in Hwf as [Hwf _]. apply Forall_app in Hwf as [Hwf _]. exact Hwf.
    - (* a flush *)
      cbn [orun ofuture updates_of] in *.
      assert (Hfr : Forall foreign_resp res) by (apply wf_foreign in Hwf; apply Forall_app in Hwf as [H _]; exact H).
      destruct (flush_raw_view p (mkS s res) Hfr) as (o1 & F1). cbn [s_res s_snap] in F1. rewrite F1 in *. cbn [s_snap s_res] in *.
      destruct p.
      + rewrite pop_true in *. cbn [fst snd] in *.
        destruct (IH (V res s) [] Hu) as (s' & res' & R & HV).
        * cbn [app]. apply wf_steps. exact Hwf.
        * intros m. cbn [app]. eapply alt_suffix. apply Halt.
        * exists s', res'. split; [exact R|]. rewrite HV. reflexivity.
      + destruct (pop_responders false res) as [pp q] eqn:E. cbn [fst snd] in *. unfold pop_responders in E.
        assert (Hperm : Permutation res (pp ++ q)) by (eapply pop_go_perm; exact E).
        destruct (IH (V pp s) q Hu) as (s' & res' & R & HV).
        * apply wf_steps. rewrite app_assoc. eapply wf_perm; [|exact Hwf]. apply Permutation_app_tail. exact Hperm.
        * intros m. eapply alt_remainder; [apply Halt|exact E].
        * exists s', res'. split; [exact R|]. rewrite HV. f_equal. rewrite <- V_app.
          eapply pop_reorder_view; [eapply wf_app_l; exact Hwf| |apply heldok_nil|exact E].
          intros m. eapply alt_prefix. apply Halt.
  Qed.

  Lemma updates_of_snoc_flush ops p : updates_of (ops ++ [OFlush p]) = updates_of ops.
  Proof. induction ops as [|[u|q] t IH]; cbn [app updates_of]; [reflexivity|f_equal; exact IH|exact IH]. Qed.

  Lemma orun_last_flush ops : forall s res s' res',
    orun (ops ++ [OFlush true]) s res = Some (s', res') -> res' = [].
  Proof.
    induction ops as [|[u|q] t IH]; intros s res s' res' H; cbn [app orun] in H.
    - unfold flush_raw in H. cbn [s_snap s_res] in H. rewrite pop_true in H.
      destruct (run_responders res s) as [[s1 o1]|]; [|discriminate].
      cbn [s_snap s_res orun] in H. injection H as _ <-. reflexivity.
    - eapply IH; eauto.
    - destruct (flush_raw q (mkS s res)) as [[st o1]|]; [|discriminate]. eapply IH; eauto.
  Qed.

  (* from a snapshot with nothing pending, ending with a permitting flush (NOOP) *)
  Theorem observer_converges ops snap0 :
    Forall (foreign_upd o) (updates_of ops) ->
    wf snap0 (ofuture (ops ++ [OFlush true]) snap0 []) -> (forall m, alt m (ofuture (ops ++ [OFlush true]) snap0 [])) ->
    orun (ops ++ [OFlush true]) snap0 []
    = Some (fold_left (fun v u => view_apply mb u v) (updates_of ops) snap0, []).
  Proof.
    intros Hu Hwf Halt.
    destruct (observer_run (ops ++ [OFlush true]) snap0 []) as (s' & res' & R & HV).
    - rewrite updates_of_snoc_flush. exact Hu.
    - exact Hwf.
    - exact Halt.
    - pose proof (orun_last_flush ops _ _ _ _ R) as ->. rewrite R. rewrite updates_of_snoc_flush in HV.
      cbn [V fold_left] in HV. unfold V in HV. cbn [fold_left] in HV. rewrite HV. reflexivity.
  Qed.
End Observer.

(* the hypotheses are satisfiable: message 1 is removed and put back under UID 3; FETCH; it is flagged and a new message
   arrives; SEARCH; NOOP *)
Definition ex_ops : list oop :=
  [ODeliver (UExpunge 0 1); ODeliver (UExists 0 [(1, 3, [])] None); OFlush false;
   ODeliver (UFlags 0 [([1], [5], FAdd)] 7%nat false); ODeliver (UExists 0 [(9, 4, [])] None); OFlush false].
Definition ex_snap : snap := [mkSmsg 1 1 []; mkSmsg 2 2 []].

Example observer_example :
  Forall (foreign_upd 0%nat) (updates_of ex_ops) /\
  wf ex_snap (ofuture 0%nat 0 (ex_ops ++ [OFlush true]) ex_snap []) /\
  (forall m, alt m (ofuture 0%nat 0 (ex_ops ++ [OFlush true]) ex_snap [])) /\
  orun 0%nat 0 (ex_ops ++ [OFlush true]) ex_snap [] = Some ([mkSmsg 2 2 []; mkSmsg 1 3 [5]; mkSmsg 9 4 []], []).
Proof.
  assert (E : ofuture 0%nat 0 (ex_ops ++ [OFlush true]) ex_snap []
              = [RExpunge 1; RExists 1 3 [] false false; RFetch 1 [5] FAdd false false false; RExists 9 4 [] false false])
    by (vm_compute; reflexivity).
  rewrite E. split; [|split; [|split]].
  - repeat constructor.
  - unfold wf, good. repeat split; cbn; try lia; try reflexivity.
    + repeat constructor; cbn; intuition discriminate.
    + repeat constructor; cbn; lia.
    + repeat constructor.
  - intros m. unfold alt. cbn [filter about]. destruct (N.eqb_spec 1 m), (N.eqb_spec 9 m); try lia; cbn; intuition (try discriminate; try reflexivity).
  - vm_compute. reflexivity.
Qed.
