(* C19 — the close protocol of async.QueuedChannel (async/queued_channel.go: NewQueuedChannel's consumer goroutine,
   pop, Enqueue, Close / CloseAndDiscardQueued), as a small interleaving model.
     consumer (pop):  lock cond.L; loop: if an item is queued take it, unlock, hand it over, start again;
                      else if closed: unlock and leave; else cond.Wait().
                      sync.Cond.Wait registers the caller as a waiter BEFORE it unlocks (notifyListAdd; L.Unlock;
                      notifyListWait) — modelled as one atomic step "register + unlock + park"; a woken waiter has to take
                      the lock again before it looks at the queue.
     Close:           closed := true (atomic flag, no lock); then Broadcast — under cond.L (`locked` = true, what the
                      source does, fact extracted into Gen/FactsQueue.v) or without taking it (`locked` = false).
     Enqueue:         if closed give up; lock; append; Broadcast; unlock — one atomic step here (it holds the lock
                      throughout; `budget` bounds how many more items producers will queue).
   The hand-over of an item to the reader (select on queue.ch / stopCh) is assumed to complete (the reader reads, or
   CloseAndDiscardQueued has closed stopCh).  No proofs in this file. *)
From Coq Require Import List Arith Bool.
Import ListNotations.

Inductive cstate :=
| CIdle          (* about to take cond.L *)
| CHold          (* holds cond.L, about to look at the queue and the closed flag *)
| CWaitDecided   (* holds cond.L, found the queue empty and not closed: about to call cond.Wait *)
| CParked        (* registered as waiter, lock released, asleep *)
| CWoken         (* woken by a Broadcast: has to take cond.L again *)
| CDeliver       (* took an item, lock released: handing it over *)
| CDone.         (* left pop for good: the consumer goroutine ends *)

Inductive kstate :=
| K0     (* about to set the closed flag *)
| K1     (* about to lock cond.L *)
| K2     (* about to Broadcast *)
| K3     (* about to unlock *)
| KDone. (* Close has returned *)

Inductive who := WCons | WCloser.

Record qst := mkQ {
  cons : cstate; clo : kstate; closed : bool; items : nat; budget : nat; holder : option who }.

Inductive qlabel := QCons | QCloser | QEnq.

Definition wake (c : cstate) : cstate := match c with CParked => CWoken | x => x end.
Definition lock_free (s : qst) : bool := match holder s with None => true | Some _ => false end.

Definition qstep (locked : bool) (s : qst) (l : qlabel) : option qst :=
  match l with
  | QCons =>
      match cons s with
      | CIdle | CWoken =>
          if lock_free s then Some (mkQ CHold (clo s) (closed s) (items s) (budget s) (Some WCons)) else None
      | CHold =>
          match items s with
          | S n => Some (mkQ CDeliver (clo s) (closed s) n (budget s) None)
          | O => if closed s then Some (mkQ CDone (clo s) (closed s) 0 (budget s) None)
                 else Some (mkQ CWaitDecided (clo s) (closed s) 0 (budget s) (holder s))
          end
      | CWaitDecided => Some (mkQ CParked (clo s) (closed s) (items s) (budget s) None)
      | CParked => None
      | CDeliver => Some (mkQ CIdle (clo s) (closed s) (items s) (budget s) (holder s))
      | CDone => None
      end
  | QCloser =>
      match clo s with
      | K0 => Some (mkQ (cons s) (if locked then K1 else K2) true (items s) (budget s) (holder s))
      | K1 => if lock_free s then Some (mkQ (cons s) K2 (closed s) (items s) (budget s) (Some WCloser)) else None
      | K2 => Some (mkQ (wake (cons s)) (if locked then K3 else KDone) (closed s) (items s) (budget s) (holder s))
      | K3 => Some (mkQ (cons s) KDone (closed s) (items s) (budget s) None)
      | KDone => None
      end
  | QEnq =>
      match budget s with
      | S b => if lock_free s && negb (closed s)
               then Some (mkQ (wake (cons s)) (clo s) (closed s) (S (items s)) b (holder s)) else None
      | O => None
      end
  end.

Fixpoint qrun (locked : bool) (s : qst) (tr : list qlabel) : option qst :=
  match tr with
  | [] => Some s
  | l :: t => match qstep locked s l with Some s' => qrun locked s' t | None => None end
  end.

Definition qinit (queued more : nat) : qst := mkQ CIdle K0 false queued more None.
Definition qreachable (locked : bool) (i b : nat) (s : qst) : Prop := exists tr, qrun locked (qinit i b) tr = Some s.

Definition close_returned (s : qst) : bool := match clo s with KDone => true | _ => false end.
Definition consumer_left (s : qst) : bool := match cons s with CDone => true | _ => false end.
Definition stuck (locked : bool) (s : qst) : Prop := forall l, qstep locked s l = None.

Definition crank (c : cstate) : nat :=
  match c with CDone => 0 | CWaitDecided => 1 | CHold => 2 | CIdle => 3 | CWoken => 3 | CParked => 4 | CDeliver => 5 end.
Definition qmeasure (s : qst) : nat := 4 * items s + crank (cons s).
