package main

// Stress scenario for the per-message lock table of store.WriteControlledStore (C09: "concurrent readers and writers of
// one ID only ever see a complete value").  The wrapped store does no locking of its own but notices when a writer is
// inside it together with anybody else on the same message; goroutines hammer two messages with Set/Delete/Get through
// a fresh WriteControlledStore per round.  Runtime part: a search, not a proof (the proof is Props/C09.v
// C09_lock_table_exclusive over Model/LockTable.v).

import (
	"bytes"
	"fmt"
	"io"
	"runtime"
	"sync"
	"sync/atomic"
	"time"

	"github.com/ProtonMail/gluon/imap"
	"github.com/ProtonMail/gluon/store"
)

type ltSlot struct {
	readers, writers atomic.Int32
	data             []byte // deliberately unprotected: exclusive access is what WriteControlledStore is there for
}

type ltStore struct {
	slots      map[imap.InternalMessageID]*ltSlot
	violations atomic.Int64
	first      atomic.Value
}

func (s *ltStore) note(what string) {
	s.violations.Add(1)
	s.first.CompareAndSwap(nil, what)
}

func (s *ltStore) Get(id imap.InternalMessageID) ([]byte, error) {
	slot := s.slots[id]
	slot.readers.Add(1)
	defer slot.readers.Add(-1)
	if slot.writers.Load() != 0 {
		s.note("a reader entered while a writer was inside")
		return nil, nil
	}
	runtime.Gosched() // stay inside for a moment, like a store that reads a file
	return bytes.Clone(slot.data), nil
}

func (s *ltStore) Set(id imap.InternalMessageID, r io.Reader) error {
	slot := s.slots[id]
	b, err := io.ReadAll(r)
	if err != nil {
		return err
	}
	if slot.writers.Add(1) != 1 || slot.readers.Load() != 0 {
		s.note("a writer entered while somebody else was inside")
		slot.writers.Add(-1)
		return nil
	}
	runtime.Gosched()
	slot.data = b
	if slot.readers.Load() != 0 {
		s.note("a reader entered while a writer was inside")
	}
	slot.writers.Add(-1)
	return nil
}

func (s *ltStore) Delete(ids ...imap.InternalMessageID) error {
	for _, id := range ids {
		if err := s.Set(id, bytes.NewReader(nil)); err != nil {
			return err
		}
	}
	return nil
}

func (s *ltStore) Close() error                            { return nil }
func (s *ltStore) List() ([]imap.InternalMessageID, error) { return nil, nil }

func (x *h) lockTableRound(messages, workers int, runFor time.Duration) (int64, int64, string) {
	ids := make([]imap.InternalMessageID, messages)
	impl := &ltStore{slots: map[imap.InternalMessageID]*ltSlot{}}
	for i := range ids {
		ids[i] = x.newID()
		impl.slots[ids[i]] = &ltSlot{}
	}
	st := store.NewWriteControlledStore(impl)
	var wg sync.WaitGroup
	var stop atomic.Bool
	var ops atomic.Int64
	for w := 0; w < workers; w++ {
		w := w
		wg.Add(1)
		go func() {
			defer wg.Done()
			literal := []byte("literal of some worker")
			for i := 0; !stop.Load() && impl.violations.Load() == 0; i++ {
				id := ids[(i+w)%messages]
				switch (i + w) % 4 {
				case 0:
					_ = st.Set(id, bytes.NewReader(literal))
				case 1:
					if i%3 == 0 { // Delete(ids...) over several messages: one acquire/release per ID
						_ = st.Delete(id, ids[(i+w+1)%messages])
					} else {
						_ = st.Delete(id)
					}
				default:
					_, _ = st.Get(id)
				}
				ops.Add(1)
			}
		}()
	}
	timer := time.AfterFunc(runFor, func() { stop.Store(true) })
	defer timer.Stop()
	wg.Wait()
	what, _ := impl.first.Load().(string)
	return ops.Load(), impl.violations.Load(), what
}

func (x *h) lockTableStress(thorough bool) {
	ctx, res := x.ctx, x.ctx.Res
	rounds := ctx.Budget(25, 300)
	const messages, workers = 2, 16
	ctx.Current("concurrent lock-table", map[string]int{"messages": messages, "workers": workers, "rounds": rounds})
	var total int64
	for round := 1; round <= rounds; round++ {
		// a new store per round: an entry that went wrong once can stay in the table and hide the problem afterwards
		ops, violations, what := x.lockTableRound(messages, workers, 100*time.Millisecond)
		total += ops
		if violations != 0 {
			res.Fail("concurrent lock-table writer-not-alone",
				fmt.Sprintf("WriteControlledStore let a writer be inside the wrapped store together with another reader or writer of the same message (%s; %d time(s) in round %d, %d workers on %d messages)", what, violations, round, workers, messages),
				map[string]int{"messages": messages, "workers": workers, "round": round})
			break
		}
	}
	res.Evaluations += rounds // the number of operations depends on the schedule and is not recorded
	res.Distribution["lock-table-rounds"] = rounds
	res.Nontrivial("concurrent/lock-table")
	_ = total
}
