(* Witnesses on the full world model (Model/Session.v): the scenarios replayed on the real server. *)
From Coq Require Import List NArith Bool.
From Gluon Require Import Model.Responders Model.Session Proofs.PopProofs.
Import ListNotations.
Open Scope N_scope.

(* responses session i received along a history *)
Fixpoint sess_outputs (h : list op) (tr : list (list resp * outcome)) (i : nat) : list resp :=
  match h, tr with
  | o :: h', (out, _) :: tr' =>
      (match o with
       | Cmd s _ => if Nat.eqb s i then out else []
       | Deliver s => if Nat.eqb s i then out else []
       | Conn _ => [] end) ++ sess_outputs h' tr' i
  | _, _ => []
  end.

Definition mirror_after (nsess nmbox : nat) (h : list op) (i : nat) : option mirror * option snap :=
  let '(w, tr) := run (init_world nsess nmbox) h in
  (msteps [] (sess_outputs h tr i),
   match get_sess w i with Some s => Some (s_snap (ss_st s)) | None => None end).

(* C01: session 0's own APPEND (UID 2) is applied to it at once; session 1's earlier APPEND (UID 1) reaches session 0
   later and is inserted before it: sequence number 1, learnt as UID 2, now denotes UID 1 although no EXPUNGE was sent *)
Definition c01_history : list op :=
  [Cmd 0 (CSelect 0); Cmd 1 (CSelect 0); Cmd 1 (CAppend 0 []); Cmd 0 (CAppend 0 []); Cmd 0 CProbe;
   Deliver 0; Cmd 0 CNoop].

Lemma c01_world_refuted :
  exists m sn, mirror_after 2 1 c01_history 0 = (Some m, Some sn) /\ agree m sn = false /\
               map sm_uid sn = [1; 2] /\ map fst m = [Some 2; None].
Proof. eexists _, _. vm_compute. repeat split. Qed.

(* C02 (own command overtakes a queued foreign flag change): the connector sets \Seen on message 1 (queued for
   session 0), session 0 then removes \Seen itself (database: not seen), the queued "add \Seen" is applied afterwards:
   after draining and NOOP session 0 shows \Seen, a fresh session does not *)
Definition c02_history : list op :=
  [Cmd 0 (CAppend 0 []); Cmd 0 (CSelect 0); Conn (XFlag 1 fl_seen true);
   Cmd 0 (CStore [1%nat] FRem [fl_seen] false); Deliver 0; Cmd 0 CNoop].

Definition view_flags (sn : snap) : list (uid * flagset) := map (fun x => (sm_uid x, sm_flags x)) sn.

Lemma c02_world_refuted :
  let '(w, _) := run (init_world 1 1) c02_history in
  exists sn, option_map (fun s => s_snap (ss_st s)) (get_sess w 0) = Some sn /\
             view_flags sn = [(1, [fl_seen])] /\ view_flags (fresh_view w 0) = [(1, [])] /\
             ss_queue (nth 0 (w_sess w) (mkSess None (mkS [] []) [] false)) = [].
Proof. vm_compute. eexists. repeat split. Qed.

(* ---------- the repaired defect "flag change of a re-added message lost" ---------- *)
(* observer's snapshot: messages 1 (uid 1) and 2 (uid 2); queued for it, in database order: message 1 removed, put back
   as uid 3, then flagged with flag 5. *)
Definition readd_snap : snap := [mkSmsg 1 1 []; mkSmsg 2 2 []].
Definition readd_queue : list responder :=
  [RExpunge 1; RExists 1 3 [] false false; RFetch 1 [5] FAdd false false false].

(* old policy: a non-permitting flush (FETCH/STORE/SEARCH) followed by a permitting one (NOOP) *)
Definition old_two_flushes (rs : list responder) (s : snap) : option snap :=
  let '(p, q) := pop_go_old [] rs in
  match run_responders p s with
  | None => None
  | Some (s1, _) => match run_responders q s1 with None => None | Some (s2, _) => Some s2 end
  end.

Definition new_two_flushes (rs : list responder) (s : snap) : option snap :=
  match flush_raw false (mkS s rs) with
  | None => None
  | Some (st1, _) => match flush_raw true st1 with None => None | Some (st2, _) => Some (s_snap st2) end
  end.

Lemma old_policy_loses_flag_change :
  option_map view_flags (old_two_flushes readd_queue readd_snap) = Some [(2, []); (3, [])] /\
  option_map view_flags (new_two_flushes readd_queue readd_snap) = Some [(2, []); (3, [5])] /\
  option_map (fun x => view_flags (fst x)) (run_responders readd_queue readd_snap) = Some [(2, []); (3, [5])].
Proof. vm_compute. repeat split. Qed.

(* ---------- the repaired defect "a message put back is inserted below a newer, already announced one" ---------- *)
(* observer's snapshot: message 1 (uid 1); queued, in database order: message 1 removed, put back as uid 2, a new
   message 9 (uid 3). The client learns UIDs by a probe after the restricted flush. *)
Definition below_snap : snap := [mkSmsg 1 1 []].
Definition below_queue : list responder := [RExpunge 1; RExists 1 2 [] false false; RExists 9 3 [] false false].
Definition below_mirror : mirror := [(Some 1, Some [])].

Definition client_agrees_after (pq : list responder * list responder) : option bool :=
  let '(p, q) := pq in
  match run_responders p below_snap with
  | None => None
  | Some (s1, o1) =>
      match msteps below_mirror o1 with
      | None => None
      | Some m1 =>
          match msteps m1 (probe_lines s1) with
          | None => None
          | Some m1' =>
              match run_responders q s1 with
              | None => None
              | Some (s2, o2) => match msteps m1' o2 with None => None | Some m2 => Some (agree m2 s2) end
              end
          end
      end
  end.

Lemma old_policy_shifts_sequence_numbers :
  client_agrees_after (pop_go_old [] below_queue) = Some false /\
  client_agrees_after (pop_responders false below_queue) = Some true /\
  filter is_rexists (fst (pop_go_old [] below_queue)) = [RExists 9 3 [] false false].
Proof. vm_compute. repeat split. Qed.
