// Command c08: correspondence harness and property oracle for C08 (the SQLite index behaves like a plain relational
// model). It drives the real db.Client obtained from gluon.VerifSQLiteClientInterface() with sequences of
// transactions, compares every result and a raw dump of the database file with an in-memory oracle, and writes the
// same histories for the Coq model (Run/RunC08.v).
package main

import (
	"context"
	"database/sql"
	"errors"
	"fmt"
	"os"
	"path/filepath"
	"reflect"
	"sort"
	"strings"
	"sync"
	"time"
	"unsafe"

	"github.com/ProtonMail/gluon"
	"github.com/ProtonMail/gluon/db"
	"github.com/ProtonMail/gluon/imap"

	"verifharness/common"
)

const chunkLimit = db.ChunkLimit

func main() { common.Main("C08", runC08) }

type txn struct {
	Ops   []op
	Abort bool // the callback returns an error after the last operation
	// AbortErr selects the error an aborting callback returns: 0 an ordinary error; 1 context.Canceled and 3
	// context.DeadlineExceeded taken from a context DERIVED inside the callback (the transaction's own context stays
	// alive); 2 and 4 the same wrapped with %w; 5 whatever a read of the transaction returns when it is given such a
	// cancelled derived context.
	AbortErr int
	ReadOnly bool // executed through Client.Read
	// Overlap > 0: the (read) operations are executed Iters times by Overlap concurrent Client.Read calls whose
	// callbacks are all inside Read before the first query starts (the connection pool of database/sql grows);
	// reader number Last runs longest, so its connection is the one the pool hands out next.
	Overlap, Iters, Last int
}

type scenario struct {
	Name  string
	Txs   []txn
	Batch bool
	NoCoq bool // checked against the Go oracle only (keeps the model evaluation short)
	Trace bool // the client is built with the tracing wrappers (sqlite3.Trace()): utils.ReadTracer / utils.WriteTracer
}

// clientInterface returns the SQLite client builder, optionally with call tracing switched on. The exported hook has no
// option parameter, so the unexported `trace` field of the builder is set through reflection (notes/C08-notes.md proposes
// `VerifSQLiteClientInterface(opts ...sqlite3.Option)` instead).
func clientInterface(trace bool) (db.ClientInterface, error) {
	ci := gluon.VerifSQLiteClientInterface()
	if !trace {
		return ci, nil
	}
	v := reflect.ValueOf(ci)
	if v.Kind() != reflect.Ptr || v.Elem().Kind() != reflect.Struct {
		return nil, fmt.Errorf("cannot enable tracing: the client builder is a %T", ci)
	}
	f := v.Elem().FieldByName("trace")
	if !f.IsValid() || f.Kind() != reflect.Bool {
		return nil, fmt.Errorf("cannot enable tracing: %T has no bool field `trace`", ci)
	}
	reflect.NewAt(f.Type(), unsafe.Pointer(f.UnsafeAddr())).Elem().SetBool(true)
	return ci, nil
}

type failure struct {
	Kind   string // result | errclass | dump | panic | writeerr
	Detail string
	Tx, Op int
}

var errAbort = errors.New("harness: abort")

var abortErrNames = []string{"error", "canceled", "wrapped-canceled", "deadline", "wrapped-deadline", "op-on-cancelled-ctx"}

// abortError produces the error of an aborting callback (see txn.AbortErr). ctx is the context the callback received.
func abortError(ctx context.Context, kind int, rd db.ReadOnly) error {
	switch kind {
	case 1, 2, 5:
		cctx, cancel := context.WithCancel(ctx)
		cancel()
		err := cctx.Err()
		if kind == 5 {
			// a query of the transaction that is handed the cancelled context (a helper with its own deadline / errgroup)
			if _, qerr := rd.GetAllMailboxesAsRemoteIDs(cctx); qerr != nil {
				return qerr
			}
			return err
		}
		if kind == 2 {
			return fmt.Errorf("harness: remote call: %w", err)
		}
		return err
	case 3, 4:
		cctx, cancel := context.WithDeadline(ctx, time.Now().Add(-time.Second))
		defer cancel()
		<-cctx.Done()
		if kind == 4 {
			return fmt.Errorf("harness: remote call: %w", cctx.Err())
		}
		return cctx.Err()
	}
	return errAbort
}

// probeAfterAbort: after a transaction that returned an error the client must be usable at once: a Read and an empty Write
// succeed (the rolled-back transaction holds no connection and no lock any more).
func probeAfterAbort(bg context.Context, client db.Client) string {
	type out struct {
		what string
		err  error
	}
	ch := make(chan out, 1)
	go func() {
		if err := client.Read(bg, func(ctx context.Context, rd db.ReadOnly) error {
			_, err := rd.GetAllMailboxesAsRemoteIDs(ctx)
			return err
		}); err != nil {
			ch <- out{"Read", err}
			return
		}
		if err := client.Write(bg, func(ctx context.Context, tx db.Transaction) error { return nil }); err != nil {
			ch <- out{"empty Write", err}
			return
		}
		ch <- out{}
	}()
	select {
	case o := <-ch:
		if o.err != nil {
			return fmt.Sprintf("the %s that follows the aborted transaction fails: %v", o.what, o.err)
		}
		return ""
	case <-time.After(30 * time.Second):
		return "the Read / Write that follows the aborted transaction does not return within 30s"
	}
}

type runOut struct {
	fail  *failure
	lines []string // Coq otx terms (nil when the scenario cannot be expressed in the Coq model)
	coqOK bool
	evals int
}

// runScenario executes the scenario on a fresh database. It stops at the first failure.
func runScenario(ctx *common.Ctx, sc *scenario, wantCoq bool) (out runOut) {
	out.coqOK = wantCoq
	dir, err := os.MkdirTemp("", "verif-c08-*")
	if err != nil {
		out.fail = &failure{Kind: "infra", Detail: err.Error()}
		return
	}
	defer os.RemoveAll(dir)
	ci, err := clientInterface(sc.Trace)
	if err != nil {
		out.fail = &failure{Kind: "infra", Detail: err.Error()}
		return
	}
	client, _, err := ci.New(dir, "user")
	if err != nil {
		out.fail = &failure{Kind: "infra", Detail: err.Error()}
		return
	}
	defer client.Close()
	bg := context.Background()
	if err := client.Init(bg, imap.DefaultEpochUIDValidityGenerator()); err != nil {
		out.fail = &failure{Kind: "infra", Detail: "init: " + err.Error()}
		return
	}
	raw, err := openRaw(filepath.Join(dir, "user.db"))
	if err != nil {
		out.fail = &failure{Kind: "infra", Detail: err.Error()}
		return
	}
	defer raw.Close()
	ids := newIDMap(ctx.Seed)
	oracle := &oDB{}
	for ti := range sc.Txs {
		t := &sc.Txs[ti]
		f, line := runTx(bg, client, raw, ids, oracle, t, ti, &out)
		if f != nil {
			out.fail = f
			out.coqOK = false
			return
		}
		if line == "" {
			out.coqOK = false
		} else {
			out.lines = append(out.lines, line)
		}
	}
	return
}

// runOverlap executes an overlap transaction (see txn.Overlap). Every result of every reader is compared with the oracle.
func runOverlap(bg context.Context, client db.Client, ids *idmap, oracle *oDB, t *txn, ti int, out *runOut) *failure {
	var want []res
	var wantErr []string
	for i := range t.Ops {
		r, ec := oracle.clone().apply(&t.Ops[i])
		want = append(want, normNil(r.canon()))
		wantErr = append(wantErr, ec)
		out.evals++
	}
	n := t.Overlap
	started := make(chan struct{}, n)
	gate := make(chan struct{})
	fails := make([]*failure, n)
	var wg sync.WaitGroup
	for g := 0; g < n; g++ {
		wg.Add(1)
		go func(g int) {
			defer wg.Done()
			defer func() {
				if v := recover(); v != nil {
					fails[g] = &failure{Kind: "panic", Detail: fmt.Sprint(v), Tx: ti}
				}
			}()
			iters := t.Iters
			if g == t.Last {
				iters += t.Iters/2 + 3
			}
			err := client.Read(bg, func(ctx context.Context, rd db.ReadOnly) error {
				started <- struct{}{}
				<-gate
				for k := 0; k < iters; k++ {
					for i := range t.Ops {
						r, err := ids.execOp(ctx, rd, nil, &t.Ops[i])
						if errClass(err) != wantErr[i] {
							fails[g] = &failure{Kind: "errclass", Detail: fmt.Sprintf("%s (concurrent reader %d): want error class %q got %q (%v)", t.Ops[i].K, g, wantErr[i], errClass(err), err), Tx: ti, Op: i}
							return nil
						}
						if err == nil && !reflect.DeepEqual(want[i], normNil(r.canon())) {
							fails[g] = &failure{Kind: "result", Detail: fmt.Sprintf("%s (concurrent reader %d): want %s got %s", t.Ops[i].K, g, showRes(want[i]), showRes(r.canon())), Tx: ti, Op: i}
							return nil
						}
					}
				}
				return nil
			})
			if err != nil && fails[g] == nil {
				fails[g] = &failure{Kind: "writeerr", Detail: "Read returned " + err.Error(), Tx: ti}
			}
		}(g)
	}
	for g := 0; g < n; g++ {
		<-started
	}
	close(gate)
	wg.Wait()
	for _, f := range fails {
		if f != nil {
			return f
		}
	}
	return nil
}

func runTx(bg context.Context, client db.Client, raw *sql.DB, ids *idmap, oracle *oDB, t *txn, ti int, out *runOut) (*failure, string) {
	if t.Overlap > 0 {
		if f := runOverlap(bg, client, ids, oracle, t, ti, out); f != nil {
			return f, ""
		}
		d, err := ids.dumpRaw(raw)
		if err != nil {
			return &failure{Kind: "infra", Detail: "raw dump: " + err.Error(), Tx: ti}, ""
		}
		if diff := compareDump(oracle, d); diff != "" {
			return &failure{Kind: "dump", Detail: diff, Tx: ti, Op: len(t.Ops)}, ""
		}
		return nil, "" // not expressible in the Coq model
	}
	work := oracle.clone()
	type obs struct {
		r   res
		err error
	}
	var seen []obs
	var panicked interface{}
	body := func(ctx context.Context, rd db.ReadOnly, tx db.Transaction) error {
		for i := range t.Ops {
			r, err := ids.execOp(ctx, rd, tx, &t.Ops[i])
			seen = append(seen, obs{r, err})
			if err != nil {
				return err
			}
		}
		if t.Abort {
			return abortError(ctx, t.AbortErr, rd)
		}
		return nil
	}
	var werr error
	done := make(chan struct{})
	go func() { // every transaction comes from another goroutine, as in the server
		defer close(done)
		defer func() {
			if v := recover(); v != nil {
				panicked = v
			}
		}()
		if t.ReadOnly {
			werr = client.Read(bg, func(ctx context.Context, rd db.ReadOnly) error { return body(ctx, rd, nil) })
		} else {
			werr = client.Write(bg, func(ctx context.Context, tx db.Transaction) error { return body(ctx, tx, tx) })
		}
	}()
	<-done
	if panicked != nil {
		return &failure{Kind: "panic", Detail: fmt.Sprint(panicked), Tx: ti, Op: len(seen)}, ""
	}
	// oracle
	failedAt := -1
	var want []res
	for i := range t.Ops {
		r, ec := work.apply(&t.Ops[i])
		out.evals++
		if i >= len(seen) {
			return &failure{Kind: "errclass", Detail: fmt.Sprintf("operation %s was not reached", t.Ops[i].K), Tx: ti, Op: i}, ""
		}
		got := seen[i]
		if ec != errClass(got.err) {
			return &failure{Kind: "errclass", Detail: fmt.Sprintf("%s: want error class %q got %q (%v)", t.Ops[i].K, ec, errClass(got.err), got.err), Tx: ti, Op: i}, ""
		}
		if ec != errNone {
			failedAt = i
			break
		}
		w, g := r.canon(), got.r.canon()
		if !reflect.DeepEqual(normNil(w), normNil(g)) {
			return &failure{Kind: "result", Detail: fmt.Sprintf("%s: want %s got %s", t.Ops[i].K, showRes(w), showRes(g)), Tx: ti, Op: i}, ""
		}
		want = append(want, g)
	}
	committed := failedAt < 0 && !t.Abort
	if committed && werr != nil {
		return &failure{Kind: "writeerr", Detail: "transaction returned " + werr.Error(), Tx: ti, Op: len(t.Ops)}, ""
	}
	if !committed && werr == nil {
		return &failure{Kind: "writeerr", Detail: "transaction that returned an error inside reported success", Tx: ti, Op: len(t.Ops)}, ""
	}
	if committed && !t.ReadOnly {
		*oracle = *work
	}
	if !committed && !t.ReadOnly {
		if failedAt < 0 && bg.Err() == nil {
			// the error the callback returned is the one the caller gets (possibly wrapped)
			want := errAbort
			switch t.AbortErr {
			case 1, 2, 5:
				want = context.Canceled
			case 3, 4:
				want = context.DeadlineExceeded
			}
			if !errors.Is(werr, want) {
				return &failure{Kind: "writeerr", Detail: fmt.Sprintf("aborting with %s: Write returned %q", abortErrNames[t.AbortErr], werr), Tx: ti, Op: len(t.Ops)}, ""
			}
		}
		if msg := probeAfterAbort(bg, client); msg != "" {
			return &failure{Kind: "aborted-transaction-left-open", Detail: fmt.Sprintf("aborting with %s: %s", abortErrNames[t.AbortErr], msg), Tx: ti, Op: len(t.Ops)}, ""
		}
	}
	d, err := ids.dumpRaw(raw)
	if err != nil {
		return &failure{Kind: "infra", Detail: "raw dump: " + err.Error(), Tx: ti}, ""
	}
	if diff := compareDump(oracle, d); diff != "" {
		k := "dump"
		if !committed {
			k = "trace-of-aborted-transaction"
		}
		return &failure{Kind: k, Detail: diff, Tx: ti, Op: len(t.Ops)}, ""
	}
	// Coq term
	if !out.coqOK {
		return nil, ""
	}
	var ops []string
	for i := range t.Ops {
		s := coqOp(&t.Ops[i])
		if s == "" {
			return nil, ""
		}
		ops = append(ops, s)
	}
	resTerm := "None"
	if committed {
		var rs []string
		for _, r := range want {
			s, ok := coqRes(r)
			if !ok {
				return nil, ""
			}
			rs = append(rs, s)
		}
		resTerm = "(Some [" + strings.Join(rs, "; ") + "])"
	}
	dt, ok := coqDump(d)
	if !ok {
		return nil, ""
	}
	return nil, fmt.Sprintf("mkOtx [%s] %s %s (Some %s)", strings.Join(ops, ";\n      "), coqB(t.Abort), resTerm, dt)
}

func normNil(r res) res {
	if len(r.Ns) == 0 {
		r.Ns = nil
	}
	if len(r.Ps) == 0 {
		r.Ps = nil
	}
	if len(r.Fl) == 0 {
		r.Fl = nil
	}
	if len(r.Snap) == 0 {
		r.Snap = nil
	}
	for i := range r.Snap {
		if len(r.Snap[i].Flags) == 0 {
			r.Snap[i].Flags = nil
		}
	}
	if len(r.MF) == 0 {
		r.MF = nil
	}
	for i := range r.MF {
		if len(r.MF[i].Flags) == 0 {
			r.MF[i].Flags = nil
		}
	}
	if len(r.Mbs) == 0 {
		r.Mbs = nil
	}
	if len(r.Attrs) == 0 {
		r.Attrs = nil
	}
	for i := range r.Attrs {
		if len(r.Attrs[i]) == 0 {
			r.Attrs[i] = nil
		}
	}
	if r.Opt != nil {
		v := *r.Opt
		r.N = v
		r.B = true
		r.Opt = nil
	}
	return r
}

func showRes(r res) string {
	s := fmt.Sprintf("%+v", normNil(r))
	if len(s) > 400 {
		s = s[:400] + "..."
	}
	return s
}

// ---- rendering for canonical strings ----
func showInts(l []int) string {
	if len(l) <= 6 {
		return fmt.Sprint(l)
	}
	return fmt.Sprintf("[%d..%d n=%d]", l[0], l[len(l)-1], len(l))
}

func (o *op) String() string {
	var p []string
	if o.Box != 0 {
		p = append(p, fmt.Sprintf("b%d", o.Box))
	}
	if o.Ids != nil {
		p = append(p, showInts(o.Ids))
	}
	if o.Pairs != nil {
		l := make([]int, len(o.Pairs))
		same := true
		for i, x := range o.Pairs {
			l[i] = x[0]
			if x[0] != x[1] {
				same = false
			}
		}
		if same {
			p = append(p, showInts(l))
		} else if len(o.Pairs) <= 6 {
			p = append(p, fmt.Sprint(o.Pairs))
		} else {
			p = append(p, fmt.Sprintf("pairs n=%d", len(o.Pairs)))
		}
	}
	if o.Reqs != nil {
		if len(o.Reqs) <= 4 {
			p = append(p, fmt.Sprintf("%v", o.Reqs))
		} else {
			p = append(p, fmt.Sprintf("reqs %d..%d n=%d", o.Reqs[0].ID, o.Reqs[len(o.Reqs)-1].ID, len(o.Reqs)))
		}
	}
	if o.Flag != "" {
		p = append(p, o.Flag)
	}
	if o.Flags != nil || o.K == "SetFlags" {
		if len(o.Flags) > 6 {
			p = append(p, fmt.Sprintf("flags n=%d", len(o.Flags)))
		} else {
			p = append(p, fmt.Sprintf("%q", o.Flags))
		}
	}
	if o.Flags2 != nil || o.Flags3 != nil {
		p = append(p, fmt.Sprintf("%q %q", o.Flags2, o.Flags3))
	}
	switch o.K {
	case "SetDeleted", "SetSubscribed":
		p = append(p, fmt.Sprint(o.B))
	}
	if o.N1 != 0 || o.N2 != 0 || o.N3 != 0 {
		p = append(p, fmt.Sprintf("%d,%d,%d", o.N1, o.N2, o.N3))
	}
	return o.K + "(" + strings.Join(p, " ") + ")"
}

func (sc *scenario) canon(f *failure) string {
	var ts []string
	for ti, t := range sc.Txs {
		if f != nil && ti > f.Tx {
			break
		}
		var os []string
		for oi := range t.Ops {
			if f != nil && ti == f.Tx && oi > f.Op {
				break
			}
			os = append(os, t.Ops[oi].String())
		}
		k := "W"
		if t.ReadOnly {
			k = "R"
		}
		if t.Abort {
			k += "!"
			if t.AbortErr > 0 && t.AbortErr < len(abortErrNames) {
				k += "(" + abortErrNames[t.AbortErr] + ")"
			}
		}
		if t.Overlap > 0 {
			k = fmt.Sprintf("R||x%d", t.Overlap)
		}
		ts = append(ts, k+"["+strings.Join(os, ";")+"]")
	}
	s := strings.Join(ts, " ")
	if sc.Trace {
		s = "traced-client: " + s
	}
	if f != nil {
		s += " => " + f.Kind
	}
	return s
}

// sigOf names the failing operation and the kind of difference.
func sigOf(sc *scenario, f *failure) string {
	opk := "?"
	if f.Tx < len(sc.Txs) {
		t := sc.Txs[f.Tx]
		if f.Op < len(t.Ops) {
			opk = t.Ops[f.Op].K
		} else if len(t.Ops) > 0 {
			var ks []string
			for _, o := range t.Ops {
				if writeOnly[o.K] && (len(ks) == 0 || ks[len(ks)-1] != o.K) {
					ks = append(ks, o.K)
				}
			}
			opk = strings.Join(ks, "+")
		}
	}
	s := opk + "/" + f.Kind
	if f.Kind == "dump" || f.Kind == "trace-of-aborted-transaction" {
		if i := strings.Index(f.Detail, ":"); i > 0 {
			s += "/" + strings.TrimSpace(f.Detail[:i])
		}
	}
	return s
}

// shrink drops transactions and operations while a failure of the same kind persists.
func shrink(ctx *common.Ctx, sc *scenario, f *failure, budget int) (*scenario, *failure) {
	cur, curF := sc, f
	try := func(cand *scenario) bool {
		if budget <= 0 {
			return false
		}
		budget--
		o := runScenario(ctx, cand, false)
		if o.fail != nil && o.fail.Kind == curF.Kind {
			cur, curF = cand, o.fail
			return true
		}
		return false
	}
	// cut everything after the failing transaction
	if curF.Tx+1 < len(cur.Txs) {
		c := &scenario{Name: cur.Name, Trace: cur.Trace, Txs: append([]txn{}, cur.Txs[:curF.Tx+1]...)}
		try(c)
	}
	for pass := 0; pass < 2; pass++ {
		for ti := len(cur.Txs) - 1; ti >= 0 && budget > 0; ti-- {
			if ti >= len(cur.Txs) {
				continue
			}
			c := &scenario{Name: cur.Name, Trace: cur.Trace}
			c.Txs = append(c.Txs, cur.Txs[:ti]...)
			c.Txs = append(c.Txs, cur.Txs[ti+1:]...)
			if len(c.Txs) > 0 && try(c) {
				continue
			}
			for oi := len(cur.Txs[ti].Ops) - 1; oi >= 0 && budget > 0; oi-- {
				if ti >= len(cur.Txs) || oi >= len(cur.Txs[ti].Ops) {
					continue
				}
				c := &scenario{Name: cur.Name, Trace: cur.Trace}
				for k, t := range cur.Txs {
					if k == ti {
						nt := txn{Abort: t.Abort, AbortErr: t.AbortErr, ReadOnly: t.ReadOnly}
						nt.Ops = append(nt.Ops, t.Ops[:oi]...)
						nt.Ops = append(nt.Ops, t.Ops[oi+1:]...)
						c.Txs = append(c.Txs, nt)
					} else {
						c.Txs = append(c.Txs, t)
					}
				}
				try(c)
			}
		}
	}
	return cur, curF
}

func runC08(ctx *common.Ctx) error {
	res := ctx.Res
	res.Rule = "random and structured histories of db.Client Read/Write transactions over ALL operations of the db interface (list lengths 0..2*ChunkLimit+1 with mass at ChunkLimit-1/ChunkLimit/ChunkLimit+1 and 2*ChunkLimit-1/../+1, derived from db.ChunkLimit; half of the histories on a client with the tracing wrappers; aborts at every position with ordinary errors and with context.Canceled / context.DeadlineExceeded of a context derived inside the callback (bare, wrapped, returned by a query), each followed by a Read and a Write that must succeed, failing operations); after every operation the result and after every transaction a raw SQL dump of the file are compared with a plain in-memory relational oracle; non-trivial = distinct (operation kind, list-length class, outcome class)"
	scs := genScenarios(ctx)
	var lines []string
	caseID := 0
	seenFail := map[string]bool{}
	for si := range scs {
		sc := &scs[si]
		ctx.Current(sc.canon(nil), sc.Name)
		out := runScenario(ctx, sc, !sc.NoCoq)
		res.Evaluations += out.evals
		countScenario(res, sc)
		if out.fail != nil {
			if out.fail.Kind == "infra" {
				res.Infra("%s: %s", sc.Name, out.fail.Detail)
				continue
			}
			ssc, sf := sc, out.fail
			if !sc.Batch {
				ssc, sf = shrink(ctx, sc, out.fail, 60)
			} else {
				ssc, sf = shrink(ctx, sc, out.fail, 25)
			}
			sig := sigOf(ssc, sf)
			if sc.Trace {
				res.Count("failure-on-traced-client")
			}
			c := sig + " | " + ssc.canon(sf)
			res.Count("failure:" + sig)
			if !seenFail[sig] { // one report per (operation, kind of difference); the corpus runs first, so known ones are stable
				seenFail[sig] = true
				res.Fail(c, sf.Detail, map[string]interface{}{"scenario": sc.Name, "tx": sf.Tx, "op": sf.Op, "shrunk": ssc.canon(sf)})
			}
			continue
		}
		if out.coqOK && len(out.lines) > 0 && caseID < 400 {
			caseID++
			lines = append(lines, fmt.Sprintf("mkCase %d%%nat [\n    %s]", caseID, strings.Join(out.lines, ";\n    ")))
		}
		if len(res.Samples) < 6 && !sc.Batch {
			res.Sample(map[string]string{"scenario": sc.Name, "history": trunc(sc.canon(nil), 600)})
		}
	}
	res.ModelCases = len(lines)
	return common.WriteCases(ctx.Out, "Run.RunC08", "case", lines, "")
}

func trunc(s string, n int) string {
	if len(s) > n {
		return s[:n] + "..."
	}
	return s
}

func lenClass(n int) string {
	switch {
	case n == 0:
		return "0"
	case n == 1:
		return "1"
	case n < chunkLimit/2:
		return "<L/2"
	case n <= chunkLimit/2+1:
		return "L/2..L/2+1"
	case n < chunkLimit-1:
		return "<L-1"
	case n <= chunkLimit+1:
		return "L-1..L+1"
	case n < 2*chunkLimit-1:
		return "<2L-1"
	case n <= 2*chunkLimit+1:
		return "2L-1..2L+1"
	}
	return ">2L+1"
}

func countScenario(r *common.Result, sc *scenario) {
	for _, t := range sc.Txs {
		for i := range t.Ops {
			o := &t.Ops[i]
			n := len(o.Ids) + len(o.Pairs) + len(o.Reqs)
			r.Count("op:" + o.K)
			k := "W"
			if t.ReadOnly {
				k = "R"
			} else if t.Abort {
				k = "abort"
			}
			r.Count("tx:" + k)
			if o.Ids != nil || o.Pairs != nil || o.Reqs != nil {
				r.Count("len:" + lenClass(n))
				r.Nontrivial(o.K + "/" + lenClass(n) + "/" + k)
			} else {
				r.Nontrivial(o.K + "/" + k)
			}
		}
	}
}

var _ = sort.Ints
