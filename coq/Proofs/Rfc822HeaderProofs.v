(* C12/C13 — lemmas about Split and the header parser model (Model/Rfc822Split.v, Model/Rfc822Header.v). *)
From Coq Require Import List NArith Bool Arith Lia.
From Gluon Require Import Base.DecBytes Model.Rfc822Split Model.Rfc822Header.
Import ListNotations.

(* ---------- slices ---------- *)
Lemma skipn_skipn : forall {A} (x y : nat) (l : list A), skipn x (skipn y l) = skipn (x + y) l.
Proof.
  intros A x y. revert x. induction y as [|y IH]; intros x l.
  - rewrite Nat.add_0_r. reflexivity.
  - destruct l as [|a l]; [rewrite !skipn_nil; reflexivity|].
    rewrite Nat.add_succ_r. cbn [skipn]. apply IH.
Qed.

Lemma slice_length : forall (l : bytes) a b, a <= b -> b <= length l -> length (slice l a b) = b - a.
Proof. intros l a b H1 H2. unfold slice. rewrite firstn_length, skipn_length. lia. Qed.

Lemma slice_app_skipn : forall (l : bytes) a b, a <= b -> slice l a b ++ skipn b l = skipn a l.
Proof.
  intros l a b H. unfold slice.
  replace (skipn b l) with (skipn (b - a) (skipn a l)).
  - apply firstn_skipn.
  - rewrite skipn_skipn. f_equal. lia.
Qed.

Lemma slice_split : forall (l : bytes) a b c, a <= b -> b <= c -> slice l a b ++ slice l b c = slice l a c.
Proof.
  intros l a b c H1 H2. unfold slice.
  replace (skipn b l) with (skipn (b - a) (skipn a l)) by (rewrite skipn_skipn; f_equal; lia).
  set (m := skipn a l).
  replace (c - a) with ((b - a) + (c - b)) by lia.
  rewrite <- (firstn_skipn (b - a) (firstn (b - a + (c - b)) m)).
  rewrite firstn_firstn. replace (Nat.min (b - a) (b - a + (c - b))) with (b - a) by lia.
  f_equal. rewrite skipn_firstn_comm. f_equal. lia.
Qed.

Lemma slice_full : forall (l : bytes), slice l 0 (length l) = l.
Proof. intros. unfold slice. rewrite Nat.sub_0_r. cbn [skipn]. apply firstn_all. Qed.

Lemma slice_of_skipn : forall (l : bytes) off a b, slice (skipn off l) a b = slice l (off + a) (off + b).
Proof.
  intros. unfold slice. rewrite skipn_skipn. replace (off + b - (off + a)) with (b - a) by lia.
  f_equal. f_equal. lia.
Qed.

(* ---------- Split ---------- *)
Lemma split_idx_le : forall s st, split_idx s st <= length s.
Proof.
  induction s as [|b t IH]; intros st; cbn [split_idx length]; [lia|].
  destruct (N.eqb b LF).
  - destruct st; [lia|]. specialize (IH true). lia.
  - specialize (IH (st && N.eqb b CR)). lia.
Qed.

Lemma split_header_body : forall b, split_header b ++ split_body b = b.
Proof. intros. unfold split_header, split_body. apply firstn_skipn. Qed.

Lemma split_header_length : forall b, length (split_header b) = split_idx b true.
Proof. intros. unfold split_header. rewrite firstn_length. pose proof (split_idx_le b true). lia. Qed.

Lemma split_header_prefix : forall b, split_header b = firstn (length (split_header b)) b.
Proof. intros. rewrite split_header_length. reflexivity. Qed.

(* ---------- phase 1 ---------- *)
Lemma find_key_line : forall s i ok n, find_key s i ok = KLine n -> i < n /\ n <= i + length s.
Proof.
  induction s as [|b t IH]; intros i ok n H; cbn [find_key] in H; [discriminate|].
  cbn [length]. destruct (N.eqb b COLON).
  - destruct t; discriminate.
  - destruct (N.eqb b LF).
    + inversion H; subst. lia.
    + apply IH in H. lia.
Qed.

(* key bytes scanned so far are valid iff ok *)
Lemma find_key_colon : forall s i ok j ok' rest, find_key s i ok = KColon j ok' rest ->
  i <= j /\ rest = skipn (S (j - i)) s /\ rest <> [] /\ S j + length rest = i + length s /\
  nth (j - i) s 0%N = COLON /\
  ok' = (ok && forallb key_byte_ok (firstn (j - i) s)).
Proof.
  induction s as [|b t IH]; intros i ok j ok' rest H; cbn [find_key] in H; [discriminate|].
  destruct (N.eqb b COLON) eqn:Ec.
  - destruct t as [|c t']; [discriminate|]. inversion H; subst.
    rewrite Nat.sub_diag. cbn [skipn firstn forallb nth length].
    apply N.eqb_eq in Ec. repeat split; try lia; try discriminate; auto.
    rewrite andb_true_r. reflexivity.
  - destruct (N.eqb b LF); [discriminate|].
    apply IH in H. destruct H as (H1 & H2 & H3 & H4 & H5 & H6).
    replace (j - i) with (S (j - S i)) by lia.
    cbn [skipn firstn forallb nth length]. repeat split; try lia; auto.
    rewrite H6. rewrite andb_assoc. reflexivity.
Qed.

(* ---------- phase 2 ---------- *)
Lemma skip_wsp_spec : forall s i s1 so, skip_wsp s i = (s1, so) ->
  i <= so /\ so + length s1 = i + length s /\ s1 = skipn (so - i) s /\ next_is_wsp s1 = false.
Proof.
  induction s as [|b t IH]; intros i s1 so H; cbn [skip_wsp] in H.
  - inversion H; subst. rewrite Nat.sub_diag. cbn. repeat split; lia.
  - destruct (isWSP b) eqn:E.
    + apply IH in H. destruct H as (H1 & H2 & H3 & H4). cbn [length].
      replace (so - i) with (S (so - S i)) by lia. cbn [skipn]. repeat split; auto; lia.
    + inversion H; subst. rewrite Nat.sub_diag. cbn [skipn next_is_wsp]. repeat split; auto; lia.
Qed.

Lemma scan_value_spec : forall n s so, length s <= n ->
  match scan_value s so with
  | VErr => True
  | VDone ve => so < ve /\ ve <= so + length s
  | VEnd so' => so' = so + length s
  end.
Proof.
  induction n as [|n IH]; intros s so Hn.
  - destruct s; [cbn; lia|cbn in Hn; lia].
  - destruct s as [|b t]; [cbn; lia|]. cbn [length] in Hn. cbn [scan_value length].
    destruct (N.eqb b CR).
    + destruct t as [|c t']; [exact I|]. cbn [length] in *.
      destruct (N.eqb c LF); [|exact I].
      destruct (next_is_wsp t').
      * specialize (IH t' (S (S so)) ltac:(lia)). destruct (scan_value t' (S (S so))); auto; lia.
      * lia.
    + destruct (N.eqb b LF).
      * destruct (next_is_wsp t).
        -- specialize (IH t (S so) ltac:(lia)). destruct (scan_value t (S so)); auto; lia.
        -- lia.
      * specialize (IH t (S so) ltac:(lia)). destruct (scan_value t (S so)); auto; lia.
Qed.

(* what one successful call of next guarantees *)
Definition entry_ok (len off : nat) (e : hentry) (n : nat) : Prop :=
  keyStart e = off /\ keyStart e <= keyEnd e /\ keyEnd e <= valueStart e /\ valueStart e <= valueEnd e /\
  valueEnd e <= len /\ off < n /\ valueEnd e = Nat.min n len /\ n <= S len.

Lemma collect_value_ok : forall len ks ke s o e n,
  (o + length s = len \/ (s = [] /\ o = S len)) -> ks <= ke -> ke < o -> ks < len ->
  collect_value len ks ke s o = NOk e n ->
  keyStart e = ks /\ keyEnd e = ke /\ ke <= valueStart e /\ valueStart e <= valueEnd e /\ valueEnd e <= len /\
  o <= n /\ valueEnd e = Nat.min n len /\ n <= S len /\ (ks < n).
Proof.
  intros len ks ke s o e n Hinv Hk Hko Hks H. unfold collect_value in H.
  destruct (skip_wsp s o) as [s1 so] eqn:Es. apply skip_wsp_spec in Es. destruct Es as (E1 & E2 & _ & E4).
  pose proof (scan_value_spec (length s1) s1 so (le_n _)) as Hv.
  destruct (scan_value s1 so) as [|ve|so'] eqn:Ev; [discriminate| |].
  - inversion H; subst; clear H. cbn [keyStart keyEnd valueStart valueEnd].
    destruct s1 as [|c s1']; [cbn in Ev; discriminate|]. cbn [length] in *.
    destruct Hinv as [Hinv|[Hs Ho]]; [|subst; cbn in E2; lia]. lia.
  - inversion H; subst; clear H. cbn [keyStart keyEnd valueStart valueEnd].
    destruct s1 as [|c s1']; cbn [length] in *.
    + destruct Hinv as [Hinv|[Hs Ho]]; [|subst; cbn [length] in E2]; lia.
    + destruct Hinv as [Hinv|[Hs Ho]]; [|subst; cbn in E2; lia]. lia.
Qed.

Lemma after_linebreak_ok : forall len ks ke ok s off e n,
  (off + length s = len \/ (s = [] /\ off = S len)) -> ks <= ke -> ke < off -> ks < len ->
  after_linebreak len ks ke ok s off = NOk e n ->
  ok = true /\
  keyStart e = ks /\ keyEnd e = ke /\ ke <= valueStart e /\ valueStart e <= valueEnd e /\ valueEnd e <= len /\
  off <= n /\ valueEnd e = Nat.min n len /\ n <= S len /\ ks < n.
Proof.
  intros len ks ke ok s off e n Hinv Hk Hko Hks H. unfold after_linebreak in H.
  destruct ok; cbn [negb] in H; [|discriminate]. split; [reflexivity|].
  destruct s as [|b t].
  - apply collect_value_ok in H; auto.
  - destruct (isWSP b).
    + apply collect_value_ok in H; auto.
    + inversion H; subst; clear H. cbn [keyStart keyEnd valueStart valueEnd].
      destruct Hinv as [Hinv|[Hs _]]; [|discriminate]. cbn [length] in Hinv. lia.
Qed.

Lemma hp_next_ok : forall len s off e n, off + length s = len ->
  hp_next len s off = NOk e n -> entry_ok len off e n.
Proof.
  intros len s off e n Hinv H. unfold hp_next in H.
  destruct s as [|b0 t0] eqn:Es; [discriminate|]. rewrite <- Es in *.
  assert (Hlt : off < len) by (subst s; cbn [length] in Hinv; lia).
  destruct (find_key s off true) as [|m|i ok rest] eqn:Ek; [discriminate| |].
  - inversion H; subst e n; clear H. apply find_key_line in Ek.
    unfold entry_ok. cbn [keyStart keyEnd valueStart valueEnd]. lia.
  - apply find_key_colon in Ek. destruct Ek as (K1 & K2 & K3 & K4 & K5 & K6).
    destruct rest as [|c t]; [contradiction|]. cbn [length] in K4.
    unfold entry_ok.
    destruct (isWSP c).
    { destruct ok; [|discriminate]. apply collect_value_ok in H; cbn [length]; try lia. }
    destruct (N.eqb c CR).
    { destruct t as [|d t'].
      - apply after_linebreak_ok in H; try lia. right. split; [reflexivity|]. cbn [length] in K4. lia.
      - destruct (N.eqb d LF); [|discriminate]. cbn [length] in K4.
        apply after_linebreak_ok in H; try lia. }
    destruct (N.eqb c LF).
    { apply after_linebreak_ok in H; try lia. }
    destruct (N.eqb c COLON); [discriminate|].
    destruct ok; [|discriminate]. apply collect_value_ok in H; cbn [length]; try lia.
Qed.

(* a key-bearing entry has a validated key: all key bytes are printable non-space ASCII *)
Lemma hp_next_key_valid : forall len s off e n, off + length s = len ->
  hp_next len s off = NOk e n -> has_key e = true ->
  keyStart e = off /\ forallb key_byte_ok (firstn (keyEnd e - off) s) = true /\
  nth (keyEnd e - off) s 0%N = COLON /\ keyEnd e < len.
Proof.
  intros len s off e n Hinv H Hk. unfold hp_next in H.
  destruct s as [|b0 t0] eqn:Es; [discriminate|]. rewrite <- Es in *.
  destruct (find_key s off true) as [|m|i ok rest] eqn:Ek; [discriminate| |].
  - inversion H; subst e n. unfold has_key in Hk. cbn in Hk. rewrite Nat.eqb_refl in Hk. discriminate.
  - apply find_key_colon in Ek. destruct Ek as (K1 & K2 & K3 & K4 & K5 & K6).
    cbn [andb] in K6.
    destruct rest as [|c t]; [contradiction|]. cbn [length] in K4.
    assert (Hgoal : forall e', keyStart e' = off -> keyEnd e' = i -> ok = true ->
       keyStart e' = off /\ forallb key_byte_ok (firstn (keyEnd e' - off) s) = true /\
       nth (keyEnd e' - off) s 0%N = COLON /\ keyEnd e' < len).
    { intros e' E1 E2 E3. rewrite E2. subst ok. repeat split; auto. lia. }
    destruct (isWSP c).
    { destruct ok; [|discriminate]. apply collect_value_ok in H; cbn [length]; try lia.
      destruct H as (A & B & _). apply Hgoal; auto. }
    destruct (N.eqb c CR).
    { destruct t as [|d t'].
      - apply after_linebreak_ok in H; try lia.
        + destruct H as (A0 & A & B & _). apply Hgoal; auto.
        + right. split; [reflexivity|]. cbn [length] in K4. lia.
      - destruct (N.eqb d LF); [|discriminate]. cbn [length] in K4.
        apply after_linebreak_ok in H; try lia. destruct H as (A0 & A & B & _). apply Hgoal; auto. }
    destruct (N.eqb c LF).
    { apply after_linebreak_ok in H; try lia. destruct H as (A0 & A & B & _). apply Hgoal; auto. }
    destruct (N.eqb c COLON); [discriminate|].
    destruct ok; [|discriminate]. apply collect_value_ok in H; cbn [length]; try lia.
    destruct H as (A & B & _). apply Hgoal; auto.
Qed.

Lemma collect_value_not_eof : forall len ks ke s o, collect_value len ks ke s o <> NEOF.
Proof.
  intros. unfold collect_value. destruct (skip_wsp s o) as [s1 so].
  destruct (scan_value s1 so); discriminate.
Qed.

Lemma after_linebreak_not_eof : forall len ks ke ok s off, after_linebreak len ks ke ok s off <> NEOF.
Proof.
  intros. unfold after_linebreak. destruct (negb ok); [discriminate|].
  destruct s as [|b t]; [apply collect_value_not_eof|].
  destruct (isWSP b); [apply collect_value_not_eof|discriminate].
Qed.

Lemma hp_next_eof : forall len s off, hp_next len s off = NEOF -> s = [].
Proof.
  intros len s off H. destruct s as [|b0 t0]; [reflexivity|]. exfalso. unfold hp_next in H.
  destruct (find_key (b0 :: t0) off true) as [|m|i ok rest]; try discriminate.
  destruct rest as [|c t]; [discriminate|].
  destruct (isWSP c). { destruct ok; [|discriminate]. eapply collect_value_not_eof; eauto. }
  destruct (N.eqb c CR).
  { destruct t as [|d t']; [eapply after_linebreak_not_eof; eauto|].
    destruct (N.eqb d LF); [eapply after_linebreak_not_eof; eauto|discriminate]. }
  destruct (N.eqb c LF); [eapply after_linebreak_not_eof; eauto|].
  destruct (N.eqb c COLON); [discriminate|].
  destruct ok; [|discriminate]. eapply collect_value_not_eof; eauto.
Qed.

(* ---------- all entries ---------- *)
(* the entries tile the header from [off] to its end: each starts where the previous one ended *)
Fixpoint entries_tile (len off : nat) (es : list hentry) : Prop :=
  match es with
  | [] => len <= off
  | e :: es' =>
    keyStart e = off /\ keyStart e <= keyEnd e /\ keyEnd e <= valueStart e /\ valueStart e <= valueEnd e /\
    valueEnd e <= len /\ keyStart e < valueEnd e /\ entries_tile len (valueEnd e) es'
  end.

Lemma hp_all_spec : forall fuel len s off,
  (off + length s = len \/ (s = [] /\ off = S len)) -> length s < fuel ->
  match hp_all fuel len s off with
  | HFuel => False
  | HErr => True
  | HOk es => entries_tile len off es
  end.
Proof.
  induction fuel as [|f IH]; intros len s off Hinv Hf; [lia|].
  cbn [hp_all].
  destruct (hp_next len s off) as [| |e n] eqn:En.
  - (* EOF *) apply hp_next_eof in En. subst s.
    cbn [entries_tile]. destruct Hinv as [H|[_ H]]; cbn [length] in *; lia.
  - exact I.
  - destruct Hinv as [Hinv|[Hs _]]; [|subst s; cbn in En; discriminate].
    pose proof (hp_next_ok len s off e n Hinv En) as (E1 & E2 & E3 & E4 & E5 & E6 & E7 & E8).
    assert (Hrest : (n + length (skipn (n - off) s) = len \/ (skipn (n - off) s = [] /\ n = S len))).
    { rewrite skipn_length. destruct (Nat.le_gt_cases n len).
      - left. lia.
      - right. split; [|lia]. apply skipn_all2. lia. }
    specialize (IH len (skipn (n - off) s) n Hrest).
    assert (Hne : 1 <= length s) by (destruct s; [cbn in En; discriminate|cbn [length]; lia]).
    assert (Hlen : length (skipn (n - off) s) < f) by (rewrite skipn_length; lia).
    specialize (IH Hlen).
    destruct (hp_all f len (skipn (n - off) s) n) as [es| |]; auto.
    cbn [entries_tile]. repeat split; try lia.
    destruct (Nat.le_gt_cases n len).
    + replace (valueEnd e) with n by lia. exact IH.
    + (* n = len + 1: the rest is empty, so no further entries *)
      assert (valueEnd e = len) by lia.
      destruct es as [|e' es']; cbn [entries_tile] in *; lia.
Qed.

Lemma new_header_total : forall h, new_header h <> HFuel.
Proof.
  intros h H. unfold new_header in H.
  pose proof (hp_all_spec (S (length h)) (length h) h 0 (or_introl eq_refl) (Nat.lt_succ_diag_r _)) as S.
  rewrite H in S. exact S.
Qed.

Lemma new_header_tile : forall h es, new_header h = HOk es -> entries_tile (length h) 0 es.
Proof.
  intros h es H. unfold new_header in H.
  pose proof (hp_all_spec (S (length h)) (length h) h 0 (or_introl eq_refl) (Nat.lt_succ_diag_r _)) as S.
  rewrite H in S. exact S.
Qed.

(* bounds and strict monotonicity, in the form of the property statement *)
Definition entry_bounded (len : nat) (e : hentry) : Prop :=
  keyStart e <= keyEnd e /\ keyEnd e <= valueStart e /\ valueStart e <= valueEnd e /\ valueEnd e <= len.

Lemma tile_bounded : forall len es off, entries_tile len off es -> Forall (entry_bounded len) es.
Proof.
  induction es as [|e es IH]; intros off H; [constructor|].
  cbn [entries_tile] in H. destruct H as (H1 & H2 & H3 & H4 & H5 & H6 & H7).
  constructor; [unfold entry_bounded; lia|]. eapply IH; eauto.
Qed.

(* offsets strictly increase from entry to entry *)
Fixpoint strictly_increasing (es : list hentry) : Prop :=
  match es with
  | e :: ((e' :: _) as t) => keyStart e < keyStart e' /\ valueEnd e <= keyStart e' /\ strictly_increasing t
  | _ => True
  end.

Lemma tile_increasing : forall len es off, entries_tile len off es -> strictly_increasing es.
Proof.
  induction es as [|e es IH]; intros off H; [exact I|].
  cbn [entries_tile] in H. destruct H as (H1 & H2 & H3 & H4 & H5 & H6 & H7).
  destruct es as [|e' es']; [exact I|].
  cbn [strictly_increasing]. pose proof H7 as H7'. cbn [entries_tile] in H7'. destruct H7' as (G1 & _).
  repeat split; try lia. eapply IH; eauto.
Qed.

(* no byte of the header is lost or duplicated by the entries *)
Lemma tile_flat_map : forall h es off, entries_tile (length h) off es -> off <= length h ->
  flat_map (e_all h) es = skipn off h.
Proof.
  intros h. induction es as [|e es IH]; intros off H Hoff; cbn [flat_map].
  - cbn [entries_tile] in H. symmetry. apply skipn_all2. lia.
  - cbn [entries_tile] in H. destruct H as (H1 & H2 & H3 & H4 & H5 & H6 & H7).
    rewrite (IH (valueEnd e) H7 H5). unfold e_all. rewrite H1 in *. apply slice_app_skipn. lia.
Qed.

Lemma new_header_entries_tile_header : forall h es, new_header h = HOk es -> flat_map (e_all h) es = h.
Proof.
  intros h es H. apply new_header_tile in H. rewrite (tile_flat_map h es 0 H (Nat.le_0_l _)). reflexivity.
Qed.

(* ---------- every entry of NewHeader is the result of one call of next at its own start ---------- *)
Lemma hp_all_steps : forall h fuel off es, off <= length h ->
  hp_all fuel (length h) (skipn off h) off = HOk es ->
  Forall (fun e => exists n, hp_next (length h) (skipn (keyStart e) h) (keyStart e) = NOk e n /\ keyStart e <= length h) es.
Proof.
  intros h. induction fuel as [|f IH]; intros off es Hoff H; [discriminate|].
  cbn [hp_all] in H.
  destruct (hp_next (length h) (skipn off h) off) as [| |e n] eqn:En; try discriminate.
  - inversion H. constructor.
  - destruct (hp_all f (length h) (skipn (n - off) (skipn off h)) n) as [es'| |] eqn:Ea; try discriminate.
    inversion H; subst.
    assert (Hinv : off + length (skipn off h) = length h) by (rewrite skipn_length; lia).
    pose proof (hp_next_ok _ _ _ _ _ Hinv En) as (E1 & E2 & E3 & E4 & E5 & E6 & E7 & E8).
    constructor.
    + exists n. rewrite E1. auto.
    + rewrite skipn_skipn in Ea. replace (n - off + off) with n in Ea by lia.
      destruct (Nat.le_gt_cases n (length h)).
      * eapply IH; eauto.
      * (* n = len + 1 : nothing left *)
        rewrite skipn_all2 in Ea by lia. destruct f; [discriminate|]. cbn in Ea. inversion Ea. constructor.
Qed.

Lemma new_header_steps : forall h es, new_header h = HOk es ->
  Forall (fun e => exists n, hp_next (length h) (skipn (keyStart e) h) (keyStart e) = NOk e n /\ keyStart e <= length h) es.
Proof. intros h es H. unfold new_header in H. apply (hp_all_steps h (S (length h)) 0 es (Nat.le_0_l _) H). Qed.

Lemma key_byte_not_space : forall b, key_byte_ok b = true -> is_space b = false.
Proof.
  intros b H. unfold key_byte_ok in H. apply andb_true_iff in H as [H1 H2].
  apply N.leb_le in H1. apply N.leb_le in H2. unfold is_space.
  repeat (apply orb_false_iff; split); apply N.eqb_neq; lia.
Qed.

(* a key-bearing entry is never blank: its key consists of printable non-space bytes *)
Lemma keyed_entry_not_blank : forall h e n, keyStart e <= length h ->
  hp_next (length h) (skipn (keyStart e) h) (keyStart e) = NOk e n -> has_key e = true ->
  blank (e_all h e) = false /\ forallb key_byte_ok (e_key h e) = true /\ e_key h e <> [].
Proof.
  intros h e n Hks H Hk.
  assert (Hinv : keyStart e + length (skipn (keyStart e) h) = length h) by (rewrite skipn_length; lia).
  pose proof (hp_next_ok _ _ _ _ _ Hinv H) as (E1 & E2 & E3 & E4 & E5 & E6 & E7 & E8).
  pose proof (hp_next_key_valid _ _ _ _ _ Hinv H Hk) as (K1 & K2 & K3 & K4).
  assert (Hne : keyStart e < keyEnd e).
  { unfold has_key in Hk. destruct (Nat.eqb_spec (keyStart e) (keyEnd e)); [discriminate|lia]. }
  assert (Hkey : e_key h e = firstn (keyEnd e - keyStart e) (skipn (keyStart e) h)) by reflexivity.
  rewrite <- Hkey in K2.
  assert (Hlen : length (e_key h e) = keyEnd e - keyStart e) by (unfold e_key; apply slice_length; lia).
  assert (Hsplit : e_all h e = e_key h e ++ slice h (keyEnd e) (valueEnd e)).
  { unfold e_all, e_key. symmetry. apply slice_split; lia. }
  destruct (e_key h e) as [|b t] eqn:Ek; [cbn in Hlen; lia|].
  split; [|split; [exact K2|discriminate]].
  rewrite Hsplit. cbn [app blank forallb]. cbn [forallb] in K2. apply andb_true_iff in K2 as [Kb _].
  rewrite (key_byte_not_space b Kb). reflexivity.
Qed.

(* ---------- HEADER.FIELDS / HEADER.FIELDS.NOT ---------- *)
Lemma header_fields_filter : forall neg h fields es, new_header h = HOk es ->
  header_fields neg h fields = Some (flat_map (e_all h) (filter (field_sel neg h fields) es)).
Proof. intros neg h fields es H. unfold header_fields. rewrite H. reflexivity. Qed.

Lemma fields_partition : forall h es fields e, new_header h = HOk es -> In e es ->
  (has_key e = true -> field_sel false h fields e = negb (field_sel true h fields e)) /\
  (blank (e_all h e) = true -> field_sel false h fields e = true /\ field_sel true h fields e = true) /\
  (has_key e = false -> blank (e_all h e) = false ->
     field_sel false h fields e = false /\ field_sel true h fields e = false).
Proof.
  intros h es fields e H Hin. pose proof (new_header_steps h es H) as HF. rewrite Forall_forall in HF.
  destruct (HF e Hin) as (n & Hn & Hks).
  unfold field_sel. repeat split.
  - intros Hk. destruct (keyed_entry_not_blank h e n Hks Hn Hk) as (Hb & _). rewrite Hb, Hk. cbn [orb andb xorb].
    destruct (key_in fields (e_key h e)); reflexivity.
  - rewrite H0. reflexivity.
  - rewrite H0. reflexivity.
  - rewrite H0, H1. reflexivity.
  - rewrite H0, H1. reflexivity.
Qed.

(* ---------- SetHeaderValue: where the line goes ---------- *)
Lemma hp_find_vs_all : forall fuel len p s off es, hp_all fuel len s off = HOk es ->
  hp_find fuel len p s off = match find p es with Some e => FFound e | None => FNone end.
Proof.
  induction fuel as [|f IH]; intros len p s off es H; [discriminate|].
  cbn [hp_all] in H. cbn [hp_find].
  destruct (hp_next len s off) as [| |e n]; try discriminate.
  - inversion H. reflexivity.
  - destruct (hp_all f len (skipn (n - off) s) n) as [es'| |] eqn:Ea; try discriminate.
    inversion H; subst. cbn [find]. destruct (p e); [reflexivity|]. apply IH. exact Ea.
Qed.

(* the offset of the first header field (first entry with a key), or the end of the header if it has none *)
Definition first_field_offset (h : bytes) (es : list hentry) : nat :=
  match find has_key es with Some e => keyStart e | None => length h end.

Lemma set_header_inserts_one_line : forall lit key val es,
  new_header (split_header lit) = HOk es ->
  set_header_value lit key val =
    Some (firstn (first_field_offset (split_header lit) es) lit ++ join_line key val
          ++ skipn (first_field_offset (split_header lit) es) lit).
Proof.
  intros lit key val es H. unfold set_header_value, first_field_offset.
  unfold new_header in H. rewrite (hp_find_vs_all _ _ has_key _ _ _ H).
  destruct (find has_key es) as [e|]; [reflexivity|].
  f_equal. rewrite split_header_length. unfold split_header, split_body. reflexivity.
Qed.
