(* Lemmas behind the theorems of Props/C04.v. *)
From Coq Require Import List ZArith NArith Bool Lia.
From Gluon Require Import Gen.FactsLimits Model.UidValidityGen Model.MailStore Proofs.MailStoreBase Proofs.MailStoreWf.
Import ListNotations.
Open Scope Z_scope.

(* ---------- UIDs ---------- *)
Lemma log_incr_split : forall l l1 e l2 e' l3, log_incr l -> l = l1 ++ e :: l2 ++ e' :: l3 -> e_id e = e_id e' -> e_uid e < e_uid e'.
Proof.
  intros l l1. revert l. induction l1 as [|x t IH]; intros l e l2 e' l3 H E Hid; subst l.
  - cbn [app log_incr] in H. destruct H as [H _]. apply H; [|symmetry; assumption].
    apply in_or_app. right. left. reflexivity.
  - cbn [app log_incr] in H. destruct H as [_ H]. eapply IH; [exact H | reflexivity | assumption].
Qed.

Section C04.
Variable hash : N -> option N.
Variable fx : codefacts.
Variable c : cfg.
Variable clock : nat -> Z.
Notation run' := (run hash fx c clock).
Notation step' := (step hash fx c clock).

Lemma uid_strictly_increasing : forall s h l1 e l2 e' l3, wf s ->
  s_log (run' s h) = l1 ++ e :: l2 ++ e' :: l3 -> e_id e = e_id e' -> e_uid e < e_uid e'.
Proof.
  intros s h l1 e l2 e' l3 W E Hid. destruct (good_run hash fx c clock h s W) as [W' _].
  eapply log_incr_split; [apply W' | exact E | assumption].
Qed.

Lemma uid_never_reused : forall s h, wf s ->
  (exists n, s_log (run' s h) = s_log s ++ n) /\
  (forall e e', In e (s_log (run' s h)) -> In e' (s_log (run' s h)) -> e_id e = e_id e' -> e_uid e = e_uid e' -> e = e') /\
  (forall m r, In m (s_mboxes (run' s h)) -> In r (mb_rows m) -> exists v, In (mb_id m, v, fst r, snd r) (s_log (run' s h))).
Proof.
  intros s h W. destruct (good_run hash fx c clock h s W) as [W' (_ & _ & E)]. split; [exact E|]. split.
  - intros e e' He He' Hi Hu. eapply log_incr_functional; [apply W' | assumption..].
  - apply W'.
Qed.

Lemma uidnext_bounds : forall s h m e, wf s -> In m (s_mboxes (run' s h)) -> In e (s_log (run' s h)) -> e_id e = mb_id m ->
  1 <= e_uid e < mb_seq m + 1.
Proof.
  intros s h m e W Hm He Hid. destruct (good_run hash fx c clock h s W) as [W' _].
  destruct (wf_log _ _ _ W' e He) as (_ & A & B). specialize (B m Hm (eq_sym Hid)). lia.
Qed.
Lemma uidnext_rows : forall s h m r, wf s -> In m (s_mboxes (run' s h)) -> In r (mb_rows m) -> 1 <= fst r < mb_seq m + 1.
Proof.
  intros s h m r W Hm Hr. destruct (good_run hash fx c clock h s W) as [W' _].
  destruct (wf_rows _ _ _ W' m r Hm Hr) as (v & Hv).
  destruct (wf_log _ _ _ W' _ Hv) as (_ & A & B). specialize (B m Hm eq_refl). cbn in A, B. lia.
Qed.
Lemma uidnext_monotone : forall s h m m', wf s -> In m (s_mboxes s) -> In m' (s_mboxes (run' s h)) -> mb_id m = mb_id m' ->
  mb_seq m + 1 <= mb_seq m' + 1.
Proof.
  intros s h m m' W Hm Hm' Hid. destruct (good_run hash fx c clock h s W) as [W' (_ & E & _)].
  destruct (E m' Hm') as (m0 & H0 & I0 & S0); [rewrite <- Hid; apply W; assumption|].
  assert (m0 = m) by (apply (nodup_same_id (s_mboxes s)); [apply W | assumption | assumption | congruence]). subst. lia.
Qed.

(* what a session may show: every (uid, message) pair that was ever announced for a mailbox is a pair of that mailbox's
   UID table - two announcements of one UID carry the same message, and an announced UID that is still in the mailbox
   carries the message of that row *)
Lemma view_pairs_consistent : forall s h e, wf s -> In e (s_log (run' s h)) ->
  (forall e', In e' (s_log (run' s h)) -> e_id e' = e_id e -> e_uid e' = e_uid e -> e_msg e' = e_msg e) /\
  (forall m r, In m (s_mboxes (run' s h)) -> mb_id m = e_id e -> In r (mb_rows m) -> fst r = e_uid e -> snd r = e_msg e).
Proof.
  intros s h e W He. destruct (good_run hash fx c clock h s W) as [W' _]. split.
  - intros e' He' Hi Hu. rewrite (log_incr_functional _ e' e (wf_incr _ _ _ W') He' He Hi Hu). reflexivity.
  - intros m r Hm Hi Hr Hu. destruct (wf_rows _ _ _ W' m r Hm Hr) as (v & Hv).
    assert (E : (mb_id m, v, fst r, snd r) = e).
    { apply (log_incr_functional _ _ e (wf_incr _ _ _ W') Hv He); [exact Hi | exact Hu]. }
    rewrite <- E. reflexivity.
Qed.

(* ---------- announced UIDs ---------- *)
Lemma find_name_ins : forall s n m ms, wf s -> find_name n (s_mboxes s) = Some m ->
  find_name n (s_mboxes (ins_msgs (mb_id m) ms s)) = Some (mb_ins ms m).
Proof.
  intros s n m ms W F. unfold ins_msgs. rewrite (find_id_of_name s W n m F).
  cbn [add_log set_mboxes s_mboxes]. rewrite (find_name_upd n (mb_id m) (mb_ins ms) _ m) by (try reflexivity; assumption).
  rewrite N.eqb_refl. reflexivity.
Qed.
Lemma find_name_ins_mem : forall s x n m ms, wf s -> find_name n (s_mboxes s) = Some m -> s_mboxes x = s_mboxes s ->
  find_name n (s_mboxes (ins_msgs (mb_id m) ms x)) = Some (mb_ins ms m).
Proof.
  intros s x n m ms W F E. unfold ins_msgs. rewrite E. rewrite (find_id_of_name s W n m F).
  cbn [add_log set_mboxes s_mboxes]. rewrite (find_name_upd n (mb_id m) (mb_ins ms) _ m) by (try reflexivity; assumption).
  rewrite N.eqb_refl. reflexivity.
Qed.
Lemma find_name_del_msgs : forall s n m j ids, find_name n (s_mboxes s) = Some m ->
  find_name n (s_mboxes (del_msgs j ids s)) = Some (if N.eqb (mb_id m) j then mb_del ids m else m).
Proof. intros. unfold del_msgs. cbn [set_mboxes s_mboxes]. apply find_name_upd; [reflexivity | assumption]. Qed.

Lemma append_announced : forall s n lit r s' a, wf s -> op_append hash fx c s n lit r = (s', ResOk a) ->
  exists u id m', a = [(0, u)] /\ find_name n (s_mboxes s') = Some m' /\ In (u, (id, lit)) (mb_rows m').
Proof.
  intros s n lit r s' a W H. unfold op_append in H. destruct (is_recov n); [inversion H|].
  destruct (find_name n (s_mboxes s)) as [m|] eqn:F; [|inversion H].
  assert (L : forall x y, limit_refuse hash fx x lit = (y, ResOk a) -> False).
  { intros x y. unfold limit_refuse. destruct (cf_limit_norecover fx); intro Q; inversion Q. }
  assert (R : forall x y, recover_res hash fx x lit = (y, ResOk a) -> False).
  { intros x y. unfold recover_res. destruct (recover hash fx x lit) as [? [|]]; intro Q; inversion Q. }
  destruct (append_check c m); [|exfalso; eapply L; eassumption].
  unfold append_write in H. rewrite (find_id_of_name s W n m F) in H.
  destruct (cf_recheck fx && negb (room c m 1)); [exfalso; eapply L; eassumption|].
  destruct r; [|exfalso; eapply R; eassumption | inversion H].
  inversion H; subst. exists (mb_seq m + 1), (s_nextmsg s), (mb_ins [(s_nextmsg s, lit)] m).
  split; [reflexivity|]. split.
  - apply (find_name_ins_mem s); [assumption | assumption | reflexivity].
  - cbn [mb_ins mb_rows assign]. apply in_or_app. right. left. reflexivity.
Qed.

Lemma zip_uids_in : forall sel q su du, In (su, du) (zip_uids sel q) ->
  exists r, In r sel /\ su = fst r /\ In (du, snd r) (assign q (map snd sel)).
Proof.
  unfold zip_uids. induction sel as [|x t IH]; intros q su du H; cbn [map assign combine] in H; [contradiction|].
  destruct H as [H|H].
  - inversion H; subst. exists x. split; [left; reflexivity|]. split; [reflexivity|]. cbn [map assign fst snd]. left. reflexivity.
  - destruct (IH (q + 1) su du H) as (r & A & B & C). exists r. split; [right; assumption|]. split; [assumption|].
    cbn [map assign]. right. assumption.
Qed.
Lemma fresh_pairs_in : forall sel q id su du,
  In (su, du) (map (fun p : row * row => (fst (fst p), fst (snd p))) (combine sel (assign q (fresh_msgs id sel)))) ->
  exists r nid, In r sel /\ su = fst r /\ In (du, (nid, snd (snd r))) (assign q (fresh_msgs id sel)).
Proof.
  induction sel as [|x t IH]; intros q id su du H; cbn [fresh_msgs assign combine map] in H; [contradiction|].
  destruct H as [H|H].
  - inversion H; subst. exists x, id. split; [left; reflexivity|]. split; [reflexivity|]. cbn [fresh_msgs assign fst snd]. left. reflexivity.
  - destruct (IH (q + 1) (id + 1)%N su du H) as (r & nid & A & B & C). exists r, nid. split; [right; assumption|]. split; [assumption|].
    cbn [fresh_msgs assign]. right. assumption.
Qed.

Definition announced_ok (s s' : store) (a b : path) (pairs : list (Z * Z)) : Prop :=
  exists ms md', find_name a (s_mboxes s) = Some ms /\ find_name b (s_mboxes s') = Some md' /\
  forall su du, In (su, du) pairs -> exists x x', In (su, x) (mb_rows ms) /\ In (du, x') (mb_rows md') /\ snd x = snd x'.

Lemma db_add_find : forall x n d ms s2, wf x -> find_name n (s_mboxes x) = Some d -> db_add c (mb_id d) ms x = Some s2 ->
  find_name n (s_mboxes s2) = Some (mb_ins ms d).
Proof. intros x n d ms s2 W F D. apply db_add_some in D. subst. apply find_name_ins; assumption. Qed.

Lemma add_messages_announced : forall s a b m d u lab s' pairs, wf s ->
  find_name a (s_mboxes s) = Some m -> find_name b (s_mboxes s) = Some d ->
  add_messages c s d (selection m u) lab = (s', ResOk pairs) -> announced_ok s s' a b pairs.
Proof.
  intros s a b m d u lab s' pairs W Fa Fb H. unfold add_messages in H. destruct (negb lab); [inversion H|].
  match type of H with context[db_add c ?i ?ms ?x] => destruct (db_add c i ms x) as [s2|] eqn:D end; [|inversion H].
  inversion H; subst. clear H.
  match type of D with db_add c _ _ (del_msgs ?j ?ids s) = _ =>
    pose proof (find_name_del_msgs s b d j ids Fb) as Fd; assert (W1 : wf (del_msgs j ids s)) by (apply good_del_msgs; assumption) end.
  rewrite N.eqb_refl in Fd.
  match type of Fd with find_name _ _ = Some ?d1 => assert (E : mb_id d1 = mb_id d) by reflexivity end.
  rewrite <- E in D. pose proof (db_add_find _ b _ _ _ W1 Fd D) as F2.
  exists m. eexists. split; [exact Fa|]. split; [exact F2|].
  intros su du Hp. apply zip_uids_in in Hp. destruct Hp as (r & A & B & C).
  exists (snd r), (snd r). split; [|split; [|reflexivity]].
  - subst su. destruct r. apply (selection_in m u). assumption.
  - cbn [mb_ins mb_del mb_rows mb_seq]. apply in_or_app. right. assumption.
Qed.

Lemma out_of_recovery_announced : forall s a b m d u mv cr lab s' pairs, wf s ->
  find_name a (s_mboxes s) = Some m -> find_name b (s_mboxes s) = Some d -> mb_id d <> recov_id ->
  out_of_recovery fx c s d (selection m u) mv cr lab = (s', ResOk pairs) -> announced_ok s s' a b pairs.
Proof.
  intros s a b m d u mv cr lab s' pairs W Fa Fb Hd H. unfold out_of_recovery in H. destruct (negb cr); [inversion H|].
  cbv zeta in H. destruct (negb lab); [inversion H|].
  match type of H with context[db_add c ?i ?ms ?x] => destruct (db_add c i ms x) as [s2|] eqn:D end; [|inversion H].
  inversion H; subst. clear H.
  match type of D with db_add c _ _ ?x = _ => assert (W1 : wf x /\ find_name b (s_mboxes x) = Some d) end.
  { destruct mv, (cf_erase_late fx); cbn [andb negb]; (split; [match goal with |- wf ?x => assert (G : good s x) by peel; apply G end|]);
      cbn [erase_hashes set_hashes s_mboxes bump_msg];
      try (rewrite (find_name_del_msgs _ b d) by (cbn [bump_msg s_mboxes]; exact Fb);
           destruct (N.eqb (mb_id d) recov_id) eqn:E; [apply N.eqb_eq in E; contradiction | reflexivity]);
      exact Fb. }
  destruct W1 as [W1 F1]. pose proof (db_add_find _ b _ _ _ W1 F1 D) as F2.
  assert (F3 : find_name b (s_mboxes (if mv && cf_erase_late fx then erase_hashes (map (fun r : row => fst (snd r)) (selection m u)) s2 else s2)) = Some (mb_ins (fresh_msgs (s_nextmsg s) (selection m u)) d)).
  { destruct (mv && cf_erase_late fx); exact F2. }
  exists m. eexists. split; [exact Fa|]. split; [exact F3|].
  intros su du Hp. apply fresh_pairs_in in Hp. destruct Hp as (r & nid & A & B & C).
  exists (snd r), (nid, snd (snd r)). split; [|split; [|reflexivity]].
  - subst su. destruct r. apply (selection_in m u). assumption.
  - cbn [mb_ins mb_rows]. apply in_or_app. right. assumption.
Qed.

Lemma copy_announced : forall s a u b cr lab s' pairs, wf s -> op_copy fx c s a u b cr lab = (s', ResOk pairs) ->
  announced_ok s s' a b pairs.
Proof.
  intros s a u b cr lab s' pairs W H. unfold op_copy in H. destruct (is_recov b) eqn:Rb; [inversion H|].
  destruct (find_name b (s_mboxes s)) as [d|] eqn:Fb; [|inversion H].
  destruct (find_name a (s_mboxes s)) as [m|] eqn:Fa; [|inversion H].
  destruct (N.eqb (mb_id m) recov_id).
  - eapply out_of_recovery_announced; try eassumption. apply (not_recov_id s W b d Fb Rb).
  - eapply add_messages_announced; eassumption.
Qed.

Lemma move_announced : forall s a u b cr lab s' pairs, wf s -> op_move fx c s a u b cr lab = (s', ResOk pairs) ->
  announced_ok s s' a b pairs.
Proof.
  intros s a u b cr lab s' pairs W H. unfold op_move in H. destruct (is_recov b) eqn:Rb; [inversion H|].
  destruct (find_name b (s_mboxes s)) as [d|] eqn:Fb; [|inversion H].
  destruct (find_name a (s_mboxes s)) as [m|] eqn:Fa; [|inversion H].
  cbv zeta in H.
  destruct (N.eqb (mb_id m) recov_id); [eapply out_of_recovery_announced; try eassumption; apply (not_recov_id s W b d Fb Rb)|].
  destruct (N.eqb (mb_id m) (mb_id d)) eqn:Emd.
  - destruct (negb lab); [inversion H|].
    match type of H with context[db_add c ?i ?ms ?x] => destruct (db_add c i ms x) as [s2|] eqn:D end; [|inversion H].
    inversion H; subst. clear H.
    match type of D with db_add c _ _ (del_msgs ?j ?ids s) = _ =>
      pose proof (find_name_del_msgs s b d j ids Fb) as Fd; assert (W1 : wf (del_msgs j ids s)) by (apply good_del_msgs; assumption) end.
    rewrite N.eqb_refl in Fd.
    match type of Fd with find_name _ _ = Some ?d1 => assert (E : mb_id d1 = mb_id d) by reflexivity end.
    rewrite <- E in D. pose proof (db_add_find _ b _ _ _ W1 Fd D) as F2.
    exists m. eexists. split; [exact Fa|]. split; [exact F2|].
    intros su du Hp. apply zip_uids_in in Hp. destruct Hp as (r & A & B & C).
    exists (snd r), (snd r). split; [|split; [|reflexivity]].
    + subst su. destruct r. apply (selection_in m u). assumption.
    + cbn [mb_ins mb_del mb_rows mb_seq]. apply in_or_app. right. assumption.
  - destruct (negb lab); [inversion H|].
    match type of H with context[find_id ?i ?l] => destruct (find_id i l) as [d1|] eqn:Fi end; [|inversion H].
    match type of H with context[room c d1 ?k] => destruct (room c d1 k) end; [|inversion H].
    inversion H; subst. clear H.
    match goal with |- announced_ok _ (ins_msgs _ _ (del_msgs ?j2 ?ids2 (del_msgs ?j1 ?ids1 s))) _ _ _ =>
      pose proof (find_name_del_msgs s b d j1 ids1 Fb) as Fd1;
      assert (W1 : wf (del_msgs j1 ids1 s)) by (apply good_del_msgs; assumption);
      rewrite N.eqb_refl in Fd1;
      pose proof (find_name_del_msgs _ b _ j2 ids2 Fd1) as Fd2;
      assert (W2 : wf (del_msgs j2 ids2 (del_msgs j1 ids1 s))) by (apply good_del_msgs; assumption)
    end.
    cbn [mb_del mb_id] in Fd2. rewrite N.eqb_sym, Emd in Fd2.
    match type of Fd2 with find_name _ _ = Some ?dd => assert (E : mb_id dd = mb_id d) by reflexivity end.
    rewrite <- E. exists m. eexists. split; [exact Fa|]. split; [apply find_name_ins; [exact W2 | exact Fd2]|].
    intros su du Hp. apply zip_uids_in in Hp. destruct Hp as (r & A & B & C).
    exists (snd r), (snd r). split; [|split; [|reflexivity]].
    + subst su. destruct r. apply (selection_in m u). assumption.
    + cbn [mb_ins mb_del mb_rows mb_seq]. apply in_or_app. right. assumption.
Qed.

(* ---------- UIDVALIDITY ---------- *)
Definition gen_bound (s : store) : Prop := forall m, In m (s_mboxes s) -> mb_uidv m <= s_gen s.
(* relative to an origin s0: the generator did not go back, every mailbox either keeps the value it had at s0 or has a
   value generated since *)
Definition uv (s0 x : store) : Prop :=
  s_gen s0 <= s_gen x /\
  forall m', In m' (s_mboxes x) -> mb_uidv m' <= s_gen x /\
    ((exists m, In m (s_mboxes s0) /\ mb_id m = mb_id m' /\ mb_uidv m = mb_uidv m') \/ s_gen s0 < mb_uidv m').

Definition gen_boundb (s : store) : bool := forallb (fun m => mb_uidv m <=? s_gen s) (s_mboxes s).
Lemma gen_boundb_ok : forall s, gen_boundb s = true -> gen_bound s.
Proof. intros s H m Hm. unfold gen_boundb in H. rewrite forallb_forall in H. apply Z.leb_le. apply H. assumption. Qed.
Lemma uv_refl : forall s, gen_bound s -> uv s s.
Proof.
  intros s G. split; [lia|]. intros m Hm. split; [apply G; assumption|]. left. exists m. repeat split; assumption.
Qed.
Lemma uv_trans : forall a b d, uv a b -> uv b d -> uv a d.
Proof.
  intros a b d [A1 A2] [B1 B2]. split; [lia|]. intros m Hm. destruct (B2 m Hm) as [C1 [(m1 & H1 & I1 & U1)|C2]].
  - split; [assumption|]. destruct (A2 m1 H1) as [_ [(m0 & H0 & I0 & U0)|D]].
    + left. exists m0. repeat split; congruence.
    + right. lia.
  - split; [assumption|]. right. lia.
Qed.
Lemma uv_gen_bound : forall s x, uv s x -> gen_bound x.
Proof. intros s x [_ H] m Hm. apply H. assumption. Qed.

(* mailbox lists related member-wise (same id and uidvalidity, possibly fewer) and same generator *)
Lemma uv_sub : forall s0 x y, uv s0 x -> s_gen y = s_gen x ->
  (forall m', In m' (s_mboxes y) -> exists m, In m (s_mboxes x) /\ mb_id m = mb_id m' /\ mb_uidv m = mb_uidv m') -> uv s0 y.
Proof.
  intros s0 x y [A1 A2] G H. split; [lia|]. intros m' Hm'. destruct (H m' Hm') as (m & Hm & I & U).
  destruct (A2 m Hm) as [B1 B2]. split; [lia|]. destruct B2 as [(m0 & H0 & I0 & U0)|B2]; [left; exists m0; repeat split; congruence | right; lia].
Qed.
Lemma uv_upd : forall s0 x i f, uv s0 x -> (forall m, mb_id (f m) = mb_id m) -> (forall m, mb_uidv (f m) = mb_uidv m) ->
  uv s0 (set_mboxes (upd i f (s_mboxes x)) x).
Proof.
  intros s0 x i f U Fi Fu. apply (uv_sub s0 x); [assumption | reflexivity|].
  intros m' H. cbn [set_mboxes s_mboxes] in H. apply in_upd in H. destruct H as (m & Hm & ->). exists m. split; [assumption|].
  destruct (N.eqb (mb_id m) i); [rewrite Fi, Fu|]; split; reflexivity.
Qed.
Lemma uv_ins : forall s0 x i ms, uv s0 x -> uv s0 (ins_msgs i ms x).
Proof.
  intros s0 x i ms U. unfold ins_msgs. destruct (find_id i (s_mboxes x)); [|assumption].
  apply (uv_sub s0 (set_mboxes (upd i (mb_ins ms) (s_mboxes x)) x)); [apply uv_upd; [assumption | reflexivity | reflexivity] | reflexivity|].
  intros m' H. exists m'. repeat split; assumption.
Qed.
Lemma uv_del_msgs : forall s0 x i ids, uv s0 x -> uv s0 (del_msgs i ids x).
Proof. intros. unfold del_msgs. apply uv_upd; [assumption | reflexivity | reflexivity]. Qed.
Lemma uv_mem : forall s0 x y, uv s0 x -> s_gen y = s_gen x -> s_mboxes y = s_mboxes x -> uv s0 y.
Proof.
  intros s0 x y U G M. apply (uv_sub s0 x); [assumption | assumption|]. rewrite M. intros m' H. exists m'. repeat split; assumption.
Qed.
Lemma uv_db_add : forall s0 x i ms y, uv s0 x -> db_add c i ms x = Some y -> uv s0 y.
Proof. intros s0 x i ms y U D. apply db_add_some in D. subst. apply uv_ins. assumption. Qed.
Lemma uv_gen_next : forall s0 x g x1, uv s0 x -> gen_next clock x = (g, x1) ->
  uv s0 x1 /\ match g with Some v => s_gen x < v /\ v = s_gen x1 | None => True end.
Proof.
  intros s0 x g x1 [A1 A2] H. unfold gen_next in H.
  destruct (uv_generate (clock (s_tick x)) (s_gen x)) as [v| |] eqn:E; inversion H; subst; clear H.
  - apply uv_generate_gt in E. destruct E as [E _]. split; [|split; [assumption | reflexivity]].
    split; cbn [s_gen s_mboxes]; [lia|]. intros m Hm. destruct (A2 m Hm) as [B1 B2]. split; [lia | assumption].
  - split; [|exact I]. split; cbn [s_gen s_mboxes]; [lia | assumption].
  - split; [|exact I]. split; cbn [s_gen s_mboxes]; [lia | assumption].
Qed.
Lemma uv_add_mbox : forall s0 x p v, uv s0 x -> s_gen s0 < v <= s_gen x -> uv s0 (add_mbox p v x).
Proof.
  intros s0 x p v [A1 A2] Hv. split; cbn [add_mbox s_gen s_mboxes]; [lia|].
  intros m Hm. apply in_app_or in Hm. destruct Hm as [Hm|[<-|[]]]; [apply A2; assumption|].
  cbn [mb_uidv]. split; [lia | right; lia].
Qed.
Lemma uv_set_uidv : forall s0 x i v, uv s0 x -> s_gen s0 < v <= s_gen x -> uv s0 (set_mboxes (upd i (mb_set_uidv v) (s_mboxes x)) x).
Proof.
  intros s0 x i v [A1 A2] Hv. split; cbn [set_mboxes s_gen s_mboxes]; [lia|].
  intros m' H. apply in_upd in H. destruct H as (m & Hm & ->). destruct (N.eqb (mb_id m) i); [|apply A2; assumption].
  cbn [mb_set_uidv mb_uidv]. split; [lia | right; lia].
Qed.
Lemma uv_add_all : forall ps s0 x v, uv s0 x -> s_gen s0 < v <= s_gen x -> uv s0 (add_all ps v x).
Proof.
  induction ps as [|p t IH]; intros s0 x v U Hv; unfold add_all; cbn [fold_left]; [assumption|].
  apply IH; [apply uv_add_mbox; assumption | cbn [add_mbox s_gen]; assumption].
Qed.
Lemma uv_add_each : forall ps s0 x y, uv s0 x -> add_each clock ps x = Some y -> uv s0 y.
Proof.
  induction ps as [|p t IH]; intros s0 x y U H; cbn [add_each] in H; [inversion H; subst; assumption|].
  destruct (gen_next clock x) as [[v|] x1] eqn:G; [|discriminate].
  destruct (uv_gen_next s0 x _ x1 U G) as [U1 [V1 V2]].
  apply (IH s0 (add_mbox p v x1)); [|assumption]. apply uv_add_mbox; [assumption|]. destruct U as [U0 _]. lia.
Qed.
Lemma uv_bump_all : forall ids s0 x y, uv s0 x -> bump_all clock ids x = Some y -> uv s0 y.
Proof.
  induction ids as [|i t IH]; intros s0 x y U H; cbn [bump_all] in H; [inversion H; subst; assumption|].
  destruct (gen_next clock x) as [[v|] x1] eqn:G; [|discriminate].
  destruct (uv_gen_next s0 x _ x1 U G) as [U1 [V1 V2]].
  apply (IH s0 _ y) in H; [assumption|]. apply uv_set_uidv; [assumption|]. destruct U as [U0 _]. lia.
Qed.
Lemma uv_add_per_mbox : forall ps bm s0 x y b, uv s0 x -> add_per_mbox c ps bm x = Some (y, b) -> uv s0 y.
Proof.
  induction ps as [|p t IH]; intros bm s0 x y b U H; cbn [add_per_mbox] in H; [inversion H; subst; assumption|].
  destruct (find_name p (s_mboxes x)) as [m|]; [|inversion H; subst; assumption].
  destruct (db_add c (mb_id m) (for_mbox p bm) x) as [x1|] eqn:D; [|discriminate].
  eapply IH; [eapply uv_db_add; eassumption | eassumption].
Qed.

Ltac uvpeel :=
  lazymatch goal with
  | H : uv ?s0 ?x |- uv ?s0 ?x => exact H
  | |- uv ?s0 (keep_mem ?x ?s) => apply (uv_mem s0 x); [uvpeel | reflexivity | reflexivity] || fail 1
  | |- uv ?s0 (erase_hashes ?ids ?x) => apply (uv_mem s0 x); [uvpeel | reflexivity | reflexivity]
  | |- uv ?s0 (set_hashes ?h ?x) => apply (uv_mem s0 x); [uvpeel | reflexivity | reflexivity]
  | |- uv ?s0 (bump_msg ?k ?x) => apply (uv_mem s0 x); [uvpeel | reflexivity | reflexivity]
  | |- uv ?s0 (del_msgs ?i ?ids ?x) => apply uv_del_msgs; uvpeel
  | |- uv ?s0 (ins_msgs ?i ?ms ?x) => apply uv_ins; uvpeel
  end.

Lemma uv_recover : forall s0 x lit, uv s0 x -> uv s0 (fst (recover hash fx x lit)).
Proof. intros s0 x lit U. unfold recover. destruct (lit_known hash fx lit x); cbn [fst]; [assumption | uvpeel]. Qed.
Lemma uv_recover_res : forall s0 x lit, uv s0 x -> uv s0 (fst (recover_res hash fx x lit)).
Proof.
  intros s0 x lit U. unfold recover_res. pose proof (uv_recover s0 x lit U) as H.
  destruct (recover hash fx x lit). cbn [fst] in *. assumption.
Qed.
Lemma uv_limit_refuse : forall s0 x lit, uv s0 x -> uv s0 (fst (limit_refuse hash fx x lit)).
Proof. intros s0 x lit U. unfold limit_refuse. destruct (cf_limit_norecover fx); cbn [fst]; [assumption | apply uv_recover; assumption]. Qed.

Lemma uv_rollback : forall s x, gen_bound s -> uv s x -> uv s (keep_mem x s).
Proof.
  intros s x G [A _]. split; cbn [keep_mem s_gen s_mboxes]; [assumption|].
  intros m Hm. split; [specialize (G m Hm); lia|]. left. exists m. repeat split; assumption.
Qed.

Lemma uv_append_write : forall s0 x i lit r, uv s0 x -> uv s0 (fst (append_write hash fx c x i lit r)).
Proof.
  intros s0 x i lit r U. unfold append_write. destruct (find_id i (s_mboxes x)) as [m|]; [|apply uv_recover_res; assumption].
  destruct (cf_recheck fx && negb (room c m 1)); [apply uv_limit_refuse; assumption|].
  destruct r; cbn [fst]; [uvpeel | apply uv_recover_res; assumption | assumption].
Qed.
Lemma uv_add_messages : forall s0 x d sel lab, uv s0 x -> uv s0 (fst (add_messages c x d sel lab)).
Proof.
  intros s0 x d sel lab U. unfold add_messages. destruct (negb lab); cbn [fst]; [assumption|].
  match goal with |- context[db_add c ?i ?ms ?y] => destruct (db_add c i ms y) as [s2|] eqn:D end; cbn [fst]; [|assumption].
  eapply uv_db_add; [|eassumption]. uvpeel.
Qed.
Lemma uv_out_of_recovery : forall s d sel mv cr lab, gen_bound s -> uv s (fst (out_of_recovery fx c s d sel mv cr lab)).
Proof.
  intros s d sel mv cr lab G. pose proof (uv_refl s G) as U. unfold out_of_recovery.
  destruct (negb cr); cbn [fst]; [assumption|]. cbv zeta.
  match goal with |- context[db_add c ?i ?ms ?x] => assert (U1 : uv s x) by (destruct mv, (cf_erase_late fx); cbn [andb negb]; uvpeel) end.
  destruct (negb lab); cbn [fst]; [apply uv_rollback; assumption|].
  match goal with |- context[db_add c ?i ?ms ?x] => destruct (db_add c i ms x) as [s2|] eqn:D end; cbn [fst]; [|apply uv_rollback; assumption].
  pose proof (uv_db_add _ _ _ _ _ U1 D) as U2. destruct (mv && cf_erase_late fx); [uvpeel | assumption].
Qed.

Lemma uv_step : forall s o, gen_bound s -> o <> ORestart -> uv s (fst (step' s o)).
Proof.
  intros s o G Ho. pose proof (uv_refl s G) as U. destruct o; cbn [step]; try contradiction.
  - (* create *) unfold op_create. destruct (cf_create_gen_in_tx fx && bad_create_name name); [assumption|].
    destruct (gen_next clock s) as [g s1] eqn:E.
    destruct (uv_gen_next s s g s1 U E) as [U1 V]. destruct g as [v|]; [|assumption].
    repeat match goal with |- uv _ (fst (if ?b then _ else _)) => destruct b; cbn [fst]; [assumption|] end.
    apply uv_add_all; [assumption | lia].
  - (* delete *) unfold op_delete. destruct (is_recov name || is_inbox name); [assumption|].
    destruct (find_name name (s_mboxes s)) as [m|]; [|assumption]. destruct remote_ok; cbn [fst]; [|assumption].
    apply (uv_sub s s); [assumption | reflexivity|]. intros m' H. cbn [set_mboxes s_mboxes] in H. apply in_del in H.
    exists m'. destruct H. repeat split; assumption.
  - (* rename *) unfold op_rename.
    destruct (is_recov old || is_recov new || match new with [] => true | _ => false end); [assumption|].
    destruct (find_name old (s_mboxes s)) as [m|]; [|assumption].
    match goal with |- uv _ (fst (if ?x then _ else _)) => destruct x; [assumption|] end.
    match goal with |- uv _ (fst (if ?x then _ else _)) => destruct x; [assumption|] end.
    destruct (negb remote_ok); [assumption|].
    match goal with |- context[add_each clock ?ps s] => destruct (add_each clock ps s) as [s1|] eqn:A end; [|assumption].
    pose proof (uv_add_each _ s s s1 U A) as U1.
    destruct (is_inbox old).
    + destruct (gen_next clock s1) as [[v|] s2] eqn:E.
      * destruct (uv_gen_next s s1 _ s2 U1 E) as [U2 [V1 V2]].
        assert (U3 : uv s (add_mbox new v s2)) by (apply uv_add_mbox; [assumption | destruct U1; lia]).
        match goal with |- context[db_add c ?i ?ms ?x] => destruct (db_add c i ms x) as [s4|] eqn:D end; cbn [fst].
        -- eapply uv_db_add; [|eassumption]. apply uv_del_msgs. assumption.
        -- apply uv_rollback; assumption.
      * apply uv_rollback; assumption.
    + cbv zeta. match goal with |- uv _ (fst (if ?x then _ else _)) => destruct x end; cbn [fst]; [|apply uv_rollback; assumption].
      apply (uv_sub s s1); [assumption | reflexivity|].
      intros m' H. cbn [set_mboxes s_mboxes] in H. unfold rename_inferiors in H. apply in_map_iff in H.
      destruct H as (m1 & <- & H). apply in_upd in H. destruct H as (m2 & H2 & ->). exists m2. split; [assumption|].
      assert (Q : forall y, mb_id (rename_one old new y) = mb_id y /\ mb_uidv (rename_one old new y) = mb_uidv y).
      { intro y. unfold rename_one. destruct old; [split; reflexivity|]. destruct (strip_prefix _ _) as [[|? ?]|]; split; reflexivity. }
      destruct (Q (if N.eqb (mb_id m2) (mb_id m) then mb_set_name new m2 else m2)) as [Q1 Q2]. rewrite Q1, Q2.
      destruct (N.eqb (mb_id m2) (mb_id m)); split; reflexivity.
  - (* append *) unfold op_append. destruct (is_recov name); [assumption|].
    destruct (find_name name (s_mboxes s)) as [m|]; [|assumption].
    destruct (append_check c m); [apply uv_append_write | apply uv_limit_refuse]; assumption.
  - (* copy *) unfold op_copy. destruct (is_recov dst); [assumption|].
    destruct (find_name dst (s_mboxes s)) as [d|]; [|assumption]. destruct (find_name src (s_mboxes s)) as [m|]; [|assumption].
    destruct (N.eqb (mb_id m) recov_id); [apply uv_out_of_recovery | apply uv_add_messages]; assumption.
  - (* move *) unfold op_move. destruct (is_recov dst); [assumption|].
    destruct (find_name dst (s_mboxes s)) as [d|]; [|assumption]. destruct (find_name src (s_mboxes s)) as [m|]; [|assumption].
    cbv zeta. destruct (N.eqb (mb_id m) recov_id); [apply uv_out_of_recovery; assumption|].
    destruct (N.eqb (mb_id m) (mb_id d)).
    + destruct (negb label_ok); cbn [fst]; [assumption|].
      match goal with |- context[db_add c ?i ?ms ?x] => destruct (db_add c i ms x) as [s2|] eqn:D end; cbn [fst]; [|assumption].
      eapply uv_db_add; [|eassumption]. uvpeel.
    + destruct (negb label_ok); cbn [fst]; [assumption|].
      match goal with |- context[find_id ?i ?l] => destruct (find_id i l) as [d1|] end; cbn [fst]; [|assumption].
      match goal with |- context[room c d1 ?k] => destruct (room c d1 k) end; cbn [fst]; [|assumption].
      uvpeel.
  - (* expunge *) unfold op_expunge. destruct (find_name name (s_mboxes s)) as [m|]; [|assumption].
    cbv zeta. match goal with |- context[map ?f (selection m uids)] => destruct (map f (selection m uids)) end; cbn [fst]; [assumption|].
    destruct (N.eqb (mb_id m) recov_id); cbn [fst]; [uvpeel|]. destruct (negb remote_ok); cbn [fst]; [assumption | uvpeel].
  - (* connector: mailbox created *) unfold op_conn_create. destruct (gen_next clock s) as [g s1] eqn:E.
    destruct (uv_gen_next s s g s1 U E) as [U1 V]. destruct g as [v|]; [|assumption].
    repeat match goal with |- uv _ (fst (if ?b then _ else _)) => destruct b; cbn [fst]; [assumption|] end.
    apply uv_add_mbox; [assumption | lia].
  - (* connector: messages created *) unfold op_conn_msgs. cbv zeta.
    match goal with |- context[add_per_mbox c ?ps ?bm ?x] => destruct (add_per_mbox c ps bm x) as [[s1 [|]]|] eqn:A end; cbn [fst]; try assumption.
    eapply uv_add_per_mbox; [|eassumption]. uvpeel.
  - (* connector: UIDVALIDITY bumped *) unfold op_conn_bump.
    destruct (bump_all clock (map mb_id (s_mboxes s)) s) as [s1|] eqn:B; cbn [fst]; [|assumption].
    eapply uv_bump_all; eassumption.
Qed.

(* a restart at a moment when the clock has passed every value generated so far keeps the guarantee *)
Lemma uv_restart_clock_ahead : forall s, gen_bound s -> s_gen s < clock (s_tick s) <= u32max -> 0 <= s_gen s ->
  uv s (fst (step' s ORestart)).
Proof.
  intros s G Hc H0. cbn [step]. unfold op_restart. cbv zeta. cbn [fst].
  unfold gen_next. cbn [s_tick s_gen].
  destruct (uv_generate (clock (s_tick s)) 0) as [v| |] eqn:E.
  - apply uv_generate_ge_clock in E. cbn [snd]. split; cbn; [lia|].
    intros m Hm. split; [specialize (G m Hm); lia|]. left. exists m. repeat split; assumption.
  - exfalso. rewrite uv_generate_closed in E. unfold uv_closed in E.
    destruct ((clock (s_tick s) <? 0) || (clock (s_tick s) >? u32max)) eqn:B; [apply orb_true_iff in B; destruct B as [B|B]; lia|].
    destruct (0 >=? clock (s_tick s)) eqn:B2; [lia | discriminate].
  - exfalso. apply (uv_generate_never_fuel _ _ E).
Qed.

(* history level, one process (no restart) *)
Fixpoint no_restart (h : list op) : Prop := match h with [] => True | o :: t => o <> ORestart /\ no_restart t end.
Lemma uv_run : forall h s, gen_bound s -> no_restart h -> uv s (run' s h).
Proof.
  induction h as [|o t IH]; intros s G N; cbn [run]; [apply uv_refl; assumption|].
  destruct N as [N1 N2]. pose proof (uv_step s o G N1) as U1.
  eapply uv_trans; [exact U1|]. apply IH; [eapply uv_gen_bound; eassumption | assumption].
Qed.
End C04.
