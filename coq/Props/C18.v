(* C18 — Commands are gated by authentication state and users are isolated.
   Property theorems only; every proof is `exact <lemma>` and is followed by Print Assumptions.
   Model: Model/AuthGate.v.  The class tables of handle.go, the guards (`s.state == nil`, state.Selected, LOGIN when
   authenticated) and maxLoginAttempts / the shape of getUserID are generated from the source (Gen/FactsCmdClass.v); the
   lemmas about [gate] are proved by computation on them.  Handlers are ARBITRARY functions (hres, heff) of the command,
   the connection's own selection and the store of the connection's user; users, credentials and the jail time are
   arbitrary.  A history is the list of commands of all connections in the order the server takes them up; [trace]
   lists for every command: state before (t_pre), command (t_ev), state after (t_post), answer (t_res), instant. *)
From Coq Require Import List String NArith Bool.
From Gluon Require Import Gen.FactsCmdClass Model.AuthGate Proofs.AuthGateProofs Model.UserFiles Proofs.UserFilesProofs Model.UserRegistry Proofs.UserRegistryProofs.
Import ListNotations.
Local Open Scope N_scope.

(* the dispatch of handleCommand assigns every command the class the RFCs give it; LOGOUT, IDLE, STARTTLS are the
   commands handled apart *)
Theorem C18_class_table : forall c, lookup (go_name c) dispatch = expected_class c.
Proof. exact class_table_ok. Qed.
Print Assumptions C18_class_table.

Theorem C18_handled_apart : forall c,
  (mem (go_name c) apart_serve || mem (go_name c) apart_reader)%bool = true <-> In c [CLogout; CIdle; CStartTLS].
Proof. exact apart_ok. Qed.
Print Assumptions C18_handled_apart.

(* what the gate does before LOGIN: any-state commands are answered without touching user data, LOGIN is attempted,
   LOGOUT ends the connection, everything else (STARTTLS too: no TLS configuration) is refused with NO *)
Theorem C18_gate_before_login : forall c, gate PNotAuth c =
  match c with
  | CCapability | CIDGet | CIDSet | CNoop => DAnyNoUser
  | CLogin => DLoginAttempt
  | CLogout => DLogout
  | CStartTLS => if starttls_without_tls_answers_no then DRefuse RNo else DDrop
  | _ => DRefuse RNo
  end.
Proof. exact gate_notauth. Qed.
Print Assumptions C18_gate_before_login.

(* ... after LOGIN (also after CLOSE / UNSELECT): LOGIN is BAD, selected-state commands are refused with NO, everything
   else reaches its handler in the session of u with no selection; with a selected mailbox every command but LOGIN,
   LOGOUT, STARTTLS reaches its handler in the session of u (no command is refused in a state in which the RFC allows it) *)
Theorem C18_gate_authenticated : forall u c, gate (PAuth u) c =
  match c with
  | CLogin => DRefuse RBad
  | CLogout => DLogout
  | CStartTLS => if starttls_without_tls_answers_no then DRefuse RNo else DDrop
  | CCheck | CClose | CExpunge | CUIDExpunge | CUnselect | CSearch | CFetch | CStore | CCopy | CMove | CUID => DRefuse RNo
  | _ => DAdmit u None
  end.
Proof. exact gate_auth. Qed.
Print Assumptions C18_gate_authenticated.

Theorem C18_gate_selected : forall u m ro c, gate (PSel u m ro) c =
  match c with
  | CLogin => DRefuse RBad
  | CLogout => DLogout
  | CStartTLS => if starttls_without_tls_answers_no then DRefuse RNo else DDrop
  | _ => DAdmit u (Some (m, ro))
  end.
Proof. exact gate_sel. Qed.
Print Assumptions C18_gate_selected.

(* Before a successful LOGIN: in every history, a command of a connection that is not authenticated changes no store
   of any user, and every mailbox or message command (authenticated class, selected class, IDLE) is answered NO and
   changes nothing at all (no store, no connection, no login counter). *)
Theorem C18_unauthenticated_no_effect : forall ustore hres heff creds jail g h,
  Forall (fun x =>
      t_actor ustore x = PNotAuth ->
      (forall v, stores_of ustore (t_post ustore x) v = stores_of ustore (t_pre ustore x) v)
      /\ (In (e_cmd (t_ev ustore x)) mailbox_cmds -> t_post ustore x = t_pre ustore x /\ t_res ustore x = RNo))
    (trace ustore hres heff creds jail g h).
Proof. exact notauth_history. Qed.
Print Assumptions C18_unauthenticated_no_effect.

(* Commands that need a selected mailbox are refused without one — before LOGIN, after LOGIN, after CLOSE/UNSELECT
   (all of them are the states with no selection): answered NO, nothing changes. *)
Theorem C18_selected_required : forall ustore hres heff creds jail g h,
  Forall (fun x =>
      sel_of (t_actor ustore x) = None -> t_actor ustore x <> PClosed -> In (e_cmd (t_ev ustore x)) rfc_selected ->
      t_post ustore x = t_pre ustore x /\ t_res ustore x = RNo)
    (trace ustore hres heff creds jail g h).
Proof. exact unselected_history. Qed.
Print Assumptions C18_selected_required.

(* Isolation, writes: in every history a command changes the store of user v only if its connection is authenticated
   as v; and it changes the protocol state of no other connection. *)
Theorem C18_isolation_writes : forall ustore hres heff creds jail g h,
  Forall (fun x =>
      (forall v, user_of (t_actor ustore x) <> Some v ->
                 stores_of ustore (t_post ustore x) v = stores_of ustore (t_pre ustore x) v)
      /\ (forall s, s <> e_sid (t_ev ustore x) -> st_of ustore (t_post ustore x) s = st_of ustore (t_pre ustore x) s))
    (trace ustore hres heff creds jail g h).
Proof. exact frame_history. Qed.
Print Assumptions C18_isolation_writes.

(* Isolation, reads: the store of user v influences nothing that connections of other users see.  Two servers that
   differ only in the store of v, no connection authenticated as v, no credentials of v presented: every answer (and
   its instant) of every history is the same, and the servers still differ only in the store of v. *)
Theorem C18_isolation_reads : forall ustore hres heff creds jail v h g1 g2,
  agree_except ustore v g1 g2 -> nobody_is ustore v g1 ->
  Forall (fun e => authorize creds (e_name e) (e_pass e) <> Some v) h ->
  answers ustore (trace ustore hres heff creds jail g1 h) = answers ustore (trace ustore hres heff creds jail g2 h)
  /\ agree_except ustore v (run ustore hres heff creds jail g1 h) (run ustore hres heff creds jail g2 h).
Proof. exact noninterference. Qed.
Print Assumptions C18_isolation_reads.

(* The user of a connection: it is set only by a LOGIN (answered OK) whose name and password are accepted for that user,
   issued in the not-authenticated state — wrong credentials never authenticate — and once set it never changes
   (a further LOGIN is answered BAD); the connection can only end. *)
Theorem C18_wrong_credentials_never_authenticate : forall ustore hres heff creds jail g h,
  Forall (fun x =>
      match user_of (t_actor ustore x) with
      | Some u => user_of (t_actor_after ustore x) = Some u \/ t_actor_after ustore x = PClosed
      | None => forall u, user_of (t_actor_after ustore x) = Some u ->
                  t_actor ustore x = PNotAuth /\ e_cmd (t_ev ustore x) = CLogin
                  /\ valid_cred creds u (e_name (t_ev ustore x)) (e_pass (t_ev ustore x)) /\ t_res ustore x = ROk
      end)
    (trace ustore hres heff creds jail g h).
Proof. exact user_history. Qed.
Print Assumptions C18_wrong_credentials_never_authenticate.

(* Every LOGIN of a not-authenticated connection - whatever name and password, the empty string included (a quoted ""
   or a {0} literal) - goes through the failure counter and the jail wait: the source has no return before them (fact
   login_reaches_counter_on_every_path: handleLogin after its BAD guard, GetState, getUserID up to loginWG.Wait()). *)
Theorem C18_every_login_reaches_the_counter : forall ustore hres heff creds jail g e,
  st_of ustore g (e_sid e) = PNotAuth -> e_cmd e = CLogin ->
  let ok := match authorize creds (e_name e) (e_pass e) with Some _ => true | None => false end in
  let '(f, j, r, t) := login_step jail (g_fails ustore g) (g_jail ustore g) (e_time e) ok in
  g_fails ustore (fst (fst (step ustore hres heff creds jail g e))) = f
  /\ g_jail ustore (fst (fst (step ustore hres heff creds jail g e))) = j
  /\ snd (fst (step ustore hres heff creds jail g e)) = r /\ snd (step ustore hres heff creds jail g e) = t.
Proof. exact login_always_counts. Qed.
Print Assumptions C18_every_login_reaches_the_counter.

(* The jail (abstract clock: every command carries the instant at which it is taken up; arbitrary, not assumed
   monotone).  Login attempts of ALL connections in the order they are taken up; failures are counted from the last
   success or the last jail ([streak]); EVERY failed LOGIN counts, whatever its credentials.  After three consecutive failures the next attempt — by anyone, with any
   credentials — is answered no earlier than jail time after the third failure was answered. *)
Theorem C18_jail : forall ustore hres heff creds jail stores h pre x1 x2 x3 y post,
  answers ustore (attempts ustore (trace ustore hres heff creds jail (init ustore stores) h))
    = pre ++ x1 :: x2 :: x3 :: y :: post ->
  streak pre 0 = 0 -> fst x1 = RNo -> fst x2 = RNo -> fst x3 = RNo -> snd x3 + jail <= snd y.
Proof. exact jail_in_history. Qed.
Print Assumptions C18_jail.

(* ---- the storage side of isolation: which files belong to a user (Model/UserFiles.v) ----
   user IDs are arbitrary byte strings (LoadUser takes any ID).  Read from the source: DeleteDB (RemoveUser with
   removeFiles) uses no pattern but the exact names <userID><suffix>, no suffix is the tail of another one, the suffix of
   the database file is among them, and the SQLite client deletes through DeleteDB. *)
Theorem C18_remove_user_exact_names : remove_user_exact_names = true.
Proof. exact remove_user_exact_names_ok. Qed.
Print Assumptions C18_remove_user_exact_names.

(* the files removed for a user are a function of that user's ID alone and disjoint from every other user's *)
Theorem C18_removed_files_belong_to_one_user : forall u v f,
  In f (removed_files delete_db_suffixes u) -> In f (removed_files delete_db_suffixes v) -> u = v.
Proof. exact code_removed_files_disjoint. Qed.
Print Assumptions C18_removed_files_belong_to_one_user.

(* removing u removes u's database and leaves the database of every other user in place — whatever the two IDs are
   (one a prefix of the other, pattern characters, ...) *)
Theorem C18_remove_user_keeps_other_databases : forall u v, u <> v ->
  ~ In (db_file db_file_suffix v) (removed_files delete_db_suffixes u)
  /\ In (db_file db_file_suffix u) (removed_files delete_db_suffixes u).
Proof. exact code_remove_keeps_other_db. Qed.
Print Assumptions C18_remove_user_keeps_other_databases.

(* the database a user's connection works on: the SQLite URI is "file:" ++ escape(path) ++ "?cache=…"; SQLite takes the
   part before the first '?' or '#' and percent-decodes it.  With the escaping function found in the source
   (url.PathEscape: escapes '%', '?', '#') the file that is opened is the user's own path, so different users (IDs with
   '?', '#', '%', spaces, any byte) open different files. *)
Theorem C18_db_uri_escape_function : db_uri_escape = "url.PathEscape"%string.
Proof. exact code_db_uri_escape. Qed.
Print Assumptions C18_db_uri_escape_function.

Theorem C18_database_file_per_user : forall u v query,
  Forall (fun b => b < 256) u -> Forall (fun b => b < 256) v ->
  opened_file go_path_escape_keep (db_file db_file_suffix u) query
  = opened_file go_path_escape_keep (db_file db_file_suffix v) query -> u = v.
Proof. exact code_db_file_of_user. Qed.
Print Assumptions C18_database_file_per_user.

(* an escaping that only takes care of '#' lets two paths open one file ("a?1.db", "a?2.db") *)
Theorem C18_database_file_per_user_hash_only_refuted :
  exists p1 p2 q, p1 <> p2 /\ opened_file hash_only_keep p1 q = opened_file hash_only_keep p2 q.
Proof. exact hash_only_collides. Qed.
Print Assumptions C18_database_file_per_user_hash_only_refuted.

(* ---- RemoveUser and the registry of users (Model/UserRegistry.v) ----
   Backend.RemoveUser shuts the user down, unregisters it and only then removes its files (order read from the source).
   Whether or not the removal of the files succeeds, the user is not registered afterwards, no shut-down user is, and
   the others stay: LOGIN asks the connectors of registered users only, so no session is ever attached to a removed user. *)
Theorem C18_removed_user_is_unregistered : forall files_ok u r, consistent r ->
  let r' := fst (remove_user remove_user_unregisters_before_files files_ok u r) in
  ~ In u (r_users r') /\ consistent r' /\ (forall v, v <> u -> (In v (r_users r') <-> In v (r_users r))).
Proof. exact code_remove_user_unregisters. Qed.
Print Assumptions C18_removed_user_is_unregistered.

(* unregistering after the files: a failing removal leaves a shut-down user registered *)
Theorem C18_removed_user_is_unregistered_late_refuted : exists u r, consistent r /\
  let r' := fst (remove_user false false u r) in In u (r_users r') /\ In u (r_closed r').
Proof. exact late_unregister_refuted. Qed.
Print Assumptions C18_removed_user_is_unregistered_late_refuted.

(* non-vacuity: users 1 (names 10, 11; password 100) and 2 (name 20; password 200), jail time 50.
   Connection 7: FETCH before login -> NO; wrong password, other user's password, unknown name -> three NO, the third
   arms the jail at instant 3; the valid LOGIN taken up at 4 is answered at 53; FETCH without selection -> NO;
   SELECT (handler says OK) -> FETCH reaches its handler; LOGIN again -> BAD. *)
Example C18_example :
  let creds := [(1, ([10; 11], 100)); (2, ([20], 200))] in
  let hres := fun (c : cmdk) (arg : N) (sel : option (N * bool)) (s : list N) => ROk in
  let heff := fun (c : cmdk) (arg : N) (sel : option (N * bool)) (s : list N) =>
                match c with CAppend => arg :: s | _ => s end in
  let h := [mkEv 7 CFetch 0 0 0 0; mkEv 7 CLogin 0 10 999 1; mkEv 7 CLogin 0 10 200 2; mkEv 7 CLogin 0 30 100 3;
            mkEv 7 CLogin 0 11 100 4; mkEv 7 CFetch 0 0 0 60; mkEv 7 CSelect 5 0 0 61; mkEv 7 CFetch 0 0 0 62;
            mkEv 7 CAppend 42 0 0 63; mkEv 7 CLogin 0 20 200 64] in
  let tr := trace (list N) hres heff creds 50 (init (list N) (fun _ => [])) h in
  answers (list N) tr = [(RNo, 0); (RNo, 1); (RNo, 2); (RNo, 3); (ROk, 53); (RNo, 60); (ROk, 61); (ROk, 62); (ROk, 63); (RBad, 64)]
  /\ g_stores (list N) (run (list N) hres heff creds 50 (init (list N) (fun _ => [])) h) 1 = [42]
  /\ g_stores (list N) (run (list N) hres heff creds 50 (init (list N) (fun _ => [])) h) 2 = [].
Proof. vm_compute. repeat split. Qed.
