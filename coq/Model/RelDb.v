(* RelDb — relational model of gluon's SQLite message index.

   Models (Go, /repo):
     db/ops_mailbox.go, db/ops_message.go, db/ops_subscription.go      the db.ReadOnly / db.Transaction interface
     internal/db_impl/sqlite3/write_ops.go, read_ops.go                hand-written SQL, one method per operation
     internal/db_impl/sqlite3/utils/query_utils.go                     ExecQuery, GenSQLIn, MapSliceToAny
     internal/db_impl/sqlite3/v1/migration.go, v1/mailbox.go           schema: keys, UNIQUE, FOREIGN KEY actions
     internal/db_impl/sqlite3/client.go (wrapTx)                       one SQL transaction per Write, rollback on error
   and the driver rule of github.com/mattn/go-sqlite3: a statement with k placeholders binds the FIRST k
   arguments, ignores surplus arguments and fails when there are fewer than k.

   Tables are lists of records (table order = insertion order).  Identifiers (message ids, remote ids, mailbox
   names) are numbers: the harness renames the real UUIDs/strings to first-occurrence indices.  Flags are strings.

   Two levels:
     sp_*  spec: the operation on the whole argument list, set-based, no chunking, no bind arguments;
     im_*  impl: the statement sequence of the Go method: one statement per chunk of `sf_chunk` elements,
           placeholders counted as the generated facts say (Gen/FactsSqlBind.v: `sf_ph`), bind arguments built
           from the chunk or from the whole list as the facts say (`sf_args_src`), first-k rule applied.
   Operations that are a single statement (no chunk loop) have one definition used at both levels.

   The model follows the code AFTER the repairs proposed in /verif/notes/C08-fix-*.diff and C03-fix-*.diff
   (C08-fix-1 bind arguments from the chunk, C08-fix-3 UPDATE of the messages table (+ C06-fix-2 the copies of the
   remote id in the mailbox tables), C08-fix-4 SELECT spelled right, C03-fix-1 flag removal compares
   case-insensitively).
   With the facts of the unrepaired code the impl level reproduces the defects (see Props/C08.v, `_refuted`). *)
From Coq Require Import String Ascii.
From Coq Require Import List NArith Bool Arith.
From Gluon Require Import Model.Chunks Model.SqlBindFacts.
Import ListNotations.
Open Scope list_scope.
Open Scope N_scope.

(* ------------------------------------------------------------------ flags *)
Definition flag := string.

Definition lower_ascii (c : ascii) : ascii :=
  let n := N_of_ascii c in
  if (N.leb 65 n && N.leb n 90)%bool then ascii_of_N (n + 32) else c.

Fixpoint lower (s : string) : string :=
  match s with EmptyString => EmptyString | String c t => String (lower_ascii c) (lower t) end.

Definition flag_eqb (a b : flag) : bool := String.eqb a b.                    (* BINARY collation *)
Definition flag_eqb_ci (a b : flag) : bool := String.eqb (lower a) (lower b). (* NOCASE / strings.ToLower *)

Definition fmem (f : flag) (l : list flag) : bool := existsb (flag_eqb f) l.
Definition fmem_ci (f : flag) (l : list flag) : bool := existsb (flag_eqb_ci f) l.

Definition nmem (x : N) (l : list N) : bool := existsb (N.eqb x) l.

(* ------------------------------------------------------------------ tables *)
Record msg := mkMsg { mg_id : N; mg_remote : N; mg_data : N; mg_deleted : bool }.       (* messages_v2 *)
Record mrow := mkRow { r_uid : N; r_msg : N; r_remote : N; r_deleted : bool; r_recent : bool }. (* mailbox_message_<id> *)
Record mbox := mkMbox { mb_id : N; mb_remote : N; mb_name : N; mb_uidv : N; mb_sub : bool }. (* mailboxes_v2 *)
(* one per-mailbox table together with its sqlite_sequence row (AUTOINCREMENT counter; 0 = no row yet) *)
Record mtab := mkTab { t_box : N; t_seq : N; t_rows : list mrow }.

Record db := mkDb {
  d_mboxes : list mbox;
  d_mbox_seq : N;                   (* sqlite_sequence of mailboxes_v2 *)
  d_bflags : list (N * flag);       (* mailbox_flags_v2      (mailbox_id, value) *)
  d_bpflags : list (N * flag);      (* mailbox_perm_flags_v2 *)
  d_battrs : list (N * flag);       (* mailbox_attrs_v2 *)
  d_msgs : list msg;
  d_flags : list (N * flag);        (* message_flags_v2 (message_id, value), PRIMARY KEY (value, message_id) *)
  d_m2m : list (N * N);             (* message_to_mailbox (message_id, mailbox_id), PRIMARY KEY both *)
  d_tabs : list mtab;
  d_subs : list (N * N);            (* deleted_subscriptions (name, remote_id), both UNIQUE *)
  d_settings : option N             (* connector_settings.value of row 0 (NULL = None) *)
}.

Definition empty_db : db := mkDb [] 0 [] [] [] [] [] [] [] [] None.

Definition set_msgs (d : db) (x : list msg) : db :=
  mkDb (d_mboxes d) (d_mbox_seq d) (d_bflags d) (d_bpflags d) (d_battrs d) x (d_flags d) (d_m2m d) (d_tabs d) (d_subs d) (d_settings d).
Definition set_flags (d : db) (x : list (N * flag)) : db :=
  mkDb (d_mboxes d) (d_mbox_seq d) (d_bflags d) (d_bpflags d) (d_battrs d) (d_msgs d) x (d_m2m d) (d_tabs d) (d_subs d) (d_settings d).
Definition set_m2m (d : db) (x : list (N * N)) : db :=
  mkDb (d_mboxes d) (d_mbox_seq d) (d_bflags d) (d_bpflags d) (d_battrs d) (d_msgs d) (d_flags d) x (d_tabs d) (d_subs d) (d_settings d).
Definition set_tabs (d : db) (x : list mtab) : db :=
  mkDb (d_mboxes d) (d_mbox_seq d) (d_bflags d) (d_bpflags d) (d_battrs d) (d_msgs d) (d_flags d) (d_m2m d) x (d_subs d) (d_settings d).
Definition set_mboxes (d : db) (x : list mbox) : db :=
  mkDb x (d_mbox_seq d) (d_bflags d) (d_bpflags d) (d_battrs d) (d_msgs d) (d_flags d) (d_m2m d) (d_tabs d) (d_subs d) (d_settings d).
Definition set_subs (d : db) (x : list (N * N)) : db :=
  mkDb (d_mboxes d) (d_mbox_seq d) (d_bflags d) (d_bpflags d) (d_battrs d) (d_msgs d) (d_flags d) (d_m2m d) (d_tabs d) x (d_settings d).
Definition set_settings (d : db) (x : option N) : db :=
  mkDb (d_mboxes d) (d_mbox_seq d) (d_bflags d) (d_bpflags d) (d_battrs d) (d_msgs d) (d_flags d) (d_m2m d) (d_tabs d) (d_subs d) x.

(* ------------------------------------------------------------------ lookups *)
Definition find_tab (b : N) (ts : list mtab) : option mtab := find (fun t => N.eqb (t_box t) b) ts.
Definition put_tab (t : mtab) (ts : list mtab) : list mtab :=
  map (fun t' => if N.eqb (t_box t') (t_box t) then t else t') ts.

Definition msg_exists (m : N) (d : db) : bool := existsb (fun x => N.eqb (mg_id x) m) (d_msgs d).
Definition msg_remote_exists (r : N) (d : db) : bool := existsb (fun x => N.eqb (mg_remote x) r) (d_msgs d).
Definition find_msg (m : N) (d : db) : option msg := find (fun x => N.eqb (mg_id x) m) (d_msgs d).
Definition find_mbox (b : N) (d : db) : option mbox := find (fun x => N.eqb (mb_id x) b) (d_mboxes d).
Definition find_mbox_remote (r : N) (d : db) : option mbox := find (fun x => N.eqb (mb_remote x) r) (d_mboxes d).
Definition find_mbox_name (n : N) (d : db) : option mbox := find (fun x => N.eqb (mb_name x) n) (d_mboxes d).
Definition mbox_exists (b : N) (d : db) : bool := match find_mbox b d with Some _ => true | None => false end.

Definition pair_mem (a b : N) (l : list (N * N)) : bool := existsb (fun p => N.eqb (fst p) a && N.eqb (snd p) b) l.
Definition fl_has (m : N) (f : flag) (l : list (N * flag)) : bool := existsb (fun p => N.eqb (fst p) m && flag_eqb (snd p) f) l.
Definition flags_of (m : N) (l : list (N * flag)) : list flag :=
  map snd (filter (fun p => N.eqb (fst p) m) l).

(* ------------------------------------------------------------------ single-row statements (with constraints) *)

(* INSERT INTO mailbox_message_<b> (message_id, message_remote_id) VALUES (m, r):
   UNIQUE(message_id), UNIQUE(message_remote_id), FOREIGN KEY message_id -> messages_v2(id);
   uid = AUTOINCREMENT, deleted = false, recent = true. Works on one table. *)
Definition tab_ins1 (msgs : list msg) (p : N * N) (t : mtab) : option mtab :=
  let (m, r) := p in
  if existsb (fun x => N.eqb (r_msg x) m) (t_rows t) then None
  else if existsb (fun x => N.eqb (r_remote x) r) (t_rows t) then None
  else if negb (existsb (fun x => N.eqb (mg_id x) m) msgs) then None
  else Some (mkTab (t_box t) (t_seq t + 1) (t_rows t ++ [mkRow (t_seq t + 1) m r false true])).

(* INSERT INTO message_to_mailbox (message_id, mailbox_id) VALUES (m, b): PRIMARY KEY, both FOREIGN KEYs *)
Definition m2m_ins1 (d : db) (b : N) (m : N) (l : list (N * N)) : option (list (N * N)) :=
  if pair_mem m b l then None
  else if negb (msg_exists m d) then None
  else if negb (mbox_exists b d) then None
  else Some (l ++ [(m, b)]).

(* INSERT INTO messages_v2 ...: PRIMARY KEY id, UNIQUE remote_id *)
Definition msg_ins1 (x : msg) (l : list msg) : option (list msg) :=
  if existsb (fun y => N.eqb (mg_id y) (mg_id x)) l then None
  else if existsb (fun y => N.eqb (mg_remote y) (mg_remote x)) l then None
  else Some (l ++ [x]).

(* INSERT INTO message_flags_v2 (message_id, value) VALUES (m, f): PRIMARY KEY (value, message_id).
   (The FOREIGN KEY cannot fail where this is used: the message row was inserted by the preceding statement.) *)
Definition flag_ins1 (p : N * flag) (l : list (N * flag)) : option (list (N * flag)) :=
  if fl_has (fst p) (snd p) l then None else Some (l ++ [p]).

(* INSERT OR IGNORE INTO message_flags_v2: a duplicate key is skipped, a missing message is an error *)
Definition flag_ins_ignore1 (d : db) (p : N * flag) (l : list (N * flag)) : option (list (N * flag)) :=
  if negb (msg_exists (fst p) d) then None
  else if fl_has (fst p) (snd p) l then Some l else Some (l ++ [p]).

(* ------------------------------------------------------------------ results *)
Record snaprow := mkSnap { s_uid : N; s_msg : N; s_remote : N; s_deleted : bool; s_recent : bool; s_flags : list flag }.

Inductive rval :=
| RUnit
| RBool (b : bool)
| RNum (n : N)
| RNums (l : list N)
| RPairs (l : list (N * N))
| RMbox (m : mbox)
| RFlags (l : list flag)
| RSnap (l : list snaprow)
| RMsgFlags (l : list (N * N * list flag))
| RCountUid (c u : N)
| ROptNum (o : option N)
| RUidFlags (u : N) (l : list flag).   (* CreateMessageAndAddToMailbox: the UID and the flag set of the new entry *)

Inductive ecls := ENotFound | EOther.
Inductive result := Ok (d : db) (r : rval) | Fail (e : ecls).

Definition lift (o : option db) (r : rval) : result := match o with Some d => Ok d r | None => Fail EOther end.

Definition snap_of (d : db) (x : mrow) : snaprow :=
  mkSnap (r_uid x) (r_msg x) (r_remote x) (r_deleted x) (r_recent x) (flags_of (r_msg x) (d_flags d)).

(* ------------------------------------------------------------------ bind arguments (driver rule) *)
Inductive val := VMsg (n : N) | VBox (n : N) | VFlag (f : flag) | VBool (b : bool) | VRemote (n : N).

Definition bind_args (nph : nat) (args : list val) : option (list val) :=
  if Nat.ltb (length args) nph then None else Some (firstn nph args).

(* values used in a message-id position: anything that is not a message id matches no row *)
Definition msgs_of (l : list val) : list N := flat_map (fun v => match v with VMsg n => [n] | _ => [] end) l.
Definition flags_of_vals (l : list val) : list flag := flat_map (fun v => match v with VFlag f => [f] | _ => [] end) l.

Record lenenv := mkEnv { le_chunk : nat; le_whole : nat; le_other : string -> nat }.
Definition lv_val (e : lenenv) (v : lenvar) : nat :=
  match v with VChunk => le_chunk e | VWhole => le_whole e | VOther s => le_other e s end.
Definition eval_term (e : lenenv) (t : term) : nat :=
  (N.to_nat (t_coef t) * fold_right (fun v acc => lv_val e v * acc) 1 (t_vars t))%nat.
Definition eval_cnt (e : lenenv) (c : cnt) : nat := fold_right (fun t acc => (eval_term e t + acc)%nat) 0%nat c.

Definition no_other : string -> nat := fun _ => 0%nat.
Definition pick {A} (s : src) (chunk whole : list A) : list A :=
  match s with FromChunk => chunk | FromWhole => whole | FromUnknown => [] end.
Definition csize (f : stmt_fact) : nat := N.to_nat (sf_chunk f).

(* ================================================================== operations ======================== *)

(* ---- AddMessagesToMailbox (write_ops.go): chunks of ChunkLimit/2; per chunk INSERT into the mailbox table, then
        INSERT into message_to_mailbox; afterwards GetMailboxMessageUIDsWithFlagsAfterAddOrUIDBump *)
(* a statement on the table of mailbox b; "no such table" is an error *)
Definition upd_tab (b : N) (f : mtab -> option mtab) (d : db) : option db :=
  match find_tab b (d_tabs d) with
  | None => None
  | Some t => match f t with
              | Some t' => Some (set_tabs d (put_tab t' (d_tabs d)))
              | None => None
              end
  end.
Definition tab_ins_rows (b : N) (ps : list (N * N)) (d : db) : option db :=
  match ps with
  | [] => Some d                                               (* no statement is executed *)
  | _ => upd_tab b (foldM (tab_ins1 (d_msgs d)) ps) d
  end.
Definition m2m_ins_rows (b : N) (ps : list (N * N)) (d : db) : option db :=
  match foldM (m2m_ins1 d b) (map fst ps) (d_m2m d) with
  | Some l => Some (set_m2m d l)
  | None => None
  end.

Definition sel_rows_in (b : N) (ids : list N) (d : db) : option (list snaprow) :=
  match find_tab b (d_tabs d) with
  | None => match ids with [] => Some [] | _ => None end
  | Some t => Some (map (snap_of d) (filter (fun x => nmem (r_msg x) ids) (t_rows t)))
  end.

Definition sp_add_messages (b : N) (ps : list (N * N)) (d : db) : result :=
  match ps with
  | [] => Ok d (RSnap [])
  | _ => match obind (tab_ins_rows b ps d) (m2m_ins_rows b ps) with
         | None => Fail EOther
         | Some d' => match sel_rows_in b (map fst ps) d' with
                      | Some rows => Ok d' (RSnap rows)
                      | None => Fail EOther
                      end
         end
  end.

(* a multi-row VALUES (?,?),(?,?)... statement: the bound values are read in groups of two *)
Fixpoint pairs_of {A B} (pa : val -> option A) (pb : val -> option B) (l : list val) : option (list (A * B)) :=
  match l with
  | [] => Some []
  | x :: y :: t => match pa x, pb y, pairs_of pa pb t with
                   | Some a, Some b, Some r => Some ((a, b) :: r)
                   | _, _, _ => None            (* a value of the wrong kind in a key column: constraint failure *)
                   end
  | _ => None
  end.
Definition as_msg (v : val) : option N := match v with VMsg n => Some n | _ => None end.
Definition as_remote (v : val) : option N := match v with VRemote n => Some n | _ => None end.
Definition as_box (v : val) : option N := match v with VBox n => Some n | _ => None end.
Definition as_flag (v : val) : option flag := match v with VFlag f => Some f | _ => None end.

Definition im_add_stmt0 (f : stmt_fact) (b : N) (chunk whole : list (N * N)) (d : db) : option db :=
  let e := mkEnv (length chunk) (length whole) no_other in
  let args := flat_map (fun p => [VMsg (fst p); VRemote (snd p)]) (pick (sf_args_src f) chunk whole) in
  match bind_args (eval_cnt e (sf_ph f)) args with
  | None => None
  | Some bound => match pairs_of as_msg as_remote bound with
                  | None => None
                  | Some ps => tab_ins_rows b ps d
                  end
  end.
Definition im_add_stmt1 (f : stmt_fact) (b : N) (chunk whole : list (N * N)) (d : db) : option db :=
  let e := mkEnv (length chunk) (length whole) no_other in
  let args := flat_map (fun p => [VMsg (fst p); VBox b]) (pick (sf_args_src f) chunk whole) in
  match bind_args (eval_cnt e (sf_ph f)) args with
  | None => None
  | Some bound => match pairs_of as_msg as_box bound with
                  | None => None
                  | Some ps => match foldM (fun p l => m2m_ins1 d (snd p) (fst p) l) ps (d_m2m d) with
                               | Some l => Some (set_m2m d l)
                               | None => None
                               end
                  end
  end.

(* the chunked SELECT ... WHERE message_id IN (...) used by the add result, MailboxFilterContains, ... *)
Definition im_in_select {R} (f : stmt_fact) (sel : list N -> option (list R)) (ids : list N) : option (list R) :=
  fold_right (fun chunk acc =>
      let e := mkEnv (length chunk) (length ids) no_other in
      match bind_args (eval_cnt e (sf_ph f)) (map VMsg (pick (sf_args_src f) chunk ids)), acc with
      | Some bound, Some r => match sel (msgs_of bound) with Some x => Some (x ++ r) | None => None end
      | _, _ => None
      end) (Some []) (chunks (csize f) ids).

Definition im_add_messages (F : list stmt_fact) (b : N) (ps : list (N * N)) (d : db) : result :=
  match ps with
  | [] => Ok d (RSnap [])
  | _ =>
    match find_stmt "AddMessagesToMailbox" 0 F, find_stmt "AddMessagesToMailbox" 1 F,
          find_stmt "GetMailboxMessageUIDsWithFlagsAfterAddOrUIDBump" 0 F with
    | Some f0, Some f1, Some fs =>
      match foldM (fun chunk d => obind (im_add_stmt0 f0 b chunk ps d) (im_add_stmt1 f1 b chunk ps)) (chunks (csize f0) ps) d with
      | None => Fail EOther
      | Some d' => match im_in_select fs (fun ids => sel_rows_in b ids d') (map fst ps) with
                   | Some rows => Ok d' (RSnap rows)
                   | None => Fail EOther
                   end
      end
    | _, _, _ => Fail EOther
    end
  end.

(* ---- RemoveMessagesFromMailbox: per chunk DELETE from the mailbox table, DELETE from message_to_mailbox *)
Definition tab_del (ids : list N) (t : mtab) : mtab :=
  mkTab (t_box t) (t_seq t) (filter (fun x => negb (nmem (r_msg x) ids)) (t_rows t)).
Definition tab_del_rows (b : N) (ids : list N) (d : db) : option db :=
  match ids with
  | [] => Some d
  | _ => upd_tab b (fun t => Some (tab_del ids t)) d
  end.
Definition m2m_del_rows (b : N) (ids : list N) (d : db) : db :=
  set_m2m d (filter (fun p => negb (nmem (fst p) ids && N.eqb (snd p) b)) (d_m2m d)).

Definition sp_remove_messages (b : N) (ids : list N) (d : db) : result :=
  lift (match tab_del_rows b ids d with Some d' => Some (m2m_del_rows b ids d') | None => None end) RUnit.

Definition im_rm_stmt0 (f : stmt_fact) (b : N) (chunk whole : list N) (d : db) : option db :=
  let e := mkEnv (length chunk) (length whole) no_other in
  match bind_args (eval_cnt e (sf_ph f)) (map VMsg (pick (sf_args_src f) chunk whole)) with
  | None => None
  | Some bound => tab_del_rows b (msgs_of bound) d
  end.
Definition im_rm_stmt1 (f : stmt_fact) (b : N) (chunk whole : list N) (d : db) : option db :=
  let e := mkEnv (length chunk) (length whole) no_other in
  match bind_args (eval_cnt e (sf_ph f)) (map VMsg (pick (sf_args_src f) chunk whole) ++ [VBox b]) with
  | None => None
  | Some bound =>
    (* ... WHERE message_id IN (first values) AND mailbox_id = (last value) *)
    match rev bound with
    | VBox b' :: ids_rev => Some (m2m_del_rows b' (msgs_of (rev ids_rev)) d)
    | _ => Some d                     (* a message id bound to mailbox_id: no row matches *)
    end
  end.
Definition im_remove_messages (F : list stmt_fact) (b : N) (ids : list N) (d : db) : result :=
  match find_stmt "RemoveMessagesFromMailbox" 0 F, find_stmt "RemoveMessagesFromMailbox" 1 F with
  | Some f0, Some f1 =>
    lift (foldM (fun chunk d => obind (im_rm_stmt0 f0 b chunk ids d) (im_rm_stmt1 f1 b chunk ids)) (chunks (csize f0) ids) d) RUnit
  | _, _ => Fail EOther
  end.

(* ---- SetMailboxMessagesDeletedFlag: per chunk UPDATE ... SET deleted = ? WHERE message_id IN (...) *)
Definition tab_setdel (v : bool) (ids : list N) (t : mtab) : mtab :=
  mkTab (t_box t) (t_seq t)
    (map (fun x => if nmem (r_msg x) ids then mkRow (r_uid x) (r_msg x) (r_remote x) v (r_recent x) else x) (t_rows t)).
Definition tab_set_deleted (b : N) (v : bool) (ids : list N) (d : db) : option db :=
  match ids with
  | [] => Some d
  | _ => upd_tab b (fun t => Some (tab_setdel v ids t)) d
  end.
Definition sp_set_deleted (b : N) (ids : list N) (v : bool) (d : db) : result := lift (tab_set_deleted b v ids d) RUnit.

Definition im_setdel_stmt (f : stmt_fact) (b : N) (v : bool) (chunk whole : list N) (d : db) : option db :=
  let e := mkEnv (length chunk) (length whole) no_other in
  match bind_args (eval_cnt e (sf_ph f)) (VBool v :: map VMsg (pick (sf_args_src f) chunk whole)) with
  | Some (VBool v' :: rest) => tab_set_deleted b v' (msgs_of rest) d
  | _ => None
  end.
Definition im_set_deleted (F : list stmt_fact) (b : N) (ids : list N) (v : bool) (d : db) : result :=
  match find_stmt "SetMailboxMessagesDeletedFlag" 0 F with
  | Some f => lift (foldM (fun chunk d => im_setdel_stmt f b v chunk ids d) (chunks (csize f) ids) d) RUnit
  | None => Fail EOther
  end.

(* ---- CreateMessages: per chunk of requests INSERT the message rows, then the (id, flag) argument list of that
        chunk is itself cut into chunks of ChunkLimit VALUES and inserted with len(chunk)/2 groups "(?,?)" *)
Record creq := mkReq { q_id : N; q_remote : N; q_data : N; q_flags : list flag }.

Definition msgs_ins_rows (rs : list creq) (d : db) : option db :=
  match foldM (fun r l => msg_ins1 (mkMsg (q_id r) (q_remote r) (q_data r) false) l) rs (d_msgs d) with
  | Some l => Some (set_msgs d l) | None => None end.
Definition flags_ins_rows (ps : list (N * flag)) (d : db) : option db :=
  match foldM flag_ins1 ps (d_flags d) with Some l => Some (set_flags d l) | None => None end.
Definition req_flag_pairs (rs : list creq) : list (N * flag) :=
  flat_map (fun r => map (fun f => (q_id r, f)) (q_flags r)) rs.

Definition sp_create_messages (rs : list creq) (d : db) : result :=
  lift (obind (msgs_ins_rows rs d) (flags_ins_rows (req_flag_pairs rs))) RUnit.

Definition im_cm_stmt0 (f : stmt_fact) (chunk whole : list creq) (d : db) : option db :=
  let e := mkEnv (length chunk) (length whole) no_other in
  (* 7 values per request; the model keeps one value per request and scales the counts *)
  let src := pick (sf_args_src f) chunk whole in
  if Nat.ltb (7 * length src) (eval_cnt e (sf_ph f)) then None
  else msgs_ins_rows (firstn (Nat.div (eval_cnt e (sf_ph f)) 7) src) d.
Definition im_cm_flagstmt (f : stmt_fact) (chunk whole : list val) (d : db) : option db :=
  let e := mkEnv (length chunk) (length whole) no_other in
  let nph := if sf_needs_even f then (2 * Nat.div (length chunk) 2)%nat else eval_cnt e (sf_ph f) in
  match bind_args nph (pick (sf_args_src f) chunk whole) with
  | None => None
  | Some bound => match pairs_of as_msg as_flag bound with
                  | None => None
                  | Some ps => flags_ins_rows ps d
                  end
  end.
Definition flag_vals (ps : list (N * flag)) : list val := flat_map (fun p => [VMsg (fst p); VFlag (snd p)]) ps.

Definition im_create_messages (F : list stmt_fact) (rs : list creq) (d : db) : result :=
  match find_stmt "CreateMessages" 0 F, find_stmt "CreateMessages" 1 F with
  | Some f0, Some f1 =>
    lift (foldM (fun chunk d =>
            obind (im_cm_stmt0 f0 chunk rs d)
                  (fun d1 => let fa := flag_vals (req_flag_pairs chunk) in
                             foldM (fun c d => im_cm_flagstmt f1 c fa d) (chunks (csize f1) fa) d1))
          (chunks (csize f0) rs) d) RUnit
  | _, _ => Fail EOther
  end.

(* ---- DeleteMessages: per chunk DELETE FROM messages_v2 WHERE id IN (...).
        message_flags_v2 and message_to_mailbox rows go with it (ON DELETE CASCADE); a row of a mailbox table that
        still references the message makes the statement fail (ON DELETE SET NULL on a NOT NULL column). *)
Definition msgs_del (ids : list N) (d : db) : option db :=
  if existsb (fun t => existsb (fun x => nmem (r_msg x) ids) (t_rows t)) (d_tabs d) then None
  else Some (mkDb (d_mboxes d) (d_mbox_seq d) (d_bflags d) (d_bpflags d) (d_battrs d)
               (filter (fun x => negb (nmem (mg_id x) ids)) (d_msgs d))
               (filter (fun p => negb (nmem (fst p) ids)) (d_flags d))
               (filter (fun p => negb (nmem (fst p) ids)) (d_m2m d))
               (d_tabs d) (d_subs d) (d_settings d)).
Definition sp_delete_messages (ids : list N) (d : db) : result := lift (msgs_del ids d) RUnit.

Definition im_in_stmt (f : stmt_fact) (g : list N -> db -> option db) (chunk whole : list N) (d : db) : option db :=
  let e := mkEnv (length chunk) (length whole) no_other in
  match bind_args (eval_cnt e (sf_ph f)) (map VMsg (pick (sf_args_src f) chunk whole)) with
  | None => None
  | Some bound => g (msgs_of bound) d
  end.
Definition im_delete_messages (F : list stmt_fact) (ids : list N) (d : db) : result :=
  match find_stmt "DeleteMessages" 0 F with
  | Some f => lift (foldM (fun chunk d => im_in_stmt f msgs_del chunk ids d) (chunks (csize f) ids) d) RUnit
  | None => Fail EOther
  end.

(* ---- AddFlagToMessages: per chunk INSERT OR IGNORE (id, flag) for every id *)
Definition flags_add (fl : flag) (ids : list N) (d : db) : option db :=
  match foldM (fun m l => flag_ins_ignore1 d (m, fl) l) ids (d_flags d) with
  | Some l => Some (set_flags d l) | None => None end.
Definition sp_add_flag (ids : list N) (fl : flag) (d : db) : result := lift (flags_add fl ids d) RUnit.

Definition im_addflag_stmt (f : stmt_fact) (fl : flag) (chunk whole : list N) (d : db) : option db :=
  let e := mkEnv (length chunk) (length whole) no_other in
  let args := flat_map (fun m => [VMsg m; VFlag fl]) (pick (sf_args_src f) chunk whole) in
  match bind_args (eval_cnt e (sf_ph f)) args with
  | None => None
  | Some bound => match pairs_of as_msg as_flag bound with
                  | None => None
                  | Some ps => match foldM (flag_ins_ignore1 d) ps (d_flags d) with
                               | Some l => Some (set_flags d l) | None => None end
                  end
  end.
Definition im_add_flag (F : list stmt_fact) (ids : list N) (fl : flag) (d : db) : result :=
  match find_stmt "AddFlagToMessages" 0 F with
  | Some f => lift (foldM (fun chunk d => im_addflag_stmt f fl chunk ids d) (chunks (csize f) ids) d) RUnit
  | None => Fail EOther
  end.

(* ---- RemoveFlagFromMessages: per chunk DELETE ... WHERE message_id IN (...) AND value = ? [COLLATE NOCASE].
        `ci` is the generated fact "the comparison is case-insensitive". *)
Definition flags_remove (ci : bool) (fl : flag) (ids : list N) (d : db) : db :=
  set_flags d (filter (fun p => negb (nmem (fst p) ids && (if ci then flag_eqb_ci (snd p) fl else flag_eqb (snd p) fl))) (d_flags d)).
Definition sp_remove_flag (ci : bool) (ids : list N) (fl : flag) (d : db) : result := Ok (flags_remove ci fl ids d) RUnit.

Definition im_rmflag_stmt (f : stmt_fact) (ci : bool) (fl : flag) (chunk whole : list N) (d : db) : option db :=
  let e := mkEnv (length chunk) (length whole) no_other in
  match bind_args (eval_cnt e (sf_ph f)) (map VMsg (pick (sf_args_src f) chunk whole) ++ [VFlag fl]) with
  | None => None
  | Some bound => match rev bound with
                  | VFlag fl' :: ids_rev => Some (flags_remove ci fl' (msgs_of (rev ids_rev)) d)
                  | _ => Some d
                  end
  end.
Definition im_remove_flag (F : list stmt_fact) (ci : bool) (ids : list N) (fl : flag) (d : db) : result :=
  match find_stmt "RemoveFlagFromMessages" 0 F with
  | Some f => lift (foldM (fun chunk d => im_rmflag_stmt f ci fl chunk ids d) (chunks (csize f) ids) d) RUnit
  | None => Fail EOther
  end.

(* ---- SetFlagsOnMessages: empty flag set: per chunk (ChunkLimit) DELETE all flags of the ids;
        otherwise per chunk (ChunkLimit/2): DELETE flags NOT IN the set, INSERT OR IGNORE every (id, flag) *)
Definition flags_clear (ids : list N) (d : db) : option db :=
  Some (set_flags d (filter (fun p => negb (nmem (fst p) ids)) (d_flags d))).
Definition flags_del_notin (fs : list flag) (ids : list N) (d : db) : db :=
  set_flags d (filter (fun p => negb (nmem (fst p) ids && negb (fmem (snd p) fs))) (d_flags d)).
Definition flags_ins_cross (fs : list flag) (ids : list N) (d : db) : option db :=
  match foldM (flag_ins_ignore1 d) (flat_map (fun m => map (fun f => (m, f)) fs) ids) (d_flags d) with
  | Some l => Some (set_flags d l) | None => None end.

Definition sp_set_flags (ids : list N) (fs : list flag) (d : db) : result :=
  match fs with
  | [] => lift (flags_clear ids d) RUnit
  | _ => lift (flags_ins_cross fs ids (flags_del_notin fs ids d)) RUnit
  end.

Definition im_setflags_del (f : stmt_fact) (fs : list flag) (chunk whole : list N) (d : db) : option db :=
  let e := mkEnv (length chunk) (length whole) (fun _ => length fs) in
  match bind_args (eval_cnt e (sf_ph f)) (map VMsg (pick (sf_args_src f) chunk whole) ++ map VFlag fs) with
  | None => None
  | Some bound =>
    (* the statement has len(chunk) placeholders for ids followed by len(flags) placeholders for flags *)
    let ids := firstn (length chunk) bound in
    let fl := skipn (length chunk) bound in
    Some (flags_del_notin (flags_of_vals fl) (msgs_of ids) d)
  end.
Definition im_setflags_ins (f : stmt_fact) (fs : list flag) (chunk whole : list N) (d : db) : option db :=
  let e := mkEnv (length chunk) (length whole) (fun _ => length fs) in
  let args := flat_map (fun m => flat_map (fun fl => [VMsg m; VFlag fl]) fs) (pick (sf_args_src f) chunk whole) in
  match bind_args (eval_cnt e (sf_ph f)) args with
  | None => None
  | Some bound => match pairs_of as_msg as_flag bound with
                  | None => None
                  | Some ps => match foldM (flag_ins_ignore1 d) ps (d_flags d) with
                               | Some l => Some (set_flags d l) | None => None end
                  end
  end.
Definition im_set_flags (F : list stmt_fact) (ids : list N) (fs : list flag) (d : db) : result :=
  match fs with
  | [] => match find_stmt "SetFlagsOnMessages" 0 F with
          | Some f => lift (foldM (fun chunk d => im_in_stmt f flags_clear chunk ids d) (chunks (csize f) ids) d) RUnit
          | None => Fail EOther
          end
  | _ => match find_stmt "SetFlagsOnMessages" 1 F, find_stmt "SetFlagsOnMessages" 2 F with
         | Some f1, Some f2 =>
           lift (foldM (fun chunk d => obind (im_setflags_del f1 fs chunk ids d) (im_setflags_ins f2 fs chunk ids))
                       (chunks (csize f1) ids) d) RUnit
         | _, _ => Fail EOther
         end
  end.

(* ---- chunked reads ---- *)
(* MailboxFilterContains(InternalID): SELECT message_id FROM mailbox table WHERE message_id IN (...) *)
Definition sel_contains (b : N) (ids : list N) (d : db) : option (list N) :=
  match find_tab b (d_tabs d) with
  | None => match ids with [] => Some [] | _ => None end
  | Some t => Some (map r_msg (filter (fun x => nmem (r_msg x) ids) (t_rows t)))
  end.
Definition res_opt {A} (d : db) (mk : A -> rval) (o : option A) : result :=
  match o with Some x => Ok d (mk x) | None => Fail EOther end.
Definition sp_filter_contains (b : N) (ids : list N) (d : db) : result := res_opt d RNums (sel_contains b ids d).
Definition im_filter_contains (F : list stmt_fact) (b : N) (ids : list N) (d : db) : result :=
  match find_stmt "MailboxFilterContainsInternalID" 0 F with
  | Some f => res_opt d RNums (im_in_select f (fun c => sel_contains b c d) ids)
  | None => Fail EOther
  end.

(* GetMessagesFlags: per chunk SELECT GROUP_CONCAT(flags), id, remote_id FROM messages LEFT JOIN flags WHERE id IN (...) *)
Definition sel_msg_flags (ids : list N) (d : db) : option (list (N * N * list flag)) :=
  Some (map (fun x => (mg_id x, mg_remote x, flags_of (mg_id x) (d_flags d))) (filter (fun x => nmem (mg_id x) ids) (d_msgs d))).
Definition sp_get_messages_flags (ids : list N) (d : db) : result := res_opt d RMsgFlags (sel_msg_flags ids d).
Definition im_get_messages_flags (F : list stmt_fact) (ids : list N) (d : db) : result :=
  match find_stmt "GetMessagesFlags" 0 F with
  | Some f => res_opt d RMsgFlags (im_in_select f (fun c => sel_msg_flags c d) ids)
  | None => Fail EOther
  end.

(* MailboxTranslateRemoteIDs: per chunk SELECT id FROM mailboxes WHERE remote_id IN (...) *)
Definition sel_translate (rids : list N) (d : db) : option (list N) :=
  Some (map mb_id (filter (fun x => nmem (mb_remote x) rids) (d_mboxes d))).
Definition sp_translate (rids : list N) (d : db) : result := res_opt d RNums (sel_translate rids d).
Definition im_translate (F : list stmt_fact) (rids : list N) (d : db) : result :=
  match find_stmt "MailboxTranslateRemoteIDs" 0 F with
  | Some f => res_opt d RNums (im_in_select f (fun c => sel_translate c d) rids)
  | None => Fail EOther
  end.

(* ================================================================== single-statement operations ========= *)
Definition res_found {A} (d : db) (mk : A -> rval) (o : option A) : result :=
  match o with Some x => Ok d (mk x) | None => Fail ENotFound end.

(* CreateMailbox: INSERT INTO mailboxes_v2 ... RETURNING id; the deleted_subscriptions entry of that name goes;
   CREATE TABLE mailbox_message_<id>; flag rows *)
Definition op_create_mailbox (remote name uidv : N) (fl pfl at_ : list flag) (d : db) : result :=
  if existsb (fun x => N.eqb (mb_remote x) remote) (d_mboxes d) then Fail EOther
  else if existsb (fun x => N.eqb (mb_name x) name) (d_mboxes d) then Fail EOther
  else let id := d_mbox_seq d + 1 in
       let m := mkMbox id remote name uidv true in
       Ok (mkDb (d_mboxes d ++ [m]) id
             (d_bflags d ++ map (fun f => (id, f)) fl) (d_bpflags d ++ map (fun f => (id, f)) pfl)
             (d_battrs d ++ map (fun f => (id, f)) at_)
             (d_msgs d) (d_flags d) (d_m2m d) (d_tabs d ++ [mkTab id 0 []])
             (filter (fun p => negb (N.eqb (fst p) name)) (d_subs d))    (* RemoveDeletedSubscriptionWithName(name) *)
             (d_settings d)) (RMbox m).

Definition op_get_or_create_mailbox (remote name uidv : N) (fl pfl at_ : list flag) (d : db) : result :=
  match find_mbox_remote remote d with
  | Some m => Ok d (RMbox m)
  | None => op_create_mailbox remote name uidv fl pfl at_ d
  end.

(* AddDeletedSubscription: UPDATE ... SET remote_id = ? WHERE name = ?; if nothing changed INSERT *)
Definition subs_add (name remote : N) (l : list (N * N)) : option (list (N * N)) :=
  if existsb (fun p => N.eqb (fst p) name) l then
    if existsb (fun p => negb (N.eqb (fst p) name) && N.eqb (snd p) remote) l then None       (* UNIQUE remote_id *)
    else Some (map (fun p => if N.eqb (fst p) name then (name, remote) else p) l)
  else if existsb (fun p => N.eqb (snd p) remote) l then None
  else Some (l ++ [(name, remote)]).
Definition op_add_deleted_subscription (name remote : N) (d : db) : result :=
  match subs_add name remote (d_subs d) with Some l => Ok (set_subs d l) RUnit | None => Fail EOther end.
Definition op_remove_deleted_subscription (name : N) (d : db) : result :=
  Ok (set_subs d (filter (fun p => negb (N.eqb (fst p) name)) (d_subs d)))
     (RNum (N.of_nat (length (filter (fun p => N.eqb (fst p) name) (d_subs d))))).
Definition op_get_deleted_subscriptions (d : db) : result := Ok d (RPairs (d_subs d)).

(* DeleteMailboxWithRemoteID: unknown id is not an error; a subscribed mailbox is remembered in deleted_subscriptions;
   DROP TABLE; DELETE FROM mailboxes_v2 (flags/attrs/message_to_mailbox rows CASCADE) *)
Definition op_delete_mailbox (remote : N) (d : db) : result :=
  match find_mbox_remote remote d with
  | None => Ok d RUnit
  | Some m =>
    match (if mb_sub m then subs_add (mb_name m) remote (d_subs d) else Some (d_subs d)) with
    | None => Fail EOther
    | Some subs =>
      let id := mb_id m in
      Ok (mkDb (filter (fun x => negb (N.eqb (mb_id x) id)) (d_mboxes d)) (d_mbox_seq d)
            (filter (fun p => negb (N.eqb (fst p) id)) (d_bflags d))
            (filter (fun p => negb (N.eqb (fst p) id)) (d_bpflags d))
            (filter (fun p => negb (N.eqb (fst p) id)) (d_battrs d))
            (d_msgs d) (d_flags d)
            (filter (fun p => negb (N.eqb (snd p) id)) (d_m2m d))
            (filter (fun t => negb (N.eqb (t_box t) id)) (d_tabs d)) subs (d_settings d)) RUnit
    end
  end.

Definition upd_mbox (d : db) (sel : mbox -> bool) (u : mbox -> mbox) : db * N :=
  (set_mboxes d (map (fun x => if sel x then u x else x) (d_mboxes d)), N.of_nat (length (filter sel (d_mboxes d)))).

(* RenameMailboxWithRemoteID: UPDATE ... SET name = ? WHERE remote_id = ? ; "no values changed" is an error; UNIQUE name;
   then the deleted_subscriptions entry of the new name goes *)
Definition op_rename_mailbox (remote name : N) (d : db) : result :=
  match find_mbox_remote remote d with
  | None => Fail EOther
  | Some m => if existsb (fun x => N.eqb (mb_name x) name && negb (N.eqb (mb_id x) (mb_id m))) (d_mboxes d) then Fail EOther
              else let d1 := fst (upd_mbox d (fun x => N.eqb (mb_remote x) remote) (fun x => mkMbox (mb_id x) (mb_remote x) name (mb_uidv x) (mb_sub x))) in
                   Ok (set_subs d1 (filter (fun p => negb (N.eqb (fst p) name)) (d_subs d1))) RUnit
  end.
Definition op_set_subscribed (b : N) (v : bool) (d : db) : result :=
  Ok (fst (upd_mbox d (fun x => N.eqb (mb_id x) b) (fun x => mkMbox (mb_id x) (mb_remote x) (mb_name x) (mb_uidv x) v))) RUnit.
Definition op_set_uidvalidity (b uidv : N) (d : db) : result :=
  match find_mbox b d with
  | None => Fail EOther
  | Some _ => Ok (fst (upd_mbox d (fun x => N.eqb (mb_id x) b) (fun x => mkMbox (mb_id x) (mb_remote x) (mb_name x) uidv (mb_sub x)))) RUnit
  end.
Definition op_update_remote_mailbox_id (b remote : N) (d : db) : result :=
  match find_mbox b d with
  | None => Fail EOther
  | Some m => if existsb (fun x => N.eqb (mb_remote x) remote && negb (N.eqb (mb_id x) b)) (d_mboxes d) then Fail EOther
              else Ok (fst (upd_mbox d (fun x => N.eqb (mb_id x) b) (fun x => mkMbox (mb_id x) remote (mb_name x) (mb_uidv x) (mb_sub x)))) RUnit
  end.

(* CreateMessageAndAddToMailbox: INSERT message; INSERT its flags except \Deleted; INSERT message_to_mailbox;
   INSERT mailbox row (deleted = the request named \Deleted) RETURNING uid; returns the uid and the request's flags
   (with \Deleted, which the new entry has in this mailbox) plus \Recent *)
Definition recent_flag_name : flag := "\Recent"%string.
Definition deleted_flag_name : flag := "\Deleted"%string.
Definition is_deleted_flag (f : flag) : bool := flag_eqb_ci f deleted_flag_name.
Definition op_create_message_and_add (b : N) (r : creq) (d : db) : result :=
  let r' := mkReq (q_id r) (q_remote r) (q_data r) (filter (fun f => negb (is_deleted_flag f)) (q_flags r)) in
  match obind (msgs_ins_rows [r'] d) (flags_ins_rows (req_flag_pairs [r'])) with
  | None => Fail EOther
  | Some d1 =>
    match m2m_ins_rows b [(q_id r, q_remote r)] d1 with
    | None => Fail EOther
    | Some d2 =>
      match find_tab b (d_tabs d2) with
      | None => Fail EOther
      | Some t => match obind (tab_ins_rows b [(q_id r, q_remote r)] d2)
                              (fun d3 => if existsb is_deleted_flag (q_flags r) then tab_set_deleted b true [q_id r] d3 else Some d3) with
                  | Some d4 => Ok d4 (RUidFlags (t_seq t + 1) (q_flags r ++ [recent_flag_name]))
                  | None => Fail EOther
                  end
      end
    end
  end.

Definition upd_msgs (d : db) (sel : msg -> bool) (u : msg -> msg) : db :=
  set_msgs d (map (fun x => if sel x then u x else x) (d_msgs d)).
Definition op_mark_deleted (m : N) (d : db) : result :=
  Ok (upd_msgs d (fun x => N.eqb (mg_id x) m) (fun x => mkMsg (mg_id x) (mg_remote x) (mg_data x) true)) RUnit.
Definition op_mark_deleted_remote (r : N) (d : db) : result :=
  Ok (upd_msgs d (fun x => N.eqb (mg_remote x) r) (fun x => mkMsg (mg_id x) (mg_remote x) (mg_data x) true)) RUnit.
(* UpdateRemoteMessageID (after C08-fix-3 and C06-fix-2): UPDATE messages_v2 SET remote_id = ? WHERE id = ? (UNIQUE;
   must change a row), then for every mailbox of the message (message_to_mailbox) UPDATE mailbox_message_<b>
   SET message_remote_id = ? WHERE message_id = ? (UNIQUE message_remote_id) *)
Definition tab_set_remote (m r : N) (t : mtab) : option mtab :=
  if existsb (fun x => N.eqb (r_remote x) r && negb (N.eqb (r_msg x) m)) (t_rows t)
     && existsb (fun x => N.eqb (r_msg x) m) (t_rows t) then None
  else Some (mkTab (t_box t) (t_seq t)
               (map (fun x => if N.eqb (r_msg x) m then mkRow (r_uid x) m r (r_deleted x) (r_recent x) else x) (t_rows t))).
Definition op_update_remote_message_id (m r : N) (d : db) : result :=
  match find_msg m d with
  | None => Fail EOther
  | Some _ =>
    if existsb (fun x => N.eqb (mg_remote x) r && negb (N.eqb (mg_id x) m)) (d_msgs d) then Fail EOther
    else
      let d1 := upd_msgs d (fun x => N.eqb (mg_id x) m) (fun x => mkMsg (mg_id x) r (mg_data x) (mg_deleted x)) in
      let boxes := map snd (filter (fun p => N.eqb (fst p) m) (d_m2m d)) in
      match foldM (fun b ts => match find_tab b ts with
                               | None => None
                               | Some t => match tab_set_remote m r t with
                                           | Some t' => Some (put_tab t' ts) | None => None end
                               end) boxes (d_tabs d1) with
      | Some ts => Ok (set_tabs d1 ts) RUnit
      | None => Fail EOther
      end
  end.

Definition op_clear_recent_one (b m : N) (d : db) : result :=
  match find_tab b (d_tabs d) with
  | None => Fail EOther
  | Some t => Ok (set_tabs d (put_tab (mkTab (t_box t) (t_seq t)
                   (map (fun x => if N.eqb (r_msg x) m then mkRow (r_uid x) (r_msg x) (r_remote x) (r_deleted x) false else x) (t_rows t))) (d_tabs d))) RUnit
  end.
Definition op_clear_recent_all (b : N) (d : db) : result :=
  match find_tab b (d_tabs d) with
  | None => Fail EOther
  | Some t => Ok (set_tabs d (put_tab (mkTab (t_box t) (t_seq t)
                   (map (fun x => mkRow (r_uid x) (r_msg x) (r_remote x) (r_deleted x) false) (t_rows t))) (d_tabs d))) RUnit
  end.

Definition op_store_settings (v : N) (d : db) : result := Ok (set_settings d (Some v)) RUnit.
Definition op_get_settings (d : db) : result := Ok d (ROptNum (d_settings d)).

(* ---- reads ---- *)
Definition op_mailbox_exists_id (b : N) (d : db) : result := Ok d (RBool (mbox_exists b d)).
Definition op_mailbox_exists_remote (r : N) (d : db) : result :=
  Ok d (RBool (match find_mbox_remote r d with Some _ => true | None => false end)).
Definition op_mailbox_exists_name (n : N) (d : db) : result :=
  Ok d (RBool (match find_mbox_name n d with Some _ => true | None => false end)).
Definition op_get_mailbox_by_id (b : N) (d : db) : result := res_found d RMbox (find_mbox b d).
Definition op_get_mailbox_by_remote (r : N) (d : db) : result := res_found d RMbox (find_mbox_remote r d).
Definition op_get_mailbox_by_name (n : N) (d : db) : result := res_found d RMbox (find_mbox_name n d).
Definition op_get_mailbox_id_from_remote (r : N) (d : db) : result :=
  res_found d RNum (option_map mb_id (find_mbox_remote r d)).
Definition op_get_mailbox_count (d : db) : result := Ok d (RNum (N.of_nat (length (d_mboxes d)))).
Definition op_get_all_mailbox_remote_ids (d : db) : result := Ok d (RNums (map mb_remote (d_mboxes d))).
Definition op_get_mailbox_flags (which : nat) (b : N) (d : db) : result :=
  Ok d (RFlags (flags_of b (match which with 0%nat => d_bflags d | 1%nat => d_bpflags d | _ => d_battrs d end))).
Definition tab_or_fail (b : N) (d : db) (k : mtab -> rval) : result :=
  match find_tab b (d_tabs d) with Some t => Ok d (k t) | None => Fail EOther end.
Definition op_get_message_count (b : N) (d : db) : result := tab_or_fail b d (fun t => RNum (N.of_nat (length (t_rows t)))).
Definition op_get_recent_count (b : N) (d : db) : result :=
  tab_or_fail b d (fun t => RNum (N.of_nat (length (filter r_recent (t_rows t))))).
(* GetMailboxUID reads sqlite_sequence by table name: an unknown mailbox simply has no row, the answer is 1 *)
Definition op_get_mailbox_uid (b : N) (d : db) : result :=
  Ok d (RNum (match find_tab b (d_tabs d) with Some t => t_seq t + 1 | None => 1 end)).
Definition op_get_count_and_uid (b : N) (d : db) : result :=
  tab_or_fail b d (fun t => RCountUid (N.of_nat (length (t_rows t))) (t_seq t + 1)).
Definition op_get_id_pairs (b : N) (d : db) : result := tab_or_fail b d (fun t => RPairs (map (fun x => (r_msg x, r_remote x)) (t_rows t))).
(* GetMailboxMessageForNewSnapshot: ... ORDER BY uid *)
Definition op_snapshot (b : N) (d : db) : result := tab_or_fail b d (fun t => RSnap (map (snap_of d) (t_rows t))).

Definition op_message_exists (m : N) (d : db) : result := Ok d (RBool (msg_exists m d)).
Definition op_message_exists_remote (r : N) (d : db) : result := Ok d (RBool (msg_remote_exists r d)).
Definition op_total_message_count (d : db) : result := Ok d (RNum (N.of_nat (length (d_msgs d)))).
Definition op_get_message_remote (m : N) (d : db) : result := res_found d RNum (option_map mg_remote (find_msg m d)).
Definition op_get_message_id_from_remote (r : N) (d : db) : result :=
  res_found d RNum (option_map mg_id (find (fun x => N.eqb (mg_remote x) r) (d_msgs d))).
Definition op_get_message_deleted (m : N) (d : db) : result := res_found d RBool (option_map mg_deleted (find_msg m d)).
Definition op_get_message_mailboxes (m : N) (d : db) : result :=
  Ok d (RNums (map snd (filter (fun p => N.eqb (fst p) m) (d_m2m d)))).
Definition op_get_marked_deleted (d : db) : result := Ok d (RNums (map mg_id (filter mg_deleted (d_msgs d)))).
Definition op_get_all_message_ids (d : db) : result := Ok d (RNums (map mg_id (d_msgs d))).

(* ================================================================== operation language ================== *)
Inductive op :=
| OAddMessages (b : N) (ps : list (N * N))
| ORemoveMessages (b : N) (ids : list N)
| OSetDeleted (b : N) (ids : list N) (v : bool)
| OCreateMessages (rs : list creq)
| ODeleteMessages (ids : list N)
| OAddFlag (ids : list N) (f : flag)
| ORemoveFlag (ids : list N) (f : flag)
| OSetFlags (ids : list N) (fs : list flag)
| OFilterContains (b : N) (ids : list N)
| OGetMessagesFlags (ids : list N)
| OTranslate (rids : list N)
| OCreateMailbox (remote name uidv : N) (fl pfl at_ : list flag)
| OGetOrCreateMailbox (remote name uidv : N) (fl pfl at_ : list flag)
| ODeleteMailbox (remote : N)
| ORenameMailbox (remote name : N)
| OSetSubscribed (b : N) (v : bool)
| OSetUIDValidity (b uidv : N)
| OUpdateRemoteMailboxID (b remote : N)
| OCreateMessageAndAdd (b : N) (r : creq)
| OMarkDeleted (m : N)
| OMarkDeletedRemote (r : N)
| OUpdateRemoteMessageID (m r : N)
| OClearRecentOne (b m : N)
| OClearRecentAll (b : N)
| OAddDeletedSubscription (name remote : N)
| ORemoveDeletedSubscription (name : N)
| OGetDeletedSubscriptions
| OStoreSettings (v : N)
| OGetSettings
| OMailboxExistsID (b : N)
| OMailboxExistsRemote (r : N)
| OMailboxExistsName (n : N)
| OGetMailboxByID (b : N)
| OGetMailboxByRemote (r : N)
| OGetMailboxByName (n : N)
| OGetMailboxIDFromRemote (r : N)
| OGetMailboxCount
| OGetAllMailboxRemoteIDs
| OGetMailboxFlags (which : nat) (b : N)
| OGetMessageCount (b : N)
| OGetRecentCount (b : N)
| OGetMailboxUID (b : N)
| OGetCountAndUID (b : N)
| OGetIDPairs (b : N)
| OSnapshot (b : N)
| OMessageExists (m : N)
| OMessageExistsRemote (r : N)
| OTotalMessageCount
| OGetMessageRemote (m : N)
| OGetMessageIDFromRemote (r : N)
| OGetMessageDeleted (m : N)
| OGetMessageMailboxes (m : N)
| OGetMarkedDeleted
| OGetAllMessageIDs.

Definition exec_common (o : op) (d : db) : result :=
  match o with
  | OCreateMailbox r n u a b c => op_create_mailbox r n u a b c d
  | OGetOrCreateMailbox r n u a b c => op_get_or_create_mailbox r n u a b c d
  | ODeleteMailbox r => op_delete_mailbox r d
  | ORenameMailbox r n => op_rename_mailbox r n d
  | OSetSubscribed b v => op_set_subscribed b v d
  | OSetUIDValidity b u => op_set_uidvalidity b u d
  | OUpdateRemoteMailboxID b r => op_update_remote_mailbox_id b r d
  | OCreateMessageAndAdd b r => op_create_message_and_add b r d
  | OMarkDeleted m => op_mark_deleted m d
  | OMarkDeletedRemote r => op_mark_deleted_remote r d
  | OUpdateRemoteMessageID m r => op_update_remote_message_id m r d
  | OClearRecentOne b m => op_clear_recent_one b m d
  | OClearRecentAll b => op_clear_recent_all b d
  | OAddDeletedSubscription n r => op_add_deleted_subscription n r d
  | ORemoveDeletedSubscription n => op_remove_deleted_subscription n d
  | OGetDeletedSubscriptions => op_get_deleted_subscriptions d
  | OStoreSettings v => op_store_settings v d
  | OGetSettings => op_get_settings d
  | OMailboxExistsID b => op_mailbox_exists_id b d
  | OMailboxExistsRemote r => op_mailbox_exists_remote r d
  | OMailboxExistsName n => op_mailbox_exists_name n d
  | OGetMailboxByID b => op_get_mailbox_by_id b d
  | OGetMailboxByRemote r => op_get_mailbox_by_remote r d
  | OGetMailboxByName n => op_get_mailbox_by_name n d
  | OGetMailboxIDFromRemote r => op_get_mailbox_id_from_remote r d
  | OGetMailboxCount => op_get_mailbox_count d
  | OGetAllMailboxRemoteIDs => op_get_all_mailbox_remote_ids d
  | OGetMailboxFlags w b => op_get_mailbox_flags w b d
  | OGetMessageCount b => op_get_message_count b d
  | OGetRecentCount b => op_get_recent_count b d
  | OGetMailboxUID b => op_get_mailbox_uid b d
  | OGetCountAndUID b => op_get_count_and_uid b d
  | OGetIDPairs b => op_get_id_pairs b d
  | OSnapshot b => op_snapshot b d
  | OMessageExists m => op_message_exists m d
  | OMessageExistsRemote r => op_message_exists_remote r d
  | OTotalMessageCount => op_total_message_count d
  | OGetMessageRemote m => op_get_message_remote m d
  | OGetMessageIDFromRemote r => op_get_message_id_from_remote r d
  | OGetMessageDeleted m => op_get_message_deleted m d
  | OGetMessageMailboxes m => op_get_message_mailboxes m d
  | OGetMarkedDeleted => op_get_marked_deleted d
  | OGetAllMessageIDs => op_get_all_message_ids d
  | _ => Fail EOther
  end.

(* spec level: every bulk operation acts on its whole argument list; `ci` = flag removal is case-insensitive *)
Definition exec_spec (ci : bool) (o : op) (d : db) : result :=
  match o with
  | OAddMessages b ps => sp_add_messages b ps d
  | ORemoveMessages b ids => sp_remove_messages b ids d
  | OSetDeleted b ids v => sp_set_deleted b ids v d
  | OCreateMessages rs => sp_create_messages rs d
  | ODeleteMessages ids => sp_delete_messages ids d
  | OAddFlag ids f => sp_add_flag ids f d
  | ORemoveFlag ids f => sp_remove_flag ci ids f d
  | OSetFlags ids fs => sp_set_flags ids fs d
  | OFilterContains b ids => sp_filter_contains b ids d
  | OGetMessagesFlags ids => sp_get_messages_flags ids d
  | OTranslate rids => sp_translate rids d
  | _ => exec_common o d
  end.

(* impl level: chunk loops, placeholders and bind arguments as the generated facts F say *)
Definition exec_impl (F : list stmt_fact) (ci : bool) (o : op) (d : db) : result :=
  match o with
  | OAddMessages b ps => im_add_messages F b ps d
  | ORemoveMessages b ids => im_remove_messages F b ids d
  | OSetDeleted b ids v => im_set_deleted F b ids v d
  | OCreateMessages rs => im_create_messages F rs d
  | ODeleteMessages ids => im_delete_messages F ids d
  | OAddFlag ids f => im_add_flag F ids f d
  | ORemoveFlag ids f => im_remove_flag F ci ids f d
  | OSetFlags ids fs => im_set_flags F ids fs d
  | OFilterContains b ids => im_filter_contains F b ids d
  | OGetMessagesFlags ids => im_get_messages_flags F ids d
  | OTranslate rids => im_translate F rids d
  | _ => exec_common o d
  end.

(* ------------------------------------------------------------------ transactions (client.go wrapTx) *)
(* A transaction runs its operations in order on a private copy; the first failing operation (or an error returned
   by the callback after `abort_after` operations) rolls everything back.  Returns the new state and the results. *)
Fixpoint run_ops (ex : op -> db -> result) (ops : list op) (d : db) (acc : list rval) : option (db * list rval) :=
  match ops with
  | [] => Some (d, rev acc)
  | o :: t => match ex o d with
              | Ok d' r => run_ops ex t d' (r :: acc)
              | Fail _ => None
              end
  end.

Record tx := mkTx { tx_ops : list op; tx_abort : bool }.   (* tx_abort: the callback returns an error at the end *)

Definition run_tx (ex : op -> db -> result) (t : tx) (d : db) : db * option (list rval) :=
  match run_ops ex (tx_ops t) d [] with
  | Some (d', rs) => if tx_abort t then (d, None) else (d', Some rs)
  | None => (d, None)
  end.

Fixpoint run_txs (ex : op -> db -> result) (ts : list tx) (d : db) : db :=
  match ts with [] => d | t :: r => run_txs ex r (fst (run_tx ex t d)) end.
