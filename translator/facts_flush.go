package main

import (
	"fmt"
	"go/ast"
	"os"
	"path/filepath"
	"sort"
	"strings"
)

// FactsFlush: for every session handler the permitExpunge literal of each flush(...) call (source order), the trailing
// flush of handleSelectedCommand, beginIdle's flushResponses literal, the command -> handler dispatch of
// handleWithMailbox / handleUID and which handlers consult ExpungeIssued().
func init() { register("Flush", extractFlush) }

func boolLit(e ast.Expr) string {
	if id, ok := e.(*ast.Ident); ok {
		if id.Name == "true" {
			return "Some true"
		}
		if id.Name == "false" {
			return "Some false"
		}
	}
	return "None"
}

func extractFlush(t *T) (string, error) {
	dir := filepath.Join(t.Repo, "internal", "session")
	ents, err := os.ReadDir(dir)
	if err != nil {
		return "", err
	}
	type hinfo struct {
		flushes []string
		depths  []int // per flush call: number of if/switch/for bodies around it inside the innermost function (literal)
		issued  bool
	}
	handlers := map[string]*hinfo{}
	dispatch := map[string]string{}
	uidDispatch := map[string]string{}
	trailing := "None"
	for _, e := range ents {
		n := e.Name()
		if !strings.HasSuffix(n, ".go") || strings.HasSuffix(n, "_test.go") {
			continue
		}
		rel := filepath.Join("internal", "session", n)
		f, err := t.ParseFile(rel)
		if err != nil {
			return "", err
		}
		for _, d := range f.Decls {
			fd, ok := d.(*ast.FuncDecl)
			if !ok || fd.Body == nil {
				continue
			}
			name := fd.Name.Name
			hi := &hinfo{}
			var stack []ast.Node
			condDepth := func() int {
				// count the conditional bodies (if body / else, case clause, loop body) between the call and the innermost
				// enclosing function literal (or the handler itself); the `if err := flush(...); err != nil` wrapper is an
				// Init statement, not a body, and does not count
				d := 0
				for i := len(stack) - 1; i >= 1; i-- {
					switch stack[i].(type) {
					case *ast.FuncLit:
						return d
					case *ast.BlockStmt:
						switch par := stack[i-1].(type) {
						case *ast.IfStmt:
							if par.Body == stack[i] || par.Else == stack[i] {
								d++
							}
						case *ast.ForStmt, *ast.RangeStmt:
							d++
						}
					case *ast.CaseClause, *ast.CommClause:
						d++
					case *ast.IfStmt:
						if i+1 < len(stack) {
							if par := stack[i].(*ast.IfStmt); par.Else == stack[i+1] {
								if _, isIf := stack[i+1].(*ast.IfStmt); isIf {
									d++
								}
							}
						}
					}
				}
				return d
			}
			ast.Inspect(fd.Body, func(nd ast.Node) bool {
				if nd == nil {
					stack = stack[:len(stack)-1]
					return true
				}
				stack = append(stack, nd)
				call, ok := nd.(*ast.CallExpr)
				if !ok {
					return true
				}
				switch fn := call.Fun.(type) {
				case *ast.Ident:
					if fn.Name == "flush" && len(call.Args) == 4 {
						hi.flushes = append(hi.flushes, boolLit(call.Args[2]))
						hi.depths = append(hi.depths, condDepth())
					}
				case *ast.SelectorExpr:
					if fn.Sel.Name == "ExpungeIssued" {
						hi.issued = true
					}
					if fn.Sel.Name == "Flush" && len(call.Args) == 2 && name != "flush" {
						hi.flushes = append(hi.flushes, boolLit(call.Args[1]))
						hi.depths = append(hi.depths, condDepth())
					}
				}
				return true
			})
			if strings.HasPrefix(name, "handle") {
				handlers[name] = hi
			}
			if name == "handleSelectedCommand" {
				if len(hi.flushes) == 1 {
					trailing = hi.flushes[0]
				}
			}
			if name == "handleWithMailbox" || name == "handleUID" {
				ast.Inspect(fd.Body, func(nd ast.Node) bool {
					cc, ok := nd.(*ast.CaseClause)
					if !ok {
						return true
					}
					for _, ce := range cc.List {
						star, ok := ce.(*ast.StarExpr)
						if !ok {
							continue
						}
						sel, ok := star.X.(*ast.SelectorExpr)
						if !ok {
							continue
						}
						callee := ""
						for _, st := range cc.Body {
							ast.Inspect(st, func(x ast.Node) bool {
								if c, ok := x.(*ast.CallExpr); ok {
									if s, ok := c.Fun.(*ast.SelectorExpr); ok && strings.HasPrefix(s.Sel.Name, "handle") && callee == "" {
										callee = s.Sel.Name
									}
								}
								return true
							})
						}
						if name == "handleWithMailbox" {
							dispatch[sel.Sel.Name] = callee
						} else {
							uidDispatch[sel.Sel.Name] = callee
						}
					}
					return true
				})
			}
		}
	}
	// beginIdle in internal/state/state.go
	idle := "None"
	sf, err := t.ParseFile(filepath.Join("internal", "state", "state.go"))
	if err != nil {
		return "", err
	}
	if fd := FuncDecl(sf, "State", "beginIdle"); fd != nil {
		ast.Inspect(fd.Body, func(nd ast.Node) bool {
			if call, ok := nd.(*ast.CallExpr); ok {
				if s, ok := call.Fun.(*ast.SelectorExpr); ok && s.Sel.Name == "flushResponses" && len(call.Args) == 2 {
					idle = boolLit(call.Args[1])
				}
			}
			return true
		})
	}
	// every call site of flushResponses / popResponders inside internal/state
	var stateCalls []string
	sents, err := os.ReadDir(filepath.Join(t.Repo, "internal", "state"))
	if err != nil {
		return "", err
	}
	for _, e := range sents {
		n := e.Name()
		if !strings.HasSuffix(n, ".go") || strings.HasSuffix(n, "_test.go") {
			continue
		}
		f, err := t.ParseFile(filepath.Join("internal", "state", n))
		if err != nil {
			return "", err
		}
		for _, d := range f.Decls {
			fd, ok := d.(*ast.FuncDecl)
			if !ok || fd.Body == nil {
				continue
			}
			ast.Inspect(fd.Body, func(nd ast.Node) bool {
				if call, ok := nd.(*ast.CallExpr); ok {
					if s, ok := call.Fun.(*ast.SelectorExpr); ok {
						if s.Sel.Name == "flushResponses" && len(call.Args) == 2 {
							stateCalls = append(stateCalls, fmt.Sprintf("(%s, %s, %s)", coqString(fd.Name.Name), coqString("flushResponses"), boolLit(call.Args[1])))
						}
						if s.Sel.Name == "popResponders" && len(call.Args) == 1 {
							stateCalls = append(stateCalls, fmt.Sprintf("(%s, %s, %s)", coqString(fd.Name.Name), coqString("popResponders"), boolLit(call.Args[0])))
						}
					}
				}
				return true
			})
		}
	}
	sort.Strings(stateCalls)
	if len(dispatch) == 0 || len(handlers) == 0 {
		return "", fmt.Errorf("no handlers / dispatch found")
	}
	var sb strings.Builder
	sb.WriteString("From Coq Require Import List String Bool.\nImport ListNotations.\nOpen Scope string_scope.\n\n")
	sb.WriteString("(* handler -> permitExpunge argument of each flush(...) call in source order (None = not a literal) *)\n")
	sb.WriteString("Definition flush_calls : list (string * list (option bool)) := [\n")
	names := make([]string, 0, len(handlers))
	for n := range handlers {
		names = append(names, n)
	}
	sort.Strings(names)
	for i, n := range names {
		sep := ";"
		if i == len(names)-1 {
			sep = ""
		}
		sb.WriteString(fmt.Sprintf("  (%s, [%s])%s\n", coqString(n), strings.Join(handlers[n].flushes, "; "), sep))
	}
	sb.WriteString("].\n\n")
	sb.WriteString("(* handler -> for each flush call, the number of conditional bodies (if / else / case / loop) around it inside the\n   innermost enclosing function literal: 0 = performed whenever control reaches that function (body) *)\n")
	sb.WriteString("Definition flush_guard_depths : list (string * list nat) := [\n")
	for i, n := range names {
		sep := ";"
		if i == len(names)-1 {
			sep = ""
		}
		ds := make([]string, len(handlers[n].depths))
		for j, d := range handlers[n].depths {
			ds[j] = fmt.Sprint(d)
		}
		sb.WriteString(fmt.Sprintf("  (%s, [%s]%%nat)%s\n", coqString(n), strings.Join(ds, "; "), sep))
	}
	sb.WriteString("].\n\n")
	sb.WriteString("(* the flush that handleSelectedCommand performs after every selected-state handler *)\n")
	sb.WriteString("Definition trailing_flush : option bool := " + trailing + ".\n")
	sb.WriteString("(* State.beginIdle *)\nDefinition idle_begin_flush : option bool := " + idle + ".\n\n")
	emitMap := func(name string, m map[string]string) {
		ks := make([]string, 0, len(m))
		for k := range m {
			ks = append(ks, k)
		}
		sort.Strings(ks)
		sb.WriteString("Definition " + name + " : list (string * string) := [\n")
		for i, k := range ks {
			sep := ";"
			if i == len(ks)-1 {
				sep = ""
			}
			sb.WriteString(fmt.Sprintf("  (%s, %s)%s\n", coqString(k), coqString(m[k]), sep))
		}
		sb.WriteString("].\n")
	}
	sb.WriteString("(* command type -> handler, from the type switches of handleWithMailbox and handleUID *)\n")
	emitMap("selected_dispatch", dispatch)
	emitMap("uid_dispatch", uidDispatch)
	sb.WriteString("\n(* call sites of flushResponses / popResponders in internal/state: (caller, callee, permit literal or None when it forwards its parameter) *)\n")
	sb.WriteString("Definition state_flush_calls : list (string * string * option bool) := [" + strings.Join(stateCalls, "; ") + "].\n")
	var iss []string
	for _, n := range names {
		if handlers[n].issued {
			iss = append(iss, coqString(n))
		}
	}
	sb.WriteString("\n(* handlers that consult Mailbox.ExpungeIssued() *)\nDefinition expunge_issued_checked : list string := [" + strings.Join(iss, "; ") + "].\n")
	return sb.String(), nil
}
