(* C14 — mailbox names.
   Names are byte lists (list N) AFTER modified-UTF-7 decoding (the codec github.com/emersion/go-imap/utf7 is a
   library and is left out).  Impl model of:
     internal/state/paths.go      listSuperiors, listInferiors          (strings.Split / strings.Join / slices.Sort / Reverse)
     internal/state/state.go      Create/Rename name checks: HasPrefix(delimiter), Contains(delimiter+delimiter),
                                  TrimRight / TrimSuffix of the delimiter, TrimPrefix(inferior, oldName),
                                  the length-ordering of the inferiors in Rename
     imap/command/mailbox.go      ParseMailbox            (a whole name that is INBOX in any case becomes "INBOX")
     internal/session/session.go  decodeMailboxName       ("inbox<delim>rest" becomes "INBOX<delim>rest")
     internal/state/match.go      canon                   (first level of ref+pattern)
     internal/backend/connector_updates.go joinMailboxName (first level of a connector name)
   The last four are one function here: canon_first.
   Case folding is ASCII (strings.EqualFold / strings.ToLower agree with it on every name that contains neither
   U+017F nor U+212A; the harness does not generate those two).
   No proofs in this file. *)
From Coq Require Import List NArith Bool.
Import ListNotations.
Open Scope N_scope.

Definition name := list N.

Fixpoint name_eqb (a b : name) : bool :=
  match a, b with
  | [], [] => true
  | x :: a', y :: b' => (x =? y) && name_eqb a' b'
  | _, _ => false
  end.

Definition mb_contains (l : list name) (x : name) : bool := existsb (name_eqb x) l.

(* ---------- ASCII case ---------- *)
Definition mb_upper (c : N) : N := if (97 <=? c) && (c <=? 122) then c - 32 else c.
Definition mb_lower (c : N) : N := if (65 <=? c) && (c <=? 90) then c + 32 else c.
Definition mb_eqfold (a b : name) : bool := name_eqb (map mb_upper a) (map mb_upper b).

Definition INBOX : name := [73;78;66;79;88].
(* ids.GluonRecoveryMailboxName = "Recovered Messages" *)
Definition RECOVERY : name := [82;101;99;111;118;101;114;101;100;32;77;101;115;115;97;103;101;115].
Definition RECOVERY_LOWER : name := map mb_lower RECOVERY.

Fixpoint mb_prefixb (p s : name) : bool :=
  match p, s with
  | [], _ => true
  | x :: p', y :: s' => (x =? y) && mb_prefixb p' s'
  | _ :: _, [] => false
  end.

(* strings.HasPrefix(strings.ToLower(name), "recovered messages") *)
Definition mb_recovery_prefixed (n : name) : bool := mb_prefixb RECOVERY_LOWER (map mb_lower n).

(* ---------- strings.Split / strings.Join for a one-byte delimiter ---------- *)
Fixpoint mb_split (d : N) (s : name) : list name :=
  match s with
  | [] => [[]]
  | c :: t => if c =? d then [] :: mb_split d t
              else match mb_split d t with
                   | h :: r => (c :: h) :: r
                   | [] => [[c]]
                   end
  end.

Fixpoint mb_join (d : N) (l : list name) : name :=
  match l with
  | [] => []
  | [x] => x
  | x :: t => x ++ d :: mb_join d t
  end.

(* listSuperiors: for i := 1 .. len(split)-1: Join(split[0:i]) *)
Definition list_superiors (d : N) (n : name) : list name :=
  let sp := mb_split d n in
  map (fun i => mb_join d (firstn i sp)) (seq 1 (length sp - 1)).

(* ---------- sorting (slices.Sort on strings = bytewise lexicographic) ---------- *)
Fixpoint lex_leb (a b : name) : bool :=
  match a, b with
  | [], _ => true
  | _ :: _, [] => false
  | x :: a', y :: b' => if x <? y then true else if y <? x then false else lex_leb a' b'
  end.
Fixpoint lex_insert (x : name) (l : list name) : list name :=
  match l with [] => [x] | y :: t => if lex_leb x y then x :: l else y :: lex_insert x t end.
Definition lex_sort (l : list name) : list name := fold_right lex_insert [] l.

(* slices.SortStableFunc(inferiors, len(a) < len(b)) *)
Fixpoint len_insert (x : name) (l : list name) : list name :=
  match l with [] => [x] | y :: t => if Nat.leb (length x) (length y) then x :: l else y :: len_insert x t end.
Definition len_sort (l : list name) : list name := fold_right len_insert [] l.

(* listInferiors(parent, delimiter, names): Filter(Contains(listSuperiors(name), parent)); Sort; Reverse *)
Definition list_inferiors (d : N) (parent : name) (names : list name) : list name :=
  rev (lex_sort (filter (fun n => mb_contains (list_superiors d n) parent) names)).

(* the order in which Rename moves the inferiors *)
Definition rename_order (d : N) (parent : name) (names : list name) : list name :=
  len_sort (list_inferiors d parent names).

(* ---------- name checks and trimming ---------- *)
Definition mb_begins (d : N) (n : name) : bool := match n with c :: _ => c =? d | [] => false end.
Fixpoint mb_adjacent (d : N) (n : name) : bool :=
  match n with
  | c :: ((c' :: _) as t) => ((c =? d) && (c' =? d)) || mb_adjacent d t
  | _ => false
  end.
Definition mb_ends (d : N) (n : name) : bool := match rev n with c :: _ => c =? d | [] => false end.
Fixpoint drop_while_eq (d : N) (n : name) : name :=
  match n with c :: t => if c =? d then drop_while_eq d t else n | [] => [] end.
(* strings.TrimRight(name, delimiter) *)
Definition trim_right (d : N) (n : name) : name := rev (drop_while_eq d (rev n)).
(* strings.TrimSuffix(name, delimiter) *)
Definition trim_suffix (d : N) (n : name) : name :=
  match rev n with c :: t => if c =? d then rev t else n | [] => n end.
(* strings.TrimPrefix(s, p) *)
Definition trim_prefix (p s : name) : name := if mb_prefixb p s then skipn (length p) s else s.

(* ---------- INBOX at the first level ---------- *)
Fixpoint first_comp (d : N) (s : name) : name * name :=
  match s with
  | [] => ([], [])
  | c :: t => if c =? d then ([], s) else let (f, r) := first_comp d t in (c :: f, r)
  end.
Definition canon_first (d : N) (n : name) : name :=
  let (f, r) := first_comp d n in if mb_eqfold f INBOX then INBOX ++ r else n.

(* command.ParseMailbox: a whole name that is INBOX in any case (also the reference argument of LIST/LSUB) *)
Definition parse_mailbox (n : name) : name := if mb_eqfold n INBOX then INBOX else n.

(* joinMailboxName(levels): the first level is compared as a whole *)
Definition conn_name (d : N) (levels : list name) : name :=
  mb_join d (match levels with c :: t => if mb_eqfold c INBOX then INBOX :: t else levels | [] => [] end).

(* ---------- reference notions (used by the specifications) ---------- *)
(* p is a superior of n: n = p ++ d :: rest *)
Definition is_superior (d : N) (p n : name) : Prop := exists rest, n = p ++ d :: rest.
Definition is_superior_b (d : N) (p n : name) : bool := mb_prefixb (p ++ [d]) n.
(* the superiors of n, shortest first: the prefixes that end right before an occurrence of the delimiter *)
Fixpoint prefixes_at (d : N) (s : name) : list name :=
  match s with
  | [] => []
  | c :: t => (if c =? d then [[]] else []) ++ map (cons c) (prefixes_at d t)
  end.
