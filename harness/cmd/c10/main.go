// Harness for C10: every valid IMAP command parses to exactly the command that was written, independently of keyword
// case, string encoding and chunking of the byte stream.
//
// Drives the PUBLIC parser packages of gluon (imap/command.Parser over rfcparser.Scanner):
//   - grammar-based generator of valid commands (gen.go) under random encodings, 1..3 commands per stream;
//   - each stream is parsed twice: through a byte-exact counting reader (observes how much the scanner consumed) and
//     through bufio over a reader that delivers the bytes in random chunks and refuses to deliver literal data before
//     the continuation callback ran;
//   - oracle: the parsed command (canonical S-expression of the Go AST), its tag and the consumed length equal what was
//     written, for both readers;
//   - cases.v: every Parse call (valid, mutated, truncated input) with the implementation's result for the Coq model.
package main

import (
	"errors"
	"fmt"
	"io"
	"sort"
	"strings"

	"github.com/ProtonMail/gluon/imap/command"
	"github.com/ProtonMail/gluon/rfcparser"

	"verifharness/common"
)

func main() { common.Main("C10", runC10) }

// ---- readers ----

type spinPanic struct{}

// countReader implements rfcparser.Reader over a byte slice, one byte at a time, so that pos is exactly what the
// scanner consumed.
type countReader struct {
	data []byte
	pos  int
	eofs int
}

func (r *countReader) ReadByte() (byte, error) {
	if r.pos >= len(r.data) {
		r.eofs++
		if r.eofs > 100000 {
			panic(spinPanic{}) // the parser keeps asking after the end of the input: it would never terminate
		}
		return 0, io.EOF
	}
	b := r.data[r.pos]
	r.pos++
	return b, nil
}
func (r *countReader) Read(p []byte) (int, error) {
	if len(p) == 0 {
		return 0, nil
	}
	if r.pos >= len(r.data) {
		r.eofs++
		return 0, io.EOF
	}
	n := copy(p, r.data[r.pos:])
	r.pos += n
	return n, nil
}
func (r *countReader) ReadBytes(d byte) ([]byte, error) {
	for i := r.pos; i < len(r.data); i++ {
		if r.data[i] == d {
			out := r.data[r.pos : i+1]
			r.pos = i + 1
			return out, nil
		}
	}
	out := r.data[r.pos:]
	r.pos = len(r.data)
	return out, io.EOF
}

// chunkReader is a plain io.Reader: delivers the data in the given chunk sizes and never crosses a gate (offset after a
// literal header) before the continuation callback has been invoked for it.
type chunkReader struct {
	data    []byte
	pos     int
	chunks  []int
	ci      int
	gates   []int
	conts   int // number of continuation callbacks so far
	blocked []int
	eofs    int
}

func (r *chunkReader) Read(p []byte) (int, error) {
	if len(p) == 0 {
		return 0, nil
	}
	if r.pos >= len(r.data) {
		r.eofs++
		if r.eofs > 100000 {
			panic(spinPanic{})
		}
		return 0, io.EOF
	}
	n := 1
	if len(r.chunks) > 0 {
		n = r.chunks[r.ci%len(r.chunks)]
		r.ci++
	}
	if n > len(p) {
		n = len(p)
	}
	if r.pos+n > len(r.data) {
		n = len(r.data) - r.pos
	}
	for gi, g := range r.gates {
		if r.pos < g && r.pos+n > g {
			n = g - r.pos
		}
		if r.pos == g && r.conts <= gi {
			// a real client would not have sent these bytes yet: the server reads before asking for them
			r.blocked = append(r.blocked, g)
		}
	}
	copy(p, r.data[r.pos:r.pos+n])
	r.pos += n
	return n, nil
}

// ---- observation of one Parse call ----
type obsT struct {
	Start, End int
	OK         bool
	Tag        string
	X          *sx
	ErrParse   bool
	Err        string
}

func (o obsT) key() string {
	if o.OK {
		return "OK " + fmt.Sprintf("%q", o.Tag) + " " + o.X.String()
	}
	if o.ErrParse {
		return "ERRPARSE " + fmt.Sprintf("%q", o.Tag)
	}
	return "ERROTHER"
}

// parseAll runs Parse repeatedly over the stream. pos() tells the consumed offset (nil for the chunked reader).
func parseAll(p *command.Parser, pos func() int, total int, maxCmds int) (res []obsT, crash string) {
	defer func() {
		if r := recover(); r != nil {
			if _, ok := r.(spinPanic); ok {
				crash = "SPIN"
			} else {
				crash = fmt.Sprintf("PANIC %v", r)
			}
		}
	}()
	for i := 0; i < maxCmds; i++ {
		o := obsT{}
		if pos != nil {
			o.Start = pos()
			if o.Start >= total {
				break
			}
		}
		cmd, err := p.Parse()
		if pos != nil {
			o.End = pos()
		}
		if err == nil {
			o.OK = true
			o.Tag = cmd.Tag
			o.X = goSx(cmd.Payload)
			res = append(res, o)
			continue
		}
		var pe *rfcparser.Error
		o.Err = err.Error()
		if errors.As(err, &pe) {
			o.ErrParse = true
			o.Tag = cmd.Tag
		}
		res = append(res, o)
		if !o.ErrParse {
			break
		}
		if err := p.ConsumeInvalidInput(); err != nil {
			break
		}
	}
	return res, ""
}

func parseCounting(data []byte, maxCmds int) ([]obsT, string) {
	r := &countReader{data: data}
	p := command.NewParserWithLiteralContinuationCb(rfcparser.NewScannerWithReader(r), func() error { return nil })
	return parseAll(p, func() int { return r.pos }, len(data), maxCmds)
}

func parseChunked(data []byte, gates []int, chunks []int, maxCmds int) ([]obsT, string, []int) {
	r := &chunkReader{data: data, chunks: chunks, gates: gates}
	p := command.NewParserWithLiteralContinuationCb(rfcparser.NewScanner(r), func() error { r.conts++; return nil })
	res, crash := parseAll(p, nil, len(data), maxCmds)
	return res, crash, r.blocked
}

type written struct {
	Kind  string `json:"kind"`
	Tag   string `json:"tag"`
	Want  string `json:"want"`
	Bytes string `json:"bytes"`
	start int
	end   int
	x     *sx
}

type caseRec struct {
	ID    int    `json:"id"`
	Why   string `json:"why"`
	Input string `json:"input"`
	Obs   string `json:"obs"`
}

func runC10(ctx *common.Ctx) error {
	rng := ctx.Rng
	res := ctx.Res
	res.Rule = "commands generated from the RFC 3501/2971/4315/6851/2177 grammar (all 34 command forms, nesting depth <= 6) x random encodings (atom/quoted/literal per string, letter case per keyword, optional forms) x 1..3 commands per stream x random chunkings; non-trivial = distinct written commands that use at least one of: literal, quoted string with escapes, nested search key, body section, multi-range sequence set, date-time, lower-case keyword"
	var lines []string
	nextID := 0
	addCase := func(why string, data []byte, o obsT) {
		if o.End-o.Start > 12000 {
			return
		}
		nextID++
		hi := o.End + 12
		if hi > len(data) {
			hi = len(data)
		}
		in := data[o.Start:hi]
		var ob string
		switch {
		case o.OK:
			ob = fmt.Sprintf("OOk %s (%s)", common.CoqHex([]byte(o.Tag)), o.X.Coq())
		case o.ErrParse:
			ob = fmt.Sprintf("OErrParse %s", common.CoqHex([]byte(o.Tag)))
		default:
			ob = "OErrOther"
		}
		lines = append(lines, fmt.Sprintf("mkCase %d %s (%s) %d", nextID, common.CoqHex(in), ob, o.End-o.Start))
		res.Sample(caseRec{ID: nextID, Why: why, Input: fmt.Sprintf("%q", in), Obs: o.key()})
	}

	// ---- probes for the two known deviations (their own corpus cases below report them) ----
	probe := func(s string) bool {
		o, crash := parseCounting([]byte(s), 1)
		return crash == "" && len(o) == 1 && o[0].OK
	}
	acceptsLBracket := probe("a[1 LOGIN u[x p\r\n")
	acceptsEmptyLit := probe("a LOGIN {0}\r\n p\r\n")

	judge := func(data []byte, ws []written, gates []int, chunks []int) {
		canon := func(w written, reason string) string {
			return fmt.Sprintf("%s kind=%s cmd=%q", reason, w.Kind, data[w.start:w.end])
		}
		ctx.Current(fmt.Sprintf("stream %q", data), nil)
		obs, crash := parseCounting(data, len(ws)+2)
		if crash != "" {
			res.Fail(fmt.Sprintf("%s stream=%q", crash, data), "parser did not return normally", nil)
			return
		}
		nf := len(res.Failures)
		for i, w := range ws {
			res.Evaluations++
			res.Count("kind:" + w.Kind)
			if i >= len(obs) {
				res.Fail(canon(w, "MISSING"), "no result for this command", w)
				break
			}
			o := obs[i]
			switch {
			case !o.OK:
				res.Fail(canon(w, "REJECTED"), "valid command rejected: "+o.Err, w)
			case o.Tag != w.Tag:
				res.Fail(canon(w, "TAG"), fmt.Sprintf("tag %q parsed as %q", w.Tag, o.Tag), w)
			case o.X.String() != w.x.String():
				res.Fail(canon(w, "MISPARSED"), fmt.Sprintf("written %s parsed %s", w.x, o.X), w)
			case o.Start != w.start || o.End != w.end:
				res.Fail(canon(w, "EXTENT"), fmt.Sprintf("command occupies [%d,%d) but the parser consumed [%d,%d)", w.start, w.end, o.Start, o.End), w)
			}
			addCase("valid "+w.Kind, data, o)
			if len(res.Failures) > nf {
				break // what follows in this stream is out of step with the parser: not judged
			}
		}
		if len(res.Failures) > nf {
			return
		}
		// chunking independence
		cobs, ccrash, blocked := parseChunked(data, gates, chunks, len(obs))
		if ccrash != "" {
			res.Fail(fmt.Sprintf("%s chunks=%v stream=%q", ccrash, chunks, data), "parser did not return normally on the chunked stream", nil)
			return
		}
		if len(blocked) > 0 {
			res.Fail(fmt.Sprintf("READ-BEFORE-CONTINUATION stream=%q", data), fmt.Sprintf("literal data read at offsets %v before the continuation callback", blocked), nil)
		}
		same := len(cobs) == len(obs)
		for i := 0; same && i < len(obs); i++ {
			same = cobs[i].key() == obs[i].key()
		}
		if !same {
			var a, b []string
			for _, o := range obs {
				a = append(a, o.key())
			}
			for _, o := range cobs {
				b = append(b, o.key())
			}
			res.Fail(fmt.Sprintf("CHUNKING chunks=%v stream=%q", chunks, data), fmt.Sprintf("unchunked: %v\nchunked: %v", a, b), nil)
		}
	}

	// ---- 1. corpus: one fixed command per form + regression inputs ----
	corpus := []struct{ in, tag, want string }{
		{"a LOGIN user pass\r\n", "a", `(login "user" "pass")`},
		{"a login {4}\r\nuser {4}\r\npass\r\n", "a", `(login "user" "pass")`},
		{"A1 LoGiN \"us\\\"er\" \"pa\\\\ss\"\r\n", "A1", `(login "us\"er" "pa\\ss")`},
		{"t SELECT inbox\r\n", "t", `(select "INBOX")`},
		{"t select \"InBoX\"\r\n", "t", `(select "INBOX")`},
		{"t LIST \"\" *\r\n", "t", `(list "" "*")`},
		{"t LSUB \"\" \"%\"\r\n", "t", `(lsub "" "%")`},
		{"t LIST \"\" {7}\r\nINBOX/%\r\n", "t", `(list "" "INBOX/%")`},
		{"t FETCH 1:*,3 (UID BODY.PEEK[1.2.HEADER.FIELDS.NOT (To From)]<0.10> RFC822.SIZE)\r\n", "t", `(fetch ((1 0) (3 3)) (uid (bodysection 1 (part (1 2) (headerfields 1 ("To" "From"))) (0 10)) rfc822size))`},
		{"t fetch 4 body[]\r\n", "t", `(fetch ((4 4)) ((bodysection 0 () ())))`},
		{"t FETCH 1 BODY[TEXT]<5.4294967295>\r\n", "t", `(fetch ((1 1)) ((bodysection 0 (text) (5 4294967295))))`},
		{"t UID SEARCH CHARSET utf-8 OR (NOT SEEN 1:3) SINCE 1-Feb-2020 CC x\r\n", "t", `(uid (search "utf-8" ((or (list (not (seen)) (seqset ((1 3)))) (since 2020 2 1)) (cc "x"))))`},
		{"t SEARCH CC {3}\r\na b\r\n", "t", `(search "" ((cc "a b")))`},
		{"t SEARCH charset US-ASCII cc x\r\n", "t", `(search "US-ASCII" ((cc "x")))`},
		{"t search cC x Cc y\r\n", "t", `(search "" ((cc "x") (cc "y")))`},
		{"t SEARCH cHARSET utf-8 cc x\r\n", "t", `(search "utf-8" ((cc "x")))`},
		{"t store 1 +flags.silent \\Seen\r\n", "t", `(store ((1 1)) add 1 ("\\Seen"))`},
		{"t FETCH 1 (rfc822.header body.peek[header.fields.not (a)] bodystructure)\r\n", "t", `(fetch ((1 1)) (rfc822header (bodysection 1 (headerfields 1 ("a")) ()) bodystructure))`},
		{"t id NiL\r\n", "t", `(idget)`},
		{"t ID (\"a\" nil)\r\n", "t", `(idset (("a" "")))`},
		{"t STORE 1 +FLAGS.SILENT (\\Seen foo)\r\n", "t", `(store ((1 1)) add 1 ("\\Seen" "foo"))`},
		{"t store 2:4 flags \\Deleted\r\n", "t", `(store ((2 4)) set 0 ("\\Deleted"))`},
		{"t STORE * -FLAGS ()\r\n", "t", `(store ((0 0)) rem 0 ())`},
		{"t STORE 1 +FLAGS (Recent)\r\n", "t", `(store ((1 1)) add 0 ("Recent"))`},
		{"t store 1 flags recent SEEN deleted\r\n", "t", `(store ((1 1)) set 0 ("recent" "SEEN" "deleted"))`},
		{"t UID STORE 1 -FLAGS.SILENT (RECENT \\Seen rEcEnT)\r\n", "t", `(uid (store ((1 1)) rem 1 ("RECENT" "\\Seen" "rEcEnT")))`},
		{"t APPEND box (recent Draft) {1}\r\nx\r\n", "t", `(append "box" ("recent" "Draft") () "x")`},
		{"t SEARCH KEYWORD recent UNKEYWORD Seen\r\n", "t", `(search "" ((keyword "recent") (unkeyword "Seen")))`},
		{"t APPEND box (\\Seen) \" 1-Jan-2020 10:11:12 -0130\" {3}\r\nabc\r\n", "t", `(append "box" ("\\Seen") (2020 1 1 10 11 12 1 5400) "abc")`},
		{"t APPEND box {2}\r\n\r\n\r\n", "t", `(append "box" () () "\r\n")`},
		{"t ID (\"name\" \"x\" \"os\" NIL)\r\n", "t", `(idset (("name" "x") ("os" "")))`},
		{"t id nil\r\n", "t", `(idget)`},
		{"t ID ()\r\n", "t", `(idset ())`},
		{"t STATUS inbox (MESSAGES unseen)\r\n", "t", `(status "INBOX" (messages unseen))`},
		{"t UID EXPUNGE 1:5,9\r\n", "t", `(uidexpunge ((1 5) (9 9)))`},
		{"t uid move 4294967295 x\r\n", "t", `(uid (move ((4294967295 4294967295)) "x"))`},
		{"done\r\n", "", `(done)`},
		{"t RENAME a b\r\n", "t", `(rename "a" "b")`},
		{"t SEARCH LARGER 4294967295 SMALLER 0\r\n", "t", `(search "" ((larger 4294967295) (smaller 0)))`},
		{"t SEARCH ON \"31-Dec-1999\" HEADER X-Y \"\"\r\n", "t", `(search "" ((on 1999 12 31) (header "X-Y" "")))`},
	}
	for _, c := range corpus {
		data := []byte(c.in)
		ctx.Current(fmt.Sprintf("corpus %q", c.in), nil)
		obs, crash := parseCounting(data, 1)
		res.Evaluations++
		res.Count("kind:corpus")
		if crash != "" || len(obs) != 1 || !obs[0].OK || obs[0].Tag != c.tag || obs[0].X.String() != c.want || obs[0].End != len(data) {
			got := crash
			if len(obs) == 1 {
				got = obs[0].key() + " " + obs[0].Err
			}
			res.Fail(fmt.Sprintf("CORPUS %q", c.in), fmt.Sprintf("want OK %q %s consumed %d, got %s", c.tag, c.want, len(data), got), nil)
		}
		if len(obs) == 1 {
			addCase("corpus", data, obs[0])
		}
		res.Nontrivial("corpus " + c.in)
	}
	// the two deviations from the RFC grammar that the implementation is known for (notes/C10-defects.md)
	if !acceptsEmptyLit {
		res.Fail("EMPTY-LITERAL \"a LOGIN {0}\\r\\n p\\r\\n\"", "a zero-length literal (RFC 3501: literal = \"{\" number \"}\" CRLF *CHAR8) is rejected", nil)
	}
	if !acceptsLBracket {
		res.Fail("LBRACKET-IN-ATOM \"a[1 LOGIN u[x p\\r\\n\"", "'[' is an ATOM-CHAR in RFC 3501 (tags, atoms, astrings) but the parser rejects it", nil)
	}
	res.Evaluations += 2

	// ---- 2. generated streams ----
	nStreams := ctx.Budget(380, 6000)
	type mutSrc struct {
		data []byte
	}
	var pool [][]byte
	for si := 0; si < nStreams; si++ {
		g := newGen(rng)
		g.allowLBracket = acceptsLBracket
		g.allowEmptyLit = acceptsEmptyLit
		n := 1
		if rng.Chance(0.35) {
			n = rng.Range(2, 3)
		}
		var ws []written
		for i := 0; i < n; i++ {
			kind := commandKinds[(si+i*7)%len(commandKinds)]
			if rng.Chance(0.5) { // weight towards the structurally rich commands
				kind = []string{"fetch", "search", "uid fetch", "uid search", "store", "append", "login", "list", "id", "status"}[rng.Pick(10)]
			}
			start := len(g.out)
			for k := range g.feat {
				delete(g.feat, k)
			}
			tag, x := g.command(kind)
			w := written{Kind: kind, Tag: string(tag), Want: x.String(), start: start, end: len(g.out), x: x}
			w.Bytes = fmt.Sprintf("%q", g.out[start:])
			ws = append(ws, w)
			var fs []string
			for k := range g.feat {
				fs = append(fs, k)
				res.Count("feature:" + k)
			}
			sort.Strings(fs)
			for _, k := range fs {
				if k != "atom" && k != "quoted" && k != "leading-zeros" {
					res.Nontrivial(kind + " " + x.String())
					break
				}
			}
		}
		// chunk sizes
		var chunks []int
		switch rng.Pick(4) {
		case 0:
			chunks = []int{1}
		case 1:
			chunks = []int{rng.Range(1, 7)}
		case 2:
			for i := 0; i < 5; i++ {
				chunks = append(chunks, rng.Range(1, 40))
			}
		default:
			chunks = []int{4096, 1, 5000}
		}
		res.Count(fmt.Sprintf("stream-commands:%d", n))
		judge(g.out, ws, g.gates, chunks)
		if len(g.out) < 400 {
			pool = append(pool, g.out)
		}
	}

	// \\Recent (any letter case) must stay refused: no oracle (not a valid command), recorded for the model
	for _, in := range []string{"t STORE 1 +FLAGS (\\Recent)\r\n", "t STORE 1 FLAGS \\rEcEnT\r\n", "t APPEND box (\\RECENT) {1}\r\nx\r\n", "t STORE 1 FLAGS (\\Recently \\Recen)\r\n"} {
		obs, crash := parseCounting([]byte(in), 1)
		if crash == "" {
			for _, o := range obs {
				addCase("backslash-recent", []byte(in), o)
			}
		}
	}
	// ---- 3. mutated / truncated inputs: no oracle (the property speaks about valid commands), model only ----
	nMut := ctx.Budget(380, 4000)
	for i := 0; i < nMut && len(pool) > 0; i++ {
		src := pool[rng.Pick(len(pool))]
		data := append([]byte{}, src...)
		why := ""
		switch rng.Pick(6) {
		case 0:
			data = data[:rng.Pick(len(data))]
			why = "truncated"
		case 1:
			p := rng.Pick(len(data))
			data = append(data[:p], data[p+1:]...)
			why = "byte deleted"
		case 2:
			p := rng.Pick(len(data))
			data[p] = byte(rng.Pick(256))
			why = "byte replaced"
		case 3:
			p := rng.Pick(len(data) + 1)
			ins := []byte(" \"\\(){}[]%*\r\n0a+-.:<>,")
			data = append(data[:p], append([]byte{ins[rng.Pick(len(ins))]}, data[p:]...)...)
			why = "byte inserted"
		case 4:
			p := rng.Pick(len(data))
			q := rng.Pick(len(data))
			data[p], data[q] = data[q], data[p]
			why = "bytes swapped"
		default:
			// huge number in place of a digit run
			s := string(data)
			idx := strings.IndexAny(s, "0123456789")
			if idx >= 0 {
				big := []string{"9223372036854775807", "9223372036854775808", "4294967296", "18446744073709551616", "0", "00000000000000000001", "31457280", "31457279"}[rng.Pick(8)]
				data = []byte(s[:idx] + big + s[idx+1:])
			}
			why = "number replaced"
		}
		if len(data) == 0 {
			continue
		}
		ctx.Current(fmt.Sprintf("mutated %q", data), nil)
		obs, crash := parseCounting(data, 4)
		res.Count("mutation:" + why)
		if crash != "" {
			// termination and crashes on arbitrary input are C11's subject; C10 records it for the model comparison only
			res.Notes = append(res.Notes, fmt.Sprintf("%s on mutated input %q", crash, data))
			continue
		}
		for _, o := range obs {
			addCase(why, data, o)
			if o.OK {
				res.Count("mutated-result:ok")
			} else if o.ErrParse {
				res.Count("mutated-result:parser-error")
			} else {
				res.Count("mutated-result:other-error")
			}
		}
	}
	res.ModelCases = len(lines)
	return common.WriteCases(ctx.Out, "Run.RunC10", "case", lines, "")
}
