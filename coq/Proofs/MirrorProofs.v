(* C01: the client mirror stays in agreement with the snapshot across every handled responder. *)
From Coq Require Import List NArith Bool Lia Arith.
From Gluon Require Import Model.Responders.
Import ListNotations.
Open Scope N_scope.

(* ---------- flag sets ---------- *)
Lemma fl_mem_In x a : fl_mem x a = true <-> In x a.
Proof. unfold fl_mem. rewrite existsb_exists. split.
  - intros (y & Hy & E). apply N.eqb_eq in E. now subst.
  - intros H. exists x. split; [exact H|apply N.eqb_refl]. Qed.

Lemma fl_subset_spec a b : fl_subset a b = true <-> (forall x, In x a -> In x b).
Proof. unfold fl_subset. rewrite forallb_forall. split; intros H x Hx; [apply fl_mem_In|apply fl_mem_In]; auto. Qed.

Lemma fl_eq_spec a b : fl_eq a b = true <-> (forall x, In x a <-> In x b).
Proof. unfold fl_eq. rewrite andb_true_iff, !fl_subset_spec. split.
  - intros [H1 H2] x. split; auto.
  - intros H. split; intros x Hx; apply H; exact Hx. Qed.

Lemma fl_eq_refl f : fl_eq f f = true. Proof. apply fl_eq_spec. tauto. Qed.
Lemma fl_eq_sym a b : fl_eq a b = true -> fl_eq b a = true.
Proof. rewrite !fl_eq_spec. intros H x. symmetry. apply H. Qed.
Lemma fl_eq_trans a b c : fl_eq a b = true -> fl_eq b c = true -> fl_eq a c = true.
Proof. rewrite !fl_eq_spec. intros H1 H2 x. rewrite H1. apply H2. Qed.

Lemma negb_fl_mem x a : negb (fl_mem x a) = true <-> ~ In x a.
Proof. rewrite negb_true_iff. split.
  - intros H Hin. apply fl_mem_In in Hin. congruence.
  - intros H. destruct (fl_mem x a) eqn:E; [|reflexivity]. apply fl_mem_In in E. contradiction. Qed.

Lemma fl_add_In a b x : In x (fl_add a b) <-> In x a \/ In x b.
Proof. unfold fl_add. rewrite in_app_iff, filter_In, negb_fl_mem. split.
  - intros [H|[H _]]; auto.
  - intros [H|H]; [auto|]. destruct (in_dec N.eq_dec x a); auto. Qed.
Lemma fl_rem_In a b x : In x (fl_rem a b) <-> In x a /\ ~ In x b.
Proof. unfold fl_rem. rewrite filter_In, negb_fl_mem. tauto. Qed.

Lemma fl_mem_eq x a b : fl_eq a b = true -> fl_mem x a = fl_mem x b.
Proof. intros H. rewrite fl_eq_spec in H. destruct (fl_mem x a) eqn:E1, (fl_mem x b) eqn:E2; auto.
  - apply fl_mem_In in E1. apply H in E1. apply fl_mem_In in E1. congruence.
  - apply fl_mem_In in E2. apply H in E2. apply fl_mem_In in E2. congruence. Qed.

Lemma fl_add_eq a b f : fl_eq a b = true -> fl_eq (fl_add a f) (fl_add b f) = true.
Proof. rewrite !fl_eq_spec. intros H x. rewrite !fl_add_In, H. tauto. Qed.
Lemma fl_rem_eq a b f : fl_eq a b = true -> fl_eq (fl_rem a f) (fl_rem b f) = true.
Proof. rewrite !fl_eq_spec. intros H x. rewrite !fl_rem_In, H. tauto. Qed.

(* the flag operation of a fetch responder, with the \Recent-preserving rule of snapshot.setMessageFlags *)
Definition fop_apply (op : fop) (cur f : flagset) : flagset :=
  let nf := match op with FAdd => fl_add cur f | FRem => fl_rem cur f | FSet => f end in
  if fl_mem fl_recent cur then fl_add nf [fl_recent] else nf.

Lemma fop_apply_eq op a b f : fl_eq a b = true -> fl_eq (fop_apply op a f) (fop_apply op b f) = true.
Proof.
  intros H. unfold fop_apply. rewrite (fl_mem_eq fl_recent a b H).
  assert (G: fl_eq (match op with FAdd => fl_add a f | FRem => fl_rem a f | FSet => f end)
                   (match op with FAdd => fl_add b f | FRem => fl_rem b f | FSet => f end) = true).
  { destruct op; [apply fl_add_eq|apply fl_rem_eq|apply fl_eq_refl]; exact H. }
  destruct (fl_mem fl_recent b); [apply fl_add_eq|]; exact G.
Qed.

(* ---------- snapshot lemmas ---------- *)
Lemma agree_len m s : agree m s = true -> length m = length s.
Proof. revert s; induction m as [|c m IH]; destruct s as [|x s]; cbn [agree length]; try discriminate; auto.
  intros H; apply andb_prop in H as [_ H]; f_equal; auto. Qed.

Lemma agree_app m s x : agree m s = true -> agree (m ++ [(None, None)]) (s ++ [x]) = true.
Proof. revert s; induction m as [|c m IH]; destruct s as [|y s]; cbn [agree app]; try discriminate; auto.
  intros H; apply andb_prop in H as [H1 H2]; rewrite H1; cbn [andb]; auto. Qed.

Lemma insert_at_end x s : all_lt (sm_uid x) s -> snap_insert_by_uid x s = s ++ [x].
Proof. induction s as [|y r IH]; cbn [snap_insert_by_uid all_lt app]; auto. intros [H1 H2].
  destruct (N.ltb_spec (sm_uid x) (sm_uid y)); [lia|]. rewrite IH; auto. Qed.

Lemma all_gt_app u s x : all_gt u s -> u < sm_uid x -> all_gt u (s ++ [x]).
Proof. induction s; cbn [all_gt app]; intuition. Qed.
Lemma srt_app s x : srt s -> all_lt (sm_uid x) s -> srt (s ++ [x]).
Proof. induction s as [|y r IH]; cbn [srt all_lt app]; [cbn; auto|]. intros [H1 H2] [H3 H4]; split; auto using all_gt_app. Qed.

Lemma snap_last_uid_app s x : snap_last_uid (s ++ [x]) = sm_uid x.
Proof. unfold snap_last_uid. rewrite rev_app_distr. reflexivity. Qed.

Lemma last_uid_srt s x : srt s -> s <> [] -> snap_last_uid s < sm_uid x -> all_lt (sm_uid x) s.
Proof.
  induction s as [|y r IH]; [congruence|]. cbn [srt]. intros [Hg Hs] _ Hl.
  destruct r as [|z r'].
  - cbn in Hl |- *. split; [lia|exact I].
  - assert (E: snap_last_uid (y :: z :: r') = snap_last_uid (z :: r')).
    { unfold snap_last_uid. cbn [rev]. destruct (rev r' ++ [z]) eqn:R; [destruct (rev r'); discriminate|]. reflexivity. }
    rewrite E in Hl. assert (A: all_lt (sm_uid x) (z :: r')) by (apply IH; [exact Hs|discriminate|exact Hl]).
    cbn [all_lt]. split; [|exact A]. cbn [all_gt] in Hg. destruct Hg as [Hyz _]. cbn [all_lt] in A. lia.
Qed.

Lemma agree_remove m s mid k0 k :
  agree m s = true -> snap_seq_of mid s k0 = Some k ->
  exists j, N.to_nat k = (N.to_nat k0 + j)%nat /\ (j < length s)%nat /\ agree (rm_nth j m) (snap_remove mid s) = true.
Proof.
  revert s k0; induction m as [|c m IH]; destruct s as [|x s]; cbn [agree snap_seq_of snap_remove]; try discriminate.
  intros k0 H Hs. apply andb_prop in H as [H1 H2].
  destruct (sm_id x =? mid) eqn:E.
  - injection Hs as <-. exists 0%nat. cbn [rm_nth length]. split; [lia|]. split; [lia|]. exact H2.
  - destruct (IH s (k0 + 1) H2 Hs) as (j & Hkk & Hj & Ha). exists (S j). cbn [rm_nth agree length]. rewrite H1, Ha.
    split; [lia|]. split; [lia|reflexivity].
Qed.

Lemma all_gt_remove u mid s : all_gt u s -> all_gt u (snap_remove mid s).
Proof. induction s as [|y r IH]; cbn [all_gt snap_remove]; auto. intros [H1 H2]. destruct (sm_id y =? mid); cbn [all_gt]; auto. Qed.
Lemma srt_remove mid s : srt s -> srt (snap_remove mid s).
Proof. induction s as [|y r IH]; cbn [srt snap_remove]; auto. intros [H1 H2]. destruct (sm_id y =? mid); cbn [srt]; auto using all_gt_remove. Qed.

Lemma all_gt_setflags u mid nf s : all_gt u s -> all_gt u (snap_set_flags mid nf s).
Proof. induction s as [|y r IH]; cbn [all_gt snap_set_flags]; auto. intros [H1 H2]. destruct (sm_id y =? mid); cbn [all_gt sm_uid]; auto. Qed.
Lemma srt_setflags mid nf s : srt s -> srt (snap_set_flags mid nf s).
Proof. induction s as [|y r IH]; cbn [srt snap_set_flags]; auto. intros [H1 H2].
  destruct (sm_id y =? mid); cbn [srt sm_uid]; auto using all_gt_setflags. Qed.

(* the first entry with a given id: the one seq_of, get_flags, get_uid and set_flags all address *)
Fixpoint snap_find (mid : msgid) (s : snap) : option smsg :=
  match s with [] => None | x :: r => if sm_id x =? mid then Some x else snap_find mid r end.

Lemma find_of_seq mid s k0 k : snap_seq_of mid s k0 = Some k ->
  exists x0, snap_find mid s = Some x0 /\ sm_id x0 = mid /\
             snap_get_flags mid s = sm_flags x0 /\ snap_get_uid mid s = sm_uid x0.
Proof.
  revert k0. induction s as [|y s IH]; cbn [snap_seq_of snap_find snap_get_flags snap_get_uid]; [discriminate|].
  intros k0 H. destruct (sm_id y =? mid) eqn:E.
  - exists y. apply N.eqb_eq in E. auto.
  - eapply IH; eauto.
Qed.

Definition new_entry (mid : msgid) (nf : flagset) (x0 : smsg) : smsg :=
  mkSmsg mid (sm_uid x0) (if fl_mem fl_recent (sm_flags x0) then fl_add nf [fl_recent] else nf).

Lemma setflags_at m s mid k0 k nf x0 (upd : mcell -> mcell) :
  agree m s = true -> snap_seq_of mid s k0 = Some k -> snap_find mid s = Some x0 ->
  (forall c, cell_ok c x0 = true -> cell_ok (upd c) (new_entry mid nf x0) = true) ->
  exists j, N.to_nat k = (N.to_nat k0 + j)%nat /\ (j < length s)%nat /\
    agree (upd_nth j upd m) (snap_set_flags mid nf s) = true.
Proof.
  revert s k0; induction m as [|c m IH]; destruct s as [|x s]; cbn [agree snap_seq_of snap_set_flags snap_find]; try discriminate.
  intros k0 H Hs Hf Hupd. apply andb_prop in H as [H1 H2].
  destruct (sm_id x =? mid) eqn:E.
  - injection Hs as <-. injection Hf as <-. exists 0%nat. cbn [upd_nth agree length]. split; [lia|]. split; [lia|].
    fold (new_entry mid nf x). rewrite (Hupd c H1), H2. reflexivity.
  - destruct (IH s (k0 + 1) H2 Hs Hf Hupd) as (j & Hkk & Hj & Ha). exists (S j). cbn [upd_nth agree length]. rewrite H1, Ha.
    split; [lia|]. split; [lia|reflexivity].
Qed.

Lemma get_after_set mid nf s k0 k : snap_seq_of mid s k0 = Some k ->
  snap_get_flags mid (snap_set_flags mid nf s) =
    (if fl_mem fl_recent (snap_get_flags mid s) then fl_add nf [fl_recent] else nf) /\
  snap_get_uid mid (snap_set_flags mid nf s) = snap_get_uid mid s.
Proof.
  revert k0. induction s as [|x s IH]; cbn [snap_seq_of snap_set_flags snap_get_flags snap_get_uid]; [discriminate|].
  intros k0 H. destruct (sm_id x =? mid) eqn:E.
  - cbn [snap_get_flags snap_get_uid sm_id sm_flags sm_uid]. rewrite N.eqb_refl. split; reflexivity.
  - cbn [snap_get_flags snap_get_uid]. rewrite E. eapply IH; eauto.
Qed.

Lemma upd_nth_id {A} (l : list A) j : upd_nth j (fun c => c) l = l.
Proof. revert j. induction l as [|a t IH]; intros [|j]; cbn [upd_nth]; try reflexivity. rewrite IH. reflexivity. Qed.

(* ---------- the client's view of one handled responder ---------- *)
(* A client that sent STORE ... .SILENT applies the change itself to the flags it has learnt. *)
Definition client_after (r : responder) (s : snap) (m : mirror) : mirror :=
  match r with
  | RFetch mid f op _ true _ =>
      match snap_seq_of mid s 1 with
      | Some k => upd_nth (N.to_nat k - 1)
                    (fun c => (fst c, match snd c with Some lf => Some (fop_apply op lf f) | None => None end)) m
      | None => m
      end
  | _ => m
  end.

(* well-formed responders: a silent store is the session's own store on its selected mailbox *)
Definition rwf (r : responder) : Prop :=
  match r with RFetch _ _ _ _ true fo => fo = false | _ => True end.

Lemma mpad_one m : mpad m 1 = m ++ [(None, None)]. Proof. reflexivity. Qed.

Theorem mirror_step r s s' out m m' :
  srt s -> agree m s = true -> inorder r s -> rwf r ->
  handle r s = Some (s', out) -> msteps (client_after r s m) out = Some m' ->
  agree m' s' = true /\ srt s'.
Proof.
  intros Hs Ha Hin Hwf Hh Hf. pose proof (agree_len _ _ Ha) as Hlen.
  destruct r as [mid u f tg og | mid | mid f op au si fo]; cbn [handle] in Hh.
  - (* exists *)
    cbn [client_after] in Hf.
    destruct (snap_has mid s) eqn:Hhas.
    { injection Hh as <- <-. cbn in Hf. injection Hf as <-. auto. }
    set (x := mkSmsg mid u (if tg then f else fl_rem f [fl_recent])) in *.
    assert (Hall: all_lt (sm_uid x) s) by (apply Hin; exact Hhas).
    assert (Hs1: (if og then snap_append_in_order x s else Some (snap_insert_by_uid x s)) = Some (s ++ [x])).
    { destruct og.
      - unfold snap_append_in_order. destruct s as [|y r]; [reflexivity|].
        assert (snap_last_uid (y :: r) < sm_uid x).
        { clear - Hall. assert (G: forall l, all_lt (sm_uid x) l -> l <> [] -> snap_last_uid l < sm_uid x).
          { intros l. unfold snap_last_uid. induction l as [|a t IH] using rev_ind; [congruence|].
            intros H _. rewrite rev_app_distr. cbn. clear IH. induction t as [|b t IH]; cbn in H |- *; [tauto|]. apply IH. tauto. }
          apply G; [exact Hall|discriminate]. }
        destruct (N.ltb_spec (snap_last_uid (y :: r)) (sm_uid x)); [reflexivity|lia].
      - rewrite (insert_at_end x s Hall). reflexivity. }
    rewrite Hs1 in Hh. injection Hh as <- <-.
    assert (Hm: msteps m [PExists (N.of_nat (length (s ++ [x])))] = Some (m ++ [(None, None)])).
    { cbn [msteps mstep]. rewrite Nnat.Nat2N.id, app_length. cbn [length].
      destruct (Nat.ltb_spec (length s + 1) (length m)); [lia|].
      replace (length s + 1 - length m)%nat with 1%nat by lia. reflexivity. }
    assert (Hm': msteps m (PExists (N.of_nat (length (s ++ [x]))) ::
                 (if 0 <? snap_recent_count (s ++ [x]) then [PRecent (snap_recent_count (s ++ [x]))] else []))
                 = Some (m ++ [(None, None)])).
    { destruct (0 <? snap_recent_count (s ++ [x])); [|exact Hm].
      cbn [msteps] in Hm |- *. destruct (mstep m _) as [m1|]; [|discriminate]. cbn [mstep]. exact Hm. }
    rewrite Hm' in Hf. injection Hf as <-.
    split; [apply agree_app; exact Ha|apply srt_app; assumption].
  - (* expunge *)
    cbn [client_after] in Hf.
    destruct (snap_seq_of mid s 1) as [k|] eqn:Hk.
    + injection Hh as <- <-. destruct (agree_remove m s mid 1 k Ha Hk) as (j & Hkk & Hj & Hag).
      cbn [msteps mstep] in Hf.
      replace (N.to_nat k) with (S j) in Hf by (rewrite Hkk; reflexivity).
      destruct (Nat.leb_spec (S j) (length m)); [|lia]. cbn [Nat.leb andb Nat.sub] in Hf.
      rewrite Nat.sub_0_r in Hf. injection Hf as <-. split; auto using srt_remove.
    + injection Hh as <- <-. cbn in Hf. injection Hf as <-. auto.
  - (* fetch *)
    destruct (snap_seq_of mid s 1) as [k|] eqn:Hk.
    2:{ injection Hh as <- <-. cbn [client_after] in Hf. destruct si; rewrite ?Hk in Hf; cbn in Hf; injection Hf as <-; auto. }
    set (cur := snap_get_flags mid s) in *.
    set (nf0 := match op with FAdd => fl_add cur f | FRem => fl_rem cur f | FSet => f end) in *.
    set (nf := if fo then fl_set fl_deleted (fl_mem fl_deleted cur) nf0 else nf0) in *.
    destruct (get_after_set mid nf s 1 k Hk) as [Gf Gu]. fold cur in Gf.
    destruct (find_of_seq mid s 1 k Hk) as (x0 & Hfind & Hx0 & Hx0f & Hx0u). fold cur in Hx0f.
    assert (Hsrt: srt (snap_set_flags mid nf s)) by (apply srt_setflags; exact Hs).
    assert (Hnew: (if fl_mem fl_recent (sm_flags x0) then fl_add nf [fl_recent] else nf)
                  = snap_get_flags mid (snap_set_flags mid nf s)).
    { rewrite Gf, <- Hx0f. reflexivity. }
    assert (Hcell: forall (upd : mcell -> mcell),
      (forall c, cell_ok c x0 = true -> cell_ok (upd c) (new_entry mid nf x0) = true) ->
      agree (upd_nth (N.to_nat k - 1) upd m) (snap_set_flags mid nf s) = true /\ (N.to_nat k - 1 < length m)%nat /\ (1 <= N.to_nat k)%nat).
    { intros upd Hupd. destruct (setflags_at m s mid 1 k nf x0 upd Ha Hk Hfind Hupd) as (j & Hkk & Hj & Hag).
      replace (N.to_nat k - 1)%nat with j by (rewrite Hkk; cbn; lia). split; [exact Hag|]. rewrite Hlen. split; [exact Hj|rewrite Hkk; cbn; lia]. }
    remember (snap_get_flags mid (snap_set_flags mid nf s)) as newf eqn:Enewf.
    (* cell_ok against the new entry, spelled out *)
    assert (Hok: forall (uo : option uid) (fo' : option flagset),
       (match uo with None => true | Some u0 => u0 =? sm_uid x0 end = true) ->
       (match fo' with None => true | Some lf => fl_eq lf newf end = true) ->
       cell_ok (uo, fo') (new_entry mid nf x0) = true).
    { intros uo fo' A B. unfold cell_ok, new_entry. cbn [fst snd sm_uid sm_flags]. rewrite Hnew, A, B. reflexivity. }
    destruct (fl_eq cur newf || si) eqn:E.
    + (* no response *)
      injection Hh as <- <-. cbn [msteps] in Hf. injection Hf as <-. split; [|exact Hsrt].
      destruct si.
      * (* silent: the client applies the operation itself *)
        cbn [client_after]. rewrite Hk. cbn [rwf] in Hwf. subst fo.
        apply Hcell. intros c Hc. unfold cell_ok in Hc. apply andb_prop in Hc as [Hc1 Hc2].
        apply Hok; [exact Hc1|].
        destruct (snd c) as [lf|]; [|reflexivity].
        rewrite Gf. subst nf nf0. rewrite <- Hx0f in Hc2.
        change (fl_eq (fop_apply op lf f) (fop_apply op cur f) = true).
        exact (fop_apply_eq op lf cur f Hc2).
      * (* flags unchanged: nothing is sent, the learnt flags still describe the entry *)
        rewrite orb_false_r in E. cbn [client_after].
        destruct (Hcell (fun c => c)) as [Hag _].
        { intros c Hc. unfold cell_ok in Hc. apply andb_prop in Hc as [Hc1 Hc2]. destruct c as [cu cf]. cbn [fst snd] in *.
          apply Hok; [exact Hc1|]. destruct cf as [lf|]; [|reflexivity].
          rewrite <- Hx0f in Hc2. eapply fl_eq_trans; eauto. }
        rewrite upd_nth_id in Hag. exact Hag.
    + (* FETCH response *)
      apply orb_false_iff in E as [E1 E2]. subst si.
      injection Hh as <- <-. cbn [client_after] in Hf. cbn [msteps mstep] in Hf.
      set (uo := if au then Some (snap_get_uid mid (snap_set_flags mid nf s)) else None) in *.
      destruct (Hcell (fun c => (match uo with Some _ => uo | None => fst c end, Some newf))) as [Hag [Hlt Hge]].
      { intros c Hc. unfold cell_ok in Hc. apply andb_prop in Hc as [Hc1 Hc2].
        apply Hok; [|apply fl_eq_refl].
        subst uo. destruct au; [|exact Hc1]. rewrite Gu, Hx0u. apply N.eqb_refl. }
      destruct (Nat.leb_spec 1 (N.to_nat k)); [|lia].
      destruct (Nat.leb_spec (N.to_nat k) (length m)); [|lia].
      cbn [andb] in Hf. injection Hf as <-. split; [exact Hag|exact Hsrt].
Qed.

(* ---------- sequences of responders (one flush) ---------- *)
Fixpoint guard_all (rs : list responder) (s : snap) : Prop :=
  match rs with
  | [] => True
  | r :: t => inorder r s /\ rwf r /\ match handle r s with Some (s1, _) => guard_all t s1 | None => True end
  end.

(* the client processes the responses of each handled responder (and its own silent stores) in order *)
Fixpoint client_run (rs : list responder) (s : snap) (m : mirror) : option mirror :=
  match rs with
  | [] => Some m
  | r :: t => match handle r s with
              | None => None
              | Some (s1, o1) => match msteps (client_after r s m) o1 with
                                 | None => None
                                 | Some m1 => client_run t s1 m1 end
              end
  end.

Lemma seq_of_bounds mid s k0 k : snap_seq_of mid s k0 = Some k ->
  exists j, N.to_nat k = (N.to_nat k0 + j)%nat /\ (j < length s)%nat.
Proof.
  revert k0. induction s as [|x s IH]; cbn [snap_seq_of]; [discriminate|]. intros k0 H.
  destruct (sm_id x =? mid).
  - injection H as <-. exists 0%nat. cbn [length]. lia.
  - destruct (IH (k0 + 1) H) as (j & A & B). exists (S j). cbn [length]. lia.
Qed.

Lemma upd_nth_length {A} (f : A -> A) l j : length (upd_nth j f l) = length l.
Proof. revert j. induction l as [|a t IH]; intros [|j]; cbn [upd_nth length]; auto. Qed.

Lemma insert_by_uid_length x s : length (snap_insert_by_uid x s) = S (length s).
Proof. induction s as [|y r IH]; [reflexivity|]. cbn [snap_insert_by_uid].
  destruct (_ <? _); cbn [length]; [reflexivity|]. rewrite IH. reflexivity. Qed.

(* the response stream of a handled responder is always legal for a mirror of the right length *)
Lemma mirror_step_legal r s s' out m :
  length m = length s -> handle r s = Some (s', out) ->
  exists m', msteps (client_after r s m) out = Some m'.
Proof.
  intros Hlen Hh.
  destruct r as [mid u f tg og | mid | mid f op au si fo]; cbn [handle] in Hh.
  - cbn [client_after]. destruct (snap_has mid s) eqn:Hhas; [injection Hh as <- <-; eexists; reflexivity|].
    destruct (if og then _ else _) as [s1|] eqn:Hs1; [|discriminate]. injection Hh as <- <-.
    assert (L: length s1 = S (length s)).
    { destruct og.
      - unfold snap_append_in_order in Hs1. destruct s as [|y r]; [injection Hs1 as <-; reflexivity|].
        destruct (_ <? _); [|discriminate]. injection Hs1 as <-. cbn [app length]. rewrite app_length. cbn [length]. lia.
      - injection Hs1 as <-. apply insert_by_uid_length. }
    cbn [msteps mstep]. rewrite Nnat.Nat2N.id, L.
    destruct (Nat.ltb_spec (S (length s)) (length m)); [lia|].
    destruct (0 <? snap_recent_count s1); cbn [msteps mstep]; eexists; reflexivity.
  - cbn [client_after]. destruct (snap_seq_of mid s 1) as [k|] eqn:Hk; [|injection Hh as <- <-; eexists; reflexivity].
    injection Hh as <- <-. destruct (seq_of_bounds mid s 1 k Hk) as (j & Hkk & Hj).
    cbn [msteps mstep]. replace (N.to_nat k) with (S j) by (rewrite Hkk; reflexivity).
    destruct (Nat.leb_spec (S j) (length m)); [|lia]. cbn [Nat.leb andb]. eexists; reflexivity.
  - destruct (snap_seq_of mid s 1) as [k|] eqn:Hk.
    2:{ injection Hh as <- <-. eexists; reflexivity. }
    destruct (_ || si); injection Hh as <- <-; [eexists; reflexivity|].
    assert (Hl: length (client_after (RFetch mid f op au si fo) s m) = length m).
    { cbn [client_after]. destruct si; [rewrite Hk; apply upd_nth_length|reflexivity]. }
    destruct (seq_of_bounds mid s 1 k Hk) as (j & Hkk & Hj).
    cbn [msteps mstep]. rewrite Hl. replace (N.to_nat k) with (S j) by (rewrite Hkk; reflexivity).
    destruct (Nat.leb_spec (S j) (length m)); [|lia]. cbn [Nat.leb andb]. eexists; reflexivity.
Qed.

Theorem mirror_run_responders rs : forall s s' out m,
  srt s -> agree m s = true -> guard_all rs s -> run_responders rs s = Some (s', out) ->
  exists m', client_run rs s m = Some m' /\ agree m' s' = true /\ srt s'.
Proof.
  induction rs as [|r t IH]; intros s s' out m Hs Ha Hg Hr; cbn [run_responders client_run] in *.
  - injection Hr as <- <-. exists m. auto.
  - destruct (handle r s) as [[s1 o1]|] eqn:Hh; [|discriminate].
    destruct (run_responders t s1) as [[s2 o2]|] eqn:Hr2; [|discriminate]. injection Hr as <- <-.
    cbn [guard_all] in Hg. destruct Hg as (Hin & Hwf & Hg). rewrite Hh in Hg.
    destruct (mirror_step_legal r s s1 o1 m (agree_len _ _ Ha) Hh) as [m1 Hm1]. rewrite Hm1.
    destruct (mirror_step r s s1 o1 m m1 Hs Ha Hin Hwf Hh Hm1) as [Ha1 Hs1].
    exact (IH s1 s2 o2 m1 Hs1 Ha1 Hg Hr2).
Qed.

(* the count never shrinks except through an announced EXPUNGE *)
Lemma snap_remove_length mid s k0 k : snap_seq_of mid s k0 = Some k -> S (length (snap_remove mid s)) = length s.
Proof. revert k0. induction s as [|x s IH]; cbn [snap_seq_of snap_remove]; [discriminate|]. intros k0 H.
  destruct (sm_id x =? mid); [reflexivity|]. cbn [length]. rewrite (IH _ H). reflexivity. Qed.
Lemma snap_set_flags_length mid nf s : length (snap_set_flags mid nf s) = length s.
Proof. induction s as [|x s IH]; [reflexivity|]. cbn [snap_set_flags]. destruct (sm_id x =? mid); cbn [length]; auto. Qed.

Theorem count_shrinks_only_by_expunge r s s' out :
  handle r s = Some (s', out) -> (length s' < length s)%nat -> exists k, out = [PExpunge k].
Proof.
  intros Hh Hlt. destruct r as [mid u f tg og | mid | mid f op au si fo]; cbn [handle] in Hh.
  - destruct (snap_has mid s); [injection Hh as <- <-; lia|].
    destruct (if og then _ else _) as [s1|] eqn:Hs1; [|discriminate]. injection Hh as <- <-. exfalso.
    destruct og.
    + unfold snap_append_in_order in Hs1. destruct s as [|y r]; [injection Hs1 as <-; cbn in Hlt; lia|].
      destruct (_ <? _); [|discriminate]. injection Hs1 as <-. cbn [app length] in Hlt. rewrite app_length in Hlt. cbn [length] in Hlt. lia.
    + injection Hs1 as <-. rewrite insert_by_uid_length in Hlt. lia.
  - destruct (snap_seq_of mid s 1) as [k|] eqn:Hk; injection Hh as <- <-; [eexists; reflexivity|lia].
  - destruct (snap_seq_of mid s 1) as [k|] eqn:Hk; [|injection Hh as <- <-; lia].
    destruct (_ || si); injection Hh as <- <-; rewrite snap_set_flags_length in Hlt; lia.
Qed.

(* ---------- the full statement is refuted: an earlier foreign message reaches the session after its own ---------- *)
Definition refuted_snap : snap := [mkSmsg 20 2 []].
Definition refuted_mirror : mirror := [(Some 2, None)].
Lemma mirror_refuted :
  srt refuted_snap /\ agree refuted_mirror refuted_snap = true /\
  exists s' out m',
    handle (RExists 10 1 [] false false) refuted_snap = Some (s', out) /\
    msteps refuted_mirror out = Some m' /\ agree m' s' = false.
Proof. split; [cbn; auto|]. split; [reflexivity|]. eexists _, _, _. vm_compute. repeat split. Qed.
