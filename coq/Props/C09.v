(* C09 — The message store returns exactly the stored bytes or an error.
   Property theorems only; every proof is `exact <lemma>` and is followed by Print Assumptions.
   Model: Model/StoreFrame.v (store/disk.go Set/Get/Delete/List, as repaired by C09-fix-1).  AES-GCM and LZ4 are abstract;
   what is assumed about them is the record [store_assumptions] (Proofs/StoreFrameProofs.v): seal/open round trip,
   expansion by the overhead, a truncated block / a block under another key or nonce does not open; a complete frame
   decodes whatever follows it, a frame is not empty, a strict prefix of a frame is incomplete.
   [code_assumptions] = the same for the constants read from store/disk.go by the translator (Gen/FactsStore.v):
   blockSize, header bytes, nonce length, GCM overhead.  c_write/c_read/c_set/c_get = Set/Get with those constants. *)
From Coq Require Import List NArith Arith Bool.
From Gluon Require Import Model.StoreFrame Proofs.StoreFrameProofs Proofs.StoreToy Proofs.StoreCode Gen.FactsStore.
From Gluon Require Import Model.LockTable Proofs.LockTableProofs.
Import ListNotations.
Local Open Scope nat_scope.

(* the translator found the structure the model describes: header first, one nonce per file drawn before the block loop,
   Seal/Open per block with that nonce and no additional data, blocks cut at blockSize / read at blockSize+Overhead,
   no fallback reader installed by the builder *)
Theorem C09_code_structure : code_structure = true.
Proof. exact code_structure_ok. Qed.
Print Assumptions C09_code_structure.

(* ... and Get reports the end of the decrypted data before the end of the frame as an error (executed) *)
Theorem C09_code_end_of_data_is_error : get_rejects_end_of_data = true.
Proof. exact code_end_of_data_is_error. Qed.
Print Assumptions C09_code_end_of_data_is_error.

(* cutting into blocks, sealing each, concatenating; then cutting at block+overhead, opening each, concatenating:
   the identity for EVERY block size > 0, every overhead and every stream (any length, incl. 0 and multiples of B) *)
Theorem C09_unframe_frame : forall key seal open compress dec bsz ovh nlen, 0 < bsz ->
  store_assumptions key seal open compress dec bsz ovh nlen ->
  forall k n s, unframe key open bsz ovh k n (frame key seal bsz k n s) = Some s.
Proof. exact unframe_frame_all. Qed.
Print Assumptions C09_unframe_frame.

(* size of the file written by Set, from the length L of the compressed frame: header + nonce + L + 16 * ceil(L / B) *)
Theorem C09_file_size : forall key seal open compress dec, code_assumptions key seal open compress dec ->
  forall k n d, length n = code_nlen ->
  length (c_write key seal compress k n d)
  = length code_hdr + code_nlen + length (compress d) + code_ovh * ((length (compress d) + code_bsz - 1) / code_bsz).
Proof. exact c_file_size. Qed.
Print Assumptions C09_file_size.

(* Get after Set returns exactly the stored bytes: any content, any size, any compressibility *)
Theorem C09_get_set : forall key seal open compress dec, code_assumptions key seal open compress dec ->
  forall k n st id d, length n = code_nlen ->
  c_get key open dec k (c_set key seal compress k n st id d) id = GOk d.
Proof. exact c_get_set. Qed.
Print Assumptions C09_get_set.

(* IDs do not influence each other *)
Theorem C09_ids_independent : forall key seal open compress dec k n st id id' d, id <> id' ->
  c_get key open dec k (c_set key seal compress k n st id d) id' = c_get key open dec k st id'.
Proof. exact c_get_set_other. Qed.
Print Assumptions C09_ids_independent.

(* overwriting replaces the content (and nothing else) *)
Theorem C09_overwrite : forall key seal open compress dec, code_assumptions key seal open compress dec ->
  forall k n1 n2 st id d1 d2, length n2 = code_nlen ->
  c_get key open dec k (c_set key seal compress k n2 (c_set key seal compress k n1 st id d1) id d2) id = GOk d2
  /\ (forall id', id <> id' ->
        c_get key open dec k (c_set key seal compress k n2 (c_set key seal compress k n1 st id d1) id d2) id'
        = c_get key open dec k st id').
Proof. exact c_overwrite. Qed.
Print Assumptions C09_overwrite.

(* deleted IDs are gone, the others stay, the listing loses exactly that ID *)
Theorem C09_delete : forall key open dec k st st' id, dir_delete st id = Some st' ->
  c_get key open dec k st' id = GNoFile
  /\ (forall id', id <> id' -> c_get key open dec k st' id' = c_get key open dec k st id')
  /\ (forall x, In x (dir_list st') <-> In x (dir_list st) /\ x <> id).
Proof. exact c_delete. Qed.
Print Assumptions C09_delete.

(* Delete(ids...) on the directory (onDiskStore.Delete, WriteControlledStore.DeleteUnchecked): the loop ends with the error
   of the first os.Remove that fails (extracted).  Whatever it returns, every ID is either untouched or gone; when it
   reports success EVERY ID of the batch is gone (and no other); the listing is exactly what can still be read. *)
Theorem C09_delete_batch_structure : disk_delete_stops_with_the_error = true.
Proof. exact disk_delete_structure_ok. Qed.
Print Assumptions C09_delete_batch_structure.

Theorem C09_delete_batch : forall key open dec k ids st,
  let r := dir_delete_all st ids in
  (forall id, c_get key open dec k (fst r) id = c_get key open dec k st id \/ c_get key open dec k (fst r) id = GNoFile)
  /\ (snd r = true -> forall id,
        c_get key open dec k (fst r) id = if existsb (N.eqb id) ids then GNoFile else c_get key open dec k st id)
  /\ (forall id, In id (dir_list (fst r)) <-> dir_get (fst r) id <> None).
Proof. exact c_delete_all. Qed.
Print Assumptions C09_delete_batch.

(* List over the file names of the directory.  Extracted: List yields every regular file whose name is an ID
   (list_yields_every_file) and skips files whose name is no ID (list_skips_foreign_names, C09-fix-3).  A directory holding
   the files of stored IDs (named id.String(), which parses back) and any other files, in any order, lists exactly the
   stored IDs - the zero ID (the nil UUID is a valid ID) included, nothing for the foreign files. *)
Theorem C09_list_yields_exactly_the_stored_ids : forall (name : Type) (str : N -> name) (parse : name -> option N),
  (forall i, parse (str i) = Some i) ->
  forall (entries : list (N + name)), (forall f, In (inr f) entries -> parse f = None) ->
  list_names parse list_yields_every_file list_skips_foreign_names
             (map (fun e => match e with inl i => str i | inr f => f end) entries)
  = flat_map (fun e => match e with inl i => [i] | inr _ => [] end) entries.
Proof. exact list_names_exact. Qed.
Print Assumptions C09_list_yields_exactly_the_stored_ids.

Theorem C09_list_dropping_zero_id_refuted : exists (ids : list N),
  list_names (fun n : N => Some n) false true ids <> ids.
Proof. exact list_names_filter_refuted. Qed.
Print Assumptions C09_list_dropping_zero_id_refuted.

(* the List before C09-fix-3: a file named 9 that is no ID is listed as the zero ID *)
Theorem C09_list_foreign_file_as_zero_id_refuted :
  list_names (fun n : N => if N.eqb n 9 then None else Some n) true false [5%N; 9%N] = [5%N; 0%N].
Proof. exact list_names_foreign_refuted. Qed.
Print Assumptions C09_list_foreign_file_as_zero_id_refuted.

(* every history of Set/Delete on the same and on different IDs (Get/Set/Delete of one ID are atomic under the per-ID
   lock): each ID reads back the bytes of its last Set, or "no file" after a Delete; List yields exactly the stored
   IDs, each once *)
Theorem C09_history_list_exact : forall key seal open compress dec, code_assumptions key seal open compress dec ->
  forall k ops, Forall c_sop_ok ops ->
  let st := fold_left (c_apply key seal compress k) ops [] in
  let r := fold_left sop_ref ops (fun _ => None) in
  NoDup (dir_list st)
  /\ (forall id, c_get key open dec k st id = match r id with Some d => GOk d | None => GNoFile end)
  /\ (forall id, In id (dir_list st) <-> r id <> None).
Proof. exact c_history. Qed.
Print Assumptions C09_history_list_exact.

(* FULL STRENGTH truncation: every strict prefix of a store file is an error — cuts inside header or nonce, inside a
   sealed block (not authentic) and AT a block boundary, including "header and nonce only" (the decrypted data is a
   strict prefix of the frame; by the LZ4 assumption the decompressor still waits for input, which the repaired Get
   reports).  On the unrepaired code the last case returned the decoded prefix without an error (C09-defects.md). *)
Theorem C09_truncated_is_error : forall key seal open compress dec, code_assumptions key seal open compress dec ->
  forall k n d m, length n = code_nlen -> m < length (c_write key seal compress k n d) ->
  is_err (c_read key open dec k (firstn m (c_write key seal compress k n d))) = true.
Proof. exact c_truncated. Qed.
Print Assumptions C09_truncated_is_error.

(* a file written with another passphrase is an error *)
Theorem C09_other_passphrase_is_error : forall key seal open compress dec, code_assumptions key seal open compress dec ->
  forall k k' n d, length n = code_nlen -> k <> k' ->
  c_read key open dec k' (c_write key seal compress k n d) = RErrOpen.
Proof. exact c_other_key. Qed.
Print Assumptions C09_other_passphrase_is_error.

(* altered header / altered nonce / one altered sealed block (any block, any position; c' = any bytes of the same length
   that are not authentic under the file's key and nonce) *)
Theorem C09_altered_header_is_error : forall key open dec k (hdr' rest : bytes),
  length hdr' = length code_hdr -> hdr' <> code_hdr -> c_read key open dec k (hdr' ++ rest) = RErrHeader.
Proof. exact c_other_header. Qed.
Print Assumptions C09_altered_header_is_error.

Theorem C09_altered_nonce_is_error : forall key seal open compress dec, code_assumptions key seal open compress dec ->
  forall k n n' d, length n = code_nlen -> length n' = code_nlen -> n <> n' ->
  c_read key open dec k (code_hdr ++ n' ++ frame key seal code_bsz k n (compress d)) = RErrOpen.
Proof. exact c_other_nonce. Qed.
Print Assumptions C09_altered_nonce_is_error.

Theorem C09_altered_block_is_error : forall key seal open compress dec, code_assumptions key seal open compress dec ->
  forall k n d pl1 b pl2 c', length n = code_nlen ->
  plain_blocks code_bsz (compress d) = pl1 ++ b :: pl2 ->
  length c' = length (seal k n b) -> open k n c' = None ->
  c_read key open dec k (code_hdr ++ n ++ concat (map (seal k n) pl1 ++ c' :: map (seal k n) pl2)) = RErrOpen.
Proof. exact c_altered_block. Qed.
Print Assumptions C09_altered_block_is_error.

(* The honest remainder.  FULL statement wanted by the property: "every file that differs from the written one is an
   error or yields the same bytes".  It does NOT follow: all blocks of a file are sealed under one nonce without
   additional data, so any well-cut sequence of genuinely sealed blocks (blocks dropped, repeated, reordered) passes the
   cipher and the verdict is the decompressor's alone ... *)
Theorem C09_altered_is_error_partial : forall key seal open compress dec, code_assumptions key seal open compress dec ->
  forall k n pl, length n = code_nlen -> wf_blocks code_bsz pl ->
  c_read key open dec k (code_hdr ++ n ++ concat (map (seal k n) pl)) = feed dec [] pl.
Proof. exact c_sealed_blocks. Qed.
Print Assumptions C09_altered_is_error_partial.

(* ... and there is an instance of the assumptions in which a file with one block dropped yields other bytes and no
   error (block boundaries that coincide with boundaries inside the frame).  The harness constructs the same situation
   for the real LZ4/AES-GCM code (content whose LZ4 block boundaries fall on multiples of blockSize). *)
Theorem C09_altered_is_error_refuted :
  exists key seal open compress dec bsz ovh nlen (hdr : bytes) (k : key) (n d f' d' : bytes),
    0 < bsz /\ store_assumptions key seal open compress dec bsz ovh nlen /\ length n = nlen /\
    f' <> write_file key seal compress hdr bsz k n d /\
    read_file key open dec hdr bsz ovh nlen k f' = ROk d' /\ d' <> d.
Proof. exact altered_file_accepted_witness. Qed.
Print Assumptions C09_altered_is_error_refuted.

(* ---- concurrent readers and writers of one ID: the per-message lock table (Model/LockTable.v) ----
   Goroutines run acquire ; Lock/RLock ; wrapped store ; unlock ; release in any interleaving, any number of goroutines,
   any message IDs, any choice of the pool.  The translator reads from store/write_controlled_store.go whether
   releaseSyncRef decrements the counter inside the critical section, whether acquireSyncRef resets the counter of an
   object it inserts and whether every releaseSyncRef is called with the ID that was acquired (Delete(ids...) is the
   per-ID loop acquire ; Lock ; impl.Delete ; Unlock ; release); the model runs the protocol these facts describe. *)
Theorem C09_lock_table_structure : lock_table_structure = true.
Proof. exact lock_table_structure_ok. Qed.
Print Assumptions C09_lock_table_structure.

(* for EVERY schedule: two goroutines that are inside the wrapped store on the same message ID are both readers
   (never a writer together with anybody else) *)
Theorem C09_lock_table_exclusive : forall n sched,
  exclusive (run release_decrements_under_lock acquire_resets_counter release_uses_acquired_id (init n) sched).
Proof. exact exclusive_code. Qed.
Print Assumptions C09_lock_table_exclusive.

(* the release protocol before C09-fix-2 (decrement outside w.lock, re-check inside): a schedule of 4 goroutines puts a
   writer and a reader of message 7 inside together (and pools one object twice) *)
Theorem C09_lock_table_exclusive_old_release_refuted : exists n sched, ~ exclusive (run false true true (init n) sched).
Proof. exact old_release_not_exclusive. Qed.
Print Assumptions C09_lock_table_exclusive_old_release_refuted.

(* without `v.counter = 1` for an object taken from the pool exclusion fails as well *)
Theorem C09_lock_table_exclusive_without_reset_refuted : exists n sched, ~ exclusive (run true false true (init n) sched).
Proof. exact noreset_not_exclusive. Qed.
Print Assumptions C09_lock_table_exclusive_without_reset_refuted.

(* a Delete(ids...) that releases every lock object under the FIRST ID of the batch: 3 goroutines, messages 7 and 8 *)
Theorem C09_lock_table_exclusive_wrong_release_id_refuted :
  exists n sched, ~ exclusive (run true true false (init n) sched).
Proof. exact wrongkey_not_exclusive. Qed.
Print Assumptions C09_lock_table_exclusive_wrong_release_id_refuted.

(* non-vacuity: the assumptions are satisfiable *)
Example C09_assumptions_satisfiable :
  exists key seal open compress dec bsz ovh nlen, 0 < bsz /\ store_assumptions key seal open compress dec bsz ovh nlen.
Proof. exact assumptions_satisfiable. Qed.
