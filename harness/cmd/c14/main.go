package main

// C14 harness: namespace commands from several sessions, connector mailbox updates and LIST/LSUB against the real
// server (one server per hierarchy delimiter, one user per history); every observation is judged by the Go
// reference (oracle.go) and written to cases.v for the Coq model.

import (
	"fmt"
	"os"
	"regexp"
	"sort"
	"strconv"
	"strings"
	"time"

	"github.com/ProtonMail/gluon"
	"github.com/ProtonMail/gluon/imap"
	"github.com/emersion/go-imap/utf7"

	"verifharness/common"
	"verifharness/hconn"
	"verifharness/imapc"
	"verifharness/srv"
)

func main() { common.Main("C14", runC14) }

const recoveryRemoteID = imap.MailboxID("GLUON-INTERNAL-RECOVERY-MBOX")

type op struct {
	Kind   string   `json:"kind"` // CREATE DELETE RENAME SUB UNSUB CCREATE CDUP CDELETE CRENAME LIST LSUB
	A      string   `json:"a,omitempty"`
	B      string   `json:"b,omitempty"`
	Levels []string `json:"levels,omitempty"`
	Target string   `json:"target,omitempty"` // connector ops: present name of the mailbox addressed ("" with Dead: an ID never announced)
	Dead   bool     `json:"dead,omitempty"`
	Rec    bool     `json:"rec,omitempty"` // connector ops: address the recovery mailbox
	Sess   int      `json:"sess"`
	// filled while running
	id   int
	res  bool
	got  []listed
	skip bool
}

func (o op) String() string {
	q := func(s string) string { return strconv.QuoteToASCII(s) }
	switch o.Kind {
	case "CREATE", "DELETE":
		return o.Kind + " " + q(o.A)
	case "SUB":
		return "SUBSCRIBE " + q(o.A)
	case "UNSUB":
		return "UNSUBSCRIBE " + q(o.A)
	case "RENAME":
		return "RENAME " + q(o.A) + " " + q(o.B)
	case "LIST", "LSUB":
		return o.Kind + " " + q(o.A) + " " + q(o.B)
	case "CCREATE":
		return "conn-create " + fmt.Sprintf("%q", o.Levels)
	case "CDUP":
		return "conn-create-known(" + q(o.Target) + ") " + fmt.Sprintf("%q", o.Levels)
	case "CDELETE":
		return "conn-delete(" + o.target() + ")"
	case "CRENAME":
		return "conn-rename(" + o.target() + ") " + fmt.Sprintf("%q", o.Levels)
	}
	return o.Kind
}

func (o op) target() string {
	if o.Rec {
		return "recovery"
	}
	if o.Dead {
		return "unknown-id"
	}
	return strconv.QuoteToASCII(o.Target)
}

func isList(k string) bool { return k == "LIST" || k == "LSUB" }

// ---------- wire helpers ----------
func encName(s string) (string, error) {
	r, err := utf7.Encoding.NewEncoder().String(s)
	if err != nil {
		return "", err
	}
	return imapc.Quote(r), nil
}

var reList = regexp.MustCompile(`^\* (LIST|LSUB) \(([^)]*)\) (NIL|"(?:[^"\\]|\\.)*") ("(?:[^"\\]|\\.)*")$`)

func parseList(kind, d string, r imapc.Result) ([]listed, error) {
	var out []listed
	for _, u := range r.Untagged {
		m := reList.FindStringSubmatch(u.Text)
		if m == nil {
			return nil, fmt.Errorf("unexpected untagged response %q", u.Text)
		}
		if m[1] != kind {
			return nil, fmt.Errorf("%s answered with %q", kind, u.Text)
		}
		del, err := "", error(nil)
		if m[3] != "NIL" { // NIL: flat namespace
			del, err = strconv.Unquote(m[3])
		}
		if err != nil || del != d {
			return nil, fmt.Errorf("delimiter %s in %q, configured %q", m[3], u.Text, d)
		}
		n7, err := strconv.Unquote(m[4])
		if err != nil {
			return nil, fmt.Errorf("name not unquotable in %q", u.Text)
		}
		n, err := utf7.Encoding.NewDecoder().String(n7)
		if err != nil {
			return nil, fmt.Errorf("name is not modified UTF-7 in %q", u.Text)
		}
		sel := true
		for _, a := range strings.Fields(m[2]) {
			if strings.EqualFold(a, `\Noselect`) {
				sel = false
			}
		}
		out = append(out, listed{n, sel})
	}
	sort.SliceStable(out, func(i, j int) bool { return out[i].Name < out[j].Name })
	return out, nil
}

func listedEq(a, b []listed) bool {
	if len(a) != len(b) {
		return false
	}
	for i := range a {
		if a[i] != b[i] {
			return false
		}
	}
	return true
}

func listedStr(l []listed) string {
	p := make([]string, len(l))
	for i, x := range l {
		p[i] = strconv.QuoteToASCII(x.Name)
		if !x.Sel {
			p[i] += "\\Noselect"
		}
	}
	return "{" + strings.Join(p, ", ") + "}"
}

// ---------- Coq emission ----------
func coqName(s string) string { return common.CoqBytes([]byte(s)) }
func coqLevels(l []string) string {
	p := make([]string, len(l))
	for i, x := range l {
		p[i] = coqName(x)
	}
	return "[" + strings.Join(p, "; ") + "]"
}
func coqRes(ok bool) string {
	if ok {
		return "ROk"
	}
	return "RNo"
}
func coqListed(l []listed) string {
	p := make([]string, len(l))
	for i, x := range l {
		p[i] = "(" + coqName(x.Name) + ", " + common.CoqBool(x.Sel) + ")"
	}
	return "[" + strings.Join(p, "; ") + "]"
}

func (o op) coq() string {
	switch o.Kind {
	case "CREATE":
		return "HOp (OCreate " + coqName(o.A) + ") " + coqRes(o.res)
	case "DELETE":
		return "HOp (ODelete " + coqName(o.A) + ") " + coqRes(o.res)
	case "RENAME":
		return "HOp (ORename " + coqName(o.A) + " " + coqName(o.B) + ") " + coqRes(o.res)
	case "SUB":
		return "HOp (OSub " + coqName(o.A) + ") " + coqRes(o.res)
	case "UNSUB":
		return "HOp (OUnsub " + coqName(o.A) + ") " + coqRes(o.res)
	case "CCREATE":
		return "HOp (OConnCreate None " + coqLevels(o.Levels) + ") " + coqRes(o.res)
	case "CDUP":
		return fmt.Sprintf("HOp (OConnCreate (Some %d) %s) %s", o.id, coqLevels(o.Levels), coqRes(o.res))
	case "CDELETE":
		return fmt.Sprintf("HOp (OConnDelete %d) %s", o.id, coqRes(o.res))
	case "CRENAME":
		return fmt.Sprintf("HOp (OConnRename %d %s) %s", o.id, coqLevels(o.Levels), coqRes(o.res))
	case "LIST":
		return "HList false " + coqName(o.A) + " " + coqName(o.B) + " " + coqListed(o.got)
	case "LSUB":
		return "HList true " + coqName(o.A) + " " + coqName(o.B) + " " + coqListed(o.got)
	}
	panic("kind")
}

// ---------- one history on one user ----------
type failure struct {
	step   int
	detail string
}

type runner struct {
	d      string
	cl     []*imapc.Client
	cn     *hconn.Conn
	ref    *refState
	remote map[int]imap.MailboxID // model id -> remote ID
	nconn  int
	ops    []op
	ctx    *common.Ctx
	hist   int
	quiet  bool // replays: no statistics
}

func newRunner(ctx *common.Ctx, s *srv.Server, user int, d string, hist int) (*runner, error) {
	u := s.Opts.Users[user]
	r := &runner{d: d, cn: u.Conn, ref: newRefState(d), remote: map[int]imap.MailboxID{0: "0", 1: recoveryRemoteID}, ctx: ctx, hist: hist}
	for i := 0; i < 3; i++ {
		c, err := s.Login(u.Names[0], u.Pass)
		if err != nil {
			return nil, err
		}
		r.cl = append(r.cl, c)
	}
	r.cn.TakeCalls()
	return r, nil
}

func (r *runner) close() {
	for _, c := range r.cl {
		c.Close()
	}
}

func (r *runner) canon(upto int, tail string) string {
	var p []string
	for i := 0; i <= upto && i < len(r.ops); i++ {
		if r.ops[i].skip {
			continue
		}
		p = append(p, r.ops[i].String())
	}
	return fmt.Sprintf("delim=%q: %s%s", r.d, strings.Join(p, "; "), tail)
}

func (r *runner) wire(sess int, line string) (imapc.Result, error) {
	res, err := r.cl[sess%len(r.cl)].Cmd(line)
	if err != nil {
		return res, fmt.Errorf("connection lost on %q: %v", line, err)
	}
	if res.Status != "OK" && res.Status != "NO" {
		return res, fmt.Errorf("%q answered %s %s", line, res.Status, res.Text)
	}
	return res, nil
}

func (r *runner) listCmd(o *op) ([]listed, error) {
	a, err := encName(o.A)
	if err != nil {
		return nil, err
	}
	b, err := encName(o.B)
	if err != nil {
		return nil, err
	}
	res, err := r.wire(o.Sess, o.Kind+" "+a+" "+b)
	if err != nil {
		return nil, err
	}
	if res.Status != "OK" {
		return nil, fmt.Errorf("%s answered NO %s", o.String(), res.Text)
	}
	return parseList(o.Kind, r.d, res)
}

// fullCheck compares the whole namespace and the whole subscription list with the reference.
func (r *runner) fullCheck(step int) (*failure, error) {
	for _, k := range []string{"LIST", "LSUB"} {
		q := op{Kind: k, A: "", B: "*", Sess: step}
		got, err := r.listCmd(&q)
		if err != nil {
			return nil, err
		}
		want := r.ref.list(k == "LSUB", "", "*")
		r.ctx.Res.Evaluations++
		if !listedEq(got, want) {
			what := "set of mailboxes"
			if k == "LSUB" {
				what = "subscribed names"
			}
			return &failure{step, fmt.Sprintf("%s after the step differs (%s \"\" *): want %s, got %s", what, k, listedStr(want), listedStr(got))}, nil
		}
	}
	return nil, nil
}

// exec runs one op on the server and on the reference; a failure means the property oracle is violated.
func (r *runner) exec(o *op) (*failure, error) {
	step := len(r.ops)
	r.ops = append(r.ops, *o)
	defer func() { r.ops[step] = *o }()
	res := r.ctx.Res
	if !r.quiet {
		res.Count("op:" + o.Kind)
	}
	switch o.Kind {
	case "LIST", "LSUB":
		r.ctx.Current(fmt.Sprintf("delim=%q: %s", r.d, o.String()), o)
		got, err := r.listCmd(o)
		if err != nil {
			if strings.Contains(err.Error(), "unexpected untagged") || strings.Contains(err.Error(), "answered with") ||
				strings.Contains(err.Error(), "delimiter") || strings.Contains(err.Error(), "name ") {
				return &failure{step, err.Error()}, nil
			}
			return nil, err
		}
		o.got = got
		want := r.ref.list(o.Kind == "LSUB", o.A, o.B)
		res.Evaluations++
		if !r.quiet {
			if len(want) > 0 && strings.ContainsAny(o.B, "%*") {
				res.Nontrivial(fmt.Sprintf("%s|%q|%q|%q|%s", o.Kind, r.d, o.A, o.B, listedStr(want)))
			}
			for _, w := range want {
				if !w.Sel {
					res.Count("listed:noselect")
					break
				}
			}
			if len(want) == 0 {
				res.Count("listed:empty")
			}
		}
		if !listedEq(got, want) {
			return &failure{step, fmt.Sprintf("%s: want %s, got %s", o.String(), listedStr(want), listedStr(got))}, nil
		}
		return nil, nil
	case "CREATE", "DELETE", "RENAME", "SUB", "UNSUB":
		var line string
		a, err := encName(o.A)
		if err != nil {
			return nil, err
		}
		var want bool
		var created []string
		switch o.Kind {
		case "CREATE":
			line = "CREATE " + a
			want, created = r.ref.create(o.A)
		case "DELETE":
			line = "DELETE " + a
			want = r.ref.delete(o.A)
		case "SUB":
			line = "SUBSCRIBE " + a
			want = r.ref.subscribe(o.A)
		case "UNSUB":
			line = "UNSUBSCRIBE " + a
			want = r.ref.unsubscribe(o.A)
		case "RENAME":
			b, err := encName(o.B)
			if err != nil {
				return nil, err
			}
			line = "RENAME " + a + " " + b
			want, created = r.ref.rename(o.A, o.B)
		}
		wr, err := r.wire(o.Sess, line)
		if err != nil {
			return nil, err
		}
		o.res = wr.Status == "OK"
		res.Evaluations++
		calls := r.cn.TakeCalls()
		if o.res != want {
			return &failure{step, fmt.Sprintf("%s: reference says %s, server answered %s %s", o.String(), okno(want), wr.Status, wr.Text)}, nil
		}
		if want {
			var ids []imap.MailboxID
			for _, c := range calls {
				if c.Op == "CreateMailbox" && c.Err == "" && len(c.Args) == 2 {
					ids = append(ids, imap.MailboxID(c.Args[1]))
				}
			}
			if len(ids) != len(created) {
				return &failure{step, fmt.Sprintf("%s: %d mailboxes created at the connector, reference creates %q", o.String(), len(ids), created)}, nil
			}
			for i, n := range created {
				r.remote[r.ref.byName(n).ID] = ids[i]
			}
			if !r.quiet {
				if len(created) > 1 {
					res.Count("create:with-parents")
					res.Nontrivial("parents|" + r.d + "|" + o.String())
				}
				if o.Kind == "RENAME" {
					res.Nontrivial("rename|" + r.d + "|" + o.String())
				}
			}
		}
		if !r.quiet {
			res.Count("res:" + o.Kind + ":" + okno(want))
		}
	case "CCREATE", "CDUP", "CDELETE", "CRENAME":
		id := -1
		switch {
		case o.Rec:
			id = 1
		case o.Dead:
			id = -1
		default:
			if row := r.ref.byName(o.Target); row != nil {
				id = row.ID
			} else if o.Kind != "CCREATE" {
				o.skip = true // the mailbox addressed is not there in this (shrunk) history
				return nil, nil
			}
		}
		var want bool
		var u imap.Update
		var after func()
		mk := func(rid imap.MailboxID) imap.Mailbox {
			return imap.Mailbox{ID: rid, Name: append([]string{}, o.Levels...), Flags: r.cn.Flags, PermanentFlags: r.cn.PermFlags, Attributes: r.cn.Attrs}
		}
		switch o.Kind {
		case "CCREATE":
			r.nconn++
			rid := imap.MailboxID(fmt.Sprintf("conn-%d", r.nconn))
			var made bool
			want, made = r.ref.connCreate(-1, o.Levels)
			u = imap.NewMailboxCreated(mk(rid))
			if made {
				nid := r.ref.byName(connName(r.d, o.Levels)).ID
				after = func() { r.remote[nid] = rid; r.cn.PutMailbox(rid, o.Levels) }
			}
		case "CDUP":
			o.id = id
			want, _ = r.ref.connCreate(id, o.Levels)
			u = imap.NewMailboxCreated(mk(r.remote[id]))
		case "CDELETE":
			rid := imap.MailboxID("never-announced")
			if id >= 0 {
				rid = r.remote[id]
				o.id = id
			} else {
				o.id = 1000000
			}
			want = r.ref.connDelete(o.id)
			u = imap.NewMailboxDeleted(rid)
			if id > 1 || id == 0 {
				after = func() { r.cn.DropMailbox(rid) }
			}
		case "CRENAME":
			rid := imap.MailboxID("never-announced")
			if id >= 0 {
				rid = r.remote[id]
				o.id = id
			} else {
				o.id = 1000000
			}
			want = r.ref.connRename(o.id, o.Levels)
			u = imap.NewMailboxUpdated(rid, append([]string{}, o.Levels...))
			if want && id != 1 && id >= 0 {
				after = func() { r.cn.PutMailbox(rid, o.Levels) }
			}
		}
		err, acked := r.cn.Push(u, 60*time.Second)
		if !acked {
			return nil, fmt.Errorf("connector update %s not acknowledged within 60 s", o.String())
		}
		o.res = err == nil
		res.Evaluations++
		if o.res != want {
			return &failure{step, fmt.Sprintf("%s: reference says %s, update acknowledged with error %v", o.String(), okno(want), err)}, nil
		}
		if after != nil {
			after()
		}
		r.cn.TakeCalls()
		if !r.quiet {
			res.Count("res:" + o.Kind + ":" + okno(want))
		}
	}
	return r.fullCheck(step)
}

func okno(b bool) string {
	if b {
		return "OK"
	}
	return "NO"
}

// ---------- servers ----------
func startServer(d string, users int) (*srv.Server, error) {
	var us []srv.User
	for i := 0; i < users; i++ {
		us = append(us, srv.User{Names: []string{fmt.Sprintf("u%d", i)}, Pass: "pass"})
	}
	if d == "" { // srv defaults an empty Delimiter to "/": the later option wins
		return srv.Start(srv.Options{Users: us, ExtraOptions: []gluon.Option{gluon.WithDelimiter("")}})
	}
	return srv.Start(srv.Options{Delimiter: d, Users: us})
}

// replay runs fixed ops on a fresh user of a fresh server; returns the failure (if any) and the ops as run.
func replay(ctx *common.Ctx, d string, ops []op) (*failure, []op, error) {
	s, err := startServer(d, 1)
	if err != nil {
		return nil, nil, err
	}
	defer s.Stop()
	r, err := newRunner(ctx, s, 0, d, 0)
	if err != nil {
		return nil, nil, err
	}
	r.quiet = true
	defer r.close()
	for i := range ops {
		o := ops[i]
		o.skip = false
		f, err := r.exec(&o)
		if err != nil {
			return nil, nil, err
		}
		if f != nil {
			return f, r.ops, nil
		}
	}
	return nil, r.ops, nil
}

// shrink drops ops (greedily, from the end) as long as the history still fails at its last op.
// shrinkBudget bounds the replays of one run (a tree with many defects fails in almost every history)
var shrinkBudget = 200

func shrink(ctx *common.Ctx, d string, ops []op) []op {
	cur := append([]op{}, ops...)
	budget := 40
	for i := len(cur) - 2; i >= 0 && budget > 0 && shrinkBudget > 0; i-- {
		cand := append(append([]op{}, cur[:i]...), cur[i+1:]...)
		budget--
		shrinkBudget--
		f, ran, err := replay(ctx, d, cand)
		if err != nil || f == nil || f.step != len(ran)-1 || len(ran) != len(cand) {
			continue
		}
		cur = cand
	}
	return cur
}

func canonOps(d string, ops []op) string {
	var p []string
	for _, o := range ops {
		if !o.skip {
			p = append(p, o.String())
		}
	}
	return fmt.Sprintf("delim=%q: %s", d, strings.Join(p, "; "))
}

func runC14(ctx *common.Ctx) error {
	rng := ctx.Rng
	res := ctx.Res
	res.Rule = "histories of CREATE/DELETE/RENAME/SUBSCRIBE/UNSUBSCRIBE from 3 sessions and connector MailboxCreated/Updated/Deleted, " +
		"names of depth<=5 with regex metacharacters, spaces, non-ASCII (modified UTF-7), INBOX/recovery variants, leading/trailing/adjacent delimiters; " +
		"after every step LIST \"\" * and LSUB \"\" * (whole state) and generated reference/pattern queries with % and * at every position; " +
		"delimiters / . ] ^ | \\ and the empty delimiter (flat namespace); non-trivial = distinct wildcard queries with a non-empty expected answer, CREATEs that make parents, successful RENAMEs"
	// "" = gluon.WithDelimiter(""): flat namespace, LIST answers NIL; in cases.v it is the byte 0 (occurs in no name)
	delims := []string{"/", ".", "]", "^", "|", "", `\`}
	if e := os.Getenv("C14_DELIMS"); e != "" { // debugging aid: restrict the delimiters
		delims = strings.Fields(e)
	}
	nh := ctx.Budget(14, 70)   // histories per delimiter
	nops := ctx.Budget(30, 45) // mutating steps per history
	if ctx.N > 0 {
		nh, nops = ctx.N, 30
	}
	var lines []string
	caseID := 0

	// (1) the regular-expression class against Go's regexp (trusted engine) and against RFC matching
	nrx := 6000
	if ctx.Tier == "thorough" {
		nrx = 60000
	}
	nmatchCases := 240
	for i := 0; i < nrx; i++ {
		d := delims[rng.Pick(len(delims))]
		g := newGen(rng, d)
		base := g.name(nil)
		ref, pat := g.pattern(base, nil)
		cand := base
		switch rng.Pick(4) {
		case 0:
			cand = g.name(nil)
		case 1:
			cand = g.mutateName(base)
		}
		if pat == "" {
			continue
		}
		got, ok, err := goMatch(ref, pat, d, cand)
		res.Evaluations++
		canon := fmt.Sprintf("match delim=%q ref=%q pattern=%q name=%q", d, ref, pat, cand)
		if err != nil {
			res.Fail(canon, "the regular expression of match() does not compile: "+err.Error(), nil)
			continue
		}
		mgot, mok := modelMatch(ref, pat, d, cand)
		if ok != mok || got != mgot {
			res.Fail("regexp-engine "+canon, fmt.Sprintf("Go regexp gives (%q,%v), the leftmost-first matcher of the model gives (%q,%v) for %s",
				got, ok, mgot, mok, goMatchRegex(ref, pat, d)), nil)
			continue
		}
		want := rfcMatch(delimByte(d), canonFirst(d, ref+pat), cand)
		if want && !(ok && got == cand) {
			res.Fail(canon, fmt.Sprintf("RFC matching selects the name, the expression %s gives (%q,%v)", goMatchRegex(ref, pat, d), got, ok), nil)
			continue
		}
		if ok && !rfcMatch(delimByte(d), canonFirst(d, ref+pat), got) {
			res.Fail(canon, fmt.Sprintf("the expression %s matches %q which RFC matching does not select", goMatchRegex(ref, pat, d), got), nil)
			continue
		}
		if want {
			res.Count("match:selected")
		} else if ok {
			res.Count("match:prefix")
		} else {
			res.Count("match:none")
		}
		if i < nmatchCases || (i%20 == 0 && len(lines) < 2*nmatchCases) {
			caseID++
			obs := "None"
			if ok {
				obs = "(Some " + coqName(got) + ")"
			}
			lines = append(lines, fmt.Sprintf("CMatch %d %d %s %s %s %s", caseID, delimByte(d), coqName(ref), coqName(pat), coqName(cand), obs))
		}
	}

	// (2) histories
	for _, d := range delims {
		s, err := startServer(d, nh)
		if err != nil {
			return err
		}
		for h := 0; h < nh; h++ {
			caseID++
			r, err := newRunner(ctx, s, h, d, caseID)
			if err != nil {
				s.Stop()
				return err
			}
			g := newGen(rng, d)
			var fail *failure
			ctx.Current(fmt.Sprintf("delim=%q: history %d", d, caseID), nil)
			if h == 0 { // the scripted history
				for _, o := range script(d) {
					o.Sess = rng.Pick(3)
					if fail, err = r.exec(&o); err != nil || fail != nil {
						break
					}
				}
			}
			for k := 0; k < nops && fail == nil && h > 0 && err == nil; k++ {
				o := g.mutation(r.ref)
				o.Sess = rng.Pick(3)
				if fail, err = r.exec(&o); err != nil {
					break
				}
				nq := rng.Pick(3)
				for q := 0; q < nq && fail == nil && err == nil; q++ {
					lo := g.query(r.ref)
					lo.Sess = rng.Pick(3)
					fail, err = r.exec(&lo)
				}
			}
			r.close()
			if err != nil {
				s.Stop()
				return err
			}
			if fail != nil {
				ops := append([]op{}, r.ops[:fail.step+1]...)
				small := shrink(ctx, d, ops)
				detail := fail.detail
				if f2, ran, err2 := replay(ctx, d, small); err2 == nil && f2 != nil {
					detail = f2.detail
					small = ran
				}
				res.Fail(canonOps(d, small), detail, map[string]interface{}{"delimiter": d, "ops": small, "full_history": ops})
				res.Count("history:failed")
			} else {
				res.Count("history:ok")
			}
			var st []string
			for _, o := range r.ops {
				if o.skip {
					continue
				}
				if fail != nil && len(st) > fail.step {
					break
				}
				st = append(st, o.coq())
			}
			if fail == nil {
				lines = append(lines, fmt.Sprintf("CHist %d %d [%s]", caseID, delimByte(d), strings.Join(st, ";\n    ")))
			}
			if len(res.Samples) < 6 && len(r.ops) > 6 {
				res.Sample(map[string]interface{}{"delimiter": d, "first_steps": opsStrings(r.ops[:6])})
			}
		}
		if err := s.Stop(); err != nil {
			fmt.Fprintln(os.Stderr, "stop:", err)
		}
	}
	res.ModelCases = len(lines)
	return common.WriteCases(ctx.Out, "Run.RunC14", "case", lines, "")
}

func opsStrings(ops []op) []string {
	p := make([]string, len(ops))
	for i, o := range ops {
		p[i] = o.String()
	}
	return p
}
