(* Correspondence runner for C18.  The harness runs scenarios (several connections, several users) over the wire and
   records the class of every tagged answer; the gate model (Model/AuthGate.v, tables from Gen/FactsCmdClass.v) is run
   on the same command sequence.  For a command that reaches its handler the model has no opinion of its own: the
   handler's result class is an input (the harness' expectation, derived from its reference of the mailboxes), encoded
   in the event argument as arg = 8 * target + code.
   `mismatches` lists scenario_id * 1000 + step_index of the steps whose predicted answer class differs. *)
From Coq Require Import List NArith Bool.
From Gluon Require Export Base.ListX Model.AuthGate.
Import ListNotations.
Open Scope N_scope.

Definition res_code (n : N) : res :=
  match n with 0 => ROk | 1 => RNo | 2 => RBad | 3 => RBye | _ => RNone end.
Definition res_eqb (a b : res) : bool :=
  match a, b with
  | ROk, ROk | RNo, RNo | RBad, RBad | RBye, RBye | RNone, RNone => true
  | _, _ => false
  end.

(* handlers of the run: the result is the expectation carried by the argument; SELECT/EXAMINE target = arg / 8 *)
Definition run_hres (c : cmdk) (arg : N) (sel : option (N * bool)) (s : unit) : res := res_code (arg mod 8).
Definition run_heff (c : cmdk) (arg : N) (sel : option (N * bool)) (s : unit) : unit := tt.

(* one step: connection, command, argument (8*target + expected handler result), login name/password, observed answer *)
Record rstep := mkStep { s_sid : N; s_cmd : cmdk; s_arg : N; s_name : N; s_pass : N; s_obs : res }.
Record case := mkCase { c_id : N; c_creds : list (N * (list N * N)); c_steps : list rstep }.

Definition ev_of (s : rstep) : event := mkEv (s_sid s) (s_cmd s) (s_arg s) (s_name s) (s_pass s) 0.

(* the selection the model tracks uses the raw argument of SELECT/EXAMINE; only its presence matters to the gate *)
Fixpoint check (creds : list (N * (list N * N))) (g : gstate unit) (l : list rstep) (i : N) : list N :=
  match l with
  | [] => []
  | s :: t =>
      let '(g', r, _) := step unit run_hres run_heff creds 0 g (ev_of s) in
      if res_eqb r (s_obs s) then check creds g' t (i + 1) else i :: check creds g' t (i + 1)
  end.

Definition case_bad (c : case) : list N :=
  map (fun i => c_id c * 1000 + i) (check (c_creds c) (init unit (fun _ => tt)) (c_steps c) 0).

Definition mismatches (cs : list case) : list N := flat_map case_bad cs.
