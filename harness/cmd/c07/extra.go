package main

import (
	"fmt"
	"os"
	"path/filepath"
	"strings"
	"time"
)

// startupScenario: crash at every step boundary of the start-up clean-up itself. State before: two messages marked
// deleted whose rows are still there (the server was killed while a session still showed them) and an orphan cache file.
func (w *world) startupScenario() error {
	res := w.ctx.Res
	var snapB *dbSnap
	prepare := func(pfx string) (string, error) {
		d, err := prepAB(w, pfx, 3, true)
		if err != nil {
			closeAll(d)
			return "", err
		}
		defer closeAll(d)
		if err := cmds(d.c, "SELECT "+pfx+"A"); err != nil {
			return "", err
		}
		if err := w.mustPush(&upd{Kind: "MessageDeleted", MsgRID: pfx + "r1"}); err != nil {
			return "", err
		}
		if err := w.mustPush(&upd{Kind: "MessageDeleted", MsgRID: pfx + "r2"}); err != nil {
			return "", err
		}
		v, _, err := viewOf(w.p, pfx)
		if err != nil {
			return "", err
		}
		w.quiesce()
		if snapB, err = w.snap(); err != nil {
			return "", err
		}
		// the process dies while the session is still there: the marked rows and their files stay
		w.p.kill()
		// an orphan cache file (e.g. written by an APPEND whose transaction never committed)
		orphan := filepath.Join(storeDirOf(w.dir), "00000000-0000-4000-8000-0000000000aa")
		files := storeFiles(w.dir)
		if len(files) > 0 {
			b, _ := os.ReadFile(filepath.Join(storeDirOf(w.dir), files[0]))
			os.WriteFile(orphan, b, 0o600)
		}
		return v, nil
	}
	// reference: an undisturbed start-up, with trace
	before, err := prepare("SR_")
	if err != nil {
		return err
	}
	filesB := storeFiles(w.dir)
	p, err := startChild(w.dir, fmt.Sprintf("%d:fail", 1<<30), true)
	w.p = p
	if err != nil {
		return err
	}
	n := p.startSeen
	tr, err := w.p.call(req{Op: "trace_take"})
	if err != nil {
		return err
	}
	sref := &refRun{pfx: "SR_", events: tr.Events, snapBefore: snapB, filesBefore: filesB}
	if sref.snapAfter, err = w.snap(); err != nil {
		return err
	}
	sref.filesAfter = storeFiles(w.dir)
	w.em.emitStartup(sref)
	after, bad, err := viewOf(w.p, "SR_")
	if err != nil {
		return err
	}
	if after != before || len(bad) > 0 {
		res.Fail("restart-changed-view | startup", fmt.Sprintf("before: %s | after: %s | %v", before, after, bad), nil)
	}
	if lo, err := w.leftovers(); err == nil && lo != "" {
		res.Fail("leftovers-after-restart | startup (undisturbed)", lo, nil)
	}
	res.Count(fmt.Sprintf("boundaries:startup=%d", n))
	for _, mode := range []string{"kill", "fail"} {
		for k := 0; k < n; k++ {
			pfx := fmt.Sprintf("S%s%d_", mode[:1], k)
			canon := fmt.Sprintf("startup boundary=%d/%d fault=%s", k, n, mode)
			w.ctx.Current(canon, nil)
			before, err := prepare(pfx)
			if err != nil {
				return fmt.Errorf("prepare %s: %w", canon, err)
			}
			p, err := startChild(w.dir, fmt.Sprintf("%d:%s", k, mode), false)
			fired := false
			if mode == "kill" {
				if err != nil && p != nil && p.died(3*time.Second) {
					fired = true
				}
			} else if err != nil {
				fired = true // LoadUser failed with the injected error
				if p != nil {
					p.kill()
				}
			} else {
				fired = p.startFired
			}
			if err != nil {
				// second start, undisturbed
				if p, err = startChild(w.dir, "", false); err != nil {
					res.Fail("restart-failed | "+canon, err.Error(), nil)
					return err
				}
			}
			w.p = p
			res.Evaluations++
			if !fired {
				res.Count("not-fired:startup")
				continue
			}
			res.Nontrivial(canon)
			if mode == "fail" && err == nil {
				// the server came up although a clean-up step failed: the next clean start must finish the job
				w.cleanQuit(canon)
				if err := w.restart(""); err != nil {
					return err
				}
			}
			after, bad, err := viewOf(w.p, pfx)
			if err != nil {
				return err
			}
			if after != before {
				res.Fail("neither-before-nor-after | "+canon, fmt.Sprintf("before: %s | after: %s", before, after), nil)
			}
			if len(bad) > 0 {
				res.Fail("listed-message-not-fetchable | "+canon, strings.Join(bad, "; "), nil)
			}
			if lo, err := w.leftovers(); err == nil && lo != "" {
				res.Fail("leftovers-after-restart | "+canon, lo, nil)
			}
		}
	}
	return nil
}

// redownloadScenario: a listed message whose cache file is missing is downloaded again from the connector and served
// byte-exact (the connector's copy is journalled, so the restarted server sees the same remote).
func (w *world) redownloadScenario() error {
	res := w.ctx.Res
	d, err := prepAB(w, "RD_", 2, true)
	closeAll(d)
	if err != nil {
		return err
	}
	before, _, err := viewOf(w.p, "RD_")
	if err != nil {
		return err
	}
	s, err := w.snap()
	if err != nil {
		return err
	}
	w.cleanQuit("redownload")
	removed := 0
	for _, m := range s.Ms {
		if strings.HasPrefix(m.RID, "RD_") {
			if os.Remove(filepath.Join(storeDirOf(w.dir), m.IID)) == nil {
				removed++
			}
		}
	}
	if err := w.restart(""); err != nil {
		return err
	}
	after, bad, err := viewOf(w.p, "RD_")
	if err != nil {
		return err
	}
	res.Evaluations++
	res.Nontrivial(fmt.Sprintf("redownload of %d listed messages whose cache file is missing", removed))
	if after != before || len(bad) > 0 {
		res.Fail("missing-cache-file-not-redownloaded | close, remove the cache files of listed messages, reopen",
			fmt.Sprintf("before: %s | after: %s | %v", before, after, bad), nil)
	}
	return nil
}
