package main

// SESSION-VIEW family for C04: what a live session shows must agree with the UID table of the mailbox.
//
// Two or three sessions work on two mailboxes; writers remove and put back messages (UID MOVE onto the same mailbox),
// append, copy, expunge; readers send commands during which EXPUNGE may not be sent (FETCH / SEARCH), NOOP, and SELECT
// another mailbox directly while news for the old one are still pending. Every session is followed by a client mirror
// (sequence number -> UID, built only from EXISTS / EXPUNGE / FETCH responses). After every step and for every session
// with a selected mailbox:
//   - EXISTS never shrinks the mirror, EXPUNGE names a known position;
//   - a position once known keeps its UID until it is expunged (pairing never changes without EXPUNGE);
//   - a newly announced message has a UID greater than every UID the session has shown before in this mailbox;
//   - the listing `UID FETCH 1:* (UID BODY.PEEK[])` is strictly ascending and equals the mirror;
//   - every UID shown is a UID the mailbox holds or held, and the bytes shown under it are the bytes of that UID in the
//     database view (probe session) - in particular the UIDs announced by APPENDUID / COPYUID.
// All queued state updates are applied before the next step starts (verifhook.WaitQuiet), and a session flushes (NOOP)
// before it writes to its own selected mailbox: the recorded findings C01-own-overtakes-queued and
// C01-stale-updates-after-select (updates still QUEUED at the time of an own write / a SELECT) are therefore not provoked.

import (
	"fmt"
	"sort"
	"strings"
	"time"

	"github.com/ProtonMail/gluon/verifhook"

	"verifharness/common"
	"verifharness/imapc"
	"verifharness/mstore"
)

type svStep struct {
	Kind string `json:"kind"` // select append readd copy expunge restricted noop
	Sess int    `json:"sess"`
	Mbox string `json:"mbox,omitempty"`
	Pos  int    `json:"pos,omitempty"` // which message of the selected mailbox (index into the session's mirror, from the end)
	Lit  int    `json:"lit,omitempty"`
	Cmd  string `json:"cmd,omitempty"`
}

func (s svStep) String() string {
	switch s.Kind {
	case "select":
		return fmt.Sprintf("S%d:SELECT %s", s.Sess, s.Mbox)
	case "append":
		return fmt.Sprintf("S%d:APPEND %s L%d", s.Sess, s.Mbox, s.Lit)
	case "readd":
		return fmt.Sprintf("S%d:MOVE #%d onto its own mailbox", s.Sess, s.Pos)
	case "copy":
		return fmt.Sprintf("S%d:COPY #%d %s", s.Sess, s.Pos, s.Mbox)
	case "expunge":
		return fmt.Sprintf("S%d:expunge #%d", s.Sess, s.Pos)
	case "restricted":
		return fmt.Sprintf("S%d:%s", s.Sess, s.Cmd)
	case "noop":
		return fmt.Sprintf("S%d:NOOP", s.Sess)
	}
	return s.Kind
}

func svString(steps []svStep) string {
	p := make([]string, len(steps))
	for i, s := range steps {
		p[i] = s.String()
	}
	return strings.Join(p, "; ")
}

// sview is the picture a client has of the mailbox it selected.
type sview struct {
	c    *imapc.Client
	name string
	uids []int // per sequence number; 0 = announced, UID not learnt yet
	max  int   // highest UID ever shown in this selection
	lits map[int]int
}

type svWorld struct {
	w     *mstore.World
	v     []*sview
	ever  map[string]map[int]int // mailbox -> uid -> literal, as the database view showed it at any time
	base  int64
	viol  string
	lits  *mstore.Literals
	extra []*imapc.Client
}

func (sw *svWorld) fail(format string, a ...interface{}) {
	if sw.viol == "" {
		sw.viol = fmt.Sprintf(format, a...)
	}
}

// run sends a command through the mirror of session i.
func (sw *svWorld) run(i int, cmd string) (imapc.Result, error) {
	v := sw.v[i]
	r, err := v.c.Cmd(cmd)
	if err != nil {
		return r, err
	}
	sw.absorb(i, cmd, r)
	return r, nil
}

func (sw *svWorld) absorb(i int, cmd string, r imapc.Result) {
	v := sw.v[i]
	if v.name == "" {
		return
	}
	who := fmt.Sprintf("S%d (%s) during %q", i, v.name, cmd)
	for _, e := range imapc.Evs(r) {
		switch e.Kind {
		case "EXISTS":
			if e.N < len(v.uids) {
				sw.fail("%s: EXISTS %d shrinks the mailbox (client knows %v)", who, e.N, v.uids)
				return
			}
			for len(v.uids) < e.N {
				v.uids = append(v.uids, 0)
			}
		case "EXPUNGE":
			if e.N < 1 || e.N > len(v.uids) {
				sw.fail("%s: EXPUNGE %d of an unknown sequence number (client knows %v)", who, e.N, v.uids)
				return
			}
			v.uids = append(v.uids[:e.N-1], v.uids[e.N:]...)
		case "FETCH":
			if e.UID == 0 {
				continue
			}
			if e.N < 1 || e.N > len(v.uids) {
				sw.fail("%s: FETCH for sequence number %d, client knows %v", who, e.N, v.uids)
				return
			}
			switch known := v.uids[e.N-1]; {
			case known == 0:
				if e.UID <= v.max {
					sw.fail("%s: the message announced at sequence number %d has UID %d, not above the highest UID %d the session has shown before (client view %v)", who, e.N, e.UID, v.max, v.uids)
					return
				}
				v.uids[e.N-1] = e.UID
				v.max = e.UID
			case known != e.UID:
				sw.fail("%s: sequence number %d was UID %d and is UID %d now, without EXPUNGE (client view %v)", who, e.N, known, e.UID, v.uids)
				return
			}
			if len(e.Lits) > 0 {
				v.lits[e.UID] = sw.lits.Find(e.Lits[0])
			}
		}
	}
}

// learn fetches the UIDs of positions that were announced but are not known yet (in ascending order).
func (sw *svWorld) learn(i int) error {
	v := sw.v[i]
	for seq := 1; seq <= len(v.uids) && sw.viol == ""; seq++ {
		if v.uids[seq-1] != 0 {
			continue
		}
		r, err := sw.run(i, fmt.Sprintf("FETCH %d (UID)", seq))
		if err != nil {
			return err
		}
		if r.Status != "OK" {
			sw.fail("S%d (%s): FETCH %d (UID) of an announced message answered %s %s", i, v.name, seq, r.Status, r.Text)
		} else if seq <= len(v.uids) && v.uids[seq-1] == 0 {
			sw.fail("S%d (%s): no UID reported for the announced sequence number %d", i, v.name, seq)
		}
	}
	return nil
}

func (sw *svWorld) quiet() error {
	max := verifhook.CurrentStateID()
	for id := sw.base + 1; id <= max; id++ {
		if !verifhook.WaitQuiet(id, 30*time.Second) {
			return fmt.Errorf("state %d did not become quiet", id)
		}
	}
	return nil
}

// check compares every live view with the database view.
func (sw *svWorld) check() error {
	d, err := sw.w.DumpAll()
	if err != nil {
		if what, ok := mstore.AsProbe(err); ok {
			sw.fail("database view unreadable: %s", what)
			return nil
		}
		return err
	}
	for _, m := range d.Mboxes {
		if sw.ever[m.Name] == nil {
			sw.ever[m.Name] = map[int]int{}
		}
		for _, r := range m.Rows {
			if l, ok := sw.ever[m.Name][r.UID]; ok && l != r.Lit {
				sw.fail("database view: %s UID %d denoted literal %d and denotes %d now", m.Name, r.UID, l, r.Lit)
			}
			sw.ever[m.Name][r.UID] = r.Lit
		}
	}
	for i, v := range sw.v {
		if v.name == "" || sw.viol != "" {
			continue
		}
		if err := sw.learn(i); err != nil {
			return err
		}
		r, err := sw.run(i, "UID FETCH 1:* (UID BODY.PEEK[])")
		if err != nil {
			return err
		}
		if sw.viol != "" {
			return nil
		}
		if r.Status != "OK" {
			sw.fail("S%d (%s): UID FETCH 1:* answered %s %s", i, v.name, r.Status, r.Text)
			return nil
		}
		if err := sw.learn(i); err != nil {
			return err
		}
		shown := map[int]int{}
		for _, e := range imapc.Evs(r) {
			if e.Kind == "FETCH" && e.UID != 0 {
				shown[e.N] = e.UID
			}
		}
		var seqs []int
		for n := range shown {
			seqs = append(seqs, n)
		}
		sort.Ints(seqs)
		last := 0
		for _, n := range seqs {
			if shown[n] <= last {
				sw.fail("S%d (%s): listing not strictly ascending: sequence number %d has UID %d after UID %d", i, v.name, n, shown[n], last)
				return nil
			}
			last = shown[n]
			l, ok := sw.ever[v.name][shown[n]]
			if !ok {
				sw.fail("S%d (%s): the session shows UID %d, which the mailbox never held (database view: %v)", i, v.name, shown[n], keys(sw.ever[v.name]))
				return nil
			}
			if got, ok := v.lits[shown[n]]; ok && got != l {
				sw.fail("S%d (%s): under UID %d the session shows literal %d, the database view literal %d", i, v.name, shown[n], got, l)
				return nil
			}
		}
	}
	return nil
}

func keys(m map[int]int) []int {
	var k []int
	for x := range m {
		k = append(k, x)
	}
	sort.Ints(k)
	return k
}

// uidAt returns the UID of the pos-th message from the end of session i's mirror (0 if there is none).
func (sw *svWorld) uidAt(i, pos int) int {
	v := sw.v[i]
	var known []int
	for _, u := range v.uids {
		if u != 0 {
			known = append(known, u)
		}
	}
	if len(known) == 0 {
		return 0
	}
	return known[len(known)-1-pos%len(known)]
}

func (sw *svWorld) step(s svStep) error {
	i := s.Sess % len(sw.v)
	v := sw.v[i]
	ownWrite := func() error { // flush before writing to the own selected mailbox
		_, err := sw.run(i, "NOOP")
		if err != nil {
			return err
		}
		return sw.learn(i)
	}
	switch s.Kind {
	case "select":
		r, err := v.c.Cmd("SELECT " + s.Mbox)
		if err != nil {
			return err
		}
		if r.Status != "OK" {
			return fmt.Errorf("SELECT %s: %s", s.Mbox, r.Text)
		}
		v.name, v.uids, v.max, v.lits = s.Mbox, nil, 0, map[int]int{}
		sw.absorb(i, "SELECT "+s.Mbox, r)
	case "append":
		if v.name == s.Mbox {
			if err := ownWrite(); err != nil {
				return err
			}
		}
		r, err := v.c.Append(s.Mbox, "", sw.lits.Bytes[s.Lit])
		if err != nil {
			return err
		}
		sw.absorb(i, "APPEND "+s.Mbox, r)
	case "readd", "expunge", "copy":
		if v.name == "" {
			return nil
		}
		u := sw.uidAt(i, s.Pos)
		if u == 0 {
			return nil
		}
		if s.Kind != "copy" || s.Mbox == v.name {
			if err := ownWrite(); err != nil {
				return err
			}
		}
		switch s.Kind {
		case "readd":
			_, err := sw.run(i, fmt.Sprintf("UID MOVE %d %s", u, v.name))
			return err
		case "copy":
			_, err := sw.run(i, fmt.Sprintf("UID COPY %d %s", u, s.Mbox))
			return err
		default:
			if _, err := sw.run(i, fmt.Sprintf(`UID STORE %d +FLAGS.SILENT (\Deleted)`, u)); err != nil {
				return err
			}
			_, err := sw.run(i, fmt.Sprintf("UID EXPUNGE %d", u))
			return err
		}
	case "restricted":
		if v.name == "" {
			return nil
		}
		cmd := s.Cmd
		if len(v.uids) == 0 {
			cmd = "SEARCH ALL"
		}
		_, err := sw.run(i, cmd)
		return err
	case "noop":
		_, err := sw.run(i, "NOOP")
		return err
	}
	return nil
}

// runSessionView executes the steps; returns the description of the first violation ("" if none).
func runSessionView(steps []svStep, nlits int) (string, error) {
	verifhook.Reset()
	defer verifhook.Reset()
	base := verifhook.CurrentStateID()
	lits := newLits(nlits)
	w, err := mstore.NewWorld(mstore.Config{Burn: 20}, lits)
	if err != nil {
		return "", err
	}
	defer w.Close()
	pre := []mstore.Op{{Kind: "create", Name: "a", RemoteOK: true}, {Kind: "create", Name: "b", RemoteOK: true},
		{Kind: "append", Name: "a", Lit: 0, Remote: "ok"}, {Kind: "append", Name: "a", Lit: 1, Remote: "ok"}, {Kind: "append", Name: "b", Lit: 2, Remote: "ok"}}
	if _, _, err := mstore.Replay(w, pre, func(int, mstore.Op, mstore.Obs, mstore.Dump, mstore.Dump) bool { return true }); err != nil {
		return "", err
	}
	sw := &svWorld{w: w, ever: map[string]map[int]int{}, base: base, lits: lits}
	third, err := w.S.Login()
	if err != nil {
		return "", err
	}
	defer third.Close()
	for _, c := range []*imapc.Client{w.Sess[0], w.Sess[1], third} {
		sw.v = append(sw.v, &sview{c: c, lits: map[int]int{}})
	}
	if err := sw.check(); err != nil {
		return "", err
	}
	for _, s := range steps {
		if err := sw.step(s); err != nil {
			return "", fmt.Errorf("%s: %w", s, err)
		}
		if sw.viol != "" {
			break
		}
		if err := sw.quiet(); err != nil {
			return "", err
		}
		if err := sw.check(); err != nil {
			return "", err
		}
		if sw.viol != "" {
			break
		}
	}
	return sw.viol, nil
}

func genSessionView(rng *common.Rng, n int) []svStep {
	boxes := []string{"a", "b"}
	restricted := []string{"FETCH 1 (FLAGS)", "SEARCH ALL", "UID FETCH 1:* (FLAGS)", "FETCH 1:* (UID)"}
	steps := []svStep{{Kind: "select", Sess: 0, Mbox: "a"}, {Kind: "select", Sess: 1, Mbox: "a"}}
	for len(steps) < n {
		s := rng.Pick(3)
		switch x := rng.Pick(100); {
		case x < 12:
			steps = append(steps, svStep{Kind: "select", Sess: s, Mbox: boxes[rng.Pick(2)]})
		case x < 30:
			steps = append(steps, svStep{Kind: "readd", Sess: s, Pos: rng.Pick(3)})
		case x < 45:
			steps = append(steps, svStep{Kind: "append", Sess: s, Mbox: boxes[rng.Pick(2)], Lit: rng.Pick(5)})
		case x < 58:
			steps = append(steps, svStep{Kind: "copy", Sess: s, Pos: rng.Pick(3), Mbox: boxes[rng.Pick(2)]})
		case x < 64:
			steps = append(steps, svStep{Kind: "expunge", Sess: s, Pos: rng.Pick(3)})
		case x < 88:
			steps = append(steps, svStep{Kind: "restricted", Sess: s, Cmd: restricted[rng.Pick(len(restricted))]})
		default:
			steps = append(steps, svStep{Kind: "noop", Sess: s})
		}
	}
	return steps
}

// shrinkSessionView drops steps while the history still shows a violation.
func shrinkSessionView(steps []svStep, nlits, budget int) []svStep {
	cur := append([]svStep{}, steps...)
	for i := len(cur) - 1; i >= 0 && budget > 0; i-- {
		cand := append(append([]svStep{}, cur[:i]...), cur[i+1:]...)
		budget--
		if v, err := runSessionView(cand, nlits); err == nil && v != "" {
			cur = cand
		}
	}
	return cur
}

// sessionViewFamily runs the scripted and generated histories.
func sessionViewFamily(ctx *common.Ctx, nlits int, id *int) error {
	res := ctx.Res
	scripted := [][]svStep{
		// a newer message queued behind a held put-back: S1 puts message 1 back (new UID) and appends; S0 reads, then NOOP
		{{Kind: "select", Sess: 0, Mbox: "a"}, {Kind: "select", Sess: 1, Mbox: "a"}, {Kind: "readd", Sess: 1, Pos: 1},
			{Kind: "append", Sess: 1, Mbox: "a", Lit: 3}, {Kind: "restricted", Sess: 0, Cmd: "FETCH 1 (FLAGS)"}, {Kind: "restricted", Sess: 0, Cmd: "SEARCH ALL"},
			{Kind: "noop", Sess: 0}, {Kind: "noop", Sess: 0}},
		// news pending for "a" when the session selects "b" directly; another session then copies into "b"
		{{Kind: "select", Sess: 0, Mbox: "a"}, {Kind: "select", Sess: 1, Mbox: "a"}, {Kind: "readd", Sess: 1, Pos: 0},
			{Kind: "restricted", Sess: 0, Cmd: "FETCH 1 (FLAGS)"}, {Kind: "select", Sess: 0, Mbox: "b"}, {Kind: "copy", Sess: 1, Pos: 0, Mbox: "b"},
			{Kind: "noop", Sess: 0}, {Kind: "restricted", Sess: 0, Cmd: "FETCH 1:* (UID)"}, {Kind: "noop", Sess: 0}},
		// the same with the session itself copying into the mailbox it has just selected
		{{Kind: "select", Sess: 0, Mbox: "a"}, {Kind: "select", Sess: 1, Mbox: "a"}, {Kind: "readd", Sess: 1, Pos: 1}, {Kind: "append", Sess: 2, Mbox: "a", Lit: 4},
			{Kind: "restricted", Sess: 0, Cmd: "SEARCH ALL"}, {Kind: "select", Sess: 0, Mbox: "b"}, {Kind: "copy", Sess: 0, Pos: 0, Mbox: "b"}, {Kind: "noop", Sess: 0},
			{Kind: "select", Sess: 0, Mbox: "a"}, {Kind: "noop", Sess: 0}},
	}
	n := ctx.Budget(10, 120)
	for ci := 0; ci < len(scripted)+n; ci++ {
		*id++
		var steps []svStep
		if ci < len(scripted) {
			steps = scripted[ci]
		} else {
			steps = genSessionView(ctx.Rng, 14)
		}
		ctx.Current("session-view ["+svString(steps)+"]", steps)
		v, err := runSessionView(steps, nlits)
		if err != nil {
			return fmt.Errorf("session-view [%s]: %w", svString(steps), err)
		}
		res.Evaluations += len(steps)
		res.Count("session-view")
		res.Nontrivial("session-view " + svString(steps))
		if v != "" {
			small := shrinkSessionView(steps, nlits, 25)
			res.Fail("session-view-disagrees-with-uid-table ["+svString(small)+"]", v, steps)
		}
	}
	return nil
}
