package main

import (
	"fmt"
	"time"

	"github.com/ProtonMail/gluon/imap"

	"verifharness/mstore"
)

func main() {
	lits := &mstore.Literals{}
	lits.AddRaw(0, "X-Pm-Gluon-Id: 11111111-2222-3333-4444-555555555555\r\nDate: Mon, 01 Jan 2024 10:00:00 +0000\r\nFrom: a@example.com\r\nTo: b@example.com\r\nSubject: with id\r\n\r\nbody\r\n")
	w, err := mstore.NewWorld(mstore.Config{Burn: 20, BurnStep: 60}, lits)
	if err != nil {
		panic(err)
	}
	defer w.Close()
	show := func() {
		d, _ := w.DumpAll()
		m := d.Get("INBOX")
		fmt.Printf("INBOX uidnext %d:", m.UIDNext)
		for _, r := range m.Rows {
			fmt.Printf(" (uid %d)", r.UID)
		}
		fmt.Println()
	}
	if _, err := w.Do(mstore.Op{Kind: "connmsgs", Batch: []mstore.BatchMsg{{Lit: 0, Mboxes: []string{"INBOX"}}}}); err != nil {
		panic(err)
	}
	show()
	mid, _ := w.Conn.MailboxIDByName([]string{"INBOX"})
	ids := w.Conn.MessagesWhere(mid, func([]byte) bool { return true })
	lit, _, _, _ := w.Conn.MessageInfo(ids[0])
	pm, _ := imap.NewParsedMessage(lit)
	for k := 0; k < 2; k++ {
		err, acked := w.Conn.Push(imap.NewMessageUpdated(imap.Message{ID: ids[0], Flags: imap.NewFlagSet(`\Seen`), Date: time.Unix(1700000000, 0)}, lit, []imap.MailboxID{mid}, pm, false), 30*time.Second)
		fmt.Println("MessageUpdated with the literal the remote has:", err, acked)
		show()
	}
}
