(* Correspondence runner shared by C04, C17, C20: the harness (harness/mstore) records histories it ran on the real
   server over the wire, what every command / connector update answered, and the complete mailbox contents at the
   end; `mismatches` lists the cases on which Model.MailStore (instantiated with the facts T1 extracted from the tree
   under test) disagrees.
   The UIDVALIDITY generator of every server incarnation is advanced by the harness beyond the clock before the server
   starts (its last value is k_g0 / RGen g), so generated values do not depend on wall-clock time during a case; the
   clock-dependent branch of Generate is compared separately (gcase). *)
From Coq Require Import List ZArith NArith Bool.
From Gluon Require Export Model.UidValidityGen Model.MailStore Model.MailStoreDedup Model.MailStoreUpdate.
Import ListNotations.
Open Scope Z_scope.

Inductive oclass := KOk | KNoLimit | KNo | KNoKnown | KNoSize | KOther.
Record obs := mkObs { ob_class : oclass; ob_pairs : list (Z * Z) }.
Inductive rstep :=
| RS (o : op) (ob : obs)
| RGen (g : Z)               (* after ORestart: the fresh generator was advanced to g before the server started *)
| RI (io : iop)
| RD (o : op) (ob : obs)     (* the operation with a de-duplicating remote (Model.MailStoreDedup.step_dedup) *)
| RU (name : path) (uid : Z) (newlit : option N) (names : list path) (ob : obs).
                             (* connector MessageUpdated for the message at name/uid (Model.MailStoreUpdate.conn_update) *)
Record mdump := mkDump { d_name : path; d_uidv : Z; d_uidnext : Z; d_rows : list (Z * N) }.
Record case := mkCase { k_id : nat; k_cfg : cfg; k_hash : list (N * option N); k_g0 : Z; k_steps : list rstep;
                        k_final : list mdump; k_listed : bool }.

(* hash table of the case: literal -> Some hash class | None (GetMessageHash fails for that literal) *)
Fixpoint assocN (x : N) (l : list (N * option N)) : option (option N) :=
  match l with [] => None | (a, b) :: t => if N.eqb a x then Some b else assocN x t end.
Definition hashf (tbl : list (N * option N)) (l : N) : option N :=
  match assocN l tbl with Some h => h | None => Some (l + 1000000)%N end.

Definition class_of (r : result) : oclass :=
  match r with ResOk _ => KOk | ResNoLimit => KNoLimit | ResNo => KNo | ResNoKnown => KNoKnown | ResNoSize => KNoSize end.
Definition oclass_eqb (a b : oclass) : bool :=
  match a, b with
  | KOk, KOk | KNoLimit, KNoLimit | KNo, KNo | KNoKnown, KNoKnown | KNoSize, KNoSize | KOther, KOther => true
  | _, _ => false
  end.
Fixpoint zpairs_eqb (a b : list (Z * Z)) : bool :=
  match a, b with
  | [], [] => true
  | (x, y) :: a', (u, v) :: b' => Z.eqb x u && Z.eqb y v && zpairs_eqb a' b'
  | _, _ => false
  end.
Definition res_matches (r : result) (ob : obs) : bool :=
  oclass_eqb (class_of r) (ob_class ob) &&
  match r with ResOk p => zpairs_eqb p (ob_pairs ob) | _ => true end.

Definition clock0 : nat -> Z := fun _ => 0.
Definition set_gen (g : Z) (s : store) : store :=
  mkStore (s_mboxes s) (s_nextid s) (s_nextmsg s) g (s_tick s) (s_hashes s) (s_log s).

(* runs the steps; returns the final state and whether every observed result matched *)
Fixpoint run_steps (k : case) (st : store * pending) (l : list rstep) : (store * pending) * bool :=
  match l with
  | [] => (st, true)
  | RS o ob :: t =>
    let '(s', r) := step (hashf (k_hash k)) facts_now (k_cfg k) clock0 (fst st) o in
    let '(st2, ok) := run_steps k (s', snd st) t in
    (st2, res_matches r ob && ok)
  | RGen g :: t => run_steps k (set_gen g (fst st), snd st) t
  | RI io :: t => run_steps k (istep (hashf (k_hash k)) facts_now (k_cfg k) clock0 st io) t
  | RD o ob :: t =>
    let '(s', r) := step_dedup (hashf (k_hash k)) facts_now (k_cfg k) clock0 (fst st) o in
    let '(st2, ok) := run_steps k (s', snd st) t in
    (st2, res_matches r ob && ok)
  | RU n u l ns ob :: t =>
    let '(s', r) := conn_update (k_cfg k) (fst st) n u l ns in
    let '(st2, ok) := run_steps k (s', snd st) t in
    (st2, res_matches r ob && ok)
  end.

Fixpoint rows_eqb (a : list row) (b : list (Z * N)) : bool :=
  match a, b with
  | [], [] => true
  | (u, (_, l)) :: a', (v, m) :: b' => Z.eqb u v && N.eqb l m && rows_eqb a' b'
  | _, _ => false
  end.
Definition dump_ok (s : store) (d : mdump) : bool :=
  match find_name (d_name d) (s_mboxes s) with
  | None => false
  | Some m => Z.eqb (mb_uidv m) (d_uidv d) && Z.eqb (mb_seq m + 1) (d_uidnext d) && rows_eqb (mb_rows m) (d_rows d)
  end.

(* newUser generates k_g0 + 1 for the recovery mailbox; the connector then announces INBOX *)
Definition start_store (k : case) : store :=
  fst (step (hashf (k_hash k)) facts_now (k_cfg k) clock0 (init_store (k_g0 k + 1)) (OConnCreate inbox_name)).

Definition case_ok (k : case) : bool :=
  let '(st, ok) := run_steps k (start_store k, []) (k_steps k) in
  let s := fst st in
  ok && forallb (dump_ok s) (k_final k) && Nat.eqb (length (s_mboxes s)) (length (k_final k))
     && Bool.eqb (existsb (path_eqb recov_name) (listed s)) (k_listed k).

(* direct cases for the generator: observed value must equal uv_generate for some clock reading inside the bracket
   [lo, hi] the harness measured around the call; `last` is chained from the previous observation *)
Record gcase := mkGCase { g_id : nat; g_last : Z; g_lo : Z; g_hi : Z; g_obs : option Z }.
Definition uv_eqb (r : uv_res) (o : option Z) : bool :=
  match r, o with UvOk v, Some w => Z.eqb v w | UvErr, None => true | _, _ => false end.
Definition gcase_ok (g : gcase) : bool :=
  uv_eqb (uv_generate (g_lo g) (g_last g)) (g_obs g) || uv_eqb (uv_generate (g_hi g) (g_last g)) (g_obs g).

Definition mismatches (cs : list case) : list nat := map k_id (filter (fun k => negb (case_ok k)) cs).
Definition gmismatches (gs : list gcase) : list nat := map g_id (filter (fun g => negb (gcase_ok g)) gs).
