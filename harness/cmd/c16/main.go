package main

import (
	"fmt"
	"math/big"
	"regexp"
	"sort"
	"strconv"
	"strings"

	"verifharness/common"
	"verifharness/imapc"
	"verifharness/srv"
)

func main() { common.Main("C16", runC16) }

type wnum struct {
	Star bool
	N    *big.Int
}

func (w wnum) String() string {
	if w.Star {
		return "*"
	}
	return w.N.String()
}
func (w wnum) coq() string {
	if w.Star {
		return "WStar"
	}
	return "WNum " + w.N.String()
}

type wrange struct {
	A, B   wnum
	Single bool
}

func (r wrange) String() string {
	if r.Single {
		return r.A.String()
	}
	return r.A.String() + ":" + r.B.String()
}

type c16case struct {
	ID    int    `json:"id"`
	Kind  string `json:"kind"`
	UIDs  []int  `json:"uids"`
	Set   string `json:"set"`
	Obs   string `json:"obs"`
	Want  string `json:"want"`
	set   []wrange
	obsS  []int
	obsK  string // BAD NO SEL OTHER
	dedup bool
}

var (
	two32 = new(big.Int).Lsh(big.NewInt(1), 32)
	two31 = new(big.Int).Lsh(big.NewInt(1), 31)
	two63 = new(big.Int).Lsh(big.NewInt(1), 63)
	two64 = new(big.Int).Lsh(big.NewInt(1), 64)
)

func bi(x int64) *big.Int              { return big.NewInt(x) }
func add(a *big.Int, k int64) *big.Int { return new(big.Int).Add(a, bi(k)) }

func genNum(rng *common.Rng, cnt int, maxuid int, uidMode bool) wnum {
	ref := cnt
	if uidMode {
		ref = maxuid
	}
	switch x := rng.Pick(100); {
	case x < 12:
		return wnum{Star: true}
	case x < 55:
		if ref == 0 {
			return wnum{N: bi(int64(rng.Range(1, 3)))}
		}
		return wnum{N: bi(int64(rng.Range(1, ref)))}
	case x < 65:
		return wnum{N: bi(int64(ref + rng.Range(1, 3)))}
	case x < 68:
		return wnum{N: bi(0)}
	case x < 76: // alias of an existing number modulo 2^32
		return wnum{N: add(two32, int64(rng.Range(0, ref+1)))}
	case x < 82: // alias modulo 2^64
		return wnum{N: add(two64, int64(rng.Range(0, ref+1)))}
	case x < 86:
		return wnum{N: add(two31, int64(rng.Range(-1, 1)))}
	case x < 90:
		return wnum{N: add(two32, int64(rng.Range(-2, -1)))}
	case x < 94:
		return wnum{N: add(two63, int64(rng.Range(-1, 1)))}
	case x < 97:
		return wnum{N: add(two64, int64(rng.Range(-1, 0)))}
	default:
		k := new(big.Int).Mul(two64, bi(int64(rng.Range(2, 9))))
		return wnum{N: add(k, int64(rng.Range(0, ref+1)))}
	}
}

func genSet(rng *common.Rng, cnt, maxuid int, uidMode bool) []wrange {
	n := 1
	if rng.Chance(0.45) {
		n = rng.Range(2, 4)
	}
	var s []wrange
	for i := 0; i < n; i++ {
		a := genNum(rng, cnt, maxuid, uidMode)
		if rng.Chance(0.45) {
			s = append(s, wrange{A: a, B: a, Single: true})
		} else {
			s = append(s, wrange{A: a, B: genNum(rng, cnt, maxuid, uidMode)})
		}
	}
	// bias: make most sets fully valid so that the non-BAD branch is exercised
	return s
}

func setString(s []wrange) string {
	p := make([]string, len(s))
	for i, r := range s {
		p[i] = r.String()
	}
	return strings.Join(p, ",")
}

func setCoq(s []wrange) string {
	p := make([]string, len(s))
	for i, r := range s {
		p[i] = "(" + r.A.coq() + ", " + r.B.coq() + ")"
	}
	return "[" + strings.Join(p, "; ") + "]"
}

// ---- the property oracle (RFC denotation, independent of the Coq model) ----
// returns expectation kind ("BAD" or "SEL"), the base set and optional extras (exempt ranges).
func c16Spec(uidMode bool, uids []int, s []wrange) (string, []int, []int) {
	cnt := len(uids)
	if !uidMode {
		if cnt == 0 {
			return "BAD", nil, nil
		}
		var sel []int
		for _, r := range s {
			val := func(w wnum) *big.Int {
				if w.Star {
					return bi(int64(cnt))
				}
				return w.N
			}
			a, b := val(r.A), val(r.B)
			if a.Sign() <= 0 || b.Sign() <= 0 || a.Cmp(bi(int64(cnt))) > 0 || b.Cmp(bi(int64(cnt))) > 0 {
				return "BAD", nil, nil
			}
			lo, hi := int(a.Int64()), int(b.Int64())
			if lo > hi {
				lo, hi = hi, lo
			}
			for p := lo; p <= hi; p++ {
				sel = append(sel, p)
			}
		}
		return "SEL", sel, nil
	}
	// uid mode
	for _, r := range s {
		for _, w := range []wnum{r.A, r.B} {
			if !w.Star && (w.N.Sign() <= 0 || w.N.Cmp(two32) >= 0) {
				return "BAD", nil, nil // not a valid uniqueid: must be refused (never mapped onto another UID)
			}
		}
	}
	if cnt == 0 {
		return "SEL", nil, nil
	}
	last := uids[cnt-1]
	var sel, extra []int
	for _, r := range s {
		exempt := false
		if !r.Single && (r.A.Star != r.B.Star) {
			n := r.A.N
			if r.A.Star {
				n = r.B.N
			}
			if n.Cmp(bi(int64(last))) > 0 {
				exempt = true
			}
		}
		if exempt {
			extra = append(extra, last)
			continue
		}
		val := func(w wnum) int64 {
			if w.Star {
				return int64(last)
			}
			return w.N.Int64()
		}
		lo, hi := val(r.A), val(r.B)
		if lo > hi {
			lo, hi = hi, lo
		}
		for _, u := range uids {
			if int64(u) >= lo && int64(u) <= hi {
				sel = append(sel, u)
			}
		}
	}
	return "SEL", sel, extra
}

func subsetOf(a, b []int) bool {
	m := map[int]bool{}
	for _, x := range b {
		m[x] = true
	}
	for _, x := range a {
		if !m[x] {
			return false
		}
	}
	return true
}

func setEq(a, b []int) bool { return subsetOf(a, b) && subsetOf(b, a) }

type c16box struct {
	name string
	uids []int
}

// buildBox creates mailbox name with n messages and expunges the given positions (1-based, descending order applied).
func c16BuildBox(c *imapc.Client, name string, n int, drop []int) ([]int, error) {
	if r, err := c.Cmd("CREATE " + name); err != nil || r.Status != "OK" {
		return nil, fmt.Errorf("create %s: %v %v", name, err, r.Text)
	}
	for i := 0; i < n; i++ {
		r, err := c.Append(name, "", common.Message(fmt.Sprintf("%s-%d", name, i+1), "x"))
		if err != nil || r.Status != "OK" {
			return nil, fmt.Errorf("append: %v %v", err, r.Text)
		}
	}
	if r, err := c.Cmd("SELECT " + name); err != nil || r.Status != "OK" {
		return nil, fmt.Errorf("select: %v %v", err, r.Text)
	}
	if len(drop) > 0 {
		ds := make([]string, len(drop))
		for i, d := range drop {
			ds[i] = strconv.Itoa(d)
		}
		if r, err := c.Cmd("STORE " + strings.Join(ds, ",") + " +FLAGS.SILENT (\\Deleted)"); err != nil || r.Status != "OK" {
			return nil, fmt.Errorf("store deleted: %v %v", err, r.Text)
		}
		if r, err := c.Cmd("EXPUNGE"); err != nil || r.Status != "OK" {
			return nil, fmt.Errorf("expunge: %v %v", err, r.Text)
		}
	}
	return c16UIDs(c)
}

func c16UIDs(c *imapc.Client) ([]int, error) {
	r, err := c.Cmd("UID SEARCH ALL")
	if err != nil || r.Status != "OK" {
		return nil, fmt.Errorf("uid search all: %v %v", err, r.Text)
	}
	var uids []int
	for _, e := range imapc.Evs(r) {
		if e.Kind == "SEARCH" {
			uids = append(uids, e.Nums...)
		}
	}
	sort.Ints(uids)
	return uids, nil
}

var reCopyUID = regexp.MustCompile(`COPYUID (\d+) (\S+) (\S+)\]`)

func expandSet(s string) []int {
	var out []int
	for _, p := range strings.Split(s, ",") {
		if i := strings.Index(p, ":"); i >= 0 {
			a, _ := strconv.Atoi(p[:i])
			b, _ := strconv.Atoi(p[i+1:])
			if a > b {
				a, b = b, a
			}
			for x := a; x <= b; x++ {
				out = append(out, x)
			}
		} else {
			a, _ := strconv.Atoi(p)
			out = append(out, a)
		}
	}
	return out
}

func posOf(uids []int, u int) int {
	for i, x := range uids {
		if x == u {
			return i + 1
		}
	}
	return -1
}

func runC16(ctx *common.Ctx) error {
	s, err := srv.Start(srv.Options{})
	if err != nil {
		return err
	}
	defer s.Stop()
	c, err := s.Login()
	if err != nil {
		return err
	}
	defer c.Close()
	rng := ctx.Rng
	res := ctx.Res
	res.Rule = "generated message sets (magnitudes 0,1..count+3,2^31±1,2^32±k,2^63±1,2^64±k,k*2^64+j; ranges both orders; *; unions) x command kinds x views (sizes 0..12, UID gaps) on the wire; non-trivial = distinct (kind,view,set) whose expected result is a non-empty selection or a BAD required by a number beyond the view"

	type view struct {
		n    int
		drop []int
	}
	views := []view{{0, nil}, {1, nil}, {3, []int{1}}, {6, []int{2, 5}}, {12, []int{1, 4, 5, 9}}, {5, nil}}
	if ctx.Tier == "thorough" {
		views = append(views, view{30, []int{3, 7, 8, 20, 29}}, view{2, []int{2}}, view{50, []int{10, 11, 12, 40}})
	}
	perView := ctx.Budget(45, 400)
	kinds := []string{"FETCH", "UIDFETCH", "STORE", "UIDSTORE", "SEARCH", "SEARCHUID", "UIDSEARCH", "UIDSEARCHUID", "COPY", "UIDCOPY"}
	destructive := []string{"MOVE", "UIDMOVE", "UIDEXPUNGE"}
	var cases []*c16case
	id := 0
	boxN := 0
	if r, err := c.Cmd("CREATE dest"); err != nil || r.Status != "OK" {
		return fmt.Errorf("create dest")
	}

	runCase := func(box string, uids []int, kind string, set []wrange) (*c16case, error) {
		id++
		cs := &c16case{ID: id, Kind: kind, UIDs: append([]int{}, uids...), Set: setString(set), set: set}
		uidMode := strings.HasPrefix(kind, "UID") && kind != "UIDSEARCH" || kind == "SEARCHUID"
		if kind == "UIDSEARCHUID" {
			uidMode = true
		}
		ss := setString(set)
		res.Current(ctx.Out, fmt.Sprintf("%s uids=%v set=%s", kind, uids, ss), cs)
		var r imapc.Result
		var err error
		sel := []int{}
		classify := func(r imapc.Result) bool {
			switch r.Status {
			case "BAD":
				cs.obsK = "BAD"
			case "NO":
				cs.obsK = "NO"
			case "OK":
				cs.obsK = "SEL"
				return true
			default:
				cs.obsK = "OTHER"
			}
			return false
		}
		switch kind {
		case "FETCH", "UIDFETCH":
			cmd := "FETCH "
			if kind == "UIDFETCH" {
				cmd = "UID FETCH "
			}
			r, err = c.Cmd(cmd + ss + " (UID)")
			if err != nil {
				return nil, err
			}
			if classify(r) {
				for _, e := range imapc.Evs(r) {
					if e.Kind == "FETCH" {
						if kind == "FETCH" {
							sel = append(sel, e.N)
							if e.N < 1 || e.N > len(uids) || uids[e.N-1] != e.UID {
								cs.obsK = "OTHER"
							}
						} else {
							sel = append(sel, e.UID)
						}
					}
				}
			}
		case "STORE", "UIDSTORE":
			kw := fmt.Sprintf("kw%d", id)
			cmd := "STORE "
			if kind == "UIDSTORE" {
				cmd = "UID STORE "
			}
			r, err = c.Cmd(cmd + ss + " +FLAGS.SILENT (" + kw + ")")
			if err != nil {
				return nil, err
			}
			cs.dedup = true
			if classify(r) && len(uids) > 0 {
				r2, err := c.Cmd("FETCH 1:* (UID FLAGS)")
				if err != nil || r2.Status != "OK" {
					return nil, fmt.Errorf("probe fetch failed: %v %v", err, r2.Text)
				}
				for _, e := range imapc.Evs(r2) {
					if e.Kind == "FETCH" {
						for _, f := range e.Flags {
							if f == kw {
								if kind == "STORE" {
									sel = append(sel, e.N)
								} else {
									sel = append(sel, e.UID)
								}
							}
						}
					}
				}
			}
		case "SEARCH", "SEARCHUID", "UIDSEARCH", "UIDSEARCHUID":
			var cmd string
			switch kind {
			case "SEARCH":
				cmd = "SEARCH " + ss
			case "SEARCHUID":
				cmd = "SEARCH UID " + ss
			case "UIDSEARCH":
				cmd = "UID SEARCH " + ss
			case "UIDSEARCHUID":
				cmd = "UID SEARCH UID " + ss
			}
			cs.dedup = true
			r, err = c.Cmd(cmd)
			if err != nil {
				return nil, err
			}
			if classify(r) {
				for _, e := range imapc.Evs(r) {
					if e.Kind == "SEARCH" {
						for _, x := range e.Nums {
							switch kind {
							case "SEARCH", "UIDSEARCHUID":
								sel = append(sel, x)
							case "SEARCHUID": // positions returned, selection is by UID
								if x < 1 || x > len(uids) {
									cs.obsK = "OTHER"
								} else {
									sel = append(sel, uids[x-1])
								}
							case "UIDSEARCH": // uids returned, selection is by position
								p := posOf(uids, x)
								if p < 0 {
									cs.obsK = "OTHER"
								} else {
									sel = append(sel, p)
								}
							}
						}
					}
				}
			}
		case "COPY", "UIDCOPY":
			cmd := "COPY "
			if kind == "UIDCOPY" {
				cmd = "UID COPY "
			}
			cs.dedup = true
			r, err = c.Cmd(cmd + ss + " dest")
			if err != nil {
				return nil, err
			}
			if classify(r) {
				if m := reCopyUID.FindStringSubmatch(r.Text); m != nil {
					for _, u := range expandSet(m[2]) {
						if kind == "COPY" {
							p := posOf(uids, u)
							if p < 0 {
								cs.obsK = "OTHER"
							}
							sel = append(sel, p)
						} else {
							sel = append(sel, u)
						}
					}
				}
			}
		case "MOVE", "UIDMOVE", "UIDEXPUNGE":
			cs.dedup = true
			if kind == "UIDEXPUNGE" {
				if len(uids) > 0 {
					if r0, err := c.Cmd("STORE 1:* +FLAGS.SILENT (\\Deleted)"); err != nil || r0.Status != "OK" {
						return nil, fmt.Errorf("mark deleted: %v %v", err, r0.Text)
					}
				}
				r, err = c.Cmd("UID EXPUNGE " + ss)
			} else if kind == "MOVE" {
				r, err = c.Cmd("MOVE " + ss + " dest")
			} else {
				r, err = c.Cmd("UID MOVE " + ss + " dest")
			}
			if err != nil {
				return nil, err
			}
			if classify(r) {
				after, err := c16UIDs(c)
				if err != nil {
					return nil, err
				}
				for i, u := range uids {
					if posOf(after, u) < 0 {
						if kind == "MOVE" {
							sel = append(sel, i+1)
						} else {
							sel = append(sel, u)
						}
					}
				}
			}
		}
		if cs.obsK == "SEL" {
			sort.Ints(sel)
			if cs.dedup {
				sel = common.DedupSorted(sel)
			}
			cs.obsS = sel
			cs.Obs = fmt.Sprint(sel)
		} else {
			cs.Obs = cs.obsK
		}
		// oracle
		wk, base, extra := c16Spec(uidMode, uids, set)
		cs.Want = wk
		if wk == "SEL" {
			cs.Want = fmt.Sprint(common.DedupSorted(common.SortedInts(base)))
		}
		ok := false
		if wk == "BAD" {
			ok = cs.obsK == "BAD"
		} else if cs.obsK == "SEL" {
			all := append(append([]int{}, base...), extra...)
			ok = subsetOf(base, sel) && subsetOf(sel, all)
		}
		canon := fmt.Sprintf("%s view=%v set=%s", kind, uids, ss)
		if !ok {
			res.Fail(fmt.Sprintf("%s uids=%v set=%s -> %s", kind, uids, ss, cs.Obs), fmt.Sprintf("expected %s got %s", cs.Want, cs.Obs), cs)
		}
		if (wk == "SEL" && len(base) > 0) || wk == "BAD" {
			res.Nontrivial(canon)
		}
		res.Count("kind:" + kind)
		res.Count("expect:" + wk)
		res.Count(fmt.Sprintf("viewsize:%d", len(uids)))
		res.Evaluations++
		res.Sample(cs)
		cases = append(cases, cs)
		_ = box
		return cs, nil
	}

	// corpus: fixed regression cases first (minimised earlier failures)
	corpus := []struct {
		kind string
		set  string
	}{
		{"FETCH", "4294967297"}, {"FETCH", "18446744073709551617"}, {"STORE", "4294967297"}, {"SEARCH", "4294967297"},
		{"SEARCH", "7"}, {"UIDFETCH", "4294967298"}, {"COPY", "4294967297:4294967298"}, {"FETCH", "1:*"}, {"FETCH", "*:1"},
		{"SEARCH", "*"}, {"SEARCHUID", "1:*"}, {"UIDSEARCHUID", "1:5"}, {"FETCH", "9223372036854775808"}, {"FETCH", "0"},
		{"UIDFETCH", "4294967295"}, {"FETCH", "4294967296"}, {"FETCH", "2,18446744073709551618"},
	}
	parseSet := func(s string) []wrange {
		var out []wrange
		for _, p := range strings.Split(s, ",") {
			pn := func(x string) wnum {
				if x == "*" {
					return wnum{Star: true}
				}
				n, _ := new(big.Int).SetString(x, 10)
				return wnum{N: n}
			}
			if i := strings.Index(p, ":"); i >= 0 {
				out = append(out, wrange{A: pn(p[:i]), B: pn(p[i+1:])})
			} else {
				out = append(out, wrange{A: pn(p), B: pn(p), Single: true})
			}
		}
		return out
	}

	for vi, v := range views {
		boxN++
		name := fmt.Sprintf("box%d", boxN)
		uids, err := c16BuildBox(c, name, v.n, v.drop)
		if err != nil {
			return err
		}
		maxuid := 0
		if len(uids) > 0 {
			maxuid = uids[len(uids)-1]
		}
		if vi < 3 || vi == 4 {
			for _, cc := range corpus {
				if _, err := runCase(name, uids, cc.kind, parseSet(cc.set)); err != nil {
					return err
				}
			}
		}
		// boundary shapes relative to this view: ranges that start inside the view and end just beyond it (both orders),
		// a valid member followed by one beyond, the last message and its successor
		if n := len(uids); n >= 1 {
			rel := []string{
				fmt.Sprintf("1:%d", n+1), fmt.Sprintf("%d:%d", n+2, n), fmt.Sprintf("%d,%d", n, n+1),
				fmt.Sprintf("1:%d,%d:%d", n, n+1, n+3), fmt.Sprintf("%d:%d", n, n+1), fmt.Sprintf("%d:*", n+1), fmt.Sprintf("*:%d", n+1),
			}
			for _, kind := range []string{"FETCH", "STORE", "SEARCH", "UIDSEARCH", "COPY"} {
				for _, r := range rel {
					if _, err := runCase(name, uids, kind, parseSet(r)); err != nil {
						return err
					}
				}
			}
			// UID sets around missing UIDs: a missing UID first, in the middle and last of a union
			if maxuid >= 2 {
				missing := 0
				for u := 1; u <= maxuid+1; u++ {
					if posOf(uids, u) < 0 {
						missing = u
						break
					}
				}
				// the largest UID a client can write (2^32-1) as a range bound: a legal way of saying "up to the end"
				for _, kind := range []string{"UIDFETCH", "UIDSTORE", "UIDCOPY", "UIDSEARCHUID", "SEARCHUID"} {
					for _, r := range []string{
						"1:4294967295", "2:4294967295", "4294967295:1", fmt.Sprintf("%d:4294967295", maxuid),
						"4294967294:4294967295", fmt.Sprintf("%d,4294967295", uids[0]), fmt.Sprintf("%d:4294967294", uids[0]),
					} {
						if _, err := runCase(name, uids, kind, parseSet(r)); err != nil {
							return err
						}
					}
				}
				for _, kind := range []string{"UIDFETCH", "UIDSTORE", "UIDCOPY", "UIDSEARCHUID", "SEARCHUID"} {
					for _, r := range []string{
						fmt.Sprintf("%d,%d", missing, uids[0]), fmt.Sprintf("%d,%d,%d", uids[0], missing, uids[len(uids)-1]),
						fmt.Sprintf("%d,%d", uids[len(uids)-1], missing), fmt.Sprintf("%d,%d:%d", missing, uids[0], maxuid),
					} {
						if _, err := runCase(name, uids, kind, parseSet(r)); err != nil {
							return err
						}
					}
				}
			}
		}
		// UID ranges with one bound inside a UID gap (a missing UID below the highest) and the other an existing UID, both
		// orders, and ranges between two missing UIDs: the bound in the gap must neither pull in its neighbour nor drop
		// the existing bound (seeded change C16-12: upper index bumped when the START of the range exists)
		if len(uids) >= 2 {
			var gaps []int
			for u := 1; u < maxuid; u++ {
				if posOf(uids, u) < 0 {
					gaps = append(gaps, u)
				}
			}
			shapes := 0
			for _, g := range gaps {
				for _, a := range uids {
					if shapes >= 16 {
						break
					}
					if a == g+1 || a == g-1 || a == uids[0] || a == maxuid {
						shapes++
						for _, kind := range []string{"UIDFETCH", "UIDCOPY", "UIDSEARCHUID"} {
							for _, r := range []string{fmt.Sprintf("%d:%d", a, g), fmt.Sprintf("%d:%d", g, a)} {
								if _, err := runCase(name, uids, kind, parseSet(r)); err != nil {
									return err
								}
							}
						}
					}
				}
			}
			if len(gaps) >= 2 {
				for _, kind := range []string{"UIDFETCH", "UIDSTORE"} {
					r := fmt.Sprintf("%d:%d", gaps[0], gaps[len(gaps)-1])
					if _, err := runCase(name, uids, kind, parseSet(r)); err != nil {
						return err
					}
				}
			}
		}
		for i := 0; i < perView; i++ {
			kind := kinds[rng.Pick(len(kinds))]
			uidMode := (strings.HasPrefix(kind, "UID") && kind != "UIDSEARCH") || kind == "SEARCHUID"
			set := genSet(rng, len(uids), maxuid, uidMode)
			if rng.Chance(0.5) { // half of the sets are forced valid
				for k := range set {
					fix := func(w wnum) wnum {
						if w.Star {
							return w
						}
						lim := len(uids)
						if uidMode {
							lim = maxuid + 2
						}
						if lim == 0 {
							return w
						}
						if w.N.Sign() <= 0 || w.N.Cmp(bi(int64(lim))) > 0 {
							return wnum{N: bi(int64(rng.Range(1, lim)))}
						}
						return w
					}
					set[k].A = fix(set[k].A)
					if set[k].Single {
						set[k].B = set[k].A
					} else {
						set[k].B = fix(set[k].B)
					}
				}
			}
			if _, err := runCase(name, uids, kind, set); err != nil {
				return err
			}
		}
	}
	// destructive kinds: fresh mailbox per case
	nd := ctx.Budget(18, 150)
	for i := 0; i < nd; i++ {
		boxN++
		name := fmt.Sprintf("box%d", boxN)
		n := rng.Range(0, 6)
		var drop []int
		if n >= 3 && rng.Chance(0.6) {
			drop = []int{rng.Range(1, n-1)}
		}
		uids, err := c16BuildBox(c, name, n, drop)
		if err != nil {
			return err
		}
		maxuid := 0
		if len(uids) > 0 {
			maxuid = uids[len(uids)-1]
		}
		kind := destructive[rng.Pick(len(destructive))]
		uidMode := kind != "MOVE"
		set := genSet(rng, len(uids), maxuid, uidMode)
		if _, err := runCase(name, uids, kind, set); err != nil {
			return err
		}
	}

	// emit the model cases
	var lines []string
	for _, cs := range cases {
		mode := "MSeq"
		switch cs.Kind {
		case "UIDFETCH", "UIDSTORE", "SEARCHUID", "UIDSEARCHUID", "UIDCOPY", "UIDMOVE", "UIDEXPUNGE":
			mode = "MUid"
		}
		obs := "O" + strings.Title(strings.ToLower(cs.obsK))
		switch cs.obsK {
		case "SEL":
			obs = "OSel " + common.CoqNList(cs.obsS)
		case "BAD":
			obs = "OBad"
		case "NO":
			obs = "ONo"
		default:
			obs = "OOther"
		}
		lines = append(lines, fmt.Sprintf("mkCase %d %s %s %s %s (%s)", cs.ID, mode, common.CoqNList(cs.UIDs), setCoq(cs.set), common.CoqBool(cs.dedup), obs))
	}
	res.ModelCases = len(lines)
	return common.WriteCases(ctx.Out, "Run.RunC16", "case", lines, "")
}
