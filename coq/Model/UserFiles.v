(* C18 — the files that belong to a user (storage side of user isolation).
   Impl model of
     internal/db_impl/sqlite3/client.go  getDatabasePath (dir/<userID><db_file_suffix>), getDatabaseConn
                                          ("file:" ++ escape(path) ++ "?cache=shared&_fk=1&_journal=WAL")
     db/deferred_delete.go               DeleteDB (the files moved away when a user is removed with removeFiles)
     SQLite's reading of a file: URI      the file name is the part before the first '?' or '#', percent-decoded
   A user ID, a file name and a path are byte strings (list N).  Which suffixes DeleteDB uses, whether it uses a pattern,
   the database suffix and the escaping function are read from the source (Gen/FactsCmdClass.v).  No proofs here. *)
From Coq Require Import List NArith Bool.
Import ListNotations.
Open Scope N_scope.

Definition fname := list N.

(* DeleteDB without patterns: exactly the names userID ++ suffix *)
Definition removed_files (suffixes : list fname) (u : fname) : list fname := map (fun s => u ++ s) suffixes.
Definition db_file (suffix : fname) (u : fname) : fname := u ++ suffix.

Fixpoint prefixb (a b : fname) : bool :=
  match a, b with
  | [], _ => true
  | _ :: _, [] => false
  | x :: a', y :: b' => (x =? y) && prefixb a' b'
  end.
Definition is_suffix (a b : fname) : bool := prefixb (rev a) (rev b).
Fixpoint fname_eqb (a b : fname) : bool :=
  match a, b with
  | [], [] => true
  | x :: a', y :: b' => (x =? y) && fname_eqb a' b'
  | _, _ => false
  end.
(* no suffix of the list is the tail of another one *)
Definition suffix_free (l : list fname) : bool :=
  forallb (fun a => forallb (fun b => fname_eqb a b || negb (is_suffix a b)) l) l.

(* ---- percent-escaping and the file: URI ---- *)
Definition hexd (d : N) : N := if d <? 10 then 48 + d else 55 + d.
Definition unhex (c : N) : N := if c <? 58 then c - 48 else c - 55.

Section Uri.
  Variable keep : N -> bool.                  (* bytes the escaping function leaves as they are *)
  Definition esc1 (b : N) : list N := if keep b then [b] else [37; hexd (b / 16); hexd (b mod 16)].
  Definition pct_escape (p : fname) : list N := flat_map esc1 p.
End Uri.

(* what SQLite takes as the file name of  file:<s> : up to the first '?' (63) or '#' (35) *)
Fixpoint uri_file (s : list N) : list N :=
  match s with
  | [] => []
  | c :: t => if (c =? 63) || (c =? 35) then [] else c :: uri_file t
  end.
Fixpoint pct_unescape (s : list N) : list N :=
  match s with
  | [] => []
  | c :: t =>
      if c =? 37 then
        match t with
        | a :: b :: t' => (16 * unhex a + unhex b) :: pct_unescape t'
        | _ => c :: pct_unescape t
        end
      else c :: pct_unescape t
  end.

(* the file SQLite opens for a database path *)
Definition opened_file (keep : N -> bool) (path query : list N) : list N :=
  pct_unescape (uri_file (pct_escape keep path ++ 63 :: query)).

(* net/url.PathEscape: unreserved characters and $ & + = : @ stay *)
Definition go_path_escape_keep (b : N) : bool :=
  ((48 <=? b) && (b <=? 57)) || ((65 <=? b) && (b <=? 90)) || ((97 <=? b) && (b <=? 122))
  || existsb (N.eqb b) [45; 95; 46; 126; 36; 38; 43; 61; 58; 64].
