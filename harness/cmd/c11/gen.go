package main

import (
	"fmt"
	"strings"

	"verifharness/common"
)

const tagAlpha = "abcdefghijklmnopqrstuvwxyzABCDEFGHIJKLMNOPQRSTUVWXYZ0123456789"

// genLines builds a stream of complete lines without literals, each with a unique tag, together with the completions
// the property demands: one per line, carrying the line's tag; BAD for a malformed line; any status for a well-formed
// command (the handlers decide); nothing after the 20th consecutive malformed line (the session is closed).
func genLines(rng *common.Rng, login bool) ([]byte, []expect) {
	var sb strings.Builder
	var exp []expect
	n := rng.Range(1, 12)
	if rng.Chance(0.25) {
		n = rng.Range(18, 50)
	}
	badRun := 0
	badBias := rng.Float64()
	closed := false
	for i := 0; i < n; i++ {
		tag := fmt.Sprintf("%c%c%d", tagAlpha[rng.Pick(len(tagAlpha))], ".-_:;<>=?@!#$&',/^|~"[rng.Pick(20)], i)
		if rng.Chance(0.5) {
			tag = fmt.Sprintf("t%d", i)
		}
		var line, status string
		bad := rng.Float64() < badBias
		if bad {
			status = "BAD"
			word := []string{"XYZZY", "FOO", "LOGINN", "FETCHX", "QQ"}[rng.Pick(5)]
			forms := []string{
				tag + " " + word,
				tag + " " + word + " a b (c)",
				tag + " LOGIN",
				tag + " LOGIN onlyuser",
				tag + " LOGIN a b c",
				tag + " LOGIN \"a b",
				tag + " LOGIN \"a\\",
				tag + " LOGIN \"a\\b\" c",
				tag + " CREATE \"x\x1f",
				tag + " NOOP\x1f",
				tag + " FETCH x ALL",
				tag + " FETCH 0 ALL",
				tag + " FETCH 1 (BODY[",
				tag + " FETCH 1:99999999999999999999 ALL",
				tag + " FETCH 4294967296 ALL",
				tag + " SEARCH",
				tag + " SEARCH ((ALL)",
				tag + " SEARCH BEFORE 99-Foo-2020",
				tag + " SEARCH OR ALL",
				tag + " NOOP extra",
				tag + " NOOP\r",
				tag + " STORE 1 +FLAGS",
				tag + " STORE 1 FLAGS (\\Recent)",
				tag + " UID",
				tag + " UID NOOP",
				tag + " STATUS x ()",
				tag + " STATUS x (BOGUS)",
				tag + " APPEND x (",
				tag + " ID (\"a\")",
				tag + " LIST \"\"",
				tag + "  NOOP",
				tag + "\tNOOP",
				tag,
				tag + " ",
				tag + " \x00\x01\x02",
				tag + " LOGIN \xff\xfe {",
				tag + " SELECT (",
				tag + " COPY 1,, x",
				tag + " RENAME a",
			}
			line = forms[rng.Pick(len(forms))]
			if rng.Chance(0.08) { // a line that has no tag at all
				line = []string{"", " NOOP", "(" + tag + ") NOOP", "\"" + tag + "\" NOOP", "\\" + tag + " NOOP", "+" + tag + " NOOP"}[rng.Pick(6)]
				tag = ""
			}
		} else {
			forms := []string{
				tag + " NOOP", tag + " noop", tag + " CAPABILITY", tag + " ID NIL", tag + " ID (\"name\" \"x\")",
				tag + " LOGIN nobody wrong", tag + " SELECT INBOX", tag + " EXAMINE \"INBOX\"", tag + " STATUS INBOX (MESSAGES UNSEEN)",
				tag + " LIST \"\" *", tag + " LSUB \"\" \"%\"", tag + " FETCH 1:* (UID FLAGS BODY.PEEK[HEADER.FIELDS (To)]<0.5>)",
				tag + " UID SEARCH OR SEEN (NOT DELETED 1:*) SINCE 1-Jan-2020", tag + " STORE 1 +FLAGS.SILENT (\\Seen)",
				tag + " CREATE box" + fmt.Sprint(rng.Pick(5)), tag + " SUBSCRIBE box1", tag + " UNSUBSCRIBE box1", tag + " CHECK",
				tag + " EXPUNGE", tag + " CLOSE", tag + " UNSELECT", tag + " COPY 1 box1", tag + " UID MOVE 1:* box2",
				tag + " UID EXPUNGE 1:*", tag + " SEARCH CHARSET UTF-8 CC x",
				tag + " SEARCH CHARSET " + []string{"ISO-2022-CN", "ISO-2022-KR", "UTF-7", "UTF-32", "bogus", "US-ASCII", "KOI8-R", "CESU-8"}[rng.Pick(8)] + " TEXT x",
				tag + " UID SEARCH CHARSET " + []string{"ISO-2022-CN-EXT", "UNICODE-1-1-UTF-7", "utf8", "ISO-8859-1", "SCSU"}[rng.Pick(5)] + " ALL",
			}
			line = forms[rng.Pick(len(forms))]
			status = ""
		}
		sb.WriteString(line + "\r\n")
		if closed {
			continue
		}
		exp = append(exp, expect{Tag: tag, Status: status})
		if bad {
			badRun++
			if badRun >= 20 {
				closed = true
			}
		} else {
			badRun = 0
		}
	}
	return []byte(sb.String()), exp
}

// genGarbage: arbitrary bytes — binary noise, noise with line ends, IMAP-looking fragments glued together.
func genGarbage(rng *common.Rng) []byte {
	frag := []string{"a LOGIN ", "\"", "\\", "{", "}", "{3}\r\n", "{0}\r\n", "(", ")", "[", "]", "<", ">", "\r\n", "\n", "\r", " ", "*", "%", "1:*", "BODY[", "FETCH ", "SEARCH ",
		"UID ", "STORE ", "NOT ", "OR ", "HEADER.FIELDS (", "+FLAGS ", "\\Seen", "99999999999999999999", "4294967296", "0", "NIL", "DONE\r\n", "IDLE\r\n", "x NOOP\r\n", "LOGOUT",
		"\x00", "\x7f", "\x80", "\xff", "APPEND x {10}\r\n", "{31457280}\r\n", "STARTTLS\r\n", "t ", "t2 CAPABILITY\r\n"}
	var b []byte
	switch rng.Pick(4) {
	case 0: // pure noise
		n := rng.Range(1, 4096)
		b = make([]byte, n)
		for i := range b {
			b[i] = byte(rng.Pick(256))
		}
	case 1: // noise cut into lines
		n := rng.Range(1, 40)
		for i := 0; i < n; i++ {
			k := rng.Range(0, 60)
			for j := 0; j < k; j++ {
				c := byte(rng.Pick(256))
				if c == '\n' {
					c = 'n'
				}
				b = append(b, c)
			}
			b = append(b, '\r', '\n')
		}
	default: // IMAP-looking fragments
		n := rng.Range(1, 60)
		for i := 0; i < n; i++ {
			if rng.Chance(0.2) {
				b = append(b, tagAlpha[rng.Pick(len(tagAlpha))])
			} else {
				b = append(b, frag[rng.Pick(len(frag))]...)
			}
		}
		if rng.Chance(0.5) {
			b = append(b, '\r', '\n')
		}
	}
	// a response line "* OK ..." / "+ ..." is indistinguishable from untagged data: keep such tags out of the streams
	for i := 0; i < len(b); i++ {
		if (i == 0 || b[i-1] == '\n') && (b[i] == '*' || b[i] == '+') {
			b[i] = 'x'
		}
	}
	// raw TLS hello prefixes are covered by a scripted case (the server closes on them by design)
	if len(b) > 0 && b[0] == 0x16 {
		b[0] = 'y'
	}
	return b
}
