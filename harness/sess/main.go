package sess

import (
	"encoding/json"
	"fmt"
	"os"
	"path/filepath"

	"verifharness/common"
)

// Harness is the common entry point of the C01 / C02 / C05 commands: it runs generated histories against the real
// server, evaluates the oracle of the given property on what the sessions were told, and writes the histories with the
// observed traces as RunSession cases for the Coq model.
func Harness(prop string) func(ctx *common.Ctx) error {
	return func(ctx *common.Ctx) error {
		res := ctx.Res
		n := ctx.Budget(120, 1500)
		steps := 45
		if ctx.Tier == "thorough" {
			steps = 90
		}
		cfg := Config{K: 2, NMbox: 2, Steps: steps, C02Rate: 0.04, NoConn: os.Getenv("VERIF_NOCONN") != ""}
		switch prop {
		case "C02":
			cfg.C02Rate = 0.10
		case "C05":
			cfg.C02Rate = 0.05
		}
		res.Rule = "histories of K sessions (SELECT, APPEND, STORE incl. .SILENT, EXPUNGE, COPY, MOVE, FETCH BODY[], UID FETCH probe, SEARCH, NOOP, CHECK, IDLE/DONE), deliveries of held state updates (the schedule, through the verifhook hold/release hook) and connector updates, generated online from one PRNG; non-trivial = distinct history in which at least one foreign update was delivered to a selected session"
		var lines []string
		// corpus: scripted scenarios (minimised shapes of earlier findings and of seeded changes) run first
		for si, sc := range Corpus() {
			c2 := Config{K: sc.K, NMbox: 2, Script: sc.Ops, Bulk: sc.Bulk}
			ctx.Current(fmt.Sprintf("corpus %s", sc.Name), nil)
			run, err := RunHistory(ctx.Rng, c2)
			if err != nil {
				return fmt.Errorf("corpus %s: %w", sc.Name, err)
			}
			res.Evaluations++
			res.Count("corpus")
			res.Nontrivial("corpus:" + sc.Name)
			for _, f := range run.Fails {
				if f.Prop == prop {
					res.Fail(f.Canon, "corpus "+sc.Name+": "+f.Detail, map[string]interface{}{"history": run.Hist, "step": f.Step})
				}
				if prop == "C05" && f.Prop == "C02" && (f.Canon == "session keeps showing a message that is no longer in the mailbox" || f.Canon == "session view and mailbox differ in both directions") {
					res.Fail("removal never announced: "+f.Canon, "corpus "+sc.Name+": "+f.Detail, map[string]interface{}{"history": run.Hist, "step": f.Step})
				}
			}
			lines = append(lines, run.CoqCase(10000+si))
			if os.Getenv("VERIF_DEBUG") != "" {
				b, _ := json.Marshal(map[string]interface{}{"id": 10000 + si, "hist": run.Hist, "obs": run.Obs, "views": run.Views})
				f, _ := os.OpenFile(filepath.Join(ctx.Out, "debug.jsonl"), os.O_APPEND|os.O_CREATE|os.O_WRONLY, 0o644)
				f.Write(append(b, '\n'))
				f.Close()
			}
		}
		for i := 0; i < n; i++ {
			cfg.K = 2 + ctx.Rng.Pick(2)
			cfg.Disciplined = i%2 == 0
			cfg.Bulk = i%4 >= 2
			cfg.Observer = i%5 == 3
			ctx.Current(fmt.Sprintf("history #%d seed=%d", i, ctx.Seed), nil)
			run, err := RunHistory(ctx.Rng, cfg)
			if run != nil && len(run.Hist) > 0 {
				ctx.Current(fmt.Sprintf("history #%d seed=%d: %s", i, ctx.Seed, HistString(run.Hist)), nil)
			}
			if err != nil {
				return fmt.Errorf("history %d: %w (history so far: %s)", i, err, HistString(run.Hist))
			}
			res.Evaluations++
			for k, v := range run.Stats {
				res.Distribution[k] += v
			}
			if run.Stats["op:deliver:"] > 0 {
				res.Nontrivial(HistString(run.Hist))
			}
			res.Count(fmt.Sprintf("sessions:%d", run.K))
			res.Count(fmt.Sprintf("disciplined:%v", cfg.Disciplined))
			res.Count(fmt.Sprintf("idle-bulk:%v", cfg.Bulk))
			res.Count(fmt.Sprintf("silent-observer:%v", cfg.Observer))
			if i < 2 {
				res.Sample(map[string]interface{}{"history": HistString(run.Hist), "steps": len(run.Hist)})
			}
			for _, f := range run.Fails {
				if f.Prop == prop {
					res.Fail(f.Canon, f.Detail, map[string]interface{}{"history": run.Hist, "step": f.Step})
				}
				// C05 "every removal is announced by the next command that permits it": at a quiescence point (all
				// updates delivered, NOOP done) the session still shows a message the mailbox no longer holds
				if prop == "C05" && f.Prop == "C02" && (f.Canon == "session keeps showing a message that is no longer in the mailbox" || f.Canon == "session view and mailbox differ in both directions") {
					res.Fail("removal never announced: "+f.Canon, f.Detail, map[string]interface{}{"history": run.Hist, "step": f.Step})
				}
			}
			lines = append(lines, run.CoqCase(i+1))
			if os.Getenv("VERIF_DEBUG") != "" {
				b, _ := json.Marshal(map[string]interface{}{"id": i + 1, "hist": run.Hist, "obs": run.Obs, "views": run.Views})
				f, _ := os.OpenFile(filepath.Join(ctx.Out, "debug.jsonl"), os.O_APPEND|os.O_CREATE|os.O_WRONLY, 0o644)
				f.Write(append(b, '\n'))
				f.Close()
			}
		}
		res.ModelCases = len(lines)
		return common.WriteCases(ctx.Out, "Run.RunSession", "case", lines, "")
	}
}
