HOOKS = {
    "guard": "verif",
    "enable": "go build -tags verif (the harness in /verif/harness is built with -tags verif against /repo through a replace directive)",
    "baseline_off_cmd": "cd /repo && go test -mod=mod -json -vet=off -count=1 -timeout 25m ./...",
    "source_commits": ["15ed3a4"],
    "add_only": True,
}
NOTES = "See DESIGN.md. Every check: regenerates coq/Gen/Facts.v from /repo, rebuilds the property's Coq targets, re-runs Print Assumptions, rebuilds the harness against /repo's working tree, runs it, evaluates the Impl model on the same cases inside Coq."
ALL = ["C%02d" % i for i in range(1, 21)]
NA_REASONS = {}
# properties whose check has been integrated and verified by the coordinator (others stay in not_applicable until then)
READY = ["C%02d" % i for i in range(1, 21)]
