(* C12 — the writer of ENVELOPE, BODY and BODYSTRUCTURE.
   Impl model of: imap/params.go paramList.{newChildList,finish,onWrite,addString,addNumber,addMap,addAddresses}
   (interpreter [exec] of a call sequence), imap/envelope.go envelope / Envelope, imap/structure.go Structure,
   structure, singlePartStructure, childStructures, addDispInfo (the functions that produce the call sequences over
   an abstract MIME tree [mtree]: every string is whatever header.Get / ParseMediaType / ParseAddressList returned).
   structure() is modelled for both decision rules between single part and multipart (parameter msg_single: the code
   as it is / notes/C12-fix-2.diff); T1 (Gen/FactsStructure.v) extracts which one the source uses.
   strconv.Quote is the Section variable [esc] (the text between the quotes) with the hypothesis that it is the
   content of a lexically closed quoted string.
   dualParListWriter: BODY receives everything except what is written through toSingleWriterFrom2nd
   (parameter ext = false), BODYSTRUCTURE receives everything (ext = true).
   No proofs in this file. *)
From Coq Require Import List NArith Bool Arith.
From Gluon Require Import Base.DecBytes Model.Rfc822Split Model.LiteralFrame Model.PList.
Import ListNotations.

(* how a child list is opened *)
Inductive sepkind :=
| Auto      (* c.onWrite(writer); c.newChildList(writer)      -- addMap, addAddresses *)
| Forced    (* writer.writeByte(' '); c.newChildList(writer)  -- addDispInfo, the envelope of an embedded message *)
| Adj.      (* c.newChildList(writer)                         -- child structures, address tuples, top level *)

Inductive call :=
| CStr (v : bytes)                         (* addString *)
| CNum (n : N)                             (* addNumber *)
| CList (k : sepkind) (body : list call).  (* newChildList ... finish *)

(* ---------- abstract inputs ---------- *)
Definition params := list (bytes * bytes).

Record hinfo := mkHInfo {
  h_type : bytes; h_sub : bytes; h_params : params;
  h_id : bytes; h_desc : bytes; h_enc : bytes; h_md5 : bytes;
  h_disp : option (bytes * params);         (* ParseMediaType(Content-Disposition) succeeded *)
  h_lang : bytes; h_loc : bytes }.

Definition addr := (bytes * bytes)%type.     (* mail.Address{Name, Address} *)

Record envinfo := mkEnv {
  e_date : bytes; e_subject : bytes;
  e_from : option (list addr); e_sender : option (list addr); e_replyto : option (list addr);
  e_to : option (list addr); e_cc : option (list addr); e_bcc : option (list addr);   (* None: header absent *)
  e_inreplyto : bytes; e_msgid : bytes }.

(* section: header info, the envelope data of its header (used for the top-level ENVELOPE and when the section is the
   message embedded in a message/rfc822 part), len(Body()), countLines(Body()), the embedded message
   rfc822.Parse(section.Body()) (used when the type is message/rfc822) and the children *)
Inductive mtree :=
| MNode (h : hinfo) (env : envinfo) (size lines : N) (emb : option mtree) (children : list mtree).

Definition node_env (t : mtree) : envinfo := match t with MNode _ e _ _ _ _ => e end.

(* ---------- helpers ---------- *)
Fixpoint bytes_ltb (a b : bytes) : bool :=      (* Go string < : bytewise lexicographic *)
  match a, b with
  | [], [] => false
  | [], _ :: _ => true
  | _ :: _, [] => false
  | x :: a', y :: b' => if N.ltb x y then true else if N.ltb y x then false else bytes_ltb a' b'
  end.

Fixpoint insert_param (p : bytes * bytes) (l : params) : params :=
  match l with
  | [] => [p]
  | q :: t => if bytes_ltb (fst q) (fst p) then q :: insert_param p t else p :: l
  end.
Definition sort_params (l : params) : params := fold_right insert_param [] l.   (* maps.Keys + slices.Sort *)

(* strings.Split(addr.Address, "@") has exactly two parts *)
Fixpoint split_at (s : bytes) : bytes * option bytes :=
  match s with
  | [] => ([], None)
  | b :: t => if N.eqb b 64 then ([], Some t)
              else let '(u, d) := split_at t in (b :: u, d)
  end.
Definition has_at (s : bytes) : bool := existsb (N.eqb 64) s.
Definition user_domain (a : bytes) : bytes * bytes :=
  match split_at a with
  | (u, Some d) => if has_at d then ([], []) else (u, d)
  | (_, None) => ([], [])
  end.

Definition str_msg : bytes := [109; 101; 115; 115; 97; 103; 101]%N.      (* "message" *)
Definition str_rfc822 : bytes := [114; 102; 99; 56; 50; 50]%N.           (* "rfc822" *)
Definition str_text : bytes := [116; 101; 120; 116]%N.                    (* "text" *)
Definition is_msg (h : hinfo) : bool := bytes_eqb (h_type h) str_msg && bytes_eqb (h_sub h) str_rfc822.
Definition is_text (h : hinfo) : bool := bytes_eqb (h_type h) str_text.

(* ---------- the call sequences ---------- *)
Definition map_calls (k : sepkind) (m : params) : call :=
  CList k (flat_map (fun kv => [CStr (fst kv); CStr (snd kv)]) (sort_params m)).

Definition addr_calls (l : list addr) : call :=
  CList Auto (map (fun a => let '(u, d) := user_domain (snd a) in
                            CList Adj [CStr (fst a); CStr []; CStr u; CStr d]) l).

Definition opt_addr_calls (o : option (list addr)) : call :=
  match o with None => CStr [] | Some l => addr_calls l end.

(* envelope(): fields := c.newChildList(writer) ... fields.finish(writer); [k] = how the caller opened it *)
Definition envelope_calls (k : sepkind) (e : envinfo) : call :=
  CList k [ CStr (e_date e); CStr (e_subject e);
            opt_addr_calls (e_from e);
            opt_addr_calls (match e_sender e with Some l => Some l | None => e_from e end);
            opt_addr_calls (match e_replyto e with Some l => Some l | None => e_from e end);
            opt_addr_calls (e_to e); opt_addr_calls (e_cc e); opt_addr_calls (e_bcc e);
            CStr (e_inreplyto e); CStr (e_msgid e) ].

(* addDispInfo *)
Definition disp_calls (h : hinfo) : call :=
  match h_disp h with
  | Some (d, ps) => CList Forced [CStr d; map_calls Auto ps]
  | None => CStr []
  end.

Section Writer.
  Variable lines_any_message : bool.
  (* which single parts get a line count behind their size (singlePartStructure):
       false: type text, and message/rfc822                 -- the code as it is (RFC 3501 body-type-text / body-type-msg)
       true : type text, and every type message/...          (what a lost sub-type test would do)
     Gen/FactsStructure.v (T1) says which condition the source contains. *)
  Variable msg_single : bool.
  (* how structure() chooses between singlePartStructure and the multipart form:
       false: `len(children) == 0`                      -- the code as it is; the children of a message/rfc822
                                                          section are the parts of the embedded (multipart) message
       true : `len(children) == 0 || type is message/rfc822`  -- notes/C12-fix-2.diff
     Gen/FactsStructure.v (T1) says which of the two the source contains. *)
  Variable ext : bool.   (* true: BODYSTRUCTURE (extension data included), false: BODY *)

  Definition only_ext (cs : list call) : list call := if ext then cs else [].
  Definition has_lines (h : hinfo) : bool :=
    is_text h || (if lines_any_message then bytes_eqb (h_type h) str_msg else is_msg h).

  (* child_calls t: childStructures over section.Children() (rfc822 load(): a message/rfc822 section has the children
     of its embedded message); structure_calls t: the calls of structure(t) *)
  Fixpoint structure_calls (t : mtree) : list call :=
    match t with
    | MNode h _ size lines emb children =>
      let cc := if is_msg h
                then (if msg_single then [] else match emb with Some c => child_calls c | None => [] end)
                else map (fun c => CList Adj (structure_calls c)) children in
      match cc with
      | [] =>
        [CStr (h_type h); CStr (h_sub h); map_calls Auto (h_params h);
         CStr (h_id h); CStr (h_desc h); CStr (h_enc h); CNum size]
        ++ (if is_msg h
            then match emb with
                 | Some child => [envelope_calls Forced (node_env child); CList Adj (structure_calls child)]
                 | None => []
                 end
            else [])
        ++ (if has_lines h then [CNum lines] else [])
        ++ only_ext [CStr (h_md5 h); disp_calls h; CStr (h_lang h); CStr (h_loc h)]
      | _ :: _ =>
        cc ++ [CStr (h_sub h)]
        ++ only_ext [map_calls Auto (h_params h); disp_calls h; CStr (h_lang h); CStr (h_loc h)]
      end
    end
  with child_calls (t : mtree) : list call :=
    match t with
    | MNode h _ _ _ emb children =>
      if is_msg h then match emb with Some c => child_calls c | None => [] end
      else map (fun c => CList Adj (structure_calls c)) children
    end.
End Writer.

(* ---------- the interpreter: what the paramList methods write ---------- *)
Section Exec.
  Variable esc : bytes -> bytes.    (* strconv.Quote(v) = DQ :: esc v ++ [DQ] *)

  Definition quote (v : bytes) : bytes := DQ :: esc v ++ [DQ].
  Definition str_text_of (v : bytes) : bytes := match v with [] => NIL_bytes | _ => quote v end.
  Definition on_write (first : bool) : bytes := if first then [] else [SP].

  (* exec c first = text written; afterwards c.firstItem = false *)
  Fixpoint exec (c : call) (first : bool) : bytes :=
    match c with
    | CStr v => on_write first ++ str_text_of v
    | CNum n => on_write first ++ dec n
    | CList k body =>
      (match k with Auto => on_write first | Forced => [SP] | Adj => [] end)
      ++ LP :: (fix go (cs : list call) (f : bool) : bytes :=
                  match cs with
                  | [] => []
                  | c' :: t => exec c' f ++ go t false
                  end) body true ++ [RP]
    end.

  Fixpoint exec_list (cs : list call) (first : bool) : bytes :=
    match cs with
    | [] => []
    | c :: t => exec c first ++ exec_list t false
    end.

  (* imap.Envelope: newParamListWithoutGroup(); envelope(header, &paramList, writer) *)
  Definition write_envelope (e : envinfo) : bytes := exec (envelope_calls Adj e) true.
  (* imap.Structure: c := newParamListWithGroup(writer); structure(section, &c, writer); c.finish(writer) *)
  Definition write_structure (lines_any_message msg_single ext : bool) (t : mtree) : bytes :=
    exec (CList Adj (structure_calls lines_any_message msg_single ext t)) true.
  Definition write_body (la msg_single : bool) (t : mtree) : bytes := write_structure la msg_single false t.
  Definition write_bodystructure (la msg_single : bool) (t : mtree) : bytes := write_structure la msg_single true t.
End Exec.

(* ---------- strconv.Quote for the byte strings the generator uses (ASCII; bytes >= 0x80 are kept: the generator only
   produces valid printable UTF-8) — the instance of [esc] used by the correspondence run ---------- *)
Definition hex_digit (n : N) : N := if N.ltb n 10 then (48 + n)%N else (87 + n)%N.
Definition esc_byte (b : N) : bytes :=
  if N.eqb b 34 then [92; 34]%N else if N.eqb b 92 then [92; 92]%N
  else if N.eqb b 7 then [92; 97]%N else if N.eqb b 8 then [92; 98]%N
  else if N.eqb b 12 then [92; 102]%N else if N.eqb b 10 then [92; 110]%N
  else if N.eqb b 13 then [92; 114]%N else if N.eqb b 9 then [92; 116]%N
  else if N.eqb b 11 then [92; 118]%N
  else if N.ltb b 32 || N.eqb b 127 then [92%N; 120%N; hex_digit (b / 16); hex_digit (b mod 16)]
  else [b].
Definition esc_go (v : bytes) : bytes := flat_map esc_byte v.
