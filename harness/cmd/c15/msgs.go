package main

import (
	"fmt"
	"math/big"
	"sort"
	"strings"
	"time"
	"unicode"

	"verifharness/common"
)

// dayNumber: a monotone day count of a civil date (proleptic Gregorian), positive for the years used here.
func dayNumber(y, m, d int) int {
	return int(time.Date(y, time.Month(m), d, 0, 0, 0, 0, time.UTC).Unix()/86400) + 1000000
}

type hfield struct {
	Name   string
	Value  string      // unfolded as RFC 5322 says (CRLF before WSP removed)
	ValueG string      // the other reading of "unfolded": every physical line trimmed, lines joined by one space
	Cross  [][2]string // for every fold: the token before it and the token after it
}

type message struct {
	Lit      []byte
	Hdrs     []hfield
	Body     string
	Sent     *date  // date written in Date:, nil = not a date
	DateHdr  string // the Date: value as written
	AppendDT string // date-time given to APPEND
	Tag      string // unique marker (in X-Marker), used to identify the message
	// reported by the server
	UID   int
	Size  int
	IDate date
	Flags map[string]bool // lower case, as FETCH FLAGS in the searching session reports them
	Sent0 []byte          // the literal as appended
	Hdrs0 []hfield
	// model only
	HdrBroken bool
}

var words = []string{"alpha", "bravo", "charlie", "delta", "echo", "foxtrot", "golf", "hotel", "india", "juliet", "kilo", "lima", "mike", "november", "oscar", "papa"}
var phrases = []string{"quick brown", "lazy dog", "over the moon", "ten green bottles"}

// words with characters outside ASCII (raw UTF-8 in the messages), grouped by the 8-bit charsets that can express them
var latinWords = []string{"café", "réunion", "über", "señor", "garçon", "àpropos", "smörgås", "crème", "niño", "élan"}
var latin9Words = []string{"cœur", "žena", "šest"} // in ISO-8859-15 and windows-1252, not in ISO-8859-1
var cyrWords = []string{"привет", "москва", "почта", "ёлка", "дача"}

func nonASCIIWords() []string {
	return append(append(append([]string{}, latinWords...), latin9Words...), cyrWords...)
}

var hosts = []string{"example.com", "mail.test", "proton.example"}
var xnames = []string{"X-Tag", "x-tag", "X-TAG", "X-Custom-Field", "x-CuStOm-field", "Comments", "Keywords"}

// randCase: a random mix of upper and lower case (rune by rune, simple Unicode case pairs)
func randCase(rng *common.Rng, s string) string {
	r := []rune(s)
	switch rng.Pick(4) {
	case 0:
		return strings.ToUpper(s)
	case 1:
		return string(unicode.ToUpper(r[0])) + string(r[1:])
	case 2:
		for i := range r {
			if rng.Chance(0.5) {
				r[i] = unicode.ToUpper(r[i])
			}
		}
		return string(r)
	}
	return s
}

// items: words or phrases (a phrase is never folded inside)
func genItems(rng *common.Rng, n int) []string {
	var it []string
	for i := 0; i < n; i++ {
		if rng.Chance(0.2) {
			it = append(it, randCase(rng, phrases[rng.Pick(len(phrases))]))
		} else if rng.Chance(0.22) {
			nw := nonASCIIWords()
			it = append(it, randCase(rng, nw[rng.Pick(len(nw))]))
		} else {
			it = append(it, randCase(rng, words[rng.Pick(len(words))]))
		}
	}
	return it
}

// layout puts the tokens of a field body on one or more physical lines: between two tokens a single space or a fold
// (CRLF followed by SP / HTAB / several of them); sometimes the first fold comes directly after the colon.
// Returns the raw text that follows "Name:" (without the final CRLF), the unfolded value and the token pairs around the folds.
func layout(rng *common.Rng, tokens []string, mayFoldAfterColon bool) (string, string, [][2]string) {
	var raw, unf strings.Builder
	var cross [][2]string
	foldWSP := func() string {
		if rng.Chance(0.6) {
			return " "
		}
		return []string{"\t", "  ", " \t", "\t "}[rng.Pick(4)]
	}
	if mayFoldAfterColon && len(tokens) > 0 && rng.Chance(0.12) {
		w := foldWSP()
		raw.WriteString("\r\n" + w)
		unf.WriteString(w)
	} else {
		raw.WriteString(" ")
	}
	for i, t := range tokens {
		if i > 0 {
			if rng.Chance(0.3) {
				w := foldWSP()
				raw.WriteString("\r\n" + w)
				unf.WriteString(w)
				cross = append(cross, [2]string{tokens[i-1], t})
			} else {
				raw.WriteString(" ")
				unf.WriteString(" ")
			}
		}
		raw.WriteString(t)
		unf.WriteString(t)
	}
	return raw.String(), unf.String(), cross
}

// gluonMerge: what rfc822.mergeMultiline makes of a raw field body (it starts at the first non-blank after the colon and
// ends with the CRLF of the field): every line trimmed, non-empty lines joined by one space.
func gluonMerge(rawAfterColon string) string {
	v := strings.TrimLeft(rawAfterColon, " \t") + "\r\n"
	var sb strings.Builder
	rem := v
	for len(rem) != 0 {
		i := strings.Index(rem, "\n")
		if i < 0 {
			sb.WriteString(strings.TrimSpace(rem))
			break
		}
		sec := rem[:i]
		sec = strings.TrimSuffix(sec, "\r")
		rem = rem[i+1:]
		if len(sec) != 0 {
			sb.WriteString(strings.TrimSpace(sec))
			if len(rem) != 0 {
				sb.WriteString(" ")
			}
		}
	}
	return sb.String()
}

// addrTokens: the tokens of an address list (display-name words and the angle address, the comma stuck to it)
func addrTokens(rng *common.Rng, n int) []string {
	var toks []string
	for i := 0; i < n; i++ {
		a := strings.Fields(genAddr(rng))
		if i < n-1 {
			a[len(a)-1] += ","
		}
		toks = append(toks, a...)
	}
	return toks
}

func genAddr(rng *common.Rng) string {
	w := words[rng.Pick(len(words))]
	first := words[rng.Pick(len(words))]
	if rng.Chance(0.3) { // display names with characters outside ASCII (raw UTF-8)
		nw := nonASCIIWords()
		first = nw[rng.Pick(len(nw))]
	}
	return fmt.Sprintf("%s %s <%s@%s>", randCase(rng, first), randCase(rng, w), w, hosts[rng.Pick(len(hosts))])
}

var dayNames = []string{"Sun", "Mon", "Tue", "Wed", "Thu", "Fri", "Sat"}

func fmtZone(off int) string {
	sign := "+"
	if off < 0 {
		sign = "-"
		off = -off
	}
	return fmt.Sprintf("%s%02d%02d", sign, off/60, off%60)
}

var zones = []int{0, 0, -300, 330, 600, -720, 840, 60, -60}

// genDateHeader returns the header value and the civil date written in it (nil when it is not a date).
func genDateHeader(rng *common.Rng, base date, garbage bool) (string, *date) {
	if garbage {
		return []string{"garbage", "yesterday at noon", "32 Foo 2024"}[rng.Pick(3)], nil
	}
	d := shiftDate(base, rng.Range(-3, 3))
	hh, mm, ss := rng.Range(0, 23), rng.Range(0, 59), rng.Range(0, 59)
	if rng.Chance(0.4) { // near midnight: the UTC date differs from the written one for most zones
		hh = []int{0, 23}[rng.Pick(2)]
	}
	z := zones[rng.Pick(len(zones))]
	wd := dayNames[int(time.Date(d.Y, time.Month(d.M), d.D, 0, 0, 0, 0, time.UTC).Weekday())]
	var s string
	switch rng.Pick(4) {
	case 0:
		s = fmt.Sprintf("%s, %02d %s %04d %02d:%02d:%02d %s", wd, d.D, monthNames[d.M-1], d.Y, hh, mm, ss, fmtZone(z))
	case 1:
		s = fmt.Sprintf("%d %s %04d %02d:%02d:%02d %s", d.D, monthNames[d.M-1], d.Y, hh, mm, ss, fmtZone(z))
	case 2:
		s = fmt.Sprintf("%s, %d %s %04d %02d:%02d:%02d %s (ZONE)", wd, d.D, monthNames[d.M-1], d.Y, hh, mm, ss, fmtZone(z))
	default:
		s = fmt.Sprintf("%s, %02d %s %04d %02d:%02d:%02d %s", wd, d.D, strings.ToUpper(monthNames[d.M-1][:1])+monthNames[d.M-1][1:], d.Y, hh, mm, ss, fmtZone(z))
	}
	return s, &d
}

func shiftDate(d date, k int) date {
	t := time.Date(d.Y, time.Month(d.M), d.D, 0, 0, 0, 0, time.UTC).AddDate(0, 0, k)
	return date{t.Year(), int(t.Month()), t.Day()}
}

// genAppendDT: the INTERNALDATE handed to APPEND, with zones that move the UTC date.
func genAppendDT(rng *common.Rng, base date) string {
	d := shiftDate(base, rng.Range(-3, 3))
	hh, mm, ss := rng.Range(0, 23), rng.Range(0, 59), rng.Range(0, 59)
	if rng.Chance(0.5) {
		hh = []int{0, 1, 22, 23}[rng.Pick(4)]
	}
	z := zones[rng.Pick(len(zones))]
	day := fmt.Sprintf("%02d", d.D)
	if d.D < 10 && rng.Chance(0.5) {
		day = fmt.Sprintf(" %d", d.D)
	}
	return fmt.Sprintf("%s-%s-%04d %02d:%02d:%02d %s", day, monthNames[d.M-1], d.Y, hh, mm, ss, fmtZone(z))
}

type msgOpts struct {
	Garbage   bool
	Multipart bool
	Pad       int
}

func genMessage(rng *common.Rng, tag string, base date, o msgOpts) *message {
	m := &message{Tag: tag, Flags: map[string]bool{}}
	var raw strings.Builder
	type hf struct {
		name, raw, unf string // raw: what follows "Name:" without the final CRLF
		cross          [][2]string
	}
	add := func(f hf) {
		raw.WriteString(f.name + ":" + f.raw + "\r\n")
		m.Hdrs = append(m.Hdrs, hfield{Name: f.name, Value: strings.TrimLeft(f.unf, " \t"), ValueG: gluonMerge(f.raw), Cross: f.cross})
	}
	plain := func(name, v string) hf { return hf{name: name, raw: " " + v, unf: v} }
	laid := func(name string, tokens []string, afterColon bool) hf {
		r, u, c := layout(rng, tokens, afterColon)
		return hf{name, r, u, c}
	}
	var fields []hf
	dv, sent := genDateHeader(rng, base, o.Garbage)
	m.Sent, m.DateHdr = sent, dv
	fields = append(fields, plain([]string{"Date", "DATE", "date"}[rng.Pick(3)], dv))
	fields = append(fields, laid([]string{"From", "FROM", "from"}[rng.Pick(3)], addrTokens(rng, 1), true))
	fields = append(fields, laid([]string{"To", "TO", "to"}[rng.Pick(3)], addrTokens(rng, rng.Range(1, 3)), true))
	if rng.Chance(0.65) {
		fields = append(fields, laid([]string{"Cc", "CC", "cc"}[rng.Pick(3)], addrTokens(rng, rng.Range(1, 3)), true))
	}
	if rng.Chance(0.45) {
		fields = append(fields, laid([]string{"Bcc", "BCC"}[rng.Pick(2)], addrTokens(rng, rng.Range(1, 2)), true))
	}
	if rng.Chance(0.9) {
		fields = append(fields, laid([]string{"Subject", "SUBJECT", "subject", "SuBjEcT"}[rng.Pick(4)], genItems(rng, rng.Range(1, 5)), true))
	}
	nx := rng.Range(0, 4)
	for i := 0; i < nx; i++ {
		name := xnames[rng.Pick(len(xnames))]
		if rng.Chance(0.15) {
			fields = append(fields, hf{name: name})
			continue
		}
		fields = append(fields, laid(name, genItems(rng, rng.Range(1, 4)), true))
	}
	fields = append(fields, plain("X-Marker", tag))
	boundary := "bnd" + tag
	if o.Multipart {
		v := `multipart/mixed; boundary="` + boundary + `"`
		fields = append(fields, plain("Content-Type", v), plain("MIME-Version", "1.0"))
	}
	// shuffle everything but keep it deterministic
	rng.Shuffle(len(fields), func(i, j int) { fields[i], fields[j] = fields[j], fields[i] })
	for _, f := range fields {
		add(f)
	}
	var body strings.Builder
	line := func() string {
		its := genItems(rng, rng.Range(1, 6))
		return strings.Join(its, " ")
	}
	if o.Multipart {
		body.WriteString("preamble " + line() + "\r\n--" + boundary + "\r\nContent-Type: text/plain\r\n\r\n" + line() + "\r\n--" + boundary +
			"\r\nContent-Type: text/plain\r\nX-Part: " + line() + "\r\n\r\n" + line() + "\r\n--" + boundary + "--\r\n")
	} else {
		n := rng.Range(1, 3)
		for i := 0; i < n; i++ {
			body.WriteString(line() + "\r\n")
		}
	}
	for i := 0; i < o.Pad; i++ {
		body.WriteString("zzzzzzzzzzzzzzzzzzzzzzzzzzzzzzzzzzzzzz\r\n")
	}
	m.Body = body.String()
	m.Lit = []byte(raw.String() + "\r\n" + m.Body)
	m.AppendDT = genAppendDT(rng, base)
	return m
}

// adoptServerLiteral replaces the literal by what the server returns for BODY[]. The only difference gluon is known to
// make is one header field of its own in front (X-Pm-Gluon-Id: <internal id>); anything else is refused.
func (m *message) adoptServerLiteral(srvLit []byte) error {
	if m.Sent0 == nil {
		m.Sent0 = append([]byte{}, m.Lit...)
		m.Hdrs0 = append([]hfield{}, m.Hdrs...)
	}
	if string(srvLit) == string(m.Sent0) {
		m.Lit, m.Hdrs = m.Sent0, m.Hdrs0
		return nil
	}
	if !strings.HasSuffix(string(srvLit), string(m.Sent0)) {
		return fmt.Errorf("the server's literal of %s is not the appended one (plus leading header fields)", m.Tag)
	}
	extra := string(srvLit[:len(srvLit)-len(m.Sent0)])
	var hs []hfield
	for _, line := range strings.Split(strings.TrimSuffix(extra, "\r\n"), "\r\n") {
		i := strings.Index(line, ":")
		if i <= 0 || strings.ContainsAny(line[:i], " \t") {
			return fmt.Errorf("unexpected text in front of the literal of %s: %q", m.Tag, extra)
		}
		v := strings.TrimSpace(line[i+1:])
		hs = append(hs, hfield{Name: line[:i], Value: v, ValueG: v})
	}
	m.Lit = append([]byte{}, srvLit...)
	m.Hdrs = append(hs, m.Hdrs0...)
	return nil
}

// ---- oracle: evaluation of a key tree over what the harness knows about the view ----

type view struct {
	Box   string
	Class string
	Msgs  []*message // in sequence order, as the searching session sees the mailbox
}

func (v *view) maxUID() int {
	if len(v.Msgs) == 0 {
		return 0
	}
	return v.Msgs[len(v.Msgs)-1].UID
}

func ciContains(hay, needle string) bool {
	return strings.Contains(strings.ToLower(hay), strings.ToLower(needle))
}

func (m *message) first(name string) string {
	for _, h := range m.Hdrs {
		if strings.EqualFold(h.Name, name) {
			return h.Value
		}
	}
	return ""
}

func (m *message) firstField(name string) *hfield {
	for i := range m.Hdrs {
		if strings.EqualFold(m.Hdrs[i].Name, name) {
			return &m.Hdrs[i]
		}
	}
	return nil
}

// readingsAgree: the two readings of "unfolded" give the same answer for this needle on every header field of the view
func (v *view) readingsAgree(needle string) bool {
	for _, m := range v.Msgs {
		for _, h := range m.Hdrs {
			if ciContains(h.Value, needle) != ciContains(h.ValueG, needle) {
				return false
			}
		}
	}
	return true
}

func numVal(w wnum, star int) *big.Int {
	if w.Star {
		return big.NewInt(int64(star))
	}
	return w.N
}

func inSet(s []wrange, star int, x int) bool {
	for _, r := range s {
		a, b := numVal(r.A, star), numVal(r.B, star)
		if a.Cmp(b) > 0 {
			a, b = b, a
		}
		bx := big.NewInt(int64(x))
		if a.Cmp(bx) <= 0 && bx.Cmp(b) <= 0 {
			return true
		}
	}
	return false
}

var two32 = new(big.Int).Lsh(big.NewInt(1), 32)
var two63 = new(big.Int).Lsh(big.NewInt(1), 63)

// keyBad: the command must be refused with BAD
func keyBad(k *key, cnt int) bool {
	bad := false
	k.walk(func(x *key) {
		switch x.Kind {
		case "SEQSET":
			for _, r := range x.Set {
				for _, w := range []wnum{r.A, r.B} {
					if w.Star {
						if cnt == 0 {
							bad = true
						}
					} else if w.N.Sign() <= 0 || w.N.Cmp(big.NewInt(int64(cnt))) > 0 {
						bad = true
					}
				}
			}
		case "UID":
			for _, r := range x.Set {
				for _, w := range []wnum{r.A, r.B} {
					if !w.Star && (w.N.Sign() <= 0 || w.N.Cmp(two32) >= 0) {
						bad = true
					}
				}
			}
		case "LARGER", "SMALLER":
			if x.Num.Cmp(two63) >= 0 {
				bad = true
			}
		}
	})
	return bad
}

func evalKey(k *key, v *view, seq int) bool {
	m := v.Msgs[seq-1]
	fl := func(f string) bool { return m.Flags[f] }
	switch k.Kind {
	case "ALL":
		return true
	case "ANSWERED":
		return fl(`\answered`)
	case "DELETED":
		return fl(`\deleted`)
	case "DRAFT":
		return fl(`\draft`)
	case "FLAGGED":
		return fl(`\flagged`)
	case "NEW":
		return fl(`\recent`) && !fl(`\seen`)
	case "OLD":
		return !fl(`\recent`)
	case "RECENT":
		return fl(`\recent`)
	case "SEEN":
		return fl(`\seen`)
	case "UNANSWERED":
		return !fl(`\answered`)
	case "UNDELETED":
		return !fl(`\deleted`)
	case "UNDRAFT":
		return !fl(`\draft`)
	case "UNFLAGGED":
		return !fl(`\flagged`)
	case "UNSEEN":
		return !fl(`\seen`)
	case "KEYWORD":
		return fl(strings.ToLower(k.Str))
	case "UNKEYWORD":
		return !fl(strings.ToLower(k.Str))
	case "BCC", "CC", "FROM", "SUBJECT", "TO":
		return ciContains(m.first(k.Kind), k.Str)
	case "BODY":
		return ciContains(m.Body, k.Str)
	case "TEXT":
		return ciContains(string(m.Lit), k.Str)
	case "HEADER":
		for _, h := range m.Hdrs {
			if strings.EqualFold(h.Name, k.Fld) && ciContains(h.Value, k.Str) {
				return true
			}
		}
		return false
	case "BEFORE":
		return dayNumber(m.IDate.Y, m.IDate.M, m.IDate.D) < dayNumber(k.Date.Y, k.Date.M, k.Date.D)
	case "ON":
		return m.IDate == k.Date
	case "SINCE":
		return dayNumber(m.IDate.Y, m.IDate.M, m.IDate.D) >= dayNumber(k.Date.Y, k.Date.M, k.Date.D)
	case "SENTBEFORE":
		return m.Sent != nil && dayNumber(m.Sent.Y, m.Sent.M, m.Sent.D) < dayNumber(k.Date.Y, k.Date.M, k.Date.D)
	case "SENTON":
		return m.Sent != nil && *m.Sent == k.Date
	case "SENTSINCE":
		return m.Sent != nil && dayNumber(m.Sent.Y, m.Sent.M, m.Sent.D) >= dayNumber(k.Date.Y, k.Date.M, k.Date.D)
	case "LARGER":
		return big.NewInt(int64(m.Size)).Cmp(k.Num) > 0
	case "SMALLER":
		return big.NewInt(int64(m.Size)).Cmp(k.Num) < 0
	case "UID":
		return inSet(k.Set, v.maxUID(), m.UID)
	case "SEQSET":
		return inSet(k.Set, len(v.Msgs), seq)
	case "NOT":
		return !evalKey(k.Sub[0], v, seq)
	case "OR":
		return evalKey(k.Sub[0], v, seq) || evalKey(k.Sub[1], v, seq)
	case "LIST":
		for _, s := range k.Sub {
			if !evalKey(s, v, seq) {
				return false
			}
		}
		return true
	}
	panic("unknown key kind " + k.Kind)
}

// expected answer: ("BAD", nil) or ("SEL", numbers in ascending order)
func oracle(keys []*key, v *view, uid bool) (string, []int) {
	top := &key{Kind: "LIST", Sub: keys}
	if keyBad(top, len(v.Msgs)) {
		return "BAD", nil
	}
	sel := []int{}
	for seq := 1; seq <= len(v.Msgs); seq++ {
		if evalKey(top, v, seq) {
			if uid {
				sel = append(sel, v.Msgs[seq-1].UID)
			} else {
				sel = append(sel, seq)
			}
		}
	}
	return "SEL", sel
}

// ---- Coq rendering of a view ----

func (m *message) coq(seq int) string {
	var fl []string
	for f := range m.Flags {
		fl = append(fl, f)
	}
	sort.Strings(fl)
	fs := make([]string, len(fl))
	for i, f := range fl {
		fs[i] = coqBytes([]byte(f))
	}
	hs := make([]string, len(m.Hdrs))
	for i, h := range m.Hdrs {
		hs[i] = "(" + coqBytes([]byte(h.Name)) + ", " + coqBytes([]byte(h.Value)) + ")"
	}
	sent := "None"
	if m.Sent != nil {
		sent = fmt.Sprintf("(Some %d)", dayNumber(m.Sent.Y, m.Sent.M, m.Sent.D))
	}
	ctor, tail := "mk", ""
	if m.HdrBroken {
		ctor, tail = "mkx", " true true false"
	}
	return fmt.Sprintf("%s %d %d [%s] %d %d %s\n    [%s]\n    (%s)\n    (%s)%s", ctor, seq, m.UID, strings.Join(fs, "; "), m.Size,
		dayNumber(m.IDate.Y, m.IDate.M, m.IDate.D), sent, strings.Join(hs, ";\n     "), coqBytes([]byte(m.Body)), coqBytes(m.Lit), tail)
}

func (v *view) coq() string {
	s := make([]string, len(v.Msgs))
	for i, m := range v.Msgs {
		s[i] = m.coq(i + 1)
	}
	return "[" + strings.Join(s, ";\n   ") + "]"
}
