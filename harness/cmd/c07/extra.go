package main

import (
	"fmt"
	"os"
	"path/filepath"
	"strings"
	"time"
)

// startupScenario: crash at every step boundary of the start-up clean-up itself. State before: two messages marked
// deleted whose rows are still there (the server was killed while a session still showed them) and an orphan cache file.
func (w *world) startupScenario() error {
	res := w.ctx.Res
	var snapB *dbSnap
	prepare := func(pfx string) (string, error) {
		d, err := prepAB(w, pfx, 3, true)
		if err != nil {
			closeAll(d)
			return "", err
		}
		defer closeAll(d)
		if err := cmds(d.c, "SELECT "+pfx+"A"); err != nil {
			return "", err
		}
		if err := w.mustPush(&upd{Kind: "MessageDeleted", MsgRID: pfx + "r1"}); err != nil {
			return "", err
		}
		if err := w.mustPush(&upd{Kind: "MessageDeleted", MsgRID: pfx + "r2"}); err != nil {
			return "", err
		}
		v, _, err := viewOf(w.p, pfx)
		if err != nil {
			return "", err
		}
		w.quiesce()
		if snapB, err = w.snap(); err != nil {
			return "", err
		}
		// the process dies while the session is still there: the marked rows and their files stay
		w.p.kill()
		// an orphan cache file (e.g. written by an APPEND whose transaction never committed)
		orphan := filepath.Join(storeDirOf(w.dir), "00000000-0000-4000-8000-0000000000aa")
		files := storeFiles(w.dir)
		if len(files) > 0 {
			b, _ := os.ReadFile(filepath.Join(storeDirOf(w.dir), files[0]))
			os.WriteFile(orphan, b, 0o600)
		}
		return v, nil
	}
	// reference: an undisturbed start-up, with trace
	before, err := prepare("SR_")
	if err != nil {
		return err
	}
	filesB := storeFiles(w.dir)
	p, err := startChild(w.dir, fmt.Sprintf("%d:fail", 1<<30), true)
	w.p = p
	if err != nil {
		return err
	}
	n := p.startSeen
	tr, err := w.p.call(req{Op: "trace_take"})
	if err != nil {
		return err
	}
	sref := &refRun{pfx: "SR_", events: tr.Events, snapBefore: snapB, filesBefore: filesB}
	if sref.snapAfter, err = w.snap(); err != nil {
		return err
	}
	sref.filesAfter = storeFiles(w.dir)
	w.em.emitStartup(sref)
	after, bad, err := viewOf(w.p, "SR_")
	if err != nil {
		return err
	}
	if after != before || len(bad) > 0 {
		res.Fail("restart-changed-view | startup", fmt.Sprintf("before: %s | after: %s | %v", before, after, bad), nil)
	}
	if lo, err := w.leftovers(); err == nil && lo != "" {
		res.Fail("leftovers-after-restart | startup (undisturbed)", lo, nil)
	}
	res.Count(fmt.Sprintf("boundaries:startup=%d", n))
	// which boundaries of the start-up are store deletes of the files of messages marked for deletion (the purge's own
	// delete loop): when such a step fails the loop stops, and the stale-file sweep that follows must remove the rest
	// during the SAME start
	marked := map[string]bool{}
	for _, m := range snapB.Ms {
		if m.Deleted {
			marked[m.IID] = true
		}
	}
	purgeDel := map[int]bool{}
	{
		k := 0
		for _, e := range tr.Events {
			switch e.K {
			case "end-r", "rollback", "commit":
				if e.K == "commit" {
					k++
				}
			default:
				if (e.K == "del" || e.K == "del-err") && len(e.Args) == 1 && marked[e.Args[0]] {
					purgeDel[k] = true
				}
				k++
			}
		}
	}
	for _, mode := range []string{"kill", "fail"} {
		for k := 0; k < n; k++ {
			pfx := fmt.Sprintf("S%s%d_", mode[:1], k)
			canon := fmt.Sprintf("startup boundary=%d/%d fault=%s", k, n, mode)
			w.ctx.Current(canon, nil)
			before, err := prepare(pfx)
			if err != nil {
				return fmt.Errorf("prepare %s: %w", canon, err)
			}
			p, err := startChild(w.dir, fmt.Sprintf("%d:%s", k, mode), false)
			fired := false
			cameUp := err == nil
			if mode == "kill" {
				if err != nil && p != nil && p.died(3*time.Second) {
					fired = true
				}
			} else if err != nil {
				fired = true // LoadUser failed with the injected error
				if p != nil {
					p.kill()
				}
			} else {
				fired = p.startFired
			}
			if err != nil {
				// second start, undisturbed
				if p, err = startChild(w.dir, "", false); err != nil {
					res.Fail("restart-failed | "+canon, err.Error(), nil)
					return err
				}
			}
			w.p = p
			res.Evaluations++
			if mode == "fail" && cameUp && fired && purgeDel[k] {
				// a store delete of the purge failed: nothing unreferenced may be left when this start has finished
				if lo, e := w.leftovers(); e == nil && lo != "" {
					res.Fail("leftovers-after-start-with-failing-purge-delete | "+canon, lo, nil)
				}
			}
			if !fired {
				res.Count("not-fired:startup")
				continue
			}
			res.Nontrivial(canon)
			if mode == "fail" && cameUp {
				// the server came up although a clean-up step failed: the next clean start must finish the job
				w.cleanQuit(canon)
				if err := w.restart(""); err != nil {
					return err
				}
			}
			after, bad, err := viewOf(w.p, pfx)
			if err != nil {
				return err
			}
			if after != before {
				res.Fail("neither-before-nor-after | "+canon, fmt.Sprintf("before: %s | after: %s", before, after), nil)
			}
			if len(bad) > 0 {
				res.Fail("listed-message-not-fetchable | "+canon, strings.Join(bad, "; "), nil)
			}
			if lo, err := w.leftovers(); err == nil && lo != "" {
				res.Fail("leftovers-after-restart | "+canon, lo, nil)
			}
		}
	}
	// a cache file of a message marked for deletion is already missing at start-up: the purge's delete loop stops at it;
	// the other files must be gone when the start has finished
	for j := 1; j <= 2; j++ {
		pfx := fmt.Sprintf("Sm%d_", j)
		canon := fmt.Sprintf("startup with the cache file of marked message %d of 2 missing", j)
		w.ctx.Current(canon, nil)
		before, err := prepare(pfx)
		if err != nil {
			return fmt.Errorf("prepare %s: %w", canon, err)
		}
		// the j-th row marked for deletion (rows are ordered by internal id, the order of the purge's delete loop)
		gone, c := "", 0
		for _, m := range snapB.Ms {
			if m.Deleted {
				c++
				if c == j {
					gone = m.IID
				}
			}
		}
		if gone != "" {
			os.Remove(filepath.Join(storeDirOf(w.dir), gone))
		}
		if err := w.restart(""); err != nil {
			res.Fail("restart-failed | "+canon, err.Error(), nil)
			return err
		}
		res.Evaluations++
		res.Nontrivial(canon)
		if lo, e := w.leftovers(); e == nil && lo != "" {
			res.Fail("leftovers-after-start-with-missing-cache-file | "+canon, lo, nil)
		}
		after, bad, err := viewOf(w.p, pfx)
		if err != nil {
			return err
		}
		if after != before || len(bad) > 0 {
			res.Fail("neither-before-nor-after | "+canon, fmt.Sprintf("before: %s | after: %s | %v", before, after, bad), nil)
		}
	}
	return nil
}

// resurrectScenario: the connector deletes a message and creates a message with the SAME remote id (new literal) before
// the row of the old one has been purged; then the server is closed and reopened. Afterwards the new literal is served,
// nothing marked for deletion remains and the store holds only referenced files.
func (w *world) resurrectScenario() error {
	res := w.ctx.Res
	pfx := "RS_"
	canon := "connector MessageDeleted r1; MessagesCreated r1 (new literal) in B; MessageDeleted r2; close; reopen"
	w.ctx.Current(canon, nil)
	d, err := prepAB(w, pfx, 3, true)
	closeAll(d)
	if err != nil {
		return err
	}
	w.quiesce()
	if err := w.mustPush(&upd{Kind: "MessageDeleted", MsgRID: pfx + "r1"}); err != nil {
		return err
	}
	if err := w.mustPush(&upd{Kind: "MessagesCreated", Items: []mcItem{{RID: pfx + "r1", Marker: pfx + "re", Mboxes: []string{pfx + "b"}}}}); err != nil {
		res.Fail("recreate-refused | "+canon, err.Error(), nil)
		return nil
	}
	if err := w.mustPush(&upd{Kind: "MessageDeleted", MsgRID: pfx + "r2"}); err != nil {
		return err
	}
	want := fmt.Sprintf("%sA{v# n4 strue: 3=%sm3[]} %sB{v# n3 strue: 2=%sre[]}", pfx, pfx, pfx, pfx)
	check := func(when string, restarted bool) error {
		v, bad, err := viewOf(w.p, pfx)
		if err != nil {
			return err
		}
		res.Evaluations++
		if maskUIDV(v) != want {
			res.Fail("recreated-message-wrong | "+canon+" | "+when, fmt.Sprintf("view: %s | expected: %s", maskUIDV(v), want), nil)
		}
		if len(bad) > 0 {
			res.Fail("listed-message-not-fetchable | "+canon+" | "+when, strings.Join(bad, "; "), nil)
		}
		if restarted {
			if lo, e := w.leftovers(); e == nil && lo != "" {
				res.Fail("leftovers-after-restart | "+canon+" | "+when, lo, nil)
			}
		}
		return nil
	}
	res.Nontrivial(canon)
	if err := check("before the restart", false); err != nil {
		return err
	}
	w.cleanQuit("resurrect")
	if err := w.restart(""); err != nil {
		return err
	}
	if err := check("after close + reopen", true); err != nil {
		return err
	}
	w.p.kill()
	if err := w.restart(""); err != nil {
		return err
	}
	return check("after kill + restart", true)
}

// redownloadScenario: a listed message whose cache file is missing is downloaded again from the connector and served
// byte-exact (the connector's copy is journalled, so the restarted server sees the same remote).
func (w *world) redownloadScenario() error {
	res := w.ctx.Res
	d, err := prepAB(w, "RD_", 2, true)
	closeAll(d)
	if err != nil {
		return err
	}
	before, _, err := viewOf(w.p, "RD_")
	if err != nil {
		return err
	}
	s, err := w.snap()
	if err != nil {
		return err
	}
	w.cleanQuit("redownload")
	removed := 0
	for _, m := range s.Ms {
		if strings.HasPrefix(m.RID, "RD_") {
			if os.Remove(filepath.Join(storeDirOf(w.dir), m.IID)) == nil {
				removed++
			}
		}
	}
	if err := w.restart(""); err != nil {
		return err
	}
	after, bad, err := viewOf(w.p, "RD_")
	if err != nil {
		return err
	}
	res.Evaluations++
	res.Nontrivial(fmt.Sprintf("redownload of %d listed messages whose cache file is missing", removed))
	if after != before || len(bad) > 0 {
		res.Fail("missing-cache-file-not-redownloaded | close, remove the cache files of listed messages, reopen",
			fmt.Sprintf("before: %s | after: %s | %v", before, after, bad), nil)
	}
	return nil
}

// recoveryMoveScenario: two APPENDs the connector refuses land in the recovery mailbox; the client COPYs the first and
// MOVEs the second into a normal mailbox (the connector accepts them now, but does NOT journal them: after a restart it
// cannot deliver them again, so only the cache files written by the import can serve them); the session ends. The
// recovered source of the COPY must keep its exact bytes; the caller's checkpoint then closes / reopens / kills /
// restarts and compares every message's bytes.
func (w *world) recoveryMoveScenario() error {
	res := w.ctx.Res
	pfx := "RM_"
	canon := "2 APPENDs refused by the connector (kept in the recovery mailbox); COPY the first and MOVE the second into A; LOGOUT"
	w.ctx.Current(canon, nil)
	d, err := prepAB(w, pfx, 1, false)
	if err != nil {
		closeAll(d)
		return err
	}
	defer closeAll(d)
	for _, mkr := range []string{"rec1", "rec2"} {
		if _, err := w.p.call(req{Op: "failnext", Name: "CreateMessage"}); err != nil {
			return err
		}
		if r, err := d.c.Append(pfx+"A", "", literalOf(pfx+mkr)); err != nil || r.Status != "NO" {
			return fmt.Errorf("APPEND expected NO: %v %s %s", err, r.Status, r.Text)
		}
	}
	if err := cmds(d.c, "SELECT "+imapcQuote(recoveryName)); err != nil {
		return err
	}
	// the messages of this scenario among the recovered ones, with their exact bytes
	find := func() (map[string]int, map[string]string, error) {
		r, err := okCmd(d.c, "UID FETCH 1:* (UID BODY.PEEK[])")
		if err != nil {
			return nil, nil, err
		}
		uids, shas := map[string]int{}, map[string]string{}
		for _, e := range imapcEvs(r) {
			if e.Kind != "FETCH" || len(e.Lits) == 0 {
				continue
			}
			lit := e.Lits[len(e.Lits)-1]
			if x := reMarker.FindSubmatch(lit); x != nil && strings.HasPrefix(string(x[1]), pfx) {
				uids[string(x[1])] = e.UID
				shas[string(x[1])] = litSHAFull(lit)
			}
		}
		return uids, shas, nil
	}
	uids, shas, err := find()
	if err != nil {
		return err
	}
	if uids[pfx+"rec1"] == 0 || uids[pfx+"rec2"] == 0 {
		return fmt.Errorf("recovered messages not found: %v", uids)
	}
	if _, err := w.p.call(req{Op: "journal", Mode: "off"}); err != nil {
		return err
	}
	w.p.call(req{Op: "calls"})
	if err := cmds(d.c, fmt.Sprintf("UID COPY %d %s", uids[pfx+"rec1"], imapcQuote(pfx+"A")),
		fmt.Sprintf("UID MOVE %d %s", uids[pfx+"rec2"], imapcQuote(pfx+"A"))); err != nil {
		return err
	}
	if cr, err := w.p.call(req{Op: "calls"}); err == nil {
		for _, c := range cr.Calls {
			if c.Op == "CreateMessage" && len(c.Args) == 2 {
				w.noRedeliver[c.Args[1]] = true
			}
		}
	}
	if _, err := w.p.call(req{Op: "journal", Mode: "on"}); err != nil {
		return err
	}
	res.Evaluations++
	res.Nontrivial(canon)
	uids2, shas2, err := find()
	if err != nil {
		return err
	}
	if uids2[pfx+"rec1"] != uids[pfx+"rec1"] || shas2[pfx+"rec1"] != shas[pfx+"rec1"] {
		res.Fail("recovered-source-changed-by-copy | "+canon, fmt.Sprintf("the recovered message that was COPIED out: uid %d bytes %s before, uid %d bytes %s after", uids[pfx+"rec1"], shas[pfx+"rec1"], uids2[pfx+"rec1"], shas2[pfx+"rec1"]), nil)
	}
	if _, still := uids2[pfx+"rec2"]; still {
		res.Fail("moved-recovered-message-still-there | "+canon, "the recovered message that was MOVED out is still in the recovery mailbox", nil)
	}
	d.c.Cmd("LOGOUT")
	w.settle(true)
	want := fmt.Sprintf("%sA{v# n4 strue: 1=%sm1[] 2=%srec1[] 3=%srec2[]} %sB{v# n1 strue:} %s{%srec1[]}", pfx, pfx, pfx, pfx, pfx, recoveryName, pfx)
	v, bad, err := viewOf(w.p, pfx)
	if err != nil {
		return err
	}
	if !sameEntries(maskUIDV(v), want) {
		res.Fail("copy-move-out-of-recovery-wrong | "+canon, fmt.Sprintf("view: %s | expected: %s", maskUIDV(v), want), nil)
	}
	if len(bad) > 0 {
		res.Fail("listed-message-not-fetchable | "+canon, strings.Join(bad, "; "), nil)
	}
	return nil
}

// chunkScenario: n messages (n on both sides of db.ChunkLimit = 1000; the statements over message lists run in chunks)
// created by ONE connector batch of tiny messages, then
//   STORE 1:* +FLAGS (\Deleted) -> every message shows \Deleted in a fresh session, also after kill + restart;
//   STORE 1:* -FLAGS (\Deleted) -> none does;
//   with no session connected the connector deletes all n messages; close + reopen: the start-up purge has to remove
//   all n rows and all n cache files at once (checked before any session connects), the mailbox is empty.
func (w *world) chunkScenario(n int) error {
	res := w.ctx.Res
	pfx := fmt.Sprintf("CH%d_", n)
	canon := fmt.Sprintf("%d messages in one mailbox: STORE 1:* +FLAGS (\\Deleted); restart; STORE 1:* -FLAGS (\\Deleted); connector deletes all; close; reopen", n)
	w.ctx.Current(canon, nil)
	if err := w.mustPush(&upd{Kind: "MailboxCreated", MboxRID: pfx + "a", Name: pfx + "A"}); err != nil {
		return err
	}
	var items []mcItem
	for i := 0; i < n; i++ {
		items = append(items, mcItem{RID: fmt.Sprintf("%sr%d", pfx, i), Marker: fmt.Sprintf("%sm%d", pfx, i), Mboxes: []string{pfx + "a"}})
	}
	if err := w.mustPush(&upd{Kind: "MessagesCreated", Items: items}); err != nil {
		return err
	}
	res.Nontrivial(canon)
	// number of messages of the mailbox and number of those showing \Deleted, in a fresh session
	count := func() (int, int, []string, error) {
		v, bad, err := viewOf(w.p, pfx)
		if err != nil {
			return 0, 0, nil, err
		}
		return strings.Count(v, "="+pfx+"m"), strings.Count(v, `[\deleted]`), bad, nil
	}
	expect := func(when string, wantAll, wantDel int) error {
		all, del, bad, err := count()
		if err != nil {
			return err
		}
		res.Evaluations++
		if all != wantAll || del != wantDel {
			res.Fail("acknowledged-flags-not-kept | "+canon+" | "+when, fmt.Sprintf("%d messages listed, %d of them \\Deleted; acknowledged: %d messages, %d \\Deleted", all, del, wantAll, wantDel), nil)
		}
		if len(bad) > 0 {
			res.Fail("listed-message-not-fetchable | "+canon+" | "+when, strings.Join(bad[:1], "; "), nil)
		}
		return nil
	}
	store := func(sign string) error {
		c, err := w.p.login()
		if err != nil {
			return err
		}
		defer c.Close()
		if err := cmds(c, "SELECT "+imapcQuote(pfx+"A"), "STORE 1:* "+sign+"FLAGS.SILENT (\\Deleted)"); err != nil {
			return err
		}
		c.Cmd("LOGOUT")
		return nil
	}
	if err := store("+"); err != nil {
		return err
	}
	if err := expect("after STORE +FLAGS", n, n); err != nil {
		return err
	}
	w.p.kill()
	if err := w.restart(""); err != nil {
		return err
	}
	if err := expect("after STORE +FLAGS and kill + restart", n, n); err != nil {
		return err
	}
	if err := store("-"); err != nil {
		return err
	}
	if err := expect("after STORE -FLAGS", n, 0); err != nil {
		return err
	}
	// no session is connected: the rows stay (marked) until the next start
	w.settle(true)
	for i := 0; i < n; i++ {
		if err := w.mustPush(&upd{Kind: "MessageDeleted", MsgRID: fmt.Sprintf("%sr%d", pfx, i)}); err != nil {
			return err
		}
	}
	w.cleanQuit("chunk scenario")
	if err := w.restart(""); err != nil {
		return err
	}
	res.Evaluations++
	if lo, e := w.leftovers(); e == nil && lo != "" {
		if len(lo) > 600 {
			lo = lo[:600] + "..."
		}
		res.Fail("leftovers-after-restart | "+canon+" | start-up purge of all messages", lo, nil)
	}
	return expect("after the connector deleted all and close + reopen", 0, 0)
}

// messageBytes: UID -> hash of the exact BODY[] bytes of the messages of one mailbox (bad: unfetchable / size mismatch).
func (w *world) messageBytes(mbox string) (map[int]string, []string, error) {
	c, err := w.p.login()
	if err != nil {
		return nil, nil, err
	}
	defer c.Close()
	if _, err := okCmd(c, "EXAMINE "+imapcQuote(mbox)); err != nil {
		return nil, nil, err
	}
	r, err := okCmd(c, "UID FETCH 1:* (UID)")
	if err != nil {
		return nil, nil, err
	}
	out := map[int]string{}
	var bad []string
	for _, e := range imapcEvs(r) {
		if e.Kind != "FETCH" {
			continue
		}
		r2, err := c.Cmd(fmt.Sprintf("UID FETCH %d (RFC822.SIZE BODY.PEEK[])", e.UID))
		if err != nil {
			return nil, nil, err
		}
		if r2.Status != "OK" {
			bad = append(bad, fmt.Sprintf("%s uid %d: %s %s", mbox, e.UID, r2.Status, r2.Text))
			continue
		}
		for _, b := range imapcEvs(r2) {
			if b.Kind == "FETCH" && len(b.Lits) > 0 {
				lit := b.Lits[len(b.Lits)-1]
				out[e.UID] = litSHAFull(lit)
				if m := reSize.FindStringSubmatch(b.Raw); m != nil && m[1] != fmt.Sprint(len(lit)) {
					bad = append(bad, fmt.Sprintf("%s uid %d: RFC822.SIZE %s but BODY[] has %d bytes", mbox, e.UID, m[1], len(lit)))
				}
			}
		}
	}
	c.Cmd("LOGOUT")
	return out, bad, nil
}

func sameBytes(a, b map[int]string) string {
	for u, x := range a {
		if b[u] != x {
			return fmt.Sprintf("uid %d: bytes %s before, %s now", u, x, b[u])
		}
	}
	if len(a) != len(b) {
		return fmt.Sprintf("%d messages before, %d now", len(a), len(b))
	}
	return ""
}

// tornRefillScenario: the cache file of a listed message is lost; the next FETCH downloads the message again and
// refills the cache — and the process dies INSIDE that store.Set, leaving a prefix of the file (created only, header,
// header + nonce, half a block, all but one byte). After the restart every listed message must be served with its
// exact bytes: a cut file has to be recognised as such (and the message downloaded again), never served.
func (w *world) tornRefillScenario() error {
	res := w.ctx.Res
	pfx := "TR_"
	d, err := prepAB(w, pfx, 2, false)
	closeAll(d)
	if err != nil {
		return err
	}
	cuts := []int{0, 1, 2, 3, 4}
	victimRID := pfx + "r1"
	if w.ctx.Tier == "thorough" {
		// a message whose cache file has several sealed blocks: also cut exactly after the first full block
		if err := w.mustPush(&upd{Kind: "MessagesCreated", Items: []mcItem{{RID: pfx + "rbig", Marker: pfx + "BIG", Mboxes: []string{pfx + "a"}}}}); err != nil {
			return err
		}
		cuts = append(cuts, 5)
		victimRID = pfx + "rbig"
	}
	before, bad, err := w.messageBytes(pfx + "A")
	if err != nil {
		return err
	}
	if len(bad) > 0 || len(before) < 2 {
		return fmt.Errorf("torn refill: cannot read the messages: %v", bad)
	}
	snap, err := w.snap()
	if err != nil {
		return err
	}
	victim := msByRID(snap, victimRID)
	if victim == nil {
		return fmt.Errorf("torn refill: message not found")
	}
	for _, cut := range cuts {
		canon := fmt.Sprintf("cache file of a listed message lost; FETCH downloads it again; the process dies inside the refilling store.Set (file cut: %s); restart; FETCH", cutName(cut))
		w.ctx.Current(canon, nil)
		w.cleanQuit("torn refill")
		os.Remove(filepath.Join(storeDirOf(w.dir), victim.IID))
		if err := w.restart(""); err != nil {
			return err
		}
		if _, err := w.p.call(req{Op: "arm", K: 0, Mode: "tear", Cut: cut}); err != nil {
			return err
		}
		w.messageBytes(pfx + "A") // dies inside the refill
		if !w.p.died(5 * time.Second) {
			w.p.call(req{Op: "disarm"})
			res.Count("not-fired:tornrefill")
			continue
		}
		if err := w.restart(""); err != nil {
			res.Fail("restart-failed | "+canon, err.Error(), nil)
			return err
		}
		res.Evaluations++
		res.Nontrivial(canon)
		for _, when := range []string{"first FETCH after the restart", "second FETCH"} {
			now, bad, err := w.messageBytes(pfx + "A")
			if err != nil {
				return err
			}
			if diff := sameBytes(before, now); diff != "" || len(bad) > 0 {
				res.Fail("torn-cache-file-served | "+canon+" | "+when, fmt.Sprintf("%s %v", diff, bad), nil)
			}
		}
	}
	return nil
}

func cutName(cut int) string {
	return []string{"created, nothing written", "header only", "header + nonce, no data block", "half of the sealed block", "all but the last byte", "first full block"}[cut]
}

// repairScenario: the cache file of a listed message is damaged AND LONGER than the file that replaces it (here: the
// real file followed by foreign bytes, header destroyed). FETCH notices, downloads the message again and rewrites the
// file; then the connector loses the message and the server is restarted: the rewritten file alone must serve the exact bytes.
func (w *world) repairScenario() error {
	res := w.ctx.Res
	pfx := "RP_"
	canon := "cache file of a listed message damaged and longer than its replacement; FETCH repairs it; the connector loses the message; restart; FETCH"
	w.ctx.Current(canon, nil)
	d, err := prepAB(w, pfx, 2, false)
	closeAll(d)
	if err != nil {
		return err
	}
	before, bad, err := w.messageBytes(pfx + "A")
	if err != nil {
		return err
	}
	if len(bad) > 0 || len(before) != 2 {
		return fmt.Errorf("repair: cannot read the messages: %v", bad)
	}
	snap, err := w.snap()
	if err != nil {
		return err
	}
	victim := msByRID(snap, pfx+"r1")
	if victim == nil {
		return fmt.Errorf("repair: message not found")
	}
	w.cleanQuit("repair")
	path := filepath.Join(storeDirOf(w.dir), victim.IID)
	if b, err := os.ReadFile(path); err == nil {
		junk := make([]byte, len(b)+700)
		for i := range junk {
			junk[i] = byte(37 + i*11)
		}
		copy(junk[3:], b) // shifted: no valid header any more, and 700 bytes longer
		os.WriteFile(path, junk, 0o600)
	}
	if err := w.restart(""); err != nil {
		return err
	}
	res.Evaluations++
	res.Nontrivial(canon)
	now, bad, err := w.messageBytes(pfx + "A")
	if err != nil {
		return err
	}
	if diff := sameBytes(before, now); diff != "" || len(bad) > 0 {
		res.Fail("damaged-cache-file-not-repaired | "+canon+" | FETCH with the damaged file", fmt.Sprintf("%s %v", diff, bad), nil)
	}
	if _, err := w.p.call(req{Op: "forget", Name: pfx + "r1"}); err != nil {
		return err
	}
	w.noRedeliver[pfx+"r1"] = true
	for _, how := range []string{"close + reopen", "kill + restart"} {
		if how == "close + reopen" {
			w.cleanQuit("repair")
		} else {
			w.p.kill()
		}
		if err := w.restart(""); err != nil {
			return err
		}
		now, bad, err := w.messageBytes(pfx + "A")
		if err != nil {
			return err
		}
		res.Evaluations++
		if diff := sameBytes(before, now); diff != "" || len(bad) > 0 {
			res.Fail("repaired-cache-file-unreadable | "+canon+" | after "+how+", the connector no longer has the message", fmt.Sprintf("%s %v", diff, bad), nil)
		}
	}
	return nil
}
