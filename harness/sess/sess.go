// Package sess drives K IMAP sessions over histories (commands, deliveries of held state updates, connector updates)
// against the real server and records what each step produced. Shared by the C01, C02 and C05 harnesses.
package sess

import (
	"fmt"
	"regexp"
	"sort"
	"strconv"
	"strings"
	"time"

	"github.com/ProtonMail/gluon/imap"
	"github.com/ProtonMail/gluon/verifhook"

	"verifharness/common"
	"verifharness/hconn"
	"verifharness/imapc"
	"verifharness/srv"
)

// Flag numbering shared with coq/Model/Responders.v.
var FlagNames = []string{`\Recent`, `\Deleted`, `\Seen`, `\Flagged`, "kwa", "kwb", "$Forwarded", "Forwarded"}

// forwardClosure: STORE completes the forward flags: naming $Forwarded or Forwarded means both (internal/state/updates.go)
func forwardClosure(ids []int) []int {
	has := false
	for _, f := range ids {
		if f == 6 || f == 7 {
			has = true
		}
	}
	if !has {
		return ids
	}
	out := []int{}
	for _, f := range ids {
		if f != 6 && f != 7 {
			out = append(out, f)
		}
	}
	return append(out, 6, 7)
}

func flagID(name string) int {
	l := strings.ToLower(name)
	for i, n := range FlagNames {
		if strings.ToLower(n) == l {
			return i
		}
	}
	return 99
}

type Resp struct {
	Kind  string `json:"k"` // EXISTS EXPUNGE FETCH
	N     int    `json:"n"`
	Flags []int  `json:"f,omitempty"`
	UID   int    `json:"u,omitempty"`
}

func (r Resp) Coq() string {
	switch r.Kind {
	case "EXISTS":
		return fmt.Sprintf("PExists %d", r.N)
	case "EXPUNGE":
		return fmt.Sprintf("PExpunge %d", r.N)
	default:
		u := "None"
		if r.UID > 0 {
			u = fmt.Sprintf("(Some %d)", r.UID)
		}
		return fmt.Sprintf("PFetch %d %s %s", r.N, common.CoqNList(r.Flags), u)
	}
}

type Op struct {
	Kind   string `json:"kind"` // cmd deliver conn
	S      int    `json:"s"`
	Cmd    string `json:"cmd,omitempty"` // select append store expunge copy move fetchbody probe search noop check idle done | new flag delete setmbox
	Mb     int    `json:"mb,omitempty"`
	Ps     []int  `json:"ps,omitempty"`
	FOp    string `json:"fop,omitempty"` // add rem set
	Flags  []int  `json:"flags,omitempty"`
	Silent bool   `json:"silent,omitempty"`
	Msg    int    `json:"msg,omitempty"`
	Flag   int    `json:"flag,omitempty"`
	Add    bool   `json:"add,omitempty"`
	Mbs    []int  `json:"mbs,omitempty"`
	// Virt: a connector op that is part of the PREVIOUS update on the wire (a MessageMailboxesUpdated that also changes
	// a flag is one update for the server and two steps - membership, then flag - for the model): nothing is sent
	Virt bool `json:"virt,omitempty"`
	// RO: the session issuing this command has its mailbox selected read-only. On a select op: use EXAMINE. On a body
	// fetch: rendered as CFetchBodyRO (nothing is marked \Seen). On store/expunge/copy/move: refused like CSearchBad.
	RO bool `json:"ro,omitempty"`
	// ByUID: send the UID form of the command (UID STORE / UID FETCH / UID COPY / UID MOVE / UID SEARCH); UIDs holds the
	// UIDs the client has learnt for the positions Ps (filled in by the generator's exec from the client mirror; when
	// one is unknown, or the mirror is known not to be the session's view, the sequence-number form is used instead).
	// The model runs the same command on the positions: C05_uid_forms_flush_alike.
	ByUID bool  `json:"byuid,omitempty"`
	UIDs  []int `json:"uids,omitempty"`
	// All: the message set is written 1:* (Ps is filled in by the generator's exec with 1..count of the client mirror)
	All bool `json:"all,omitempty"`
	// Count: number of messages of a "newbulk" connector op (one MessagesCreated carrying them all)
	Count int `json:"count,omitempty"`
	// Label: this MOVE meets a connector with label semantics (MoveMessages answers false): rendered as CMoveLabel
	Label bool `json:"label,omitempty"`
}

func natList(xs []int) string {
	s := make([]string, len(xs))
	for i, x := range xs {
		s[i] = fmt.Sprintf("%d%%nat", x)
	}
	return "[" + strings.Join(s, "; ") + "]"
}

func (o Op) Coq() string {
	switch o.Kind {
	case "deliver":
		return fmt.Sprintf("Deliver %d", o.S)
	case "conn":
		switch o.Cmd {
		case "new":
			return fmt.Sprintf("Conn (XNew %d %s)", o.Mb, common.CoqNList(o.Flags))
		case "newbulk":
			return fmt.Sprintf("Conn (XNewBulk %d %d%%nat)", o.Mb, o.Count)
		case "flag":
			return fmt.Sprintf("Conn (XFlag %d %d %s)", o.Msg, o.Flag, common.CoqBool(o.Add))
		case "delete":
			return fmt.Sprintf("Conn (XDelete %d)", o.Msg)
		case "setmbox":
			return fmt.Sprintf("Conn (XSetMailboxes %d %s)", o.Msg, common.CoqNList(o.Mbs))
		}
	case "cmd":
		fop := map[string]string{"add": "FAdd", "rem": "FRem", "set": "FSet"}[o.FOp]
		var c string
		switch o.Cmd {
		case "select":
			c = fmt.Sprintf("CSelect %d", o.Mb)
		case "append":
			c = fmt.Sprintf("CAppend %d %s", o.Mb, common.CoqNList(o.Flags))
		case "store":
			c = fmt.Sprintf("CStore %s %s %s %s", natList(o.Ps), fop, common.CoqNList(forwardClosure(o.Flags)), common.CoqBool(o.Silent))
		case "expunge":
			c = "CExpunge"
		case "copy":
			c = fmt.Sprintf("CCopy %s %d", natList(o.Ps), o.Mb)
		case "move":
			c = fmt.Sprintf("CMove %s %d", natList(o.Ps), o.Mb)
			if o.Label {
				c = fmt.Sprintf("CMoveLabel %s %d", natList(o.Ps), o.Mb)
			}
		}
		if o.RO && (o.Cmd == "store" || o.Cmd == "expunge" || o.Cmd == "copy" || o.Cmd == "move") {
			c = "CSearchBad" // ErrReadOnly: answered NO after the trailing flush only; nothing changes
		}
		switch o.Cmd {
		case "fetchbody":
			c = fmt.Sprintf("CFetchBody %s", natList(o.Ps))
			if o.RO {
				c = fmt.Sprintf("CFetchBodyRO %s false", natList(o.Ps))
			}
		case "fetchflagsbody":
			c = fmt.Sprintf("CFetchFlagsBody %s", natList(o.Ps))
			if o.RO {
				c = fmt.Sprintf("CFetchBodyRO %s true", natList(o.Ps))
			}
		case "probe":
			c = "CProbe"
		case "search":
			c = "CSearch"
		case "searchbad", "fetchbadpart":
			// a FETCH whose item fails (BODY[9] of a single-part message) is, like the refused SEARCH, answered NO after the
			// trailing flush of handleSelectedCommand only; it must not leave a trace (no \Seen) in the snapshot
			c = "CSearchBad"
		case "noop":
			c = "CNoop"
		case "status":
			c = "CStatus"
		case "check":
			c = "CCheck"
		case "idle":
			c = "CIdle"
		case "done":
			c = "CDone"
		case "close":
			c = "CClose"
		case "unselect":
			c = "CUnselect"
		}
		return fmt.Sprintf("Cmd %d (%s)", o.S, c)
	}
	return "Deliver 0"
}

func (o Op) uidPrefix() string {
	if o.ByUID {
		return "UID "
	}
	return ""
}

// set: the message set of the command: positions, or the UIDs learnt for them
func (o Op) set() []int {
	if o.ByUID {
		return o.UIDs
	}
	return o.Ps
}

func (o Op) String() string {
	switch o.Kind {
	case "deliver":
		return fmt.Sprintf("Deliver S%d", o.S)
	case "conn":
		switch o.Cmd {
		case "new":
			return fmt.Sprintf("Conn new m%d %v", o.Mb, o.Flags)
		case "newbulk":
			return fmt.Sprintf("Conn newbulk m%d x%d", o.Mb, o.Count)
		case "flag":
			return fmt.Sprintf("Conn flag msg%d %d %v", o.Msg, o.Flag, o.Add)
		case "delete":
			return fmt.Sprintf("Conn delete msg%d", o.Msg)
		default:
			return fmt.Sprintf("Conn setmbox msg%d %v", o.Msg, o.Mbs)
		}
	}
	s := fmt.Sprintf("S%d:%s", o.S, o.Cmd)
	if o.ByUID {
		s = fmt.Sprintf("S%d:uid-%s%v", o.S, o.Cmd, o.UIDs)
	}
	switch o.Cmd {
	case "select":
		s += fmt.Sprintf(" m%d", o.Mb)
	case "append":
		s += fmt.Sprintf(" m%d %v", o.Mb, o.Flags)
	case "store":
		s += fmt.Sprintf(" %v %s %v silent=%v", o.Ps, o.FOp, o.Flags, o.Silent)
	case "status":
		s += fmt.Sprintf(" m%d", o.Mb)
	case "copy", "move":
		s += fmt.Sprintf(" %v m%d", o.Ps, o.Mb)
	case "fetchbody", "fetchflagsbody", "fetchbadpart":
		s += fmt.Sprintf(" %v", o.Ps)
	}
	return s
}

type StepObs struct {
	Out     []Resp   `json:"out"`
	Outcome string   `json:"outcome"` // OOk OOkIssued ONo OBadState OFail
	Raw     []string `json:"-"`
}

type ViewObs struct {
	AfterStep int              `json:"after"`
	Mb        int              `json:"mb"`
	Rows      [][2]interface{} `json:"-"`
	UIDs      []int            `json:"uids"`
	Flags     [][]int          `json:"flags"`
}

// World is a running server with K logged-in sessions and all foreign state updates held.
type World struct {
	S        *srv.Server
	K        int
	NMbox    int
	C        []*imapc.Client
	StateID  []int64
	Idle     []bool
	idleTag  []string
	MsgCount int                    // messages created so far (model ids are 1..MsgCount)
	Remote   map[int]imap.MessageID // model msg id -> remote id
	markerOf map[string]int
	Conn     *hconn.Conn
	Bulk     bool
}

// flagCase cycles the letter case in which client commands spell flags (flags are case-insensitive: a flag stored as
// "kwa" must be removed by STORE -FLAGS (KWA) in the database as well as in the live views).
var flagCase int

func flagString(ids []int) string {
	s := make([]string, len(ids))
	for i, f := range ids {
		n := FlagNames[f]
		switch flagCase % 3 {
		case 1:
			n = strings.ToUpper(n)
		case 2:
			n = strings.ToUpper(n[:2]) + n[2:]
		}
		flagCase++
		s[i] = n
	}
	return strings.Join(s, " ")
}

func Start(k, nmbox int, bulk ...bool) (*World, error) {
	verifhook.Reset()
	flagCase = 0
	verifhook.SetHold(func(int64) bool { return true })
	var bulkTime time.Duration
	if len(bulk) > 0 && bulk[0] {
		bulkTime = 60 * time.Second // responses produced while idling are sent, merged, when the IDLE ends
	}
	s, err := srv.Start(srv.Options{IdleBulkTime: bulkTime})
	if err != nil {
		return nil, err
	}
	w := &World{S: s, K: k, NMbox: nmbox, Remote: map[int]imap.MessageID{}, markerOf: map[string]int{}, Conn: s.Conn0(), Bulk: bulkTime > 0}
	setup, err := s.Login()
	if err != nil {
		return nil, err
	}
	for i := 0; i < nmbox; i++ {
		if r, err := setup.Cmd(fmt.Sprintf("CREATE m%d", i)); err != nil || r.Status != "OK" {
			return nil, fmt.Errorf("create: %v %v", err, r.Text)
		}
	}
	setup.Cmd("LOGOUT")
	setup.Close()
	for i := 0; i < k; i++ {
		id0 := verifhook.CurrentStateID()
		c, err := s.Login()
		if err != nil {
			return nil, err
		}
		c.TagPfx = fmt.Sprintf("S%d", i)
		id1 := verifhook.CurrentStateID()
		if id1 != id0+1 {
			return nil, fmt.Errorf("unexpected state ids %d -> %d", id0, id1)
		}
		w.C = append(w.C, c)
		w.StateID = append(w.StateID, id1)
		w.Idle = append(w.Idle, false)
		w.idleTag = append(w.idleTag, "")
	}
	return w, nil
}

func (w *World) Stop() {
	for _, c := range w.C {
		c.Close()
	}
	verifhook.SetHold(nil)
	w.S.Stop()
	verifhook.Reset()
}

func convResp(evs []imapc.Ev, probe bool, bodyFetch ...bool) []Resp {
	var out []Resp
	var data []Resp
	for _, e := range evs {
		switch e.Kind {
		case "EXISTS":
			out = append(out, Resp{Kind: "EXISTS", N: e.N})
		case "EXPUNGE":
			out = append(out, Resp{Kind: "EXPUNGE", N: e.N})
		case "FETCH":
			if !e.HasFl {
				continue
			}
			fl := []int{}
			for _, f := range e.Flags {
				fl = append(fl, flagID(f))
			}
			sort.Ints(fl)
			r := Resp{Kind: "FETCH", N: e.N, Flags: fl, UID: e.UID}
			if (probe && e.UID > 0) || (len(bodyFetch) > 0 && bodyFetch[0] && strings.Contains(e.Raw, "BODY[]")) {
				data = append(data, r)
			} else {
				out = append(out, r)
			}
		}
	}
	sort.SliceStable(data, func(i, j int) bool { return data[i].N < data[j].N })
	return append(data, out...)
}

var reIssued = regexp.MustCompile(`EXPUNGEISSUED`)

func (o Op) setString() string {
	if o.All && !o.ByUID {
		return "1:*"
	}
	return psString(o.set())
}

func psString(ps []int) string {
	s := make([]string, len(ps))
	for i, p := range ps {
		s[i] = strconv.Itoa(p)
	}
	return strings.Join(s, ",")
}

func outcomeOf(r imapc.Result) string {
	switch r.Status {
	case "OK":
		if reIssued.MatchString(r.Text) {
			return "OOkIssued"
		}
		return "OOk"
	case "NO":
		return "ONo"
	case "BAD":
		return "OBadState"
	}
	return "OFail"
}

// Do executes one op and returns what was observed.
func (w *World) Do(o Op) (StepObs, error) {
	switch o.Kind {
	case "deliver":
		id := w.StateID[o.S]
		if verifhook.Held(id) == 0 {
			return StepObs{Outcome: "OBadState"}, nil
		}
		verifhook.Release(id, 1)
		if !verifhook.WaitQuiet(id, 30*time.Second) {
			return StepObs{}, fmt.Errorf("update not applied by session %d within 30s", o.S)
		}
		return StepObs{Outcome: "OOk"}, nil
	case "conn":
		return w.doConn(o)
	}
	c := w.C[o.S]
	if w.Idle[o.S] {
		if o.Cmd != "done" {
			return StepObs{Outcome: "OBadState"}, nil
		}
		if err := c.SendRaw([]byte("DONE\r\n")); err != nil {
			return StepObs{}, err
		}
		r, err := c.ReadUntilTag(w.idleTag[o.S])
		if err != nil {
			return StepObs{}, err
		}
		// barrier: responses written by the idle sender goroutine may trail the tagged OK (with a bulk time they are
		// only sent once the IDLE has ended)
		if w.Bulk {
			time.Sleep(120 * time.Millisecond)
		}
		r2, err := c.Cmd("CAPABILITY")
		if err != nil {
			return StepObs{}, err
		}
		w.Idle[o.S] = false
		evs := append(imapc.Evs(r), imapc.Evs(r2)...)
		return StepObs{Out: convResp(evs, false), Outcome: outcomeOf(r)}, nil
	}
	var r imapc.Result
	var err error
	probe := false
	switch o.Cmd {
	case "select":
		if o.RO {
			r, err = c.Cmd(fmt.Sprintf("EXAMINE m%d", o.Mb))
		} else {
			r, err = c.Cmd(fmt.Sprintf("SELECT m%d", o.Mb))
		}
	case "append":
		w.MsgCount++
		marker := fmt.Sprintf("msg%d", w.MsgCount)
		r, err = c.Append(fmt.Sprintf("m%d", o.Mb), flagString(o.Flags), common.Message(marker, "body of "+marker))
		if err == nil && r.Status == "OK" {
			// remote id assigned by hconn: the most recent successful CreateMessage call
			for _, call := range w.Conn.TakeCalls() {
				if call.Op == "CreateMessage" && call.Err == "" && len(call.Args) == 2 {
					w.Remote[w.MsgCount] = imap.MessageID(call.Args[1])
				}
			}
		}
	case "store":
		item := map[string]string{"add": "+FLAGS", "rem": "-FLAGS", "set": "FLAGS"}[o.FOp]
		if o.Silent {
			item += ".SILENT"
		}
		r, err = c.Cmd(fmt.Sprintf("%sSTORE %s %s (%s)", o.uidPrefix(), o.setString(), item, flagString(o.Flags)))
	case "expunge":
		r, err = c.Cmd("EXPUNGE")
	case "copy":
		r, err = c.Cmd(fmt.Sprintf("%sCOPY %s m%d", o.uidPrefix(), o.setString(), o.Mb))
	case "move":
		w.Conn.LabelMove = o.Label
		r, err = c.Cmd(fmt.Sprintf("%sMOVE %s m%d", o.uidPrefix(), o.setString(), o.Mb))
		w.Conn.LabelMove = false
	case "fetchbody":
		r, err = c.Cmd(fmt.Sprintf("%sFETCH %s (BODY[])", o.uidPrefix(), psString(o.set())))
	case "fetchflagsbody":
		r, err = c.Cmd(fmt.Sprintf("%sFETCH %s (FLAGS BODY[])", o.uidPrefix(), psString(o.set())))
	case "probe":
		probe = true
		r, err = c.Cmd("UID FETCH 1:* (FLAGS)")
	case "search":
		r, err = c.Cmd(o.uidPrefix() + "SEARCH ALL")
	case "searchbad":
		r, err = c.Cmd("SEARCH CHARSET X-UNKNOWN-CHARSET ALL")
	case "fetchbadpart":
		r, err = c.Cmd(fmt.Sprintf("FETCH %s (BODY[9])", psString(o.Ps)))
	case "noop":
		r, err = c.Cmd("NOOP")
	case "status":
		// STATUS of another (or the same) mailbox while one is selected: the handler flushes the selected mailbox
		r, err = c.Cmd(fmt.Sprintf("STATUS m%d (MESSAGES)", o.Mb))
	case "check":
		r, err = c.Cmd("CHECK")
	case "close":
		r, err = c.Cmd("CLOSE")
	case "unselect":
		r, err = c.Cmd("UNSELECT")
	case "idle":
		tag := c.NextTag()
		if err := c.SendRaw([]byte(tag + " IDLE\r\n")); err != nil {
			return StepObs{}, err
		}
		// read up to the continuation request (or a tagged refusal)
		for {
			l, err := c.ReadLine(30 * time.Second)
			if err != nil {
				return StepObs{}, err
			}
			if strings.HasPrefix(l.Text, "+") {
				break
			}
			if strings.HasPrefix(l.Text, tag+" ") {
				return StepObs{Outcome: "OBadState"}, nil
			}
		}
		w.Idle[o.S] = true
		w.idleTag[o.S] = tag
		return StepObs{Outcome: "OOk"}, nil
	case "done":
		return StepObs{Outcome: "OBadState"}, nil
	default:
		return StepObs{}, fmt.Errorf("unknown cmd %q", o.Cmd)
	}
	if err != nil {
		return StepObs{}, err
	}
	raw := make([]string, 0, len(r.Untagged)+1)
	for _, l := range r.Untagged {
		raw = append(raw, l.Text)
	}
	raw = append(raw, r.Tag+" "+r.Status+" "+r.Text)
	obs := StepObs{Out: convResp(imapc.Evs(r), probe, o.Cmd == "fetchbody" || o.Cmd == "fetchflagsbody"), Outcome: outcomeOf(r), Raw: raw}
	if o.Cmd == "select" {
		// keep only the EXISTS line
		var keep []Resp
		for _, x := range obs.Out {
			if x.Kind == "EXISTS" {
				keep = append(keep, x)
			}
		}
		obs.Out = keep
	}
	return obs, nil
}

func (w *World) mboxRemote(mb int) imap.MailboxID {
	id, _ := w.Conn.MailboxIDByName([]string{fmt.Sprintf("m%d", mb)})
	return id
}

func (w *World) remoteFlags(msg int) imap.FlagSet {
	m := w.Conn.Messages[w.Remote[msg]]
	if m == nil {
		return imap.NewFlagSet()
	}
	return m.Flags
}

func (w *World) doConn(o Op) (StepObs, error) {
	if o.Virt {
		return StepObs{Outcome: "OOk"}, nil
	}
	var u imap.Update
	switch o.Cmd {
	case "new":
		w.MsgCount++
		marker := fmt.Sprintf("msg%d", w.MsgCount)
		lit := common.Message(marker, "body of "+marker)
		parsed, err := imap.NewParsedMessage(lit)
		if err != nil {
			return StepObs{}, err
		}
		rid := imap.MessageID(fmt.Sprintf("conn-%d", w.MsgCount))
		w.Remote[w.MsgCount] = rid
		var fl []string
		for _, f := range o.Flags {
			fl = append(fl, FlagNames[f])
		}
		flags := imap.NewFlagSet(fl...)
		w.Conn.Messages[rid] = &hconn.Msg{Literal: lit, Flags: flags, Mboxes: map[imap.MailboxID]bool{w.mboxRemote(o.Mb): true}}
		u = imap.NewMessagesCreated(false, &imap.MessageCreated{
			Message: imap.Message{ID: rid, Flags: flags, Date: time.Date(2024, 1, 1, 10, 0, 0, 0, time.UTC)}, Literal: lit,
			MailboxIDs: []imap.MailboxID{w.mboxRemote(o.Mb)}, ParsedMessage: parsed})
	case "newbulk":
		var msgs []*imap.MessageCreated
		for k := 0; k < o.Count; k++ {
			w.MsgCount++
			marker := fmt.Sprintf("msg%d", w.MsgCount)
			lit := common.Message(marker, "body of "+marker)
			parsed, err := imap.NewParsedMessage(lit)
			if err != nil {
				return StepObs{}, err
			}
			rid := imap.MessageID(fmt.Sprintf("conn-%d", w.MsgCount))
			w.Remote[w.MsgCount] = rid
			flags := imap.NewFlagSet()
			w.Conn.Messages[rid] = &hconn.Msg{Literal: lit, Flags: flags, Mboxes: map[imap.MailboxID]bool{w.mboxRemote(o.Mb): true}}
			msgs = append(msgs, &imap.MessageCreated{
				Message: imap.Message{ID: rid, Flags: flags, Date: time.Date(2024, 1, 1, 10, 0, 0, 0, time.UTC)}, Literal: lit,
				MailboxIDs: []imap.MailboxID{w.mboxRemote(o.Mb)}, ParsedMessage: parsed})
		}
		u = imap.NewMessagesCreated(false, msgs...)
	case "flag":
		cur, _ := w.CurFlags(o.Msg)
		var fl []string
		for _, f := range cur {
			if f != o.Flag {
				fl = append(fl, FlagNames[f])
			}
		}
		if o.Add {
			fl = append(fl, FlagNames[o.Flag])
		}
		u = imap.NewMessageFlagsUpdated(w.Remote[o.Msg], imap.NewFlagSet(fl...))
	case "delete":
		u = imap.NewMessagesDeleted(w.Remote[o.Msg])
	case "setmbox":
		var ids []imap.MailboxID
		for _, mb := range o.Mbs {
			ids = append(ids, w.mboxRemote(mb))
		}
		cur, _ := w.CurFlags(o.Msg)
		var fl []string
		for _, f := range cur {
			if o.Flag > 0 && f == o.Flag {
				continue
			}
			fl = append(fl, FlagNames[f])
		}
		if o.Flag > 0 && o.Add {
			fl = append(fl, FlagNames[o.Flag]) // the same update also changes this flag (see Op.Virt)
		}
		u = imap.NewMessageMailboxesUpdated(w.Remote[o.Msg], ids, imap.NewFlagSet(fl...))
	}
	err, acked := w.Conn.Push(u, 30*time.Second)
	if !acked {
		return StepObs{}, fmt.Errorf("connector update not acknowledged")
	}
	if err != nil {
		return StepObs{Outcome: "ONo"}, nil
	}
	return StepObs{Outcome: "OOk"}, nil
}

// CurFlags asks the server (through a fresh connection) for the shared flags (without \Deleted and \Recent) of the
// message with the given creation index; needed to build the full flag set of a connector flag update.
func (w *World) CurFlags(msg int) ([]int, bool) {
	c, err := w.S.Login()
	if err != nil {
		return nil, false
	}
	defer c.Close()
	marker := fmt.Sprintf("msg%d\r", msg)
	for mb := 0; mb < w.NMbox; mb++ {
		if r, err := c.Cmd(fmt.Sprintf("EXAMINE m%d", mb)); err != nil || r.Status != "OK" {
			continue
		}
		r, err := c.Cmd("UID FETCH 1:* (FLAGS BODY.PEEK[HEADER.FIELDS (X-MARKER)])")
		if err != nil || r.Status != "OK" {
			continue
		}
		for _, e := range imapc.Evs(r) {
			if e.Kind != "FETCH" || len(e.Lits) == 0 {
				continue
			}
			if strings.Contains(string(e.Lits[0]), "X-Marker: "+marker) {
				var fl []int
				for _, f := range e.Flags {
					if id := flagID(f); id >= 2 {
						fl = append(fl, id)
					}
				}
				sort.Ints(fl)
				c.Cmd("LOGOUT")
				return fl, true
			}
		}
	}
	c.Cmd("LOGOUT")
	return nil, false
}

// FreshView opens a new connection, EXAMINEs the mailbox and returns (uids, flags per message without \Recent).
func (w *World) FreshView(mb int) ([]int, [][]int, error) {
	c, err := w.S.Login()
	if err != nil {
		return nil, nil, err
	}
	defer c.Close()
	if r, err := c.Cmd(fmt.Sprintf("EXAMINE m%d", mb)); err != nil || r.Status != "OK" {
		return nil, nil, fmt.Errorf("examine: %v %v", err, r.Text)
	}
	r, err := c.Cmd("UID FETCH 1:* (FLAGS)")
	if err != nil || r.Status != "OK" {
		return nil, nil, fmt.Errorf("fresh fetch: %v %v", err, r.Text)
	}
	type row struct {
		n, uid int
		fl     []int
	}
	var rows []row
	for _, e := range imapc.Evs(r) {
		if e.Kind == "FETCH" {
			fl := []int{}
			for _, f := range e.Flags {
				if id := flagID(f); id != 0 {
					fl = append(fl, id)
				}
			}
			sort.Ints(fl)
			rows = append(rows, row{e.N, e.UID, fl})
		}
	}
	sort.Slice(rows, func(i, j int) bool { return rows[i].n < rows[j].n })
	var uids []int
	var fls [][]int
	for _, x := range rows {
		uids = append(uids, x.uid)
		fls = append(fls, x.fl)
	}
	c.Cmd("LOGOUT")
	return uids, fls, nil
}
