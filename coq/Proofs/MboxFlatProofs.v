(* C14 — the flat namespace (empty delimiter): the one-byte model at a byte that occurs in no name behaves flat. *)
From Coq Require Import List NArith Bool Lia PeanoNat Arith.
From Gluon Require Import Model.MboxNames Model.WildcardSpec Model.MboxNamespace Model.MboxMatch Model.MboxFlat.
From Gluon Require Import Proofs.MboxNamesProofs Proofs.MboxMatchProofs Proofs.MboxListProofs Proofs.MboxNamespaceProofs.
Import ListNotations.
Open Scope N_scope.

(* ---------- no hierarchy ---------- *)
Lemma no_superior : forall d p n, ~ In d n -> ~ is_superior d p n.
Proof. intros d p n H [r E]. apply H. subst. apply in_app_iff. right. left. auto. Qed.

Lemma prefixes_at_nodelim : forall d n, ~ In d n -> prefixes_at d n = [].
Proof.
  intros d n H. destruct (prefixes_at d n) as [|p l] eqn:E; auto. exfalso.
  apply (no_superior d p n H). apply prefixes_at_spec. rewrite E. left. auto.
Qed.

Lemma flat_no_superiors : forall d n, ~ In d n -> list_superiors d n = [].
Proof. intros d n H. rewrite list_superiors_prefixes. apply prefixes_at_nodelim. auto. Qed.

Lemma first_comp_nodelim_whole : forall d n, ~ In d n -> first_comp d n = (n, []).
Proof.
  intros d n H. assert (X := first_comp_of_app d n [] H (or_introl eq_refl)). rewrite app_nil_r in X. auto.
Qed.

Lemma flat_canon : forall d n, ~ In d n -> canon_first d n = parse_mailbox n.
Proof.
  intros d n H. unfold canon_first, parse_mailbox. rewrite first_comp_nodelim_whole; auto.
Qed.

Lemma in_rev_last : forall (d : N) (n : name) c t, rev n = c :: t -> In c n.
Proof. intros d n c t E. apply in_rev. rewrite E. left. auto. Qed.

Lemma flat_name_rules : forall d n, ~ In d n ->
  mb_begins d n = false /\ mb_adjacent d n = false /\ mb_ends d n = false /\ trim_suffix d n = n.
Proof.
  intros d n H. repeat split.
  - destruct n as [|c n]; auto. simpl. apply N.eqb_neq. intro E. apply H. left. auto.
  - induction n as [|c n IH]; auto. destruct n as [|c2 n]; auto.
    change (mb_adjacent d (c :: c2 :: n)) with (((c =? d) && (c2 =? d)) || mb_adjacent d (c2 :: n)).
    rewrite IH; [|intro X; apply H; right; auto].
    assert (X : (c =? d) = false) by (apply N.eqb_neq; intro E; apply H; left; auto).
    rewrite X. auto.
  - unfold mb_ends. destruct (rev n) as [|c t] eqn:E; auto. apply N.eqb_neq. intro X. subst c.
    apply H. apply (in_rev_last d n d t E).
  - unfold trim_suffix. destruct (rev n) as [|c t] eqn:E; auto.
    assert (X : (c =? d) = false).
    { apply N.eqb_neq. intro X. subst c. apply H. apply (in_rev_last d n d t E). }
    rewrite X. auto.
Qed.

(* RENAME moves exactly one mailbox *)
Lemma flat_rename_order : forall d o names, (forall x, In x names -> ~ In d x) -> rename_order d o names = [].
Proof.
  intros d o names H. destruct (rename_order d o names) as [|x l] eqn:E; auto. exfalso.
  assert (X : In x (rename_order d o names)) by (rewrite E; left; auto).
  apply rename_order_In in X. destruct X as [X1 X2]. apply (no_superior d o x (H x X1) X2).
Qed.

Lemma flat_root : forall d ref, ~ In d ref -> match_root d ref = [].
Proof. intros d ref H. rewrite match_root_spec. apply spec_root_nodelim. auto. Qed.

(* the side conditions of the general theorems hold at NODELIM *)
Lemma nodelim_ok : delim_ok NODELIM /\ ~ In NODELIM INBOX /\ ~ In NODELIM RECOVERY.
Proof.
  unfold delim_ok, NODELIM. repeat split; intro H; simpl in H;
  repeat (destruct H as [H|H]; [discriminate H|]); auto.
Qed.

(* ---------- wildcards without a delimiter ---------- *)
Lemma is_wild_cases : forall c, (c = STAR /\ is_wild c = true) \/ (c = PCT /\ is_wild c = true) \/
                                (c <> STAR /\ c <> PCT /\ is_wild c = false).
Proof.
  intro c. unfold is_wild. destruct (tok_cases c) as [C|[C|[C1 C2]]].
  - left. subst. auto.
  - right. left. subst. auto.
  - right. right. apply N.eqb_neq in C1 as X1. apply N.eqb_neq in C2 as X2. rewrite X1, X2. auto.
Qed.

Lemma wm_wmf : forall d p s, ~ In d s -> (wm d p s <-> wmf p s).
Proof.
  intros d p s H. split; intro W.
  - induction W.
    + constructor.
    + destruct (is_wild_cases c) as [[C _]|[[C _]|[_ [_ C]]]]; try (exfalso; auto; fail).
      apply wmf_lit; auto. apply IHW. intro X. apply H. right. auto.
    + apply wmf_wild0; auto.
    + apply wmf_wild1; [reflexivity|]. apply IHW. intro X. apply H. right. auto.
    + apply wmf_wild0; auto.
    + apply wmf_wild1; [reflexivity|]. apply IHW. intro X. apply H. right. auto.
  - induction W.
    + constructor.
    + destruct (is_wild_cases c) as [[_ C]|[[_ C]|[C1 [C2 _]]]]; try (rewrite C in *; discriminate).
      constructor; auto. apply IHW. intro X. apply H. right. auto.
    + destruct (is_wild_cases c) as [[C _]|[[C _]|[_ [_ C]]]]; try (rewrite C in *; discriminate); subst c.
      * apply wm_star0. auto.
      * apply wm_pct0. auto.
    + destruct (is_wild_cases c) as [[C _]|[[C _]|[_ [_ C]]]]; try (rewrite C in *; discriminate); subst c.
      * apply wm_star1. apply IHW. intro X. apply H. right. auto.
      * apply wm_pct1; [intro E; apply H; left; auto|]. apply IHW. intro X. apply H. right. auto.
Qed.

(* the model's [^<NODELIM>]* is the code's .* on a name without that byte *)
Lemma rstar_nodelim_any : forall d k1 k2 s, ~ In d s ->
  (forall t, (exists u, s = u ++ t) -> k1 t = k2 t) ->
  rstar (nondelim_ok d) k1 s = rstar any_ok k2 s.
Proof.
  induction s as [|c s IH]; intros H K.
  - simpl. apply K. exists []. auto.
  - simpl. assert (X : nondelim_ok d c = true).
    { unfold nondelim_ok. apply negb_true_iff. apply N.eqb_neq. intro E. apply H. left. auto. }
    rewrite X. unfold any_ok at 1.
    rewrite (IH (fun Y => H (or_intror Y))).
    + rewrite (K (c :: s)); [reflexivity | exists []; auto].
    + intros t [u E]. apply K. exists (c :: u). subst. auto.
Qed.

Lemma rstar_ext : forall ok k1 k2 s, (forall t, (exists u, s = u ++ t) -> k1 t = k2 t) -> rstar ok k1 s = rstar ok k2 s.
Proof.
  induction s as [|c s IH]; intro K.
  - simpl. apply K. exists []. auto.
  - simpl. rewrite IH; [|intros t [u E]; apply K; exists (c :: u); subst; auto].
    rewrite (K (c :: s)); [reflexivity | exists []; auto].
Qed.

Lemma rmatch_flat : forall anch d r s, ~ In d s -> rmatch anch d r s = rmatch anch d (map flat_tok r) s.
Proof.
  induction r as [|t r IH]; intros s H; [reflexivity|].
  assert (Suf : forall t0, (exists u, s = u ++ t0) -> ~ In d t0).
  { intros t0 [u E] X. apply H. subst. apply in_app_iff. auto. }
  destruct t; simpl.
  - destruct s as [|c s]; auto. destruct (c =? b); auto. rewrite IH; auto. intro X. apply H. right. auto.
  - apply rstar_ext. intros t0 T. apply IH. apply Suf. exact T.
  - apply rstar_nodelim_any; [exact H|]. intros t0 T. apply IH. apply Suf. exact T.
Qed.

(* ---------- match() in the flat namespace ---------- *)
Lemma flat_pattern_eq : forall ref pat, ~ In NODELIM (ref ++ pat) -> list_pattern NODELIM ref pat = flat_pattern ref pat.
Proof. intros ref pat H. unfold list_pattern, flat_pattern. apply flat_canon. auto. Qed.

(* with no delimiter a pattern matches a name iff the wildcard match of the whole strings succeeds, INBOX
   case-insensitively; and match() never returns a proper prefix *)
Lemma flat_match_iff : forall ref pat name, pat <> [] -> ~ In NODELIM (ref ++ pat) -> ~ In NODELIM name ->
  (impl_match NODELIM ref pat name = Some name <-> wmf (flat_pattern ref pat) name).
Proof.
  intros ref pat name P H1 H2. rewrite impl_match_iff; auto. rewrite flat_pattern_eq; auto. apply wm_wmf. auto.
Qed.

Lemma flat_match_whole : forall ref pat name m, pat <> [] -> ~ In NODELIM name ->
  impl_match NODELIM ref pat name = Some m -> m = name.
Proof.
  intros ref pat name m P H M. destruct (impl_match_sound NODELIM ref pat name m P M) as [_ [E|[_ S]]]; auto.
  exfalso. apply (no_superior NODELIM m name H S).
Qed.

(* the expression the code builds for the empty delimiter (both wildcards ".*") gives the same result *)
Lemma flat_match_code : forall ref pat name, pat <> [] -> ~ In NODELIM name ->
  impl_match NODELIM ref pat name =
  rmatch (negb (ends_pct pat)) NODELIM (compile_flat (list_pattern NODELIM ref pat)) name.
Proof.
  intros ref pat name P H. rewrite impl_match_unfold; auto. unfold compile_flat. apply rmatch_flat. auto.
Qed.

(* ---------- LIST/LSUB in the flat namespace: no \Noselect parents, only offered names ---------- *)
Lemma flat_listed : forall st lsub ref pat m sel, NoDup (offered st lsub) -> pat <> [] ->
  (forall n, In n (offered st lsub) -> ~ In NODELIM n) ->
  (In (m, sel) (flat_list st lsub ref pat) <->
   wm NODELIM (list_pattern NODELIM (parse_mailbox ref) pat) m /\ In m (offered st lsub) /\ sel = offered_selectable st lsub m).
Proof.
  intros st lsub ref pat m sel ND P H. unfold flat_list.
  destruct (list_exact_lemma NODELIM st lsub ref pat ND P) as [_ L]. rewrite L. unfold spec_listed. split.
  - intros [W [[I S]|[_ [[n [I Sup]] _]]]]; auto. exfalso. apply (no_superior NODELIM m n (H n I) Sup).
  - intros [W [I S]]. split; auto.
Qed.
