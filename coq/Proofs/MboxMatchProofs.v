(* C14 — lemmas about the regular-expression matcher of Model/MboxMatch.v and RFC 3501 matching. *)
From Coq Require Import List NArith Bool Lia PeanoNat Arith.
From Gluon Require Import Model.MboxNames Model.WildcardSpec Model.MboxNamespace Model.MboxMatch.
Import ListNotations.
Open Scope N_scope.

(* ---------- lists ---------- *)
Lemma app_split_le : forall (A : Type) (a b c e : list A),
  a ++ b = c ++ e -> (length a <= length c)%nat -> exists w, c = a ++ w /\ b = w ++ e.
Proof.
  induction a as [|x a IH]; intros b c e H L.
  - exists c. split; auto.
  - destruct c as [|y c]; [simpl in L; lia|].
    simpl in H. injection H as Hx Ht. subst y.
    destruct (IH b c e Ht) as [w [H1 H2]]; [simpl in L; lia|].
    exists w. subst c. split; auto.
Qed.

Lemma app_same_length : forall (A : Type) (a b c e : list A),
  a ++ b = c ++ e -> length a = length c -> a = c /\ b = e.
Proof.
  intros A a b c e H L.
  destruct (app_split_le A a b c e H) as [w [H1 H2]]; [lia|].
  subst c. rewrite app_length in L. assert (w = []) by (destruct w; simpl in L; [auto|lia]).
  subst w. rewrite app_nil_r. split; auto.
Qed.

(* ---------- wm: construction ---------- *)
Lemma wm_star_app : forall d p u x, wm d p x -> wm d (STAR :: p) (u ++ x).
Proof. induction u as [|c u IH]; intros x H; simpl; [apply wm_star0; auto | apply wm_star1; auto]. Qed.

Lemma wm_pct_app : forall d p u x, forallb (nondelim_ok d) u = true -> wm d p x -> wm d (PCT :: p) (u ++ x).
Proof.
  induction u as [|c u IH]; intros x F H; simpl.
  - apply wm_pct0; auto.
  - simpl in F. apply andb_true_iff in F as [F1 F2].
    apply wm_pct1; auto.
    unfold nondelim_ok in F1. apply negb_true_iff in F1. apply N.eqb_neq in F1. auto.
Qed.

(* ---------- wm: inversion ---------- *)
Lemma star_neq_pct : STAR <> PCT. Proof. discriminate. Qed.

Lemma wm_nil_inv : forall d q, wm d [] q -> q = [].
Proof. intros d q H. inversion H; auto. Qed.

Lemma wm_star_inv : forall d p q, wm d (STAR :: p) q -> exists u x, q = u ++ x /\ wm d p x.
Proof.
  intros d p q H. remember (STAR :: p) as pp eqn:E. revert p E.
  induction H; intros p0 E; try discriminate.
  - injection E as E1 E2. subst. exfalso; auto.
  - injection E as E2. subst. exists [], s. split; auto.
  - injection E as E2. subst.
    destruct (IHwm p0 eq_refl) as [u [x [Hq Hx]]]. exists (c :: u), x. subst. split; auto.
Qed.

Lemma wm_pct_inv : forall d p q, wm d (PCT :: p) q ->
  exists u x, q = u ++ x /\ forallb (nondelim_ok d) u = true /\ wm d p x.
Proof.
  intros d p q H. remember (PCT :: p) as pp eqn:E. revert p E.
  induction H; intros p0 E; try discriminate.
  - injection E as E1 E2. subst. exfalso; auto.
  - injection E as E2. subst. exists [], s. repeat split; auto.
  - injection E as E2. subst.
    destruct (IHwm p0 eq_refl) as [u [x [Hq [Hu Hx]]]]. exists (c :: u), x. subst. repeat split; auto.
    simpl. rewrite Hu. unfold nondelim_ok. apply N.eqb_neq in H. rewrite H. reflexivity.
Qed.

Lemma wm_lit_inv : forall d c p q, c <> STAR -> c <> PCT -> wm d (c :: p) q -> exists q', q = c :: q' /\ wm d p q'.
Proof.
  intros d c p q H1 H2 H. inversion H; subst; try (exfalso; auto; fail).
  exists s. split; auto.
Qed.

(* ---------- the greedy star ---------- *)
Lemma rstar_none : forall ok k s, rstar ok k s = None ->
  forall u t, s = u ++ t -> forallb ok u = true -> k t = None.
Proof.
  induction s as [|c s IH]; intros H u t E F.
  - simpl in H. destruct u; [|discriminate]. simpl in E. subst t. auto.
  - simpl in H. destruct u as [|c' u].
    + simpl in E. subst t. destruct (ok c); [destruct (rstar ok k s); [discriminate|auto] | auto].
    + simpl in E. injection E as E1 E2. subst c'. simpl in F. apply andb_true_iff in F as [F1 F2].
      rewrite F1 in H. destruct (rstar ok k s) eqn:R; [discriminate|].
      apply (IH eq_refl u t); auto.
Qed.

Lemma rstar_some : forall ok k s p, rstar ok k s = Some p ->
  exists u t p', s = u ++ t /\ forallb ok u = true /\ k t = Some p' /\ p = u ++ p' /\
    (forall u2 t2, s = u2 ++ t2 -> forallb ok u2 = true -> (length u < length u2)%nat -> k t2 = None).
Proof.
  induction s as [|c s IH]; intros p H.
  - simpl in H. exists [], [], p. repeat split; auto.
    intros u2 t2 E F L. destruct u2; simpl in L; [lia|discriminate].
  - simpl in H. destruct (ok c) eqn:Ok.
    + destruct (rstar ok k s) as [q|] eqn:R.
      * injection H as H. subst p.
        destruct (IH q eq_refl) as [u [t [p' [E [F [K [Q M]]]]]]].
        exists (c :: u), t, p'. subst. repeat split; auto.
        -- simpl. rewrite Ok, F. auto.
        -- intros u2 t2 E2 F2 L. destruct u2 as [|c2 u2]; [simpl in L; lia|].
           simpl in E2. injection E2 as E21 E22. subst c2.
           simpl in F2. apply andb_true_iff in F2 as [_ F2].
           apply (M u2 t2); auto. simpl in L. lia.
      * exists [], (c :: s), p. repeat split; auto.
        intros u2 t2 E2 F2 L. destruct u2 as [|c2 u2]; [simpl in L; lia|].
        simpl in E2. injection E2 as E21 E22. subst c2.
        simpl in F2. apply andb_true_iff in F2 as [_ F2].
        apply (rstar_none ok k s R u2 t2); auto.
    + exists [], (c :: s), p. repeat split; auto.
      intros u2 t2 E2 F2 L. destruct u2 as [|c2 u2]; [simpl in L; lia|].
      simpl in E2. injection E2 as E21 E22. subst c2.
      simpl in F2. rewrite Ok in F2. discriminate.
Qed.

Lemma forallb_any : forall u, forallb any_ok u = true.
Proof. induction u; simpl; auto. Qed.

(* ---------- unfolding rmatch on a compiled pattern ---------- *)
Lemma compile_cons : forall c p, compile (c :: p) = compile_tok c :: compile p.
Proof. reflexivity. Qed.

Lemma rmatch_star : forall anch d p, rmatch anch d (compile (STAR :: p)) = rstar any_ok (rmatch anch d (compile p)).
Proof. reflexivity. Qed.
Lemma rmatch_pct : forall anch d p, rmatch anch d (compile (PCT :: p)) = rstar (nondelim_ok d) (rmatch anch d (compile p)).
Proof. reflexivity. Qed.
Lemma rmatch_lit : forall anch d c p s, c <> STAR -> c <> PCT ->
  rmatch anch d (compile (c :: p)) s =
  match s with x :: t => if x =? c then option_map (cons x) (rmatch anch d (compile p) t) else None | [] => None end.
Proof.
  intros anch d c p s H1 H2. rewrite compile_cons. unfold compile_tok.
  apply N.eqb_neq in H1. apply N.eqb_neq in H2. rewrite H1, H2. reflexivity.
Qed.

Lemma tok_cases : forall c, c = STAR \/ c = PCT \/ (c <> STAR /\ c <> PCT).
Proof.
  intro c. destruct (N.eq_dec c STAR); [left; auto|]. destruct (N.eq_dec c PCT); [right; left; auto|].
  right; right; auto.
Qed.

(* ---------- soundness: what is returned is a matching prefix ---------- *)
Lemma rmatch_sound : forall anch d p s q, rmatch anch d (compile p) s = Some q ->
  exists rest, s = q ++ rest /\ wm d p q /\ (anch = true -> rest = []).
Proof.
  induction p as [|c p IH]; intros s q H.
  - simpl in H. destruct anch.
    + destruct s; [|discriminate]. injection H as H. subst. exists []. repeat split; auto. constructor.
    + injection H as H. subst. exists s. repeat split; auto; [constructor | discriminate].
  - destruct (tok_cases c) as [C|[C|[C1 C2]]].
    + subst c. rewrite rmatch_star in H.
      destruct (rstar_some _ _ _ _ H) as [u [t [p' [E [F [K [Q M]]]]]]].
      destruct (IH t p' K) as [rest [E2 [W A]]].
      exists rest. subst. rewrite app_assoc. repeat split; auto. apply wm_star_app; auto.
    + subst c. rewrite rmatch_pct in H.
      destruct (rstar_some _ _ _ _ H) as [u [t [p' [E [F [K [Q M]]]]]]].
      destruct (IH t p' K) as [rest [E2 [W A]]].
      exists rest. subst. rewrite app_assoc. repeat split; auto. apply wm_pct_app; auto.
    + rewrite rmatch_lit in H; auto. destruct s as [|x t]; [discriminate|].
      destruct (x =? c) eqn:X; [|discriminate]. apply N.eqb_eq in X. subst x.
      destruct (rmatch anch d (compile p) t) as [q'|] eqn:R; [|discriminate].
      simpl in H. injection H as H. subst q.
      destruct (IH t q' R) as [rest [E2 [W A]]].
      exists rest. subst. repeat split; auto. constructor; auto.
Qed.

(* ---------- completeness: None means no prefix matches ---------- *)
Lemma rmatch_none : forall anch d p s, rmatch anch d (compile p) s = None ->
  forall q rest, s = q ++ rest -> (anch = true -> rest = []) -> ~ wm d p q.
Proof.
  induction p as [|c p IH]; intros s H q rest E A W.
  - apply wm_nil_inv in W. subst q. simpl in E. subst rest. simpl in H.
    destruct anch; [|discriminate]. rewrite (A eq_refl) in H. discriminate.
  - destruct (tok_cases c) as [C|[C|[C1 C2]]].
    + subst c. rewrite rmatch_star in H.
      destruct (wm_star_inv _ _ _ W) as [u [x [Q Wx]]]. subst q.
      assert (K := rstar_none _ _ _ H u (x ++ rest)). rewrite <- app_assoc in E.
      specialize (K E (forallb_any u)).
      apply (IH (x ++ rest) K x rest eq_refl A Wx).
    + subst c. rewrite rmatch_pct in H.
      destruct (wm_pct_inv _ _ _ W) as [u [x [Q [F Wx]]]]. subst q.
      assert (K := rstar_none _ _ _ H u (x ++ rest)). rewrite <- app_assoc in E.
      specialize (K E F).
      apply (IH (x ++ rest) K x rest eq_refl A Wx).
    + rewrite rmatch_lit in H; auto.
      destruct (wm_lit_inv _ _ _ _ C1 C2 W) as [q' [Q Wq]]. subst q. simpl in E. subst s.
      rewrite N.eqb_refl in H.
      destruct (rmatch anch d (compile p) (q' ++ rest)) eqn:R; [discriminate|].
      apply (IH (q' ++ rest) R q' rest eq_refl A Wq).
Qed.

(* ---------- a later start never ends earlier ---------- *)
Lemma forallb_app_true : forall (f : N -> bool) a b, forallb f (a ++ b) = true -> forallb f a = true /\ forallb f b = true.
Proof. intros f a b H. rewrite forallb_app in H. apply andb_true_iff in H. auto. Qed.

Lemma rmatch_mono : forall d p s1 s2 q1 q2 pre, s1 = pre ++ s2 ->
  rmatch false d (compile p) s1 = Some q1 -> rmatch false d (compile p) s2 = Some q2 ->
  (length q1 <= length pre + length q2)%nat.
Proof.
  induction p as [|c p IH]; intros s1 s2 q1 q2 pre E H1 H2.
  - simpl in H1. injection H1 as H1. subst q1. simpl. lia.
  - destruct (tok_cases c) as [C|[C|[C1 C2]]].
    + subst c. rewrite rmatch_star in H1, H2.
      destruct (rstar_some _ _ _ _ H1) as [u1 [t1 [p1 [E1 [F1 [K1 [Q1 M1]]]]]]].
      destruct (rstar_some _ _ _ _ H2) as [u2 [t2 [p2 [E2 [F2 [K2 [Q2 M2]]]]]]].
      assert (L : (length (pre ++ u2) <= length u1)%nat).
      { destruct (Nat.le_gt_cases (length (pre ++ u2)) (length u1)) as [L|L]; auto.
        exfalso. assert (X := M1 (pre ++ u2) t2).
        rewrite X in K2; [discriminate| | apply forallb_any | lia].
        rewrite <- app_assoc. rewrite <- E2. auto. }
      assert (E3 : (pre ++ u2) ++ t2 = u1 ++ t1) by (rewrite <- app_assoc, <- E2, <- E, E1; auto).
      destruct (app_split_le _ _ _ _ _ E3 L) as [w [W1 W2]].
      (* w is empty: u2 is the longest for s2 *)
      assert (w = []).
      { destruct w as [|x w]; auto. exfalso.
        assert (X := M2 (u2 ++ x :: w) t1). rewrite X in K1; [discriminate| | apply forallb_any | rewrite app_length; simpl; lia].
        rewrite E2, W2, app_assoc. auto. }
      subst w. rewrite app_nil_r in W1. simpl in W2. subst t2 u1 q1 q2.
      rewrite K1 in K2. injection K2 as K2. subst p2.
      rewrite !app_length. lia.
    + subst c. rewrite rmatch_pct in H1, H2.
      destruct (rstar_some _ _ _ _ H1) as [u1 [t1 [p1 [E1 [F1 [K1 [Q1 M1]]]]]]].
      destruct (rstar_some _ _ _ _ H2) as [u2 [t2 [p2 [E2 [F2 [K2 [Q2 M2]]]]]]].
      destruct (forallb (nondelim_ok d) pre) eqn:FP.
      * assert (FPU : forallb (nondelim_ok d) (pre ++ u2) = true) by (rewrite forallb_app, FP, F2; auto).
        assert (L : (length (pre ++ u2) <= length u1)%nat).
        { destruct (Nat.le_gt_cases (length (pre ++ u2)) (length u1)) as [L|L]; auto.
          exfalso. assert (X := M1 (pre ++ u2) t2).
          rewrite X in K2; [discriminate| | auto | lia].
          rewrite <- app_assoc. rewrite <- E2. auto. }
        assert (E3 : (pre ++ u2) ++ t2 = u1 ++ t1) by (rewrite <- app_assoc, <- E2, <- E, E1; auto).
        destruct (app_split_le _ _ _ _ _ E3 L) as [w [W1 W2]].
        assert (w = []).
        { destruct w as [|x w]; auto. exfalso.
          assert (FW : forallb (nondelim_ok d) (x :: w) = true).
          { rewrite W1 in F1. apply forallb_app_true in F1. tauto. }
          assert (X := M2 (u2 ++ x :: w) t1). rewrite X in K1; [discriminate| | | rewrite app_length; simpl; lia].
          - rewrite E2, W2, app_assoc. auto.
          - rewrite forallb_app, F2, FW. auto. }
        subst w. rewrite app_nil_r in W1. simpl in W2. subst t2 u1 q1 q2.
        rewrite K1 in K2. injection K2 as K2. subst p2.
        rewrite !app_length. lia.
      * (* a delimiter inside pre: u1 stops before it *)
        assert (L : (length u1 <= length pre)%nat).
        { destruct (Nat.le_gt_cases (length u1) (length pre)) as [L|L]; auto. exfalso.
          assert (E3 : pre ++ s2 = u1 ++ t1) by (rewrite <- E, E1; auto).
          destruct (app_split_le _ _ _ _ _ E3) as [w [W1 W2]]; [lia|].
          rewrite W1 in F1. apply forallb_app_true in F1. rewrite FP in F1. destruct F1; discriminate. }
        assert (E3 : u1 ++ t1 = pre ++ s2) by (rewrite <- E1, E; auto).
        destruct (app_split_le _ _ _ _ _ E3 L) as [w [W1 W2]].
        (* t1 = w ++ u2 ++ t2 *)
        assert (X := IH t1 t2 p1 p2 (w ++ u2)).
        rewrite <- app_assoc in X. rewrite <- E2 in X. specialize (X W2 K1 K2).
        subst q1 q2 pre. rewrite !app_length in *. lia.
    + rewrite rmatch_lit in H1, H2; auto.
      destruct s1 as [|x1 t1]; [discriminate|]. destruct s2 as [|x2 t2]; [discriminate|].
      destruct (x1 =? c) eqn:X1; [|discriminate]. destruct (x2 =? c) eqn:X2; [|discriminate].
      apply N.eqb_eq in X1. apply N.eqb_eq in X2. subst x1 x2.
      destruct (rmatch false d (compile p) t1) as [q1'|] eqn:R1; [|discriminate].
      destruct (rmatch false d (compile p) t2) as [q2'|] eqn:R2; [|discriminate].
      simpl in H1, H2. injection H1 as H1. injection H2 as H2. subst q1 q2.
      destruct pre as [|y pre].
      * simpl in E. injection E as E. subst t1. rewrite R1 in R2. injection R2 as R2. subst. simpl. lia.
      * simpl in E. injection E as Ey E. subst y.
        assert (X := IH t1 t2 q1' q2' (pre ++ [c])).
        rewrite <- app_assoc in X. simpl in X. specialize (X E R1 R2).
        rewrite app_length in X. simpl in *. lia.
Qed.

(* ---------- leftmost-first = longest for this class ---------- *)
Lemma rmatch_not_none : forall anch d p s q rest, s = q ++ rest -> (anch = true -> rest = []) -> wm d p q ->
  exists r, rmatch anch d (compile p) s = Some r.
Proof.
  intros anch d p s q rest E A W.
  destruct (rmatch anch d (compile p) s) as [r|] eqn:R; [exists r; auto|].
  exfalso. apply (rmatch_none anch d p s R q rest E A W).
Qed.

Lemma rmatch_longest : forall d p s q x rest, rmatch false d (compile p) s = Some q ->
  s = x ++ rest -> wm d p x -> (length x <= length q)%nat.
Proof.
  induction p as [|c p IH]; intros s q x rest H E W.
  - apply wm_nil_inv in W. subst x. simpl. lia.
  - destruct (tok_cases c) as [C|[C|[C1 C2]]].
    + subst c. rewrite rmatch_star in H.
      destruct (wm_star_inv _ _ _ W) as [u [x' [Q Wx]]]. subst x.
      destruct (rstar_some _ _ _ _ H) as [u1 [t1 [p1 [E1 [F1 [K1 [Q1 M1]]]]]]].
      destruct (rmatch_not_none false d p (x' ++ rest) x' rest eq_refl (fun H => False_ind _ (Bool.diff_false_true H)) Wx) as [p2 K2].
      assert (L2 := IH (x' ++ rest) p2 x' rest K2 eq_refl Wx).
      assert (L : (length u <= length u1)%nat).
      { destruct (Nat.le_gt_cases (length u) (length u1)) as [L|L]; auto. exfalso.
        assert (X := M1 u (x' ++ rest)). rewrite X in K2; [discriminate| | apply forallb_any | lia].
        rewrite E, <- app_assoc. auto. }
      assert (E3 : u ++ (x' ++ rest) = u1 ++ t1) by (rewrite <- E1, E, <- app_assoc; auto).
      destruct (app_split_le _ _ _ _ _ E3 L) as [w [W1 W2]].
      assert (M := rmatch_mono d p (x' ++ rest) t1 p2 p1 w W2 K2 K1).
      subst q u1. rewrite !app_length in *. lia.
    + subst c. rewrite rmatch_pct in H.
      destruct (wm_pct_inv _ _ _ W) as [u [x' [Q [Fu Wx]]]]. subst x.
      destruct (rstar_some _ _ _ _ H) as [u1 [t1 [p1 [E1 [F1 [K1 [Q1 M1]]]]]]].
      destruct (rmatch_not_none false d p (x' ++ rest) x' rest eq_refl (fun H => False_ind _ (Bool.diff_false_true H)) Wx) as [p2 K2].
      assert (L2 := IH (x' ++ rest) p2 x' rest K2 eq_refl Wx).
      assert (L : (length u <= length u1)%nat).
      { destruct (Nat.le_gt_cases (length u) (length u1)) as [L|L]; auto. exfalso.
        assert (X := M1 u (x' ++ rest)). rewrite X in K2; [discriminate| | auto | lia].
        rewrite E, <- app_assoc. auto. }
      assert (E3 : u ++ (x' ++ rest) = u1 ++ t1) by (rewrite <- E1, E, <- app_assoc; auto).
      destruct (app_split_le _ _ _ _ _ E3 L) as [w [W1 W2]].
      assert (M := rmatch_mono d p (x' ++ rest) t1 p2 p1 w W2 K2 K1).
      subst q u1. rewrite !app_length in *. lia.
    + rewrite rmatch_lit in H; auto.
      destruct (wm_lit_inv _ _ _ _ C1 C2 W) as [x' [Q Wx]]. subst x. simpl in E. subst s.
      rewrite N.eqb_refl in H.
      destruct (rmatch false d (compile p) (x' ++ rest)) as [q'|] eqn:R; [|discriminate].
      simpl in H. injection H as H. subst q.
      assert (L := IH (x' ++ rest) q' x' rest R eq_refl Wx). simpl. lia.
Qed.

(* ---------- the three facts used about match() ---------- *)
(* a name selected by RFC matching is returned whole, anchored or not *)
Lemma rmatch_full : forall anch d p s, wm d p s -> rmatch anch d (compile p) s = Some s.
Proof.
  intros anch d p s W.
  destruct (rmatch_not_none anch d p s s [] (eq_sym (app_nil_r s)) (fun _ => eq_refl) W) as [r R].
  destruct (rmatch_sound anch d p s r R) as [rest [E [Wr A]]].
  destruct anch.
  - rewrite (A eq_refl), app_nil_r in E. subst r. auto.
  - assert (L := rmatch_longest d p s r s [] R (eq_sym (app_nil_r s)) W).
    assert (rest = []).
    { destruct rest; auto. exfalso. assert (X : length s = length (r ++ n :: rest)) by (rewrite <- E; auto).
      rewrite app_length in X. simpl in X. lia. }
    subst rest. rewrite app_nil_r in E. subst r. auto.
Qed.

Lemma ends_pct_cons : forall c p, p <> [] -> ends_pct (c :: p) = ends_pct p.
Proof. intros c p H. destruct p; [exfalso; auto|reflexivity]. Qed.

(* a pattern that ends in % still matches after one more non-delimiter character *)
Lemma wm_pct_end_extend : forall d p q c, wm d p q -> ends_pct p = true -> c <> d -> wm d p (q ++ [c]).
Proof.
  intros d p q c W. induction W; intros Hp Hc.
  - discriminate.
  - destruct p as [|c1 p].
    + simpl in Hp. apply N.eqb_eq in Hp. exfalso; auto.
    + simpl. constructor; auto.
  - destruct p as [|c1 p].
    + simpl in Hp. discriminate.
    + apply wm_star0. apply IHW; auto.
  - simpl. apply wm_star1. apply IHW; auto.
  - destruct p as [|c1 p].
    + apply wm_nil_inv in W. subst s. simpl. apply wm_pct1; auto. apply wm_pct0. constructor.
    + apply wm_pct0. apply IHW; auto.
  - simpl. apply wm_pct1; auto.
Qed.

(* without the end anchor the match stops at the end of the name or right before a delimiter *)
Lemma rmatch_boundary : forall d p s q c rest, ends_pct p = true ->
  rmatch false d (compile p) s = Some q -> s = q ++ c :: rest -> c = d.
Proof.
  intros d p s q c rest Hp H E.
  destruct (N.eq_dec c d) as [|Hc]; auto. exfalso.
  destruct (rmatch_sound false d p s q H) as [rest' [E' [W _]]].
  assert (W2 := wm_pct_end_extend d p q c W Hp Hc).
  assert (L := rmatch_longest d p s q (q ++ [c]) rest H).
  rewrite <- app_assoc in L. simpl in L. specialize (L E W2). rewrite app_length in L. simpl in L. lia.
Qed.

(* the boolean form of RFC matching *)
Lemma wm_star_b : forall k s, wm_star k s = true <-> exists u x, s = u ++ x /\ k x = true.
Proof.
  induction s as [|c s IH]; simpl.
  - rewrite orb_false_r. split.
    + intro H. exists [], []. auto.
    + intros [u [x [E H]]]. destruct u; [|discriminate]. simpl in E. subst x. auto.
  - rewrite orb_true_iff. split.
    + intros [H|H]; [exists [], (c :: s); auto|]. apply IH in H. destruct H as [u [x [E H]]]. exists (c :: u), x. subst. auto.
    + intros [u [x [E H]]]. destruct u as [|c' u]; [left; simpl in E; subst; auto|].
      right. apply IH. simpl in E. injection E as E1 E2. exists u, x. auto.
Qed.

Lemma wm_pct_b : forall d k s, wm_pct d k s = true <->
  exists u x, s = u ++ x /\ forallb (nondelim_ok d) u = true /\ k x = true.
Proof.
  induction s as [|c s IH]; simpl.
  - rewrite orb_false_r. split.
    + intro H. exists [], []. auto.
    + intros [u [x [E [F H]]]]. destruct u; [|discriminate]. simpl in E. subst x. auto.
  - rewrite orb_true_iff. split.
    + intros [H|H]; [exists [], (c :: s); auto|]. apply andb_true_iff in H as [H1 H2].
      apply IH in H2. destruct H2 as [u [x [E [F H]]]]. exists (c :: u), x. subst. repeat split; auto.
      simpl. unfold nondelim_ok at 1. rewrite H1, F. auto.
    + intros [u [x [E [F H]]]]. destruct u as [|c' u]; [left; simpl in E; subst; auto|].
      right. simpl in E. injection E as E1 E2. subst c'. simpl in F. apply andb_true_iff in F as [F1 F2].
      apply andb_true_iff. split; [exact F1|]. apply IH. exists u, x. auto.
Qed.

Lemma wmatchb_wm : forall d p s, wmatchb d p s = true <-> wm d p s.
Proof.
  induction p as [|c p IH]; intro s.
  - simpl. split.
    + destruct s; [constructor|discriminate].
    + intro H. apply wm_nil_inv in H. subst. auto.
  - destruct (tok_cases c) as [C|[C|[C1 C2]]].
    + subst c. simpl. rewrite wm_star_b. split.
      * intros [u [x [E H]]]. subst. apply wm_star_app. apply IH; auto.
      * intro H. destruct (wm_star_inv _ _ _ H) as [u [x [E W]]]. exists u, x. split; auto. apply IH; auto.
    + subst c. simpl. rewrite wm_pct_b. split.
      * intros [u [x [E [F H]]]]. subst. apply wm_pct_app; auto. apply IH; auto.
      * intro H. destruct (wm_pct_inv _ _ _ H) as [u [x [E [F W]]]]. exists u, x. repeat split; auto. apply IH; auto.
    + simpl. assert (X1 := C1). assert (X2 := C2). apply N.eqb_neq in X1. apply N.eqb_neq in X2. rewrite X1, X2.
      split.
      * destruct s as [|x t]; [discriminate|]. intro H. apply andb_true_iff in H as [H1 H2].
        apply N.eqb_eq in H1. subst x. constructor; auto. apply IH; auto.
      * intro H. destruct (wm_lit_inv _ _ _ _ C1 C2 H) as [q' [E W]]. subst s.
        rewrite N.eqb_refl. simpl. apply IH; auto.
Qed.
