(* C03 — what a session does with the news that other sessions queued for it, as far as the CONTENT of the mailboxes
   depends on it: EXPUNGE / CLOSE remove what the session's snapshot marks \Deleted, and message sets are resolved over
   the rows of the snapshot.

   Part 1 models internal/state/responders.go `fetch.handle` for the replace form (FetchFlagOpSet) of one flag update
   that is handed to several sessions: the responders created by messageFlagsSetStateUpdate.Apply all hold the SAME
   imap.FlagSet (a Go map).  `handle_set` is the function every session is meant to compute; `handle_set_impl` threads
   the shared set through the sessions in the order in which they flush, with a flag `clones` that says whether the
   case takes a copy (`u.flags.Clone()`) before `SetOnSelf(\Deleted, ..)` is applied for a session that has another
   mailbox selected.

   Part 2 models internal/state/state.go `State.close` / `Select` / `Examine` / the flush of pending responders: the
   responders pending when a mailbox is left belong to that mailbox; `resets` says whether State.close drops them.

   The flags `clones` and `resets` are instantiated with generated facts (Gen/FactsResponders.v) in Props/C03.v. *)
From Coq Require Import String Ascii.
From Coq Require Import List NArith Bool.
From Gluon Require Import Model.SqlBindFacts.
Import ListNotations.
Open Scope list_scope.
Open Scope N_scope.

(* ---- checks over the generated facts ---- *)
Definition sn_str_in (s : string) (l : list string) : bool := existsb (String.eqb s) l.

(* a use of the update's flag set inside a handle method is harmless if it is the receiver of a FlagSet method that does
   not change its receiver, or an argument of a FlagSet method (they only read their argument) *)
Definition flag_use_ok (methods mutators : list string) (ctx : string) : bool :=
  if String.prefix "recv:" ctx then
    let m := substring 5 (String.length ctx - 5) ctx in sn_str_in m methods && negb (sn_str_in m mutators)
  else if String.prefix "arg:" ctx then
    sn_str_in (substring 4 (String.length ctx - 4) ctx) methods
  else false.

Definition responder_facts_ok (uses : list (string * string * string)) (inplace : list (string * string * string * bool))
  (methods mutators : list string) (set_clones : bool) : bool :=
  forallb (fun u => flag_use_ok methods mutators (snd u)) uses
  && forallb (fun c => snd c) inplace
  && set_clones.

(* the snapshot is replaced only by Select / Examine after a guarded close, and by close itself (with nil) *)
Definition setsnap_ok (calls : list (string * string * bool)) : bool :=
  forallb (fun c => match c with (f, arg, guarded) => if String.eqb arg "nil" then String.eqb f "close" else guarded end) calls
  && sn_str_in "Select" (map (fun c => fst (fst c)) calls) && sn_str_in "Examine" (map (fun c => fst (fst c)) calls).

(* the three flag updates (+FLAGS, -FLAGS, FLAGS) tell the responder "this came from a different mailbox" by comparing the
   mailbox of the session's snapshot with the mailbox of the update (not, e.g., the sessions): every NewFetch call in an
   Apply method passes `<state>.snap.mboxID != u.mboxID`, and all three operations have one *)
Definition newfetch_ok (calls : list (string * string * string)) : bool :=
  forallb (fun c => str_suffix ".snap.mboxID != u.mboxID" (snd (fst c))) calls
  && forallb (fun o => existsb (fun c => String.eqb (snd c) o) calls) ["FetchFlagOpAdd"; "FetchFlagOpRem"; "FetchFlagOpSet"]%string.

(* ---- Part 1: one STORE FLAGS update, several sessions ---- *)
Section SetUpdate.
  Variable fl : Type.                      (* the shared flags of a message (everything but \Deleted and \Recent) *)

  (* the flags as a snapshot holds them for one message: shared flags and the \Deleted of the selected mailbox *)
  Definition mflags : Type := (fl * bool)%type.

  Record snap1 := mkSnap1 { s_box : N; s_has : bool; s_cur : mflags }.

  (* the session's responder for the update `u` issued in mailbox `from`, as specified: the shared flags are replaced;
     \Deleted is replaced only in a session that has `from` selected, any other session keeps the \Deleted of its own
     mailbox *)
  Definition handle_set (from : N) (u : mflags) (s : snap1) : snap1 :=
    if s_has s then mkSnap1 (s_box s) true (fst u, if N.eqb from (s_box s) then snd u else snd (s_cur s)) else s.

  (* the implementation: `cell` is the content of the one Go map all responders of the update point to *)
  Definition handle_set_impl (clones : bool) (from : N) (cell : mflags) (s : snap1) : mflags * snap1 :=
    if s_has s then
      let new := (fst cell, if N.eqb from (s_box s) then snd cell else snd (s_cur s)) in
      ((if clones then cell else new), mkSnap1 (s_box s) true new)
    else (cell, s).

  (* the sessions flush in the order of the list *)
  Fixpoint flush_set (clones : bool) (from : N) (cell : mflags) (ss : list snap1) : list snap1 :=
    match ss with
    | [] => []
    | s :: r => let cs := handle_set_impl clones from cell s in snd cs :: flush_set clones from (fst cs) r
    end.

  (* \Deleted of a mailbox in the index after the STORE FLAGS (applyMessageFlagsSet: only the mailbox it was issued in) *)
  Definition box_deleted_after (from : N) (u : mflags) (box : N) (old : bool) : bool :=
    if N.eqb from box then snd u else old.
End SetUpdate.

Arguments mkSnap1 {fl}.
Arguments s_box {fl}.
Arguments s_has {fl}.
Arguments s_cur {fl}.
Arguments handle_set {fl}.
Arguments handle_set_impl {fl}.
Arguments flush_set {fl}.
Arguments box_deleted_after {fl}.

(* ---- Part 2: leaving a mailbox with pending news ---- *)
Inductive news :=
| NExists (m uid : N)     (* targetedExists: the message joins the snapshot *)
| NExpunge (m : N)        (* expunge: the message leaves the snapshot *)
| NFetch (m : N).         (* fetch: flags only *)

Definition rows := list (N * N).          (* (uid, message) in sequence order *)

Record sess := mkSess { ss_snap : option (N * rows); ss_res : list news }.

Definition apply_news (r : rows) (n : news) : rows :=
  match n with
  | NExists m uid => if existsb (fun x => N.eqb (snd x) m) r then r else r ++ [(uid, m)]
  | NExpunge m => filter (fun x => negb (N.eqb (snd x) m)) r
  | NFetch _ => r
  end.

(* State.close *)
Definition close_impl (resets : bool) (s : sess) : sess :=
  mkSess None (if resets then [] else ss_res s).

(* State.Select / State.Examine: a selected mailbox is closed first; `load b` is the snapshot read from the index *)
Definition select_impl (resets : bool) (load : N -> rows) (b : N) (s : sess) : sess :=
  let s' := match ss_snap s with Some _ => close_impl resets s | None => s end in
  mkSess (Some (b, load b)) (ss_res s').

(* an update of another session reaches the state: a responder is queued (only while a mailbox is selected) *)
Definition push_news (n : news) (s : sess) : sess :=
  match ss_snap s with Some _ => mkSess (ss_snap s) (ss_res s ++ [n]) | None => s end.

(* the flush at the end of a command that may announce everything (NOOP) *)
Definition flush_news (s : sess) : sess :=
  match ss_snap s with
  | Some (b, r) => mkSess (Some (b, fold_left apply_news (ss_res s) r)) []
  | None => s
  end.

(* no news are pending while no mailbox is selected *)
Definition sess_wf (s : sess) : Prop := ss_snap s = None -> ss_res s = [].
