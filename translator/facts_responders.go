package main

import (
	"fmt"
	"go/ast"
	"go/token"
	"sort"
	"strings"
)

// FactsResponders (C03): what a session does with the news other sessions queued for it.
//
//   - internal/state/responders.go: the responders created from ONE flag update share the update's imap.FlagSet (a Go
//     map).  For every `handle` method: each use of a FlagSet field of the receiver (receiver of which method, argument
//     of which call, assigned to which variable), the in-place FlagSet methods it calls and on what, and per case of
//     fetch.handle's fetchFlagOp switch the expression that becomes the new flags of the message.
//   - imap/flags.go: which FlagSet methods change their receiver.
//   - internal/state/state.go: the statements of State.close (the pending responders belong to the mailbox that is
//     left) and, for every caller of setSnap, whether a guarded State.close precedes the call.
func init() { register("Responders", extractResponders) }

func recvOf(fd *ast.FuncDecl) (name, typ string) {
	if fd.Recv == nil || len(fd.Recv.List) != 1 {
		return "", ""
	}
	f := fd.Recv.List[0]
	if len(f.Names) == 1 {
		name = f.Names[0].Name
	}
	switch x := f.Type.(type) {
	case *ast.StarExpr:
		if id, ok := x.X.(*ast.Ident); ok {
			typ = id.Name
		}
	case *ast.Ident:
		typ = x.Name
	}
	return
}

func isFlagSetType(e ast.Expr) bool {
	if s, ok := e.(*ast.SelectorExpr); ok {
		if id, ok := s.X.(*ast.Ident); ok {
			return id.Name == "imap" && s.Sel.Name == "FlagSet"
		}
	}
	if id, ok := e.(*ast.Ident); ok {
		return id.Name == "FlagSet"
	}
	return false
}

var inPlaceFlagSetMethods = map[string]bool{"AddToSelf": true, "AddFlagSetToSelf": true, "SetOnSelf": true, "RemoveFromSelf": true, "RemoveFlagSetFromSelf": true}

func oneLine(s string) string { return strings.Join(strings.Fields(s), " ") }

// walkWithParents calls fn(node, stack) for every node below root; stack[len-1] is the parent.
func walkWithParents(root ast.Node, fn func(n ast.Node, stack []ast.Node)) {
	var stack []ast.Node
	ast.Inspect(root, func(n ast.Node) bool {
		if n == nil {
			stack = stack[:len(stack)-1]
			return true
		}
		fn(n, stack)
		stack = append(stack, n)
		return true
	})
}

func calleeName(e ast.Expr) string {
	switch x := e.(type) {
	case *ast.SelectorExpr:
		return x.Sel.Name
	case *ast.Ident:
		return x.Name
	}
	return "?"
}

func extractResponders(t *T) (string, error) {
	const file = "internal/state/responders.go"
	f, err := t.ParseFile(file)
	if err != nil {
		return "", err
	}
	// FlagSet fields per struct type
	fsFields := map[string]map[string]bool{}
	for _, d := range f.Decls {
		gd, ok := d.(*ast.GenDecl)
		if !ok || gd.Tok != token.TYPE {
			continue
		}
		for _, sp := range gd.Specs {
			ts := sp.(*ast.TypeSpec)
			st, ok := ts.Type.(*ast.StructType)
			if !ok {
				continue
			}
			for _, fl := range st.Fields.List {
				if isFlagSetType(fl.Type) {
					for _, n := range fl.Names {
						if fsFields[ts.Name.Name] == nil {
							fsFields[ts.Name.Name] = map[string]bool{}
						}
						fsFields[ts.Name.Name][n.Name] = true
					}
				}
			}
		}
	}
	var handles []string
	var uses, muts, fetchCases []string
	fetchSetClones := "false"
	foundFetch := false
	for _, d := range f.Decls {
		fd, ok := d.(*ast.FuncDecl)
		if !ok || fd.Body == nil || fd.Name.Name != "handle" {
			continue
		}
		rname, rtyp := recvOf(fd)
		if rtyp == "" {
			continue
		}
		handles = append(handles, rtyp)
		// local variables of the method (parameters are not local: they come from the caller)
		locals := map[string]bool{}
		ast.Inspect(fd.Body, func(n ast.Node) bool {
			switch x := n.(type) {
			case *ast.AssignStmt:
				if x.Tok == token.DEFINE {
					for _, l := range x.Lhs {
						if id, ok := l.(*ast.Ident); ok {
							locals[id.Name] = true
						}
					}
				}
			case *ast.ValueSpec:
				for _, id := range x.Names {
					locals[id.Name] = true
				}
			}
			return true
		})
		isField := func(e ast.Expr) bool {
			for {
				p, ok := e.(*ast.ParenExpr)
				if !ok {
					break
				}
				e = p.X
			}
			s, ok := e.(*ast.SelectorExpr)
			if !ok {
				return false
			}
			id, ok := s.X.(*ast.Ident)
			return ok && rname != "" && id.Name == rname && fsFields[rtyp][s.Sel.Name]
		}
		walkWithParents(fd.Body, func(n ast.Node, stack []ast.Node) {
			// uses of a FlagSet field of the receiver
			if e, ok := n.(ast.Expr); ok && isField(e) {
				if _, isParen := n.(*ast.ParenExpr); !isParen {
					ctx := "other"
					i := len(stack) - 1
					for i >= 0 {
						if _, ok := stack[i].(*ast.ParenExpr); !ok {
							break
						}
						i--
					}
					if i >= 0 {
						switch p := stack[i].(type) {
						case *ast.SelectorExpr: // u.flags.M(...)
							ctx = "recv:" + p.Sel.Name
							if i == 0 {
								ctx = "value:" + p.Sel.Name
							} else if c, ok := stack[i-1].(*ast.CallExpr); !ok || c.Fun != ast.Expr(p) {
								ctx = "value:" + p.Sel.Name
							}
						case *ast.CallExpr:
							ctx = "arg:" + calleeName(p.Fun)
						case *ast.AssignStmt:
							var lhs []string
							for _, l := range p.Lhs {
								lhs = append(lhs, oneLine(t.Src(file, l)))
							}
							ctx = "assign:" + strings.Join(lhs, ",")
						case *ast.ValueSpec:
							var lhs []string
							for _, l := range p.Names {
								lhs = append(lhs, l.Name)
							}
							ctx = "assign:" + strings.Join(lhs, ",")
						case *ast.ReturnStmt:
							ctx = "return"
						case *ast.CompositeLit, *ast.KeyValueExpr:
							ctx = "stored-in-literal"
						default:
							ctx = fmt.Sprintf("other:%T", p)
						}
					}
					uses = append(uses, fmt.Sprintf("(%s, %s, %s)", coqString(rtyp), coqString(oneLine(t.Src(file, n))), coqString(ctx)))
				}
			}
			// in-place FlagSet methods
			if c, ok := n.(*ast.CallExpr); ok {
				if s, ok := c.Fun.(*ast.SelectorExpr); ok && inPlaceFlagSetMethods[s.Sel.Name] {
					id, isIdent := s.X.(*ast.Ident)
					local := isIdent && locals[id.Name]
					muts = append(muts, fmt.Sprintf("(%s, %s, %s, %v)", coqString(rtyp), coqString(s.Sel.Name), coqString(oneLine(t.Src(file, s.X))), local))
				}
			}
		})
		if rtyp == "fetch" {
			// the switch over u.fetchFlagOp
			ast.Inspect(fd.Body, func(n ast.Node) bool {
				sw, ok := n.(*ast.SwitchStmt)
				if !ok || sw.Tag == nil || !strings.HasSuffix(oneLine(t.Src(file, sw.Tag)), "fetchFlagOp") {
					return true
				}
				foundFetch = true
				for _, st := range sw.Body.List {
					cc := st.(*ast.CaseClause)
					var labels []string
					for _, e := range cc.List {
						labels = append(labels, oneLine(t.Src(file, e)))
					}
					label := strings.Join(labels, ",")
					if cc.List == nil {
						label = "default"
					}
					rhs := "?"
					if len(cc.Body) == 1 {
						if as, ok := cc.Body[0].(*ast.AssignStmt); ok && len(as.Lhs) == 1 && len(as.Rhs) == 1 {
							rhs = oneLine(t.Src(file, as.Lhs[0])) + " = " + oneLine(t.Src(file, as.Rhs[0]))
							if label == "FetchFlagOpSet" {
								if c, ok := as.Rhs[0].(*ast.CallExpr); ok && len(c.Args) == 0 {
									if s, ok := c.Fun.(*ast.SelectorExpr); ok && s.Sel.Name == "Clone" && isField(s.X) {
										fetchSetClones = "true"
									}
								}
							}
						}
					}
					fetchCases = append(fetchCases, fmt.Sprintf("(%s, %s)", coqString(label), coqString(rhs)))
				}
				return false
			})
		}
	}
	if !foundFetch {
		return "", fmt.Errorf("%s: fetch.handle with a switch over fetchFlagOp not found", file)
	}
	sort.Strings(handles)

	// imap/flags.go: methods of FlagSet that change the receiver (directly or through another method that does)
	const flagsFile = "imap/flags.go"
	ff, err := t.ParseFile(flagsFile)
	if err != nil {
		return "", err
	}
	type minfo struct {
		recv   string
		direct bool
		calls  []string
	}
	methods := map[string]*minfo{}
	for _, d := range ff.Decls {
		fd, ok := d.(*ast.FuncDecl)
		if !ok || fd.Body == nil {
			continue
		}
		rname, rtyp := recvOf(fd)
		if rtyp != "FlagSet" {
			continue
		}
		mi := &minfo{recv: rname}
		methods[fd.Name.Name] = mi
		isRecv := func(e ast.Expr) bool { id, ok := e.(*ast.Ident); return ok && rname != "" && id.Name == rname }
		ast.Inspect(fd.Body, func(n ast.Node) bool {
			switch x := n.(type) {
			case *ast.AssignStmt:
				for _, l := range x.Lhs {
					if ix, ok := l.(*ast.IndexExpr); ok && isRecv(ix.X) {
						mi.direct = true
					}
				}
			case *ast.IncDecStmt:
				if ix, ok := x.X.(*ast.IndexExpr); ok && isRecv(ix.X) {
					mi.direct = true
				}
			case *ast.CallExpr:
				if id, ok := x.Fun.(*ast.Ident); ok && (id.Name == "delete" || id.Name == "clear") && len(x.Args) > 0 && isRecv(x.Args[0]) {
					mi.direct = true
				}
				if s, ok := x.Fun.(*ast.SelectorExpr); ok && isRecv(s.X) {
					mi.calls = append(mi.calls, s.Sel.Name)
				}
			}
			return true
		})
	}
	if len(methods) == 0 {
		return "", fmt.Errorf("%s: no methods of FlagSet found", flagsFile)
	}
	mut := map[string]bool{}
	for changed := true; changed; {
		changed = false
		for n, mi := range methods {
			if mut[n] {
				continue
			}
			m := mi.direct
			for _, c := range mi.calls {
				if mut[c] {
					m = true
				}
			}
			if m {
				mut[n] = true
				changed = true
			}
		}
	}
	var all, mutators []string
	for n := range methods {
		all = append(all, n)
		if mut[n] {
			mutators = append(mutators, n)
		}
	}
	sort.Strings(all)
	sort.Strings(mutators)

	// internal/state/state.go
	const stateFile = "internal/state/state.go"
	sf, err := t.ParseFile(stateFile)
	if err != nil {
		return "", err
	}
	cl := FuncDecl(sf, "State", "close")
	if cl == nil || cl.Body == nil {
		return "", fmt.Errorf("%s: State.close not found", stateFile)
	}
	clRecv, _ := recvOf(cl)
	var closeStmts []string
	closeResets := "false"
	for _, st := range cl.Body.List {
		closeStmts = append(closeStmts, coqString(oneLine(t.Src(stateFile, st))))
		if as, ok := st.(*ast.AssignStmt); ok && as.Tok == token.ASSIGN && len(as.Lhs) == 1 && len(as.Rhs) == 1 {
			if s, ok := as.Lhs[0].(*ast.SelectorExpr); ok && s.Sel.Name == "res" {
				if id, ok := s.X.(*ast.Ident); ok && id.Name == clRecv {
					if v, ok := as.Rhs[0].(*ast.Ident); ok && v.Name == "nil" {
						closeResets = "true"
					}
				}
			}
		}
	}
	// callers of setSnap
	var callers []string
	for _, d := range sf.Decls {
		fd, ok := d.(*ast.FuncDecl)
		if !ok || fd.Body == nil || fd.Name.Name == "setSnap" {
			continue
		}
		rname, rtyp := recvOf(fd)
		if rtyp != "State" {
			continue
		}
		// top-level statements in order: remember whether `if <recv>.snap != nil { ... <recv>.close() ... }` was passed
		guarded := false
		for _, st := range fd.Body.List {
			if is, ok := st.(*ast.IfStmt); ok && is.Init == nil && oneLine(t.Src(stateFile, is.Cond)) == rname+".snap != nil" {
				ast.Inspect(is.Body, func(n ast.Node) bool {
					if c, ok := n.(*ast.CallExpr); ok && oneLine(t.Src(stateFile, c.Fun)) == rname+".close" {
						guarded = true
					}
					return true
				})
			}
			g := guarded
			ast.Inspect(st, func(n ast.Node) bool {
				if c, ok := n.(*ast.CallExpr); ok && oneLine(t.Src(stateFile, c.Fun)) == rname+".setSnap" && len(c.Args) == 1 {
					callers = append(callers, fmt.Sprintf("(%s, %s, %v)", coqString(fd.Name.Name), coqString(oneLine(t.Src(stateFile, c.Args[0]))), g))
				}
				return true
			})
		}
	}
	sort.Strings(callers)

	// internal/state/updates.go: the NewFetch calls of the Apply methods of the flag state updates
	const updFile = "internal/state/updates.go"
	uf, err := t.ParseFile(updFile)
	if err != nil {
		return "", err
	}
	var newFetch []string
	for _, d := range uf.Decls {
		fd, ok := d.(*ast.FuncDecl)
		if !ok || fd.Body == nil || fd.Name.Name != "Apply" {
			continue
		}
		_, rtyp := recvOf(fd)
		ast.Inspect(fd.Body, func(n ast.Node) bool {
			c, ok := n.(*ast.CallExpr)
			if !ok || calleeName(c.Fun) != "NewFetch" {
				return true
			}
			diff, opn := "?", "?"
			if len(c.Args) == 6 {
				diff, opn = oneLine(t.Src(updFile, c.Args[4])), oneLine(t.Src(updFile, c.Args[5]))
			}
			newFetch = append(newFetch, fmt.Sprintf("(%s, %s, %s)", coqString(rtyp), coqString(diff), coqString(opn)))
			return true
		})
	}
	if len(newFetch) == 0 {
		return "", fmt.Errorf("%s: no NewFetch call in an Apply method", updFile)
	}
	sort.Strings(newFetch)

	strs := func(l []string) string {
		q := make([]string, len(l))
		for i, s := range l {
			q[i] = coqString(s)
		}
		return "[" + strings.Join(q, "; ") + "]"
	}
	list := func(l []string) string {
		if len(l) == 0 {
			return "[]"
		}
		return "[\n  " + strings.Join(l, ";\n  ") + "\n]"
	}
	var b strings.Builder
	b.WriteString("From Coq Require Import List String Bool.\nImport ListNotations.\nOpen Scope string_scope.\n\n")
	b.WriteString("(* internal/state/responders.go: the types with a handle method *)\n")
	fmt.Fprintf(&b, "Definition responder_types : list string := %s.\n\n", strs(handles))
	b.WriteString("(* every use of an imap.FlagSet field of the receiver inside a handle method: (type, expression, context); context =\n   recv:M (receiver of the call of method M), arg:F (argument of a call of F), assign:x (right-hand side of an\n   assignment to x), value:.. / return / stored-in-literal / other *)\n")
	fmt.Fprintf(&b, "Definition handle_flagset_uses : list (string * string * string) := %s.\n\n", list(uses))
	b.WriteString("(* calls of the in-place FlagSet methods inside handle methods: (type, method, receiver expression, the receiver is a\n   variable declared inside the method) *)\n")
	fmt.Fprintf(&b, "Definition handle_inplace_calls : list (string * string * string * bool) := %s.\n\n", list(muts))
	b.WriteString("(* fetch.handle: the statement of each case of the switch over u.fetchFlagOp *)\n")
	fmt.Fprintf(&b, "Definition fetch_new_flags : list (string * string) := %s.\n", list(fetchCases))
	b.WriteString("(* the FetchFlagOpSet case takes a copy (<receiver>.<FlagSet field>.Clone()) *)\n")
	fmt.Fprintf(&b, "Definition fetch_set_clones : bool := %s.\n\n", fetchSetClones)
	b.WriteString("(* imap/flags.go: the methods of FlagSet, and those that change the receiver (assignment to / delete of an element,\n   directly or through another method of the receiver) *)\n")
	fmt.Fprintf(&b, "Definition flagset_methods : list string := %s.\n", strs(all))
	fmt.Fprintf(&b, "Definition flagset_mutators : list string := %s.\n\n", strs(mutators))
	b.WriteString("(* internal/state/state.go: the statements of State.close; whether `<receiver>.res = nil` is one of them *)\n")
	fmt.Fprintf(&b, "Definition state_close_stmts : list string := [%s].\n", strings.Join(closeStmts, "; "))
	fmt.Fprintf(&b, "Definition close_resets_res : bool := %s.\n", closeResets)
	b.WriteString("(* calls of setSnap in methods of State: (method, argument, an `if <receiver>.snap != nil { .. <receiver>.close() .. }`\n   statement precedes the call in the method body) *)\n")
	fmt.Fprintf(&b, "Definition setsnap_calls : list (string * string * bool) := %s.\n", list(callers))
	b.WriteString("\n(* internal/state/updates.go: the NewFetch calls in Apply methods: (update type, the cameFromDifferentMailbox argument,\n   the fetchFlagOp argument) *)\n")
	fmt.Fprintf(&b, "Definition newfetch_calls : list (string * string * string) := %s.\n", list(newFetch))
	return b.String(), nil
}
