(* C12 — what a syntactically well-formed parenthesised IMAP list is, and a checker for it.
   Spec: an abstract syntax [pitem] (NIL, number, quoted string, literal, list), its rendering [render] and the
   side conditions [valid]; a text is well-formed iff it is the rendering of a valid list item.
   Elements of a list are separated by exactly one SP; the SP may be absent only between ')' and '(' (as between
   the parts of a multipart body in RFC 3501's `body-type-mpart = 1*body SP media-subtype`).
   A quoted string is lexically closed: it ends at the first double quote that is not escaped by a backslash, a
   backslash always escapes a following byte, and it contains no raw CR or LF.
   Checker: recursive descent [parse_plist] returning the syntax tree; [wf_plist b] = it accepts all of b.
   Proofs/PListProofs.v: parse (render i) = i for valid i (complete) and parse s = Some i -> s = render i, valid i (sound).
   No proofs in this file. *)
From Coq Require Import List NArith Bool Arith.
From Gluon Require Import Base.DecBytes Model.Rfc822Split Model.LiteralFrame.
Import ListNotations.

Definition LP : N := 40%N.   Definition RP : N := 41%N.   Definition SP : N := 32%N.
Definition DQ : N := 34%N.   Definition BSL : N := 92%N.  Definition LBR : N := 123%N.
Definition NIL_bytes : bytes := [78%N; 73%N; 76%N].

Inductive pitem :=
| PNil
| PNum (ds : bytes)                    (* the digits *)
| PQuoted (q : bytes)                  (* what stands between the two quotes, escapes included *)
| PLit (payload : bytes)               (* {n} CRLF payload *)
| PList (l : list (bool * pitem)).     (* bool: the element is preceded by one SP *)

Definition is_list (i : pitem) : bool := match i with PList _ => true | _ => false end.

Definition is_crlf (b : N) : bool := N.eqb b 13 || N.eqb b 10.

(* content of a lexically closed quoted string *)
Fixpoint qc_ok (q : bytes) : bool :=
  match q with
  | [] => true
  | b :: t =>
    if N.eqb b BSL then
      match t with
      | [] => false
      | c :: t' => negb (is_crlf c) && qc_ok t'
      end
    else if N.eqb b DQ then false
    else negb (is_crlf b) && qc_ok t
  end.

Fixpoint render (i : pitem) : bytes :=
  match i with
  | PNil => NIL_bytes
  | PNum ds => ds
  | PQuoted q => DQ :: q ++ [DQ]
  | PLit p => frame_literal p
  | PList l =>
    LP :: (fix rl (l : list (bool * pitem)) : bytes :=
             match l with
             | [] => []
             | (sp, x) :: t => (if sp then [SP] else []) ++ render x ++ rl t
             end) l ++ [RP]
  end.

Fixpoint render_items (l : list (bool * pitem)) : bytes :=
  match l with
  | [] => []
  | (sp, x) :: t => (if sp then [SP] else []) ++ render x ++ render_items t
  end.

(* separator rule: no SP before the first element; afterwards one SP, optional only between two lists *)
Definition sep_ok (first prevlist sp islist : bool) : bool :=
  if first then negb sp else sp || (prevlist && islist).

Fixpoint valid (i : pitem) : bool :=
  match i with
  | PNil => true
  | PNum ds => negb (match ds with [] => true | _ => false end) && forallb is_digit ds
  | PQuoted q => qc_ok q
  | PLit _ => true
  | PList l =>
    (fix vl (first prevlist : bool) (l : list (bool * pitem)) : bool :=
       match l with
       | [] => true
       | (sp, x) :: t => sep_ok first prevlist sp (is_list x) && valid x && vl false (is_list x) t
       end) true false l
  end.

Fixpoint valid_items (first prevlist : bool) (l : list (bool * pitem)) : bool :=
  match l with
  | [] => true
  | (sp, x) :: t => sep_ok first prevlist sp (is_list x) && valid x && valid_items false (is_list x) t
  end.

(* the set of well-formed texts *)
Definition WF (b : bytes) : Prop := exists l, valid (PList l) = true /\ render (PList l) = b.

(* ---------- checker ---------- *)
(* after the opening quote: content and what follows the closing quote *)
Fixpoint scan_quoted (s : bytes) : option (bytes * bytes) :=
  match s with
  | [] => None
  | b :: t =>
    if N.eqb b DQ then Some ([], t)
    else if N.eqb b BSL then
      match t with
      | [] => None
      | c :: t' =>
        if is_crlf c then None
        else match scan_quoted t' with Some (q, r) => Some (b :: c :: q, r) | None => None end
      end
    else if is_crlf b then None
    else match scan_quoted t with Some (q, r) => Some (b :: q, r) | None => None end
  end.

Definition starts_with (b : N) (s : bytes) : bool := match s with c :: _ => N.eqb c b | [] => false end.
Definition starts_with_digit (s : bytes) : bool := match s with c :: _ => is_digit c | [] => false end.

Fixpoint is_prefix_b (p s : bytes) : bool :=
  match p, s with
  | [], _ => true
  | x :: p', y :: s' => N.eqb x y && is_prefix_b p' s'
  | _ :: _, [] => false
  end.

(* `{n}CRLF` and n bytes; n in canonical decimal form (as written by fmt) *)
Definition parse_literal (s : bytes) : option (bytes * bytes) :=
  match s with
  | b :: t =>
    if N.eqb b LBR then
      let '(d, r) := span_digits t in
      match undec d with
      | Some n =>
        if bytes_eqb d (dec n) && is_prefix_b [125%N; 13%N; 10%N] r then
          let payload := skipn 3 r in
          if (length payload <? N.to_nat n) then None
          else Some (firstn (N.to_nat n) payload, skipn (N.to_nat n) payload)
        else None
      | None => None
      end
    else None
  | [] => None
  end.

Fixpoint parse_item (fuel : nat) (s : bytes) : option (pitem * bytes) :=
  match fuel with
  | 0 => None
  | S f =>
    match s with
    | [] => None
    | b :: r =>
      if N.eqb b LP then
        match parse_items f true false r with Some (l, r') => Some (PList l, r') | None => None end
      else if N.eqb b DQ then
        match scan_quoted r with Some (q, r') => Some (PQuoted q, r') | None => None end
      else if N.eqb b LBR then
        match parse_literal s with Some (p, r') => Some (PLit p, r') | None => None end
      else if is_prefix_b NIL_bytes s then Some (PNil, skipn 3 s)
      else if is_digit b then let '(ds, r') := span_digits s in Some (PNum ds, r')
      else None
    end
  end
with parse_items (fuel : nat) (first prevlist : bool) (s : bytes) : option (list (bool * pitem) * bytes) :=
  match fuel with
  | 0 => None
  | S f =>
    match s with
    | [] => None
    | b :: r =>
      if N.eqb b RP then Some ([], r)
      else if N.eqb b SP then
        if first then None
        else match parse_item f r with
             | Some (x, r') =>
               match parse_items f false (is_list x) r' with
               | Some (l, r'') => Some ((true, x) :: l, r'')
               | None => None
               end
             | None => None
             end
      else if first || (prevlist && N.eqb b LP) then
        match parse_item f s with
        | Some (x, r') =>
          match parse_items f false (is_list x) r' with
          | Some (l, r'') => Some ((false, x) :: l, r'')
          | None => None
          end
        | None => None
        end
      else None
    end
  end.

Definition parse_plist (s : bytes) : option pitem :=
  match parse_item (S (length s)) s with
  | Some (PList l, []) => Some (PList l)
  | _ => None
  end.

Definition wf_plist (s : bytes) : bool := match parse_plist s with Some _ => true | None => false end.
