package main

// Further in-process scenarios of the C13 harness:
//   bulkScenario       - one connector MessagesCreated update with more messages than db.ChunkLimit: every message's
//                        BODY[] and RFC822.SIZE are those of the literal that was submitted for it;
//   headerlessScenario - literals without any header field (blank first line, colon-less header lines, empty field name)
//                        and with a colon-less prelude, through the connector and through APPEND to a \Drafts mailbox
//                        (which skips the header validation; a literal that already carries an ID line has it erased
//                        first): BODY[] = literal with ONE ID line put in at the first header field / the end of the
//                        header, every other byte preserved, RFC822.SIZE = len(BODY[]) = len(HEADER)+len(TEXT).

import (
	"bytes"
	"fmt"
	"regexp"
	"strconv"
	"strings"
	"time"

	"github.com/ProtonMail/gluon/db"
	"github.com/ProtonMail/gluon/imap"

	"verifharness/common"
	"verifharness/hconn"
	"verifharness/imapc"
	"verifharness/srv"
)

var reAnyIDLine = regexp.MustCompile(`(?m)^X-Pm-Gluon-Id: ([0-9a-fA-F-]{36})\r\n`)

// fetchAll sends FETCH 1:* (attrs) and returns the items per sequence number; ok=false if a line did not parse.
func fetchAll(c *imapc.Client, attrs string) (map[int][]item, string, bool, error) {
	r, err := c.Cmd("FETCH 1:* (" + attrs + ")")
	if err != nil {
		return nil, "", false, err
	}
	out := map[int][]item{}
	ok := true
	for _, l := range r.Untagged {
		if !strings.Contains(l.Text, " FETCH (") {
			continue
		}
		n, items, good := parseFetch(l)
		if !good {
			ok = false
			continue
		}
		out[n] = append(out[n], items...)
	}
	return out, r.Status, ok, nil
}

func bulkScenario(ctx *common.Ctx, n int) error {
	res := ctx.Res
	s, err := srv.Start(srv.Options{})
	if err != nil {
		return err
	}
	defer s.Stop()
	c, err := s.Login()
	if err != nil {
		return err
	}
	defer c.Close()
	c.Timeout = 180 * time.Second
	conn := s.Conn0()
	if r, err := c.Cmd("CREATE bulk"); err != nil || r.Status != "OK" {
		return fmt.Errorf("create bulk: %v %v", err, r.Text)
	}
	mboxID, ok := conn.MailboxIDByName([]string{"bulk"})
	if !ok {
		res.Infra("bulk scenario: mailbox id unknown")
		return nil
	}
	canon := fmt.Sprintf("BULK-CREATED one MessagesCreated with ChunkLimit%+d messages", n-db.ChunkLimit)
	ctx.Current(canon, map[string]int{"messages": n})
	lits := make([][]byte, n)
	ups := make([]*imap.MessageCreated, n)
	for i := range lits {
		lits[i] = []byte(fmt.Sprintf("Date: Mon, 01 Jan 2024 10:00:00 +0000\r\nFrom: a@b\r\nSubject: bulk %d\r\n\r\nbody of message %d %s\r\n", i, i, strings.Repeat("x", i%7)))
		pm, err := imap.NewParsedMessage(lits[i])
		if err != nil {
			return err
		}
		ups[i] = &imap.MessageCreated{Message: imap.Message{ID: conn.NewMessageID(), Flags: imap.NewFlagSet(), Date: time.Now()},
			Literal: lits[i], MailboxIDs: []imap.MailboxID{mboxID}, ParsedMessage: pm}
	}
	if err, acked := conn.Push(imap.NewMessagesCreated(false, ups...), 170*time.Second); err != nil || !acked {
		res.Infra("bulk scenario: update not applied: %v acked=%v", err, acked)
		return nil
	}
	if r, err := c.Cmd("SELECT bulk"); err != nil || r.Status != "OK" {
		return fmt.Errorf("select bulk: %v %v", err, r.Text)
	}
	all, status, parsed, err := fetchAll(c, "RFC822.SIZE BODY.PEEK[]")
	if err != nil {
		return err
	}
	res.Evaluations += n
	res.Count(fmt.Sprintf("bulk-created-%d", n))
	if status != "OK" || !parsed || len(all) != n {
		res.Fail(canon+" :: FETCH 1:* malformed", fmt.Sprintf("status=%s parsed=%v messages=%d want %d", status, parsed, len(all), n), nil)
		return nil
	}
	reSubj := regexp.MustCompile(`Subject: bulk (\d+)\r\n`)
	seen := map[int]bool{}
	bad := 0
	firstBad := ""
	for seq, items := range all {
		if len(items) < 2 {
			bad++
			continue
		}
		size, _ := strconv.Atoi(items[0].Text)
		body := items[1].Lit
		good := false
		if m := reSubj.FindSubmatch(body); m != nil {
			k, _ := strconv.Atoi(string(m[1]))
			if id := reIDLine.FindSubmatch(body); id != nil && k < n && bytes.Equal(body[len(id[0]):], lits[k]) && size == len(body) && !seen[k] {
				good = true
				seen[k] = true
			}
		}
		if !good {
			bad++
			if firstBad == "" {
				firstBad = fmt.Sprintf("message %d: RFC822.SIZE %d, BODY[] %d bytes %s", seq, size, len(body), short(body))
			}
		}
	}
	if bad > 0 {
		res.Fail(canon+" :: BODY[] / RFC822.SIZE of some messages are not those of the submitted literal",
			fmt.Sprintf("%d of %d messages wrong; first: %s", bad, n, firstBad), map[string]int{"messages": n, "wrong": bad})
		return nil
	}
	res.Nontrivial(fmt.Sprintf("bulk:%d", n))
	return nil
}

// expectedInsertAt: where the ID line belongs: in front of the first header line that has a non-empty name before a
// colon, else at the end of the header part (lines up to and including the first blank line).
func expectedInsertAt(lit []byte) int {
	hdrLen := len(lit)
	pos := 0
	first := -1
	for pos < len(lit) {
		j := bytes.IndexByte(lit[pos:], '\n')
		if j < 0 {
			break
		}
		line := lit[pos : pos+j]
		if len(bytes.Trim(line, "\r\n")) == 0 {
			hdrLen = pos + j + 1
			break
		}
		if c := bytes.IndexByte(line, ':'); c > 0 && first < 0 && line[0] != ' ' && line[0] != '\t' {
			first = pos
		}
		pos += j + 1
	}
	if first >= 0 {
		return first
	}
	return hdrLen
}

func headerlessScenario(ctx *common.Ctx, lines *[]string, nextID func() int) error {
	res := ctx.Res
	type lit struct {
		name string
		data string
		via  string // "both" | "drafts"
	}
	lits := []lit{
		{"blank-first-crlf", "\r\nbody only\r\nsecond line\r\n", "both"},
		{"blank-first-lf", "\nLF blank first\nmore\n", "both"},
		{"colonless-header", "no colon in this line\r\nnor in this one\r\n\r\nbody\r\n", "both"},
		{"empty-field-name", ": value of a field without name\r\n\r\nbody\r\n", "both"},
		{"colonless-prelude-then-fields", "prelude without colon\r\nFrom: a@b\r\nDate: Mon, 01 Jan 2024 10:00:00 +0000\r\n\r\nbody", "both"},
		{"one-field", "Subject: only field\r\n\r\nb", "both"},
		{"only-blank-line", "\r\n", "both"},
		{"has-id-already", "X-Pm-Gluon-Id: 11111111-2222-3333-4444-555555555555\r\nFrom: a@b\r\n\r\nhas an id already\r\n", "drafts"},
	}
	check := func(path string, c *imapc.Client, want [][]byte, names []string) error {
		all, status, parsed, err := fetchAll(c, "RFC822.SIZE BODY.PEEK[] BODY.PEEK[HEADER] BODY.PEEK[TEXT]")
		if err != nil {
			return err
		}
		if status != "OK" || !parsed || len(all) != len(want) {
			res.Fail("HEADERLESS "+path+" :: FETCH malformed", fmt.Sprintf("status=%s parsed=%v messages=%d want %d", status, parsed, len(all), len(want)), nil)
			return nil
		}
		used := map[int]bool{}
		for seq := 1; seq <= len(all); seq++ {
			items := all[seq]
			res.Evaluations++
			if len(items) < 4 {
				res.Fail("HEADERLESS "+path+" :: FETCH malformed", fmt.Sprintf("message %d", seq), nil)
				continue
			}
			size, _ := strconv.Atoi(items[0].Text)
			body, hdr, txt := items[1].Lit, items[2].Lit, items[3].Lit
			// which submitted literal is it: BODY[] without its ID line(s)
			stripped := reAnyIDLine.ReplaceAll(body, nil)
			k := -1
			for i, w := range want {
				if !used[i] && bytes.Equal(stripped, w) {
					k = i
					break
				}
			}
			if k < 0 {
				// name the literal by its tail
				name := "?"
				for i, w := range want {
					if len(w) > 4 && bytes.HasSuffix(body, w[len(w)-4:]) {
						name = names[i]
					}
				}
				res.Fail("HEADERLESS "+path+" "+name+" :: BODY[] is not the delivered literal plus the ID line",
					fmt.Sprintf("message %d: BODY[] = %s", seq, short(body)), map[string]string{"body": short(body)})
				continue
			}
			used[k] = true
			w := want[k]
			at := expectedInsertAt(w)
			okBytes := false
			var idVal []byte
			if len(body) > len(w) && at <= len(w) && bytes.Equal(body[:at], w[:at]) {
				if m := reIDLine.FindSubmatch(body[at:]); m != nil && bytes.Equal(body[at+len(m[0]):], w[at:]) {
					okBytes = true
					idVal = m[1]
				}
			}
			if !okBytes {
				res.Fail("HEADERLESS "+path+" "+names[k]+" :: the ID line is not where it belongs or other bytes changed",
					fmt.Sprintf("BODY[] = %s, literal %s, expected offset %d", short(body), short(w), at), map[string]string{"body": short(body)})
				continue
			}
			if size != len(body) || len(body) != len(hdr)+len(txt) || !bytes.Equal(append(append([]byte{}, hdr...), txt...), body) {
				res.Fail("HEADERLESS "+path+" "+names[k]+" :: RFC822.SIZE / HEADER+TEXT do not match BODY[]",
					fmt.Sprintf("size %d, BODY[] %d, HEADER %d, TEXT %d", size, len(body), len(hdr), len(txt)), nil)
				continue
			}
			res.Count("headerless " + path)
			res.Nontrivial("headerless:" + path + ":" + names[k])
			if path == "connector" {
				*lines = append(*lines, fmt.Sprintf("CInsert %d %s %s %s", nextID(), common.CoqBytes(w), common.CoqBytes(idVal), common.CoqBytes(body)))
			}
		}
		return nil
	}

	// ---- through the connector ----
	{
		s, err := srv.Start(srv.Options{})
		if err != nil {
			return err
		}
		c, err := s.Login()
		if err != nil {
			s.Stop()
			return err
		}
		conn := s.Conn0()
		c.Cmd("CREATE hl")
		mboxID, _ := conn.MailboxIDByName([]string{"hl"})
		var want [][]byte
		var names []string
		var ups []*imap.MessageCreated
		for _, l := range lits {
			if l.via != "both" {
				continue
			}
			ctx.Current("HEADERLESS connector "+l.name, map[string]string{"literal": l.data})
			pm, err := imap.NewParsedMessage([]byte(l.data))
			if err != nil {
				res.Infra("headerless: NewParsedMessage(%s): %v", l.name, err)
				continue
			}
			ups = append(ups, &imap.MessageCreated{Message: imap.Message{ID: conn.NewMessageID(), Flags: imap.NewFlagSet(), Date: time.Now()},
				Literal: []byte(l.data), MailboxIDs: []imap.MailboxID{mboxID}, ParsedMessage: pm})
			want = append(want, []byte(l.data))
			names = append(names, l.name)
		}
		if err, acked := conn.Push(imap.NewMessagesCreated(false, ups...), 60*time.Second); err != nil || !acked {
			res.Infra("headerless: connector update not applied: %v acked=%v", err, acked)
		} else if r, err := c.Cmd("SELECT hl"); err == nil && r.Status == "OK" {
			if err := check("connector", c, want, names); err != nil {
				c.Close()
				s.Stop()
				return err
			}
		}
		c.Close()
		s.Stop()
	}

	// ---- APPEND to a \Drafts mailbox (no header validation; an ID line the literal carries is erased first) ----
	{
		hc := hconn.New([]string{"user"}, "pass")
		hc.Attrs = imap.NewFlagSet(imap.AttrDrafts)
		s, err := srv.Start(srv.Options{Users: []srv.User{{Names: []string{"user"}, Pass: "pass", Conn: hc}}})
		if err != nil {
			return err
		}
		defer s.Stop()
		c, err := s.Login()
		if err != nil {
			return err
		}
		defer c.Close()
		if r, err := c.Cmd("CREATE Drafts"); err != nil || r.Status != "OK" {
			res.Infra("headerless: create Drafts: %v %v", err, r.Text)
			return nil
		}
		var want [][]byte
		var names []string
		for _, l := range lits {
			ctx.Current("HEADERLESS drafts "+l.name, map[string]string{"literal": l.data})
			r, err := c.Append("Drafts", "", []byte(l.data))
			if err != nil {
				return err
			}
			if r.Status != "OK" {
				res.Fail("HEADERLESS drafts "+l.name+" :: APPEND to the Drafts mailbox refused", r.Text, nil)
				continue
			}
			w := []byte(l.data)
			if l.name == "has-id-already" {
				w = reAnyIDLine.ReplaceAll(w, nil) // the server erases the foreign ID line before it adds its own
			}
			want = append(want, w)
			names = append(names, l.name)
		}
		if r, err := c.Cmd("SELECT Drafts"); err != nil || r.Status != "OK" {
			res.Infra("headerless: select Drafts: %v %v", err, r.Text)
			return nil
		}
		return check("drafts", c, want, names)
	}
}
