(* C10 - which byte strings are encodings of a command (the printer, as a relation so that it ranges over ALL
   encoding choices at once): per string atom / quoted / literal, per keyword letter upper / lower case, optional forms
   (a single sequence number or n:n, flag list with or without parentheses, NIL or the empty string ...).

   The character classes are those of RFC 3501 in BYTE terms - deliberately not the generated token tables - so the
   round-trip theorems (Props/C10.v) say that the tables of the implementation accept what the RFC allows:
     ATOM-CHAR      any CHAR except atom-specials: parentheses, open brace, SP, CTL, percent, asterisk, double quote,
                    backslash, closing bracket
     ASTRING-CHAR   ATOM-CHAR or closing bracket;  list-char: ATOM-CHAR, percent, asterisk, closing bracket
     QUOTED-CHAR    any TEXT-CHAR (1..127 except CR LF) except double quote and backslash, or one of these two escaped
                    by a backslash
     literal        open brace, number, close brace, CRLF, then that many bytes *)
From Coq Require Import List NArith Bool String Ascii.
From Gluon Require Import Gen.FactsTokens Model.ImapTokens Model.ImapGrammar.
Import ListNotations.
Open Scope N_scope.
Local Notation length := List.length.

(* ------------------------------------------------------------------ RFC 3501 character classes (bytes) *)
Definition in_range (lo hi b : N) : bool := (lo <=? b) && (b <=? hi).
Definition is_digit_byte (b : N) : bool := in_range 48 57 b.
Definition is_alpha_byte (b : N) : bool := in_range 65 90 b || in_range 97 122 b.
Definition is_lower_alpha (b : N) : bool := in_range 97 122 b.
Fixpoint memb (b : N) (l : list N) : bool := match l with [] => false | x :: t => (b =? x) || memb b t end.
(* 40 41 123 37 42 34 92 93 = parentheses, open brace, percent, asterisk, double quote, backslash, closing bracket
   (SP and CTL are excluded by the range 33..126) *)
Definition atom_specials : list N := [40; 41; 123; 37; 42; 34; 92; 93].
Definition rfc_atom_byte (b : N) : bool := in_range 33 126 b && negb (memb b atom_specials).
Definition rfc_astring_byte (b : N) : bool := rfc_atom_byte b || (b =? 93).
Definition rfc_list_byte (b : N) : bool := rfc_atom_byte b || (b =? 37) || (b =? 42) || (b =? 93).
Definition rfc_tag_byte (b : N) : bool := rfc_astring_byte b && negb (b =? 43).
Definition rfc_quoted_raw (b : N) : bool :=
  in_range 1 127 b && negb (b =? 13) && negb (b =? 10) && negb (b =? 34) && negb (b =? 92).
Definition rfc_quoted_special (b : N) : bool := (b =? 34) || (b =? 92).

Definition all_bytes (f : N -> bool) (s : bytes) : Prop := forall b, In b s -> f b = true.

(* ------------------------------------------------------------------ keywords *)
(* kw is given in lower case; any mixture of upper and lower case letters is an encoding *)
Definition EncKw (kw : string) (bs : bytes) : Prop := lower bs = s2b kw.
(* fixed text matched case-insensitively byte by byte (ConsumeBytesFold) *)
Definition EncFold (cs : string) (bs : bytes) : Prop := lower bs = lower (s2b cs).

(* ------------------------------------------------------------------ numbers *)
Fixpoint num_val (acc : N) (ds : bytes) : N :=
  match ds with [] => acc | d :: t => num_val (acc * 10 + (d - 48)) t end.
(* number = 1*DIGIT (leading zeros allowed), value below 2^63 *)
Definition EncNum (n : N) (ds : bytes) : Prop :=
  ds <> [] /\ all_bytes is_digit_byte ds /\ num_val 0 ds = n /\ n <= max_int.
Definition EncNz (n : N) (ds : bytes) : Prop := EncNum n ds /\ n <> 0.
(* at most k digits / exactly k digits *)
Definition EncNumUpTo (k : nat) (n : N) (ds : bytes) : Prop :=
  ds <> [] /\ (length ds <= k)%nat /\ all_bytes is_digit_byte ds /\ num_val 0 ds = n.
Definition EncNumExact (k : nat) (n : N) (ds : bytes) : Prop :=
  length ds = k /\ k <> O /\ all_bytes is_digit_byte ds /\ num_val 0 ds = n.

(* ------------------------------------------------------------------ strings *)
Inductive EncQBody : bytes -> bytes -> Prop :=
| EQ_nil : EncQBody [] []
| EQ_raw b s q : rfc_quoted_raw b = true -> EncQBody s q -> EncQBody (b :: s) (b :: q)
| EQ_esc b s q : rfc_quoted_special b = true -> EncQBody s q -> EncQBody (b :: s) (92 :: b :: q).
Definition EncQuoted (s bs : bytes) : Prop := exists q, bs = 34 :: q ++ [34] /\ EncQBody s q.
Definition EncLiteral (s bs : bytes) : Prop :=
  exists ds, bs = 123 :: ds ++ [125; 13; 10] ++ s /\ EncNum (N.of_nat (length s)) ds /\
             literal_min_size <= N.of_nat (length s) < literal_cap.
Definition EncString (s bs : bytes) : Prop := EncQuoted s bs \/ EncLiteral s bs.
Definition EncAtomWith (f : N -> bool) (s bs : bytes) : Prop := bs = s /\ s <> [] /\ all_bytes f s.
Definition EncAString (s bs : bytes) : Prop := EncAtomWith rfc_astring_byte s bs \/ EncString s bs.
Definition EncAtom (s bs : bytes) : Prop := EncAtomWith rfc_atom_byte s bs.
(* mailbox = INBOX (any case) / astring: the written name w is read back as INBOX when it is INBOX in any case *)
Definition mailbox_of (w : bytes) : bytes := if bytes_eqb (lower w) (s2b "inbox") then s2b "INBOX" else w.
Definition EncMailbox (m bs : bytes) : Prop := exists w, EncAString w bs /\ m = mailbox_of w.
(* list-mailbox = 1*list-char / string *)
Definition EncListMailbox (s bs : bytes) : Prop := EncAtomWith rfc_list_byte s bs \/ EncString s bs.
(* nstring = string / NIL ; the Go AST stores the empty string for NIL *)
Definition EncNString (s bs : bytes) : Prop := EncString s bs \/ (s = [] /\ EncFold "NIL" bs).

(* flag = backslash atom (not Recent) / atom *)
Definition EncFlag (f bs : bytes) : Prop :=
  bs = f /\ (EncAtom f f \/ exists a, f = 92 :: a /\ EncAtom a a /\ bytes_eqb (lower a) (s2b "recent") = false).

(* ------------------------------------------------------------------ lists with a separator byte *)
Section SepLists.
  Context {A : Type} (E : A -> bytes -> Prop) (sepb : N).
  (* zero or more (sep item) *)
  Inductive EncSepTail : list A -> bytes -> Prop :=
  | EST_nil : EncSepTail [] []
  | EST_cons a e l t : E a e -> EncSepTail l t -> EncSepTail (a :: l) (sepb :: e ++ t).
  (* item, then zero or more (sep item) *)
  Definition EncSepList (l : list A) (bs : bytes) : Prop :=
    match l with
    | [] => False
    | a :: l' => exists e t, bs = e ++ t /\ E a e /\ EncSepTail l' t
    end.
End SepLists.

(* flag-list = open paren, optional flags separated by SP, close paren *)
Definition EncFlagList (l : list bytes) (bs : bytes) : Prop :=
  match l with
  | [] => bs = [40; 41]
  | _ => exists inner, bs = 40 :: inner ++ [41] /\ EncSepList EncFlag 32 l inner
  end.

(* ------------------------------------------------------------------ sequence sets *)
(* seq-number = nz-number / asterisk ; 0 stands for the asterisk in the AST (command.SeqNumValueAsterisk) *)
Definition EncSeqNum (n : N) (bs : bytes) : Prop :=
  (n = 0 /\ bs = [42]) \/ (n <> 0 /\ n <= max_uint32 /\ EncNum n bs).
(* seq-range a:b; a single number n is read as (n, n), which may also be written n:n *)
Definition EncSeqRange (r : seqrange) (bs : bytes) : Prop :=
  (fst r = snd r /\ EncSeqNum (fst r) bs) \/
  (exists e1 e2, bs = e1 ++ 58 :: e2 /\ EncSeqNum (fst r) e1 /\ EncSeqNum (snd r) e2).
Definition EncSeqSet (s : seqset) (bs : bytes) : Prop := EncSepList EncSeqRange 44 s bs.

(* ------------------------------------------------------------------ commands covered by the round-trip theorem *)
Definition noarg_kw (k : noarg) : string :=
  match k with
  | NCapability => "capability" | NIdle => "idle" | NNoop => "noop" | NLogout => "logout" | NCheck => "check"
  | NClose => "close" | NExpunge => "expunge" | NUnselect => "unselect" | NStartTLS => "starttls"
  end.
Definition mbox_kw (k : mboxcmd) : string :=
  match k with
  | MSelect => "select" | MExamine => "examine" | MCreate => "create" | MDelete => "delete"
  | MSubscribe => "subscribe" | MUnsubscribe => "unsubscribe"
  end.
Definition status_att_kw (a : status_att) : string :=
  match a with
  | SaMessages => "messages" | SaRecent => "recent" | SaUidNext => "uidnext" | SaUidValidity => "uidvalidity"
  | SaUnseen => "unseen"
  end.
Definition EncStatusAtt (a : status_att) (bs : bytes) : Prop := EncKw (status_att_kw a) bs.

(* store-att-flags = optional + or -, FLAGS, optional .SILENT, SP, then a flag-list or flags separated by SP *)
Definition EncStoreAction (a : store_action) (bs : bytes) : Prop :=
  match a with StAdd => bs = [43] | StRem => bs = [45] | StSet => bs = [] end.
Definition EncStoreFlags (l : list bytes) (bs : bytes) : Prop :=
  EncFlagList l bs \/ EncSepList EncFlag 32 l bs.

(* ------------------------------------------------------------------ dates (RFC 3501 date, date-time) *)
Definition month_name (m : N) : string := nth (N.to_nat (m - 1)) month_names ""%string.
(* date-month: three letters, any case *)
Definition EncMonth (m : N) (bs : bytes) : Prop := 1 <= m <= 12 /\ lower bs = s2b (month_name m).
(* date-day-fixed = (SP DIGIT) / 2DIGIT *)
Definition EncDayFixed (d : N) (bs : bytes) : Prop :=
  (exists c, bs = [32; c] /\ is_digit_byte c = true /\ d = c - 48) \/ EncNumExact 2 d bs.
(* date-time = DQUOTE date-day-fixed - date-month - date-year SP time SP zone DQUOTE; time = 2DIGIT:2DIGIT:2DIGIT;
   zone = (+ / -) 4DIGIT; the AST keeps the sign and hh*3600+mm*60 *)
Definition EncDateTime (dt : datetime) (bs : bytes) : Prop :=
  exists ed em ey eh emi es sign ezh ezm zh zm,
    bs = 34 :: ed ++ 45 :: em ++ 45 :: ey ++ 32 :: eh ++ 58 :: emi ++ 58 :: es ++ 32 :: sign :: ezh ++ ezm ++ [34] /\
    EncDayFixed (d_day (dt_date dt)) ed /\ EncMonth (d_month (dt_date dt)) em /\
    EncNumExact 4 (d_year (dt_date dt)) ey /\
    EncNumExact 2 (dt_hour dt) eh /\ EncNumExact 2 (dt_min dt) emi /\ EncNumExact 2 (dt_sec dt) es /\
    ((sign = 43 /\ dt_zneg dt = false) \/ (sign = 45 /\ dt_zneg dt = true)) /\
    EncNumExact 2 zh ezh /\ EncNumExact 2 zm ezm /\ dt_zone dt = zh * 3600 + zm * 60.

(* ------------------------------------------------------------------ ID (RFC 2971) *)
Inductive EncIdParams : list (bytes * bytes) -> bytes -> Prop :=
| EIP_nil : EncIdParams [] []
| EIP_one k v ek ev : EncString k ek -> EncNString v ev -> EncIdParams [(k, v)] (ek ++ 32 :: ev)
| EIP_cons k v ek ev l t :
    EncString k ek -> EncNString v ev -> l <> [] -> EncIdParams l t ->
    EncIdParams ((k, v) :: l) (ek ++ 32 :: ev ++ 32 :: t).

(* APPEND: optional flag list (an empty list may also be left out) *)
Definition EncAppendFlags (fl : list bytes) (bs : bytes) : Prop :=
  (fl = [] /\ bs = []) \/ exists x, bs = x ++ [32] /\ EncFlagList fl x.
Definition EncAppendDate (dt : option datetime) (bs : bytes) : Prop :=
  match dt with
  | None => bs = []
  | Some d => exists x, bs = x ++ [32] /\ EncDateTime d x
  end.

(* ------------------------------------------------------------------ FETCH attributes *)
(* header-list = ( header-fld-name *(SP header-fld-name) ), header-fld-name = astring *)
Definition EncHeaderList (l : list bytes) (bs : bytes) : Prop :=
  exists inner, bs = 40 :: inner ++ [41] /\ EncSepList EncAString 32 l inner.
(* section-msgtext = HEADER / HEADER.FIELDS [.NOT] SP header-list / TEXT ; section-text adds MIME (first index true) *)
Inductive EncMsgText : bool -> msgtext -> bytes -> Prop :=
| EMT_header am k : EncKw "header" k -> EncMsgText am MTHeader k
| EMT_text am k : EncKw "text" k -> EncMsgText am MTText k
| EMT_mime k : EncKw "mime" k -> EncMsgText true MTMime k
| EMT_fields am (neg : bool) l k1 k2 k3 el :
    EncKw "header" k1 -> EncKw "fields" k2 ->
    (if neg then exists x, k3 = 46 :: x /\ EncKw "not" x else k3 = []) -> EncHeaderList l el ->
    EncMsgText am (MTHeaderFields neg l) (k1 ++ 46 :: k2 ++ k3 ++ 32 :: el).
(* section-spec = section-msgtext / (section-part [. section-text]); section-part = nz-number *(. nz-number) *)
Definition EncSection (s : section) (bs : bytes) : Prop :=
  match s with
  | SecEmpty => bs = []
  | SecMsg m => EncMsgText false m bs
  | SecPart part t =>
      exists ep et, bs = ep ++ et /\ EncSepList EncNz 46 part ep /\
                    match t with None => et = [] | Some m => exists x, et = 46 :: x /\ EncMsgText true m x end
  end.
(* partial = < number . nz-number > *)
Definition EncPartial (p : option (N * N)) (bs : bytes) : Prop :=
  match p with
  | None => bs = []
  | Some (o, c) => exists eo ec, bs = 60 :: eo ++ 46 :: ec ++ [62] /\ EncNum o eo /\ EncNz c ec
  end.
Inductive EncFetchAtt : fetch_att -> bytes -> Prop :=
| EFA_envelope k : EncKw "envelope" k -> EncFetchAtt FEnvelope k
| EFA_flags k : EncKw "flags" k -> EncFetchAtt FFlags k
| EFA_internaldate k : EncKw "internaldate" k -> EncFetchAtt FInternalDate k
| EFA_bodystructure k : EncKw "bodystructure" k -> EncFetchAtt FBodyStructure k
| EFA_uid k : EncKw "uid" k -> EncFetchAtt FUid k
| EFA_body k : EncKw "body" k -> EncFetchAtt FBody k
| EFA_rfc822 k f : EncKw "rfc" k -> EncFold "822" f -> EncFetchAtt FRfc822 (k ++ f)
| EFA_rfc822_header k f k2 : EncKw "rfc" k -> EncFold "822" f -> EncKw "header" k2 -> EncFetchAtt FRfc822Header (k ++ f ++ 46 :: k2)
| EFA_rfc822_size k f k2 : EncKw "rfc" k -> EncFold "822" f -> EncKw "size" k2 -> EncFetchAtt FRfc822Size (k ++ f ++ 46 :: k2)
| EFA_rfc822_text k f k2 : EncKw "rfc" k -> EncFold "822" f -> EncKw "text" k2 -> EncFetchAtt FRfc822Text (k ++ f ++ 46 :: k2)
| EFA_section (peek : bool) s p k kp es ep :
    EncKw "body" k -> (if peek then exists x, kp = 46 :: x /\ EncFold "PEEK" x else kp = []) ->
    EncSection s es -> EncPartial p ep ->
    EncFetchAtt (FBodySection peek s p) (k ++ kp ++ 91 :: es ++ 93 :: ep).
(* fetch = FETCH SP sequence-set SP (ALL / FULL / FAST / fetch-att / ( fetch-att *(SP fetch-att) )) *)
Definition EncFetchAtts (atts : list fetch_att) (bs : bytes) : Prop :=
  (atts = [FAll] /\ EncKw "all" bs) \/ (atts = [FFull] /\ EncKw "full" bs) \/ (atts = [FFast] /\ EncKw "fast" bs) \/
  (exists a, atts = [a] /\ EncFetchAtt a bs) \/
  (exists inner, bs = 40 :: inner ++ [41] /\ EncSepList EncFetchAtt 32 atts inner).

(* ------------------------------------------------------------------ SEARCH *)
(* date = date-text / DQUOTE date-text DQUOTE ; date-text = date-day - date-month - date-year, date-day = 1*2DIGIT *)
Definition EncDateText (d : date) (bs : bytes) : Prop :=
  exists ed em ey, bs = ed ++ 45 :: em ++ 45 :: ey /\ EncNumUpTo 2 (d_day d) ed /\ EncMonth (d_month d) em /\
                   EncNumExact 4 (d_year d) ey.
Definition EncDate (d : date) (bs : bytes) : Prop :=
  EncDateText d bs \/ exists x, bs = 34 :: x ++ [34] /\ EncDateText d x.

Definition sk_flag_kw (k : sk_flag) : string :=
  match k with
  | KAll => "all" | KAnswered => "answered" | KDeleted => "deleted" | KFlagged => "flagged" | KNew => "new"
  | KOld => "old" | KRecent => "recent" | KSeen => "seen" | KUnanswered => "unanswered" | KUndeleted => "undeleted"
  | KUnflagged => "unflagged" | KUnseen => "unseen" | KDraft => "draft" | KUndraft => "undraft"
  end.
Definition sk_str_kw (k : sk_str) : string :=
  match k with KBcc => "bcc" | KBody => "body" | KCc => "cc" | KFrom => "from" | KSubject => "subject"
          | KText => "text" | KTo => "to" end.
Definition sk_date_kw (k : sk_date) : string :=
  match k with KBefore => "before" | KOn => "on" | KSince => "since" | KSentBefore => "sentbefore"
          | KSentOn => "senton" | KSentSince => "sentsince" end.
Definition sk_atom_kw (k : sk_atom) : string := match k with KKeyword => "keyword" | KUnkeyword => "unkeyword" end.
Definition sk_num_kw (k : sk_num) : string := match k with KLarger => "larger" | KSmaller => "smaller" end.

(* search-key (RFC 3501), the parenthesised list as a mutually defined tail *)
Inductive EncSKey : skey -> bytes -> Prop :=
| ESK_flag f k : EncKw (sk_flag_kw f) k -> EncSKey (SKFlag f) k
| ESK_str f s k e : EncKw (sk_str_kw f) k -> EncAString s e -> EncSKey (SKStr f s) (k ++ 32 :: e)
| ESK_date f d k e : EncKw (sk_date_kw f) k -> EncDate d e -> EncSKey (SKDate f d) (k ++ 32 :: e)
| ESK_atom f a k e : EncKw (sk_atom_kw f) k -> EncAtom a e -> EncSKey (SKAtom f a) (k ++ 32 :: e)
| ESK_num f n k e : EncKw (sk_num_kw f) k -> EncNum n e -> EncSKey (SKNum f n) (k ++ 32 :: e)
| ESK_header f v k e1 e2 :
    EncKw "header" k -> EncAString f e1 -> EncAString v e2 -> EncSKey (SKHeader f v) (k ++ 32 :: e1 ++ 32 :: e2)
| ESK_uid s k e : EncKw "uid" k -> EncSeqSet s e -> EncSKey (SKUid s) (k ++ 32 :: e)
| ESK_seq s e : EncSeqSet s e -> EncSKey (SKSeqSet s) e
| ESK_not x k e : EncKw "not" k -> EncSKey x e -> EncSKey (SKNot x) (k ++ 32 :: e)
| ESK_or a b k e1 e2 :
    EncKw "or" k -> EncSKey a e1 -> EncSKey b e2 -> EncSKey (SKOr a b) (k ++ 32 :: e1 ++ 32 :: e2)
| ESK_list a l e t : EncSKey a e -> EncSKeyTail l t -> EncSKey (SKList (a :: l)) (40 :: e ++ t ++ [41])
with EncSKeyTail : list skey -> bytes -> Prop :=
| ESKT_nil : EncSKeyTail [] []
| ESKT_cons a l e t : EncSKey a e -> EncSKeyTail l t -> EncSKeyTail (a :: l) (32 :: e ++ t).

(* search = SEARCH [SP CHARSET SP astring] 1*(SP search-key) *)
Definition EncSearchArgs (cs : bytes) (keys : list skey) (bs : bytes) : Prop :=
  (cs = [] /\ keys <> [] /\ EncSKeyTail keys bs) \/
  (exists k e t, bs = 32 :: k ++ 32 :: e ++ t /\ EncKw "charset" k /\ EncAString cs e /\ keys <> [] /\ EncSKeyTail keys t).

(* the text after the tag and its SP, up to (not including) the final CRLF *)
Inductive EncSel : selcmd -> bytes -> Prop :=
| ES_copy (mv : bool) s m k e1 e2 :
    EncKw (if mv then "move" else "copy") k -> EncSeqSet s e1 -> EncMailbox m e2 ->
    EncSel (SCopy mv s m) (k ++ 32 :: e1 ++ 32 :: e2)
| ES_store s a (silent : bool) fl k e1 ea kf ks ef :
    EncKw "store" k -> EncSeqSet s e1 -> EncStoreAction a ea -> EncFold "FLAGS" kf ->
    (if silent then exists x, ks = 46 :: x /\ EncFold "SILENT" x else ks = []) ->
    EncStoreFlags fl ef ->
    EncSel (SStore s a silent fl) (k ++ 32 :: e1 ++ 32 :: ea ++ kf ++ ks ++ 32 :: ef)
| ES_fetch s atts k e1 e2 :
    EncKw "fetch" k -> EncSeqSet s e1 -> EncFetchAtts atts e2 ->
    EncSel (SFetch s atts) (k ++ 32 :: e1 ++ 32 :: e2)
| ES_search cs keys k e :
    EncKw "search" k -> EncSearchArgs cs keys e -> EncSel (SSearch cs keys) (k ++ e).

Inductive EncCmd : cmd -> bytes -> Prop :=
| EC_noarg k e : EncKw (noarg_kw k) e -> EncCmd (CNoArg k) e
| EC_mbox k m e1 e2 : EncKw (mbox_kw k) e1 -> EncMailbox m e2 -> EncCmd (CMbox k m) (e1 ++ 32 :: e2)
| EC_rename a b k e1 e2 :
    EncKw "rename" k -> EncMailbox a e1 -> EncMailbox b e2 -> EncCmd (CRename a b) (k ++ 32 :: e1 ++ 32 :: e2)
| EC_list (lsub : bool) m p k e1 e2 :
    EncKw (if lsub then "lsub" else "list") k -> EncMailbox m e1 -> EncListMailbox p e2 ->
    EncCmd (CList lsub m p) (k ++ 32 :: e1 ++ 32 :: e2)
| EC_login u p k e1 e2 :
    EncKw "login" k -> EncAString u e1 -> EncAString p e2 -> EncCmd (CLogin u p) (k ++ 32 :: e1 ++ 32 :: e2)
| EC_status m atts k e1 e2 :
    EncKw "status" k -> EncMailbox m e1 -> EncSepList EncStatusAtt 32 atts e2 ->
    EncCmd (CStatus m atts) (k ++ 32 :: e1 ++ 32 :: 40 :: e2 ++ [41])
| EC_sel c e : EncSel c e -> EncCmd (CSel false c) e
| EC_uid c k e : EncKw "uid" k -> EncSel c e -> EncCmd (CSel true c) (k ++ 32 :: e)
| EC_uid_expunge s k1 k2 e :
    EncKw "uid" k1 -> EncKw "expunge" k2 -> EncSeqSet s e -> EncCmd (CUidExpunge s) (k1 ++ 32 :: k2 ++ 32 :: e)
| EC_idget k e : EncKw "id" k -> EncFold "NIL" e -> EncCmd CIdGet (k ++ 32 :: e)
| EC_idset l k e : EncKw "id" k -> EncIdParams l e -> EncCmd (CIdSet l) (k ++ 32 :: 40 :: e ++ [41])
| EC_append m fl dt lit k em efl edt elit :
    EncKw "append" k -> EncMailbox m em -> EncAppendFlags fl efl -> EncAppendDate dt edt -> EncLiteral lit elit ->
    EncCmd (CAppend m fl dt lit) (k ++ 32 :: em ++ 32 :: efl ++ edt ++ elit).

(* tag = 1*<any ASTRING-CHAR except plus>, and not the word DONE *)
Definition EncTag (t : bytes) : Prop :=
  t <> [] /\ all_bytes rfc_tag_byte t /\ bytes_eqb (lower t) (s2b "done") = false.

(* a complete command line: tag SP command CRLF; DONE CRLF has no tag *)
Inductive EncLine : bytes -> cmd -> bytes -> Prop :=
| EL_cmd t c e : EncTag t -> EncCmd c e -> EncLine t c (t ++ 32 :: e ++ [13; 10])
| EL_done e : EncKw "done" e -> EncLine [] CDone (e ++ [13; 10]).
