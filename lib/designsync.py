#!/usr/bin/env python3
"""Regenerates the generated blocks of DESIGN.md (between <!-- AUTO:name --> and <!-- /AUTO:name -->):
   fixes     — every `fix:` commit of /repo since the pinned commit
   findings  — the entries of known_findings.json
   seeded    — the archived seeded changes with the outcome of the last bin/seedsweep (seeded/STATUS.json) and the
               hand-kept history of what was missed at first (seeded/HISTORY.json)"""
import json, os, re, subprocess

V = "/verif"
BASE = "e1b66bc"


def block_fixes():
    out = subprocess.check_output(["git", "-C", "/repo", "log", "--reverse", "--format=%h\t%s", BASE + "..HEAD"], text=True)
    rows = [l.split("\t", 1) for l in out.splitlines() if "\tfix:" in l]
    hooks = [l.split("\t", 1) for l in out.splitlines() if "\tfix:" not in l]
    s = "%d `fix:` commits (each a genuine defect, re-established by a check before the repair; the existing suite, unedited, passes with each):\n\n" % len(rows)
    s += "| commit | message |\n|---|---|\n" + "".join("| `%s` | %s |\n" % (h, m.replace("|", "\\|")) for h, m in rows)
    s += "\nOther commits on top of `%s` (hooks, build tag `verif`): " % BASE + ", ".join("`%s` %s" % (h, m) for h, m in hooks) + "\n"
    return s


def block_findings():
    k = json.load(open(os.path.join(V, "known_findings.json")))
    ents = k["findings"] if isinstance(k, dict) else k
    s = "%d entries:\n\n" % len(ents)
    for e in ents:
        s += "* `%s` (%s, %s) — %s\n" % (e.get("id"), e.get("property"), e.get("status", "finding"), (e.get("what") or "")[:700])
    return s


def first_sentence(t, n=230):
    t = " ".join(str(t).split())
    return t if len(t) <= n else t[:n].rsplit(" ", 1)[0] + " …"


def block_seeded():
    sd = os.path.join(V, "seeded")
    try:
        status = json.load(open(os.path.join(sd, "STATUS.json")))
    except Exception:
        status = {}
    try:
        hist = json.load(open(os.path.join(sd, "HISTORY.json")))
    except Exception:
        hist = {}
    ids = sorted(d for d in os.listdir(sd) if os.path.isfile(os.path.join(sd, d, "patch.diff")))
    s = "| seeded change | what was changed | last sweep (quick tier) | history |\n|---|---|---|---|\n"
    n_c = 0
    for i in ids:
        try:
            m = json.load(open(os.path.join(sd, i, "meta.json")))
        except Exception:
            m = {}
        st = status.get(i, {})
        if m.get("obsolete_since"):
            res = "not run: " + m["obsolete_since"]
        elif st:
            res = st.get("result", "?")
            if res == "caught":
                n_c += 1
                res = "**caught** (%d VIOLATION line%s%s)" % (st.get("violations", 0), "" if st.get("violations") == 1 else "s",
                                                            ", no-failing-input-found" if st.get("no_failing_input_found") else "")
            else:
                res = "**" + res + "**"
        else:
            res = "not swept yet"
        s += "| `%s` | %s | %s | %s |\n" % (i, first_sentence(m.get("what_changed", "")).replace("|", "\\|"), res, hist.get(i, "caught at first try").replace("|", "\\|"))
    s += "\n%d archived changes; %d caught in the last sweep (`bin/seedsweep`, /repo HEAD at the time of the sweep is recorded in `seeded/STATUS.json`).\n" % (len(ids), n_c)
    # how the checks fared when each change was FIRST tried, per wave (ids -1..-3 = wave 1, -4..-6 = wave 2, -7..-9 = wave 3)
    waves = {}
    for i in ids:
        k = int(i.split("-")[1])
        w = (k - 1) // 3 + 1
        t = hist.get(i, "caught at first try")
        c = "missed" if "first version: missed" in t else ("caught without a failing input (fact / model mismatch only)" if ("only" in t and "first version" in t) or "no-failing-input-found" in t else "caught with a failing input")
        waves.setdefault(w, {}).setdefault(c, 0)
        waves[w][c] += 1
    s += "\nAt the FIRST trial of each change (before anything was strengthened for it):\n\n| wave | changes | caught with a failing input | caught without one | missed |\n|---|---|---|---|---|\n"
    for w in sorted(waves):
        d = waves[w]
        s += "| %d | %d | %d | %d | %d |\n" % (w, sum(d.values()), d.get("caught with a failing input", 0),
                                              d.get("caught without a failing input (fact / model mismatch only)", 0), d.get("missed", 0))
    return s


def block_status():
    rows = []
    for i in range(1, 21):
        pid = "C%02d" % i
        try:
            e = json.load(open(os.path.join(V, "evidence", pid + ".json")))
        except Exception:
            continue
        c = e.get("coverage", {})
        rows.append("| %s | %s/%s | %s | %s | %s | %s |" % (pid, c.get("discharged"), c.get("obligations"),
                    c.get("inputs_explored", c.get("evaluations", "")), c.get("model_cases", ""), e.get("tier"), e.get("wall_s")))
    return ("| property | theorems closed (Print Assumptions: closed under the global context) | harness evaluations | cases evaluated in Coq | tier of the last run | wall s |\n|---|---|---|---|---|---|\n"
            + "\n".join(rows) + "\n")


def main():
    p = os.path.join(V, "DESIGN.md")
    t = open(p).read()
    for name, fn in (("fixes", block_fixes), ("findings", block_findings), ("seeded", block_seeded), ("status", block_status)):
        pat = re.compile(r"(<!-- AUTO:%s -->\n).*?(<!-- /AUTO:%s -->)" % (name, name), re.S)
        if pat.search(t):
            body = fn()
            t = pat.sub(lambda mm: mm.group(1) + body + mm.group(2), t)
    open(p, "w").write(t)


if __name__ == "__main__":
    main()
