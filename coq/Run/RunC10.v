(* Correspondence runner for C10: the harness writes, for every command it fed to the real parser
   (imap/command.Parser over rfcparser.Scanner), the remaining byte stream at the start of that command and what the
   implementation returned — the parsed command as a generic S-expression, or the kind of error with Command.Tag —
   together with the number of bytes the scanner had consumed.  `mismatches` lists the case ids on which the Coq
   grammar model (Model/ImapGrammar.v) disagrees. *)
From Coq Require Import List NArith Bool String Ascii.
From Gluon Require Export Base.ImapHex Gen.FactsTokens Model.ImapTokens Model.ImapGrammar.
Import ListNotations.
Open Scope N_scope.

Inductive sx := XN (n : N) | XB (b : bytes) | XS (s : string) | XL (l : list sx).

Fixpoint sx_eqb (a b : sx) {struct a} : bool :=
  match a, b with
  | XS "?"%string, _ => true                  (* wildcard produced by the model side only *)
  | XN x, XN y => x =? y
  | XB x, XB y => bytes_eqb x y
  | XS x, XS y => String.eqb x y
  | XL x, XL y =>
      (fix go (x : list sx) (y : list sx) : bool :=
         match x, y with
         | [], [] => true
         | p :: x', q :: y' => sx_eqb p q && go x' y'
         | _, _ => false
         end) x y
  | _, _ => false
  end.

Definition xb (b : bool) : sx := XN (if b then 1 else 0).
Definition x_seq (s : seqset) : sx := XL (map (fun r => XL [XN (fst r); XN (snd r)]) s).
Definition x_strs (l : list bytes) : sx := XL (map XB l).

(* calendar validity: time.Date normalises out-of-range fields, which the model does not reproduce *)
Definition leap (y : N) : bool := ((y mod 4 =? 0) && negb (y mod 100 =? 0)) || (y mod 400 =? 0).
Definition days_in (m y : N) : N :=
  if (m =? 2) then (if leap y then 29 else 28)
  else if (m =? 4) || (m =? 6) || (m =? 9) || (m =? 11) then 30 else 31.
Definition date_ok (d : date) : bool := (1 <=? d_day d) && (d_day d <=? days_in (d_month d) (d_year d)).
Definition x_date (d : date) : list sx := [XN (d_year d); XN (d_month d); XN (d_day d)].
Definition x_datetime (t : datetime) : sx :=
  if date_ok (dt_date t) && (dt_hour t <? 24) && (dt_min t <? 60) && (dt_sec t <? 60)
  then XL (x_date (dt_date t) ++ [XN (dt_hour t); XN (dt_min t); XN (dt_sec t);
                                  xb (dt_zneg t && negb (dt_zone t =? 0)); XN (dt_zone t)])
  else XS "?".

Definition x_msgtext (m : msgtext) : sx :=
  match m with
  | MTHeader => XL [XS "header"]
  | MTText => XL [XS "text"]
  | MTMime => XL [XS "mime"]
  | MTHeaderFields neg l => XL [XS "headerfields"; xb neg; x_strs l]
  end.
Definition x_section (s : section) : sx :=
  match s with
  | SecEmpty => XL []
  | SecMsg m => x_msgtext m
  | SecPart p t => XL [XS "part"; XL (map XN p); match t with Some m => x_msgtext m | None => XL [] end]
  end.
Definition x_fetch_att (a : fetch_att) : sx :=
  match a with
  | FAll => XS "all" | FFull => XS "full" | FFast => XS "fast" | FEnvelope => XS "envelope" | FFlags => XS "flags"
  | FInternalDate => XS "internaldate" | FRfc822 => XS "rfc822" | FRfc822Header => XS "rfc822header"
  | FRfc822Size => XS "rfc822size" | FRfc822Text => XS "rfc822text" | FBody => XS "body"
  | FBodyStructure => XS "bodystructure" | FUid => XS "uid"
  | FBodySection peek s p =>
      XL [XS "bodysection"; xb peek; x_section s;
          match p with Some (o, c) => XL [XN o; XN c] | None => XL [] end]
  end.

Definition n_flag (k : sk_flag) : string :=
  match k with
  | KAll => "all" | KAnswered => "answered" | KDeleted => "deleted" | KFlagged => "flagged" | KNew => "new"
  | KOld => "old" | KRecent => "recent" | KSeen => "seen" | KUnanswered => "unanswered" | KUndeleted => "undeleted"
  | KUnflagged => "unflagged" | KUnseen => "unseen" | KDraft => "draft" | KUndraft => "undraft" end.
Definition n_str (k : sk_str) : string :=
  match k with KBcc => "bcc" | KBody => "body" | KCc => "cc" | KFrom => "from" | KSubject => "subject"
          | KText => "text" | KTo => "to" end.
Definition n_date (k : sk_date) : string :=
  match k with KBefore => "before" | KOn => "on" | KSince => "since" | KSentBefore => "sentbefore"
          | KSentOn => "senton" | KSentSince => "sentsince" end.
Definition n_atom (k : sk_atom) : string := match k with KKeyword => "keyword" | KUnkeyword => "unkeyword" end.
Definition n_num (k : sk_num) : string := match k with KLarger => "larger" | KSmaller => "smaller" end.

Fixpoint x_skey (k : skey) : sx :=
  match k with
  | SKFlag f => XL [XS (n_flag f)]
  | SKStr f s => XL [XS (n_str f); XB s]
  | SKDate f d => if date_ok d then XL (XS (n_date f) :: x_date d) else XL [XS (n_date f); XS "?"; XS "?"; XS "?"]
  | SKAtom f a => XL [XS (n_atom f); XB a]
  | SKNum f n => XL [XS (n_num f); XN n]
  | SKHeader f v => XL [XS "header"; XB f; XB v]
  | SKUid s => XL [XS "uid"; x_seq s]
  | SKSeqSet s => XL [XS "seqset"; x_seq s]
  | SKNot a => XL [XS "not"; x_skey a]
  | SKOr a b => XL [XS "or"; x_skey a; x_skey b]
  | SKList l => XL (XS "list" :: map x_skey l)
  end.

Definition x_selcmd (c : selcmd) : sx :=
  match c with
  | SCopy mv s m => XL [XS (if mv then "move" else "copy"); x_seq s; XB m]
  | SStore s a silent fl =>
      XL [XS "store"; x_seq s; XS (match a with StAdd => "add" | StRem => "rem" | StSet => "set" end); xb silent;
          x_strs fl]
  | SFetch s atts => XL [XS "fetch"; x_seq s; XL (map x_fetch_att atts)]
  | SSearch cs keys => XL [XS "search"; XB cs; XL (map x_skey keys)]
  end.

(* IDSet.Values is a Go map: last value of a key wins, order is lost -> sort by key *)
Fixpoint bytes_leb (a b : bytes) : bool :=
  match a, b with
  | [], _ => true
  | _ :: _, [] => false
  | x :: a', y :: b' => if x <? y then true else if y <? x then false else bytes_leb a' b'
  end.
Fixpoint kv_set (k v : bytes) (l : list (bytes * bytes)) : list (bytes * bytes) :=
  match l with
  | [] => [(k, v)]
  | (k', v') :: t => if bytes_eqb k k' then (k, v) :: t
                     else if bytes_leb k k' then (k, v) :: l else (k', v') :: kv_set k v t
  end.
Definition kv_canon (l : list (bytes * bytes)) : list (bytes * bytes) :=
  fold_left (fun acc kv => kv_set (fst kv) (snd kv) acc) l [].

Definition x_cmd (c : cmd) : sx :=
  match c with
  | CNoArg k => XL [XS (match k with NCapability => "capability" | NIdle => "idle" | NNoop => "noop"
                              | NLogout => "logout" | NCheck => "check" | NClose => "close" | NExpunge => "expunge"
                              | NUnselect => "unselect" | NStartTLS => "starttls" end)]
  | CMbox k m => XL [XS (match k with MSelect => "select" | MExamine => "examine" | MCreate => "create"
                               | MDelete => "delete" | MSubscribe => "subscribe" | MUnsubscribe => "unsubscribe" end);
                     XB m]
  | CRename a b => XL [XS "rename"; XB a; XB b]
  | CList lsub m p => XL [XS (if lsub then "lsub" else "list"); XB m; XB p]
  | CLogin u p => XL [XS "login"; XB u; XB p]
  | CStatus m atts =>
      XL [XS "status"; XB m;
          XL (map (fun a => XS (match a with SaMessages => "messages" | SaRecent => "recent" | SaUidNext => "uidnext"
                                        | SaUidValidity => "uidvalidity" | SaUnseen => "unseen" end)) atts)]
  | CAppend m fl dt lit =>
      XL [XS "append"; XB m; x_strs fl; match dt with Some t => x_datetime t | None => XL [] end; XB lit]
  | CSel uid c => if uid then XL [XS "uid"; x_selcmd c] else x_selcmd c
  | CUidExpunge s => XL [XS "uidexpunge"; x_seq s]
  | CIdGet => XL [XS "idget"]
  | CIdSet kv => XL [XS "idset"; XL (map (fun p => XL [XB (fst p); XB (snd p)]) (kv_canon kv))]
  | CDone => XL [XS "done"]
  end.


(* symbols used in the S-expressions, as constants (cheap to elaborate in the generated case files) *)
Definition s_add : string := "add".
Definition s_all : string := "all".
Definition s_answered : string := "answered".
Definition s_append : string := "append".
Definition s_bcc : string := "bcc".
Definition s_before : string := "before".
Definition s_body : string := "body".
Definition s_bodysection : string := "bodysection".
Definition s_bodystructure : string := "bodystructure".
Definition s_capability : string := "capability".
Definition s_cc : string := "cc".
Definition s_check : string := "check".
Definition s_close : string := "close".
Definition s_copy : string := "copy".
Definition s_create : string := "create".
Definition s_delete : string := "delete".
Definition s_deleted : string := "deleted".
Definition s_done : string := "done".
Definition s_draft : string := "draft".
Definition s_envelope : string := "envelope".
Definition s_examine : string := "examine".
Definition s_expunge : string := "expunge".
Definition s_fast : string := "fast".
Definition s_fetch : string := "fetch".
Definition s_flagged : string := "flagged".
Definition s_flags : string := "flags".
Definition s_from : string := "from".
Definition s_full : string := "full".
Definition s_header : string := "header".
Definition s_headerfields : string := "headerfields".
Definition s_idget : string := "idget".
Definition s_idle : string := "idle".
Definition s_idset : string := "idset".
Definition s_internaldate : string := "internaldate".
Definition s_keyword : string := "keyword".
Definition s_larger : string := "larger".
Definition s_list : string := "list".
Definition s_login : string := "login".
Definition s_logout : string := "logout".
Definition s_lsub : string := "lsub".
Definition s_messages : string := "messages".
Definition s_mime : string := "mime".
Definition s_move : string := "move".
Definition s_new : string := "new".
Definition s_noop : string := "noop".
Definition s_not : string := "not".
Definition s_old : string := "old".
Definition s_on : string := "on".
Definition s_or : string := "or".
Definition s_part : string := "part".
Definition s_recent : string := "recent".
Definition s_rem : string := "rem".
Definition s_rename : string := "rename".
Definition s_rfc822 : string := "rfc822".
Definition s_rfc822header : string := "rfc822header".
Definition s_rfc822size : string := "rfc822size".
Definition s_rfc822text : string := "rfc822text".
Definition s_search : string := "search".
Definition s_seen : string := "seen".
Definition s_select : string := "select".
Definition s_sentbefore : string := "sentbefore".
Definition s_senton : string := "senton".
Definition s_sentsince : string := "sentsince".
Definition s_seqset : string := "seqset".
Definition s_set : string := "set".
Definition s_since : string := "since".
Definition s_smaller : string := "smaller".
Definition s_starttls : string := "starttls".
Definition s_status : string := "status".
Definition s_store : string := "store".
Definition s_subject : string := "subject".
Definition s_subscribe : string := "subscribe".
Definition s_text : string := "text".
Definition s_to : string := "to".
Definition s_uid : string := "uid".
Definition s_uidexpunge : string := "uidexpunge".
Definition s_uidnext : string := "uidnext".
Definition s_uidvalidity : string := "uidvalidity".
Definition s_unanswered : string := "unanswered".
Definition s_undeleted : string := "undeleted".
Definition s_undraft : string := "undraft".
Definition s_unflagged : string := "unflagged".
Definition s_unkeyword : string := "unkeyword".
Definition s_unseen : string := "unseen".
Definition s_unselect : string := "unselect".
Definition s_unsubscribe : string := "unsubscribe".

(* ---- cases *)
Inductive obs :=
| OOk (tag : bytes) (c : sx)     (* Parse returned a command *)
| OErrParse (tag : bytes)        (* *rfcparser.Error; Command.Tag of the returned value *)
| OErrOther.                     (* any other error *)

(* c_consumed: bytes taken from the stream when Parse returned *)
Record case := mkCase { c_id : N; c_in : bytes; c_obs : obs; c_consumed : N }.

Definition consumed_ok (inp rest : bytes) (scanned_head : bool) (want : N) : bool :=
  let used := N.of_nat (List.length inp - List.length rest) in
  (* on an error the head of `rest` (the current token) has already been read by the scanner, unless at EOF *)
  (if scanned_head then match rest with [] => used | _ => used + 1 end else used) =? want.

Definition case_ok (c : case) : bool :=
  let inp := c_in c in
  match parse_command (List.length inp + 1) inp, c_obs c with
  | POk t cm rest, OOk t' x => bytes_eqb t t' && sx_eqb (x_cmd cm) x && consumed_ok inp rest false (c_consumed c)
  | PErr t EParse a, OErrParse t' => bytes_eqb t t' && consumed_ok inp a true (c_consumed c)
  | PErr _ EFatal _, OErrOther => true
  | _, _ => false
  end.

Definition mismatches (cs : list case) : list nat :=
  map (fun c => N.to_nat (c_id c)) (filter (fun c => negb (case_ok c)) cs).
