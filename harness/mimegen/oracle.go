package mimegen

import (
	"fmt"
	"strings"

	"verifharness/common"
)

// ---------- property oracle: the structure text describes the tree the message was built from ----------

func wantText(it *PItem, want string, what string) error {
	got, ok := it.Text()
	if !ok {
		return fmt.Errorf("%s: not a string/NIL", what)
	}
	if got != want {
		return fmt.Errorf("%s: got %q want %q", what, got, want)
	}
	return nil
}

func wantNumber(it *PItem, want int, what string) error {
	got, ok := it.Number()
	if !ok {
		return fmt.Errorf("%s: not a number", what)
	}
	if got != want {
		return fmt.Errorf("%s: got %d want %d", what, got, want)
	}
	return nil
}

// wantParams: a parameter list is NIL or a list of alternating key/value strings; compared as a set.
func wantParams(it *PItem, want []Param, what string) error {
	got := map[string]string{}
	switch it.Kind {
	case KNil:
	case KList:
		if len(it.List)%2 != 0 {
			return fmt.Errorf("%s: odd number of elements", what)
		}
		for i := 0; i < len(it.List); i += 2 {
			k, ok1 := it.List[i].Text()
			v, ok2 := it.List[i+1].Text()
			if !ok1 || !ok2 {
				return fmt.Errorf("%s: non-string element", what)
			}
			if _, dup := got[k]; dup {
				return fmt.Errorf("%s: duplicate key %q", what, k)
			}
			got[k] = v
		}
	default:
		return fmt.Errorf("%s: neither NIL nor a list", what)
	}
	if len(got) != len(want) {
		return fmt.Errorf("%s: got %v want %v", what, got, want)
	}
	for _, p := range want {
		if v, ok := got[strings.ToLower(p.K)]; !ok || v != p.V {
			return fmt.Errorf("%s: got %v want %v", what, got, want)
		}
	}
	return nil
}

func wantDisp(it *PItem, n *Node, what string) error {
	if n.Disp == "" {
		if !it.IsNil() {
			return fmt.Errorf("%s: expected NIL", what)
		}
		return nil
	}
	if it.Kind != KList || len(it.List) != 2 {
		return fmt.Errorf("%s: expected (type params)", what)
	}
	if err := wantText(it.List[0], n.Disp, what+".type"); err != nil {
		return err
	}
	return wantParams(it.List[1], n.DispParams, what+".params")
}

func wantAddrs(it *PItem, want []Addr, what string) error {
	if want == nil {
		if !it.IsNil() {
			return fmt.Errorf("%s: expected NIL", what)
		}
		return nil
	}
	if it.Kind != KList || len(it.List) != len(want) {
		return fmt.Errorf("%s: expected %d addresses", what, len(want))
	}
	for i, a := range want {
		x := it.List[i]
		if x.Kind != KList || len(x.List) != 4 {
			return fmt.Errorf("%s[%d]: not a 4-tuple", what, i)
		}
		for j, w := range []string{a.Name, "", a.User, a.Domain} {
			if err := wantText(x.List[j], w, fmt.Sprintf("%s[%d].%d", what, i, j)); err != nil {
				return err
			}
		}
	}
	return nil
}

// ExpectEnvelope checks an ENVELOPE syntax tree against the envelope headers (nil env = no such headers).
func ExpectEnvelope(it *PItem, e *Env) error {
	if e == nil {
		e = &Env{}
	}
	if it.Kind != KList || len(it.List) != 10 {
		return fmt.Errorf("envelope: not a list of 10 elements")
	}
	l := it.List
	if err := wantText(l[0], e.Date, "env.date"); err != nil {
		return err
	}
	if err := wantText(l[1], e.Subject, "env.subject"); err != nil {
		return err
	}
	sender, reply := e.Sender, e.ReplyTo
	if sender == nil {
		sender = e.From
	}
	if reply == nil {
		reply = e.From
	}
	for i, w := range [][]Addr{e.From, sender, reply, e.To, e.Cc, e.Bcc} {
		if err := wantAddrs(l[2+i], w, fmt.Sprintf("env.addr%d", i)); err != nil {
			return err
		}
	}
	if err := wantText(l[8], e.InReplyTo, "env.in-reply-to"); err != nil {
		return err
	}
	return wantText(l[9], e.MsgID, "env.message-id")
}

// ExpectStructure checks a BODY (ext=false) or BODYSTRUCTURE (ext=true) syntax tree against the node:
// types, parameters, sizes, line counts, nesting; msg is the rendered message the positions refer to.
func ExpectStructure(it *PItem, n *Node, msg []byte, ext bool, path string) error {
	if it.Kind != KList {
		return fmt.Errorf("%s: not a list", path)
	}
	l := it.List
	body := msg[n.BStart:n.End]
	if n.IsMulti() {
		k := len(n.Children)
		want := k + 1
		if ext {
			want += 4
		}
		if len(l) != want {
			return fmt.Errorf("%s: multipart with %d children: %d elements, want %d", path, k, len(l), want)
		}
		for i, c := range n.Children {
			if err := ExpectStructure(l[i], c, msg, ext, fmt.Sprintf("%s.%d", path, i+1)); err != nil {
				return err
			}
		}
		if err := wantText(l[k], n.Sub, path+".subtype"); err != nil {
			return err
		}
		if ext {
			if err := wantParams(l[k+1], n.Params, path+".params"); err != nil {
				return err
			}
			if err := wantDisp(l[k+2], n, path+".disposition"); err != nil {
				return err
			}
			if err := wantText(l[k+3], n.Lang, path+".language"); err != nil {
				return err
			}
			if err := wantText(l[k+4], n.Loc, path+".location"); err != nil {
				return err
			}
		}
		return nil
	}
	want := 7
	isMsg := n.IsMsg() && n.Embedded != nil
	if isMsg {
		want += 3
	} else if n.Type == "text" {
		want++
	}
	if ext {
		want += 4
	}
	if len(l) != want {
		return fmt.Errorf("%s: %s/%s: %d elements, want %d", path, n.Type, n.Sub, len(l), want)
	}
	if err := wantText(l[0], n.Type, path+".type"); err != nil {
		return err
	}
	if err := wantText(l[1], n.Sub, path+".subtype"); err != nil {
		return err
	}
	if err := wantParams(l[2], n.Params, path+".params"); err != nil {
		return err
	}
	if err := wantText(l[3], n.ID, path+".id"); err != nil {
		return err
	}
	if err := wantText(l[4], n.Desc, path+".description"); err != nil {
		return err
	}
	if err := wantText(l[5], n.Enc, path+".encoding"); err != nil {
		return err
	}
	if err := wantNumber(l[6], len(body), path+".size"); err != nil {
		return err
	}
	i := 7
	if isMsg {
		if err := ExpectEnvelope(l[7], n.Embedded.Env); err != nil {
			return fmt.Errorf("%s: %v", path, err)
		}
		if err := ExpectStructure(l[8], n.Embedded, msg, ext, path+"(msg)"); err != nil {
			return err
		}
		if err := wantNumber(l[9], CountLines(body), path+".lines"); err != nil {
			return err
		}
		i = 10
	} else if n.Type == "text" {
		if err := wantNumber(l[7], CountLines(body), path+".lines"); err != nil {
			return err
		}
		i = 8
	}
	if ext {
		if err := wantText(l[i], n.MD5, path+".md5"); err != nil {
			return err
		}
		if err := wantDisp(l[i+1], n, path+".disposition"); err != nil {
			return err
		}
		if err := wantText(l[i+2], n.Lang, path+".language"); err != nil {
			return err
		}
		if err := wantText(l[i+3], n.Loc, path+".location"); err != nil {
			return err
		}
	}
	return nil
}

// ---------- Gallina terms for coq/Model/StructWriter.v ----------

func coqStr(s string) string { return common.CoqBytes([]byte(s)) }

func coqParams(ps []Param) string {
	s := make([]string, len(ps))
	for i, p := range ps {
		s[i] = "(" + coqStr(strings.ToLower(p.K)) + ", " + coqStr(p.V) + ")"
	}
	return "[" + strings.Join(s, "; ") + "]"
}

func coqAddrs(as []Addr) string {
	if as == nil {
		return "None"
	}
	s := make([]string, len(as))
	for i, a := range as {
		s[i] = "(" + coqStr(a.Name) + ", " + coqStr(a.Address()) + ")"
	}
	return "(Some [" + strings.Join(s, "; ") + "])"
}

func CoqEnv(e *Env) string {
	if e == nil {
		e = &Env{}
	}
	return fmt.Sprintf("(mkEnv %s %s %s %s %s %s %s %s %s %s)", coqStr(e.Date), coqStr(e.Subject),
		coqAddrs(e.From), coqAddrs(e.Sender), coqAddrs(e.ReplyTo), coqAddrs(e.To), coqAddrs(e.Cc), coqAddrs(e.Bcc),
		coqStr(e.InReplyTo), coqStr(e.MsgID))
}

// CoqTree renders the node as an mtree term (sizes and line counts from the rendered message).
func CoqTree(n *Node, msg []byte) string {
	body := msg[n.BStart:n.End]
	disp := "None"
	if n.Disp != "" {
		disp = "(Some (" + coqStr(n.Disp) + ", " + coqParams(n.DispParams) + "))"
	}
	h := fmt.Sprintf("(mkHInfo %s %s %s %s %s %s %s %s %s %s)", coqStr(n.Type), coqStr(n.Sub), coqParams(n.Params),
		coqStr(n.ID), coqStr(n.Desc), coqStr(n.Enc), coqStr(n.MD5), disp, coqStr(n.Lang), coqStr(n.Loc))
	emb := "None"
	if n.Embedded != nil {
		emb = "(Some " + CoqTree(n.Embedded, msg) + ")"
	}
	cs := make([]string, len(n.Children))
	for i, c := range n.Children {
		cs[i] = CoqTree(c, msg)
	}
	return fmt.Sprintf("(MNode %s %s %d %d %s [%s])", h, CoqEnv(n.Env), len(body), CountLines(body), emb, strings.Join(cs, "; "))
}

// LeafSignature lists type/subtype, size and line count of the non-container parts of a BODY syntax tree, in order
// (sizes of message/rfc822 containers depend on the line ends of the embedded header and are left out).
func LeafSignature(it *PItem) string {
	var sb strings.Builder
	var rec func(x *PItem)
	rec = func(x *PItem) {
		if x.Kind != KList || len(x.List) == 0 {
			sb.WriteString("?")
			return
		}
		if x.List[0].Kind == KList {
			sb.WriteString("[")
			for _, c := range x.List {
				if c.Kind == KList {
					rec(c)
				}
			}
			sb.WriteString("]")
			return
		}
		t, _ := x.List[0].Text()
		st, _ := "", false
		if len(x.List) > 1 {
			st, _ = x.List[1].Text()
		}
		if t == "message" && st == "rfc822" && len(x.List) > 8 {
			sb.WriteString("msg{")
			rec(x.List[8])
			sb.WriteString("}")
			return
		}
		fmt.Fprintf(&sb, "(%s/%s", t, st)
		for _, i := range []int{6, 7} {
			if i < len(x.List) {
				if n, ok := x.List[i].Number(); ok {
					fmt.Fprintf(&sb, " %d", n)
				}
			}
		}
		sb.WriteString(")")
	}
	rec(it)
	return sb.String()
}

// PartPos: rfc822 Section.Part(Path...) of the rendered message must be the section with header [H,B) and body [B,E).
type PartPos struct {
	Path    []int
	H, B, E int
}

func chainEndsInMultipart(n *Node) bool {
	for n.IsMsg() && n.Embedded != nil {
		n = n.Embedded
	}
	return n.IsMulti()
}

// PartPositions lists the part paths whose meaning is fixed by construction (RFC 3501 6.4.5): children of multiparts,
// the parts of a multipart message embedded in a message/rfc822 part, part 1 of an embedded single-part message, and
// the numbering below message/rfc822 chains that end in a single part. Chains message > message > multipart are left out.
func PartPositions(tree *Node) []PartPos {
	var out []PartPos
	add := func(p []int, n *Node) {
		out = append(out, PartPos{Path: append([]int{}, p...), H: n.HStart, B: n.BStart, E: n.End})
	}
	var recPart func(c *Node, p []int)
	children := func(m *Node, p []int) {
		for i, x := range m.Children {
			q := append(append([]int{}, p...), i+1)
			add(q, x)
			recPart(x, q)
		}
	}
	recPart = func(c *Node, p []int) {
		switch {
		case c.IsMulti():
			children(c, p)
		case c.IsMsg() && c.Embedded != nil:
			e := c.Embedded
			q := append(append([]int{}, p...), 1)
			switch {
			case e.IsMulti():
				children(e, p)
			case e.IsMsg() && e.Embedded != nil:
				if !chainEndsInMultipart(e) {
					add(q, e)
					recPart(e, q)
				}
			default:
				add(q, e)
			}
		default:
			if len(p) == 0 {
				add([]int{1}, c)
			}
		}
	}
	recPart(tree, nil)
	return out
}
