package main

import (
	"fmt"
	"time"

	"github.com/ProtonMail/gluon/imap/command"
)

// goSx converts what the real parser returned into the generic S-expression (same shape as RunC10.x_cmd).
func goSx(p command.Payload) *sx {
	switch c := p.(type) {
	case *command.Capability:
		return xl(xs("capability"))
	case *command.Idle:
		return xl(xs("idle"))
	case *command.Noop:
		return xl(xs("noop"))
	case *command.Logout:
		return xl(xs("logout"))
	case *command.Check:
		return xl(xs("check"))
	case *command.Close:
		return xl(xs("close"))
	case *command.Expunge:
		return xl(xs("expunge"))
	case *command.Unselect:
		return xl(xs("unselect"))
	case *command.StartTLS:
		return xl(xs("starttls"))
	case *command.Done:
		return xl(xs("done"))
	case *command.Select:
		return xl(xs("select"), xstr(c.Mailbox))
	case *command.Examine:
		return xl(xs("examine"), xstr(c.Mailbox))
	case *command.Create:
		return xl(xs("create"), xstr(c.Mailbox))
	case *command.Delete:
		return xl(xs("delete"), xstr(c.Mailbox))
	case *command.Subscribe:
		return xl(xs("subscribe"), xstr(c.Mailbox))
	case *command.Unsubscribe:
		return xl(xs("unsubscribe"), xstr(c.Mailbox))
	case *command.Rename:
		return xl(xs("rename"), xstr(c.From), xstr(c.To))
	case *command.List:
		return xl(xs("list"), xstr(c.Mailbox), xstr(c.ListMailbox))
	case *command.LSub:
		return xl(xs("lsub"), xstr(c.Mailbox), xstr(c.LSubMailbox))
	case *command.Login:
		return xl(xs("login"), xstr(c.UserID), xstr(c.Password))
	case *command.Status:
		var l []*sx
		for _, a := range c.Attributes {
			switch a {
			case command.StatusAttributeMessages:
				l = append(l, xs("messages"))
			case command.StatusAttributeRecent:
				l = append(l, xs("recent"))
			case command.StatusAttributeUIDNext:
				l = append(l, xs("uidnext"))
			case command.StatusAttributeUIDValidity:
				l = append(l, xs("uidvalidity"))
			case command.StatusAttributeUnseen:
				l = append(l, xs("unseen"))
			default:
				l = append(l, xs(fmt.Sprintf("unknown-%d", int(a))))
			}
		}
		return xl(xs("status"), xstr(c.Mailbox), xl(l...))
	case *command.Append:
		dt := xl()
		if c.HasDateTime() {
			dt = goDateTime(c.DateTime)
		}
		return xl(xs("append"), xstr(c.Mailbox), goStrs(c.Flags), dt, xb(c.Literal))
	case *command.Copy:
		return xl(xs("copy"), goSeq(c.SeqSet), xstr(c.Mailbox))
	case *command.Move:
		return xl(xs("move"), goSeq(c.SeqSet), xstr(c.Mailbox))
	case *command.Store:
		act := "?"
		switch c.Action {
		case command.StoreActionAddFlags:
			act = "add"
		case command.StoreActionRemFlags:
			act = "rem"
		case command.StoreActionSetFlags:
			act = "set"
		}
		return xl(xs("store"), goSeq(c.SeqSet), xs(act), xbool(c.Silent), goStrs(c.Flags))
	case *command.Fetch:
		var l []*sx
		for _, a := range c.Attributes {
			l = append(l, goFetchAtt(a))
		}
		return xl(xs("fetch"), goSeq(c.SeqSet), xl(l...))
	case *command.Search:
		var l []*sx
		for _, k := range c.Keys {
			l = append(l, goSearchKey(k))
		}
		return xl(xs("search"), xstr(c.Charset), xl(l...))
	case *command.UID:
		return xl(xs("uid"), goSx(c.Command))
	case *command.UIDExpunge:
		return xl(xs("uidexpunge"), goSeq(c.SeqSet))
	case *command.IDGet:
		return xl(xs("idget"))
	case *command.IDSet:
		var ks, vs [][]byte
		for k, v := range c.Values {
			ks = append(ks, []byte(k))
			vs = append(vs, []byte(v))
		}
		return xl(xs("idset"), xkv(ks, vs))
	case nil:
		return xl(xs("nil-payload"))
	default:
		return xl(xs(fmt.Sprintf("unknown-payload-%T", p)))
	}
}

func goStrs(ss []string) *sx {
	l := make([]*sx, len(ss))
	for i, s := range ss {
		l[i] = xstr(s)
	}
	return xl(l...)
}

func goSeq(rs []command.SeqRange) *sx {
	l := make([]*sx, len(rs))
	for i, r := range rs {
		l[i] = xl(xn(uint64(r.Begin)), xn(uint64(r.End)))
	}
	return xl(l...)
}

func goDateTime(t time.Time) *sx {
	_, off := t.Zone()
	neg := off < 0
	if neg {
		off = -off
	}
	return xl(xn(uint64(t.Year())), xn(uint64(t.Month())), xn(uint64(t.Day())), xn(uint64(t.Hour())), xn(uint64(t.Minute())),
		xn(uint64(t.Second())), xbool(neg), xn(uint64(off)))
}

func goDate(name string, t time.Time) *sx {
	u := t.UTC()
	if !u.Equal(time.Date(u.Year(), u.Month(), u.Day(), 0, 0, 0, 0, time.UTC)) || t.Location() != time.UTC {
		return xl(xs(name), xs("not-a-utc-midnight"), xstr(t.String()))
	}
	return xl(xs(name), xn(uint64(u.Year())), xn(uint64(u.Month())), xn(uint64(u.Day())))
}

func goMsgText(s command.BodySection) *sx {
	switch b := s.(type) {
	case *command.BodySectionHeader:
		return xl(xs("header"))
	case *command.BodySectionText:
		return xl(xs("text"))
	case *command.BodySectionMIME:
		return xl(xs("mime"))
	case *command.BodySectionHeaderFields:
		return xl(xs("headerfields"), xbool(b.Negate), goStrs(b.Fields))
	case nil:
		return xl()
	default:
		return xl(xs(fmt.Sprintf("unknown-section-%T", s)))
	}
}

func goSection(s command.BodySection) *sx {
	if s == nil {
		return xl()
	}
	if p, ok := s.(*command.BodySectionPart); ok {
		nums := make([]*sx, len(p.Part))
		for i, n := range p.Part {
			nums[i] = xn(uint64(n))
		}
		return xl(xs("part"), xl(nums...), goMsgText(p.Section))
	}
	return goMsgText(s)
}

func goFetchAtt(a command.FetchAttribute) *sx {
	switch f := a.(type) {
	case *command.FetchAttributeAll:
		return xs("all")
	case *command.FetchAttributeFull:
		return xs("full")
	case *command.FetchAttributeFast:
		return xs("fast")
	case *command.FetchAttributeEnvelope:
		return xs("envelope")
	case *command.FetchAttributeFlags:
		return xs("flags")
	case *command.FetchAttributeInternalDate:
		return xs("internaldate")
	case *command.FetchAttributeRFC822:
		return xs("rfc822")
	case *command.FetchAttributeRFC822Header:
		return xs("rfc822header")
	case *command.FetchAttributeRFC822Size:
		return xs("rfc822size")
	case *command.FetchAttributeRFC822Text:
		return xs("rfc822text")
	case *command.FetchAttributeBody:
		return xs("body")
	case *command.FetchAttributeBodyStructure:
		return xs("bodystructure")
	case *command.FetchAttributeUID:
		return xs("uid")
	case *command.FetchAttributeBodySection:
		part := xl()
		if f.Partial != nil {
			part = xl(xn(uint64(f.Partial.Offset)), xn(uint64(f.Partial.Count)))
		}
		return xl(xs("bodysection"), xbool(f.Peek), goSection(f.Section), part)
	default:
		return xs(fmt.Sprintf("unknown-att-%T", a))
	}
}

func goSearchKey(k command.SearchKey) *sx {
	switch s := k.(type) {
	case *command.SearchKeyAll:
		return xl(xs("all"))
	case *command.SearchKeyAnswered:
		return xl(xs("answered"))
	case *command.SearchKeyDeleted:
		return xl(xs("deleted"))
	case *command.SearchKeyFlagged:
		return xl(xs("flagged"))
	case *command.SearchKeyNew:
		return xl(xs("new"))
	case *command.SearchKeyOld:
		return xl(xs("old"))
	case *command.SearchKeyRecent:
		return xl(xs("recent"))
	case *command.SearchKeySeen:
		return xl(xs("seen"))
	case *command.SearchKeyUnanswered:
		return xl(xs("unanswered"))
	case *command.SearchKeyUndeleted:
		return xl(xs("undeleted"))
	case *command.SearchKeyUnflagged:
		return xl(xs("unflagged"))
	case *command.SearchKeyUnseen:
		return xl(xs("unseen"))
	case *command.SearchKeyDraft:
		return xl(xs("draft"))
	case *command.SearchKeyUndraft:
		return xl(xs("undraft"))
	case *command.SearchKeyBCC:
		return xl(xs("bcc"), xstr(s.Value))
	case *command.SearchKeyBody:
		return xl(xs("body"), xstr(s.Value))
	case *command.SearchKeyCC:
		return xl(xs("cc"), xstr(s.Value))
	case *command.SearchKeyFrom:
		return xl(xs("from"), xstr(s.Value))
	case *command.SearchKeySubject:
		return xl(xs("subject"), xstr(s.Value))
	case *command.SearchKeyText:
		return xl(xs("text"), xstr(s.Value))
	case *command.SearchKeyTo:
		return xl(xs("to"), xstr(s.Value))
	case *command.SearchKeyBefore:
		return goDate("before", s.Value)
	case *command.SearchKeyOn:
		return goDate("on", s.Value)
	case *command.SearchKeySince:
		return goDate("since", s.Value)
	case *command.SearchKeySentBefore:
		return goDate("sentbefore", s.Value)
	case *command.SearchKeySentOn:
		return goDate("senton", s.Value)
	case *command.SearchKeySentSince:
		return goDate("sentsince", s.Value)
	case *command.SearchKeyKeyword:
		return xl(xs("keyword"), xstr(s.Value))
	case *command.SearchKeyUnkeyword:
		return xl(xs("unkeyword"), xstr(s.Value))
	case *command.SearchKeyLarger:
		return xl(xs("larger"), xn(uint64(s.Value)))
	case *command.SearchKeySmaller:
		return xl(xs("smaller"), xn(uint64(s.Value)))
	case *command.SearchKeyHeader:
		return xl(xs("header"), xstr(s.Field), xstr(s.Value))
	case *command.SearchKeyUID:
		return xl(xs("uid"), goSeq(s.SeqSet))
	case *command.SearchKeySeqSet:
		return xl(xs("seqset"), goSeq(s.SeqSet))
	case *command.SearchKeyNot:
		return xl(xs("not"), goSearchKey(s.Key))
	case *command.SearchKeyOr:
		return xl(xs("or"), goSearchKey(s.Key1), goSearchKey(s.Key2))
	case *command.SearchKeyList:
		l := []*sx{xs("list")}
		for _, e := range s.Keys {
			l = append(l, goSearchKey(e))
		}
		return xl(l...)
	default:
		return xl(xs(fmt.Sprintf("unknown-key-%T", k)))
	}
}
