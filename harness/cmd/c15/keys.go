package main

import (
	"fmt"
	"math/big"
	"strings"

	"golang.org/x/text/encoding/ianaindex"

	"verifharness/common"
)

// ---- sequence / UID sets (numbers of any magnitude) ----

type wnum struct {
	Star bool
	N    *big.Int
}

func (w wnum) String() string {
	if w.Star {
		return "*"
	}
	return w.N.String()
}

func (w wnum) coq() string {
	if w.Star {
		return "WStar"
	}
	return "WNum " + w.N.String()
}

type wrange struct {
	A, B   wnum
	Single bool
}

func (r wrange) String() string {
	if r.Single {
		return r.A.String()
	}
	return r.A.String() + ":" + r.B.String()
}

func setString(s []wrange) string {
	p := make([]string, len(s))
	for i, r := range s {
		p[i] = r.String()
	}
	return strings.Join(p, ",")
}

func setCoq(s []wrange) string {
	p := make([]string, len(s))
	for i, r := range s {
		p[i] = "(" + r.A.coq() + ", " + r.B.coq() + ")"
	}
	return "[" + strings.Join(p, "; ") + "]"
}

// ---- key trees ----

type key struct {
	Kind string // leaf keyword in upper case, or NOT / OR / LIST / SEQSET
	Str  string // string argument (BCC BODY CC FROM SUBJECT TEXT TO KEYWORD UNKEYWORD, HEADER value)
	Fld  string // HEADER field name
	Date date   // BEFORE ON SINCE SENT*
	Num  *big.Int
	Set  []wrange
	Sub  []*key
	// rendering choices
	StrForm int // 0 atom (falls back to quoted), 1 quoted, 2 literal
	FldForm int
	DateQ   bool // quoted date
	Day1    bool // day without leading zero
	Lower   bool // keyword written in lower case
}

type date struct{ Y, M, D int }

var monthNames = []string{"Jan", "Feb", "Mar", "Apr", "May", "Jun", "Jul", "Aug", "Sep", "Oct", "Nov", "Dec"}

func (d date) imap(day1 bool) string {
	if day1 {
		return fmt.Sprintf("%d-%s-%04d", d.D, monthNames[d.M-1], d.Y)
	}
	return fmt.Sprintf("%02d-%s-%04d", d.D, monthNames[d.M-1], d.Y)
}

var flagLeaves = []string{"ALL", "ANSWERED", "DELETED", "DRAFT", "FLAGGED", "NEW", "OLD", "RECENT", "SEEN",
	"UNANSWERED", "UNDELETED", "UNDRAFT", "UNFLAGGED", "UNSEEN"}
var strLeaves = []string{"BCC", "CC", "FROM", "SUBJECT", "TO", "BODY", "TEXT"}
var dateLeaves = []string{"BEFORE", "ON", "SINCE", "SENTBEFORE", "SENTON", "SENTSINCE"}

var coqLeaf = map[string]string{
	"ALL": "LAll", "ANSWERED": "LAnswered", "DELETED": "LDeleted", "DRAFT": "LDraft", "FLAGGED": "LFlagged", "NEW": "LNew",
	"OLD": "LOld", "RECENT": "LRecent", "SEEN": "LSeen", "UNANSWERED": "LUnanswered", "UNDELETED": "LUndeleted",
	"UNDRAFT": "LUndraft", "UNFLAGGED": "LUnflagged", "UNSEEN": "LUnseen", "KEYWORD": "LKeyword", "UNKEYWORD": "LUnkeyword",
	"BCC": "LBcc", "CC": "LCc", "FROM": "LFrom", "SUBJECT": "LSubject", "TO": "LTo", "BODY": "LBody", "TEXT": "LText",
	"HEADER": "LHeader", "BEFORE": "LBefore", "ON": "LOn", "SINCE": "LSince", "SENTBEFORE": "LSentBefore",
	"SENTON": "LSentOn", "SENTSINCE": "LSentSince", "LARGER": "LLarger", "SMALLER": "LSmaller", "UID": "LUid",
}

// part builder: command text interleaved with literals
type parts struct {
	cur   strings.Builder
	texts []string
	lits  [][]byte
	enc   func(string) []byte // how the text of a string key goes on the wire (the CHARSET of the command); nil = as it is
}

// charsets of the SEARCH command: the name on the wire and the constructor of the Coq model
var charsetCoq = map[string]string{"": "CsNone", "UTF-8": "CsUtf8", "utf-8": "CsUtf8", "US-ASCII": "CsAscii", "ISO-8859-1": "CsLatin1",
	"iso-8859-1": "CsLatin1", "windows-1252": "CsCp1252", "ISO-8859-15": "CsLatin9", "KOI8-R": "CsKoi8r"}

// encodeFor: the bytes of s in the charset, false when s cannot be expressed in it
func encodeFor(charset, s string) ([]byte, bool) {
	switch charset {
	case "", "UTF-8", "utf-8":
		return []byte(s), true
	case "US-ASCII":
		for _, c := range []byte(s) {
			if c >= 0x80 {
				return nil, false
			}
		}
		return []byte(s), true
	}
	enc, err := ianaindex.IANA.Encoding(charset)
	if err != nil || enc == nil {
		return nil, false
	}
	b, err := enc.NewEncoder().Bytes([]byte(s))
	if err != nil {
		return nil, false
	}
	return b, true
}

func wireEncoder(charset string) func(string) []byte {
	return func(s string) []byte {
		b, ok := encodeFor(charset, s)
		if !ok {
			panic("c15: key " + s + " cannot be expressed in " + charset)
		}
		return b
	}
}

func (p *parts) text(s string) { p.cur.WriteString(s) }
func (p *parts) lit(b []byte) {
	p.texts = append(p.texts, p.cur.String())
	p.cur.Reset()
	p.lits = append(p.lits, b)
}
func (p *parts) done() ([]string, [][]byte) {
	return append(append([]string{}, p.texts...), p.cur.String()), p.lits
}

func isAtomSafe(s string) bool {
	if s == "" {
		return false
	}
	for _, c := range []byte(s) {
		if !(c >= 'a' && c <= 'z' || c >= 'A' && c <= 'Z' || c >= '0' && c <= '9' || c == '-' || c == '.' || c == '@' || c == '$' || c == '_') {
			return false
		}
	}
	return true
}

func (p *parts) astring(s string, form int) {
	b := []byte(s)
	if p.enc != nil {
		b = p.enc(s)
	}
	switch {
	case form == 2 && len(b) > 0: // a zero-length literal closes the connection (C11 finding D20), not this property's business
		p.lit(b)
	case form == 0 && isAtomSafe(s):
		p.text(string(b))
	default:
		p.text(`"` + strings.ReplaceAll(strings.ReplaceAll(string(b), `\`, `\\`), `"`, `\"`) + `"`)
	}
}

func (k *key) render(p *parts) {
	kw := func(s string) string {
		if k.Lower {
			return strings.ToLower(s)
		}
		return s
	}
	switch k.Kind {
	case "NOT":
		p.text(kw("NOT") + " ")
		k.Sub[0].render(p)
	case "OR":
		p.text(kw("OR") + " ")
		k.Sub[0].render(p)
		p.text(" ")
		k.Sub[1].render(p)
	case "LIST":
		p.text("(")
		for i, s := range k.Sub {
			if i > 0 {
				p.text(" ")
			}
			s.render(p)
		}
		p.text(")")
	case "SEQSET":
		p.text(setString(k.Set))
	case "UID":
		p.text(kw("UID") + " " + setString(k.Set))
	case "KEYWORD", "UNKEYWORD":
		p.text(kw(k.Kind) + " " + k.Str)
	case "HEADER":
		p.text(kw("HEADER") + " ")
		p.astring(k.Fld, k.FldForm)
		p.text(" ")
		p.astring(k.Str, k.StrForm)
	case "LARGER", "SMALLER":
		p.text(kw(k.Kind) + " " + k.Num.String())
	case "BEFORE", "ON", "SINCE", "SENTBEFORE", "SENTON", "SENTSINCE":
		d := k.Date.imap(k.Day1)
		if k.DateQ {
			d = `"` + d + `"`
		}
		p.text(kw(k.Kind) + " " + d)
	case "BCC", "CC", "FROM", "SUBJECT", "TO", "BODY", "TEXT":
		p.text(kw(k.Kind) + " ")
		p.astring(k.Str, k.StrForm)
	default:
		p.text(kw(k.Kind))
	}
}

// text of the keys as sent (literals shown as {n}<bytes>)
func keysText(keys []*key) string {
	p := &parts{}
	for i, k := range keys {
		if i > 0 {
			p.text(" ")
		}
		k.render(p)
	}
	t, l := p.done()
	var sb strings.Builder
	for i, x := range t {
		sb.WriteString(x)
		if i < len(l) {
			sb.WriteString(fmt.Sprintf("{%d}%s", len(l[i]), l[i]))
		}
	}
	return sb.String()
}

func (k *key) coq(enc func(string) []byte) string {
	switch k.Kind {
	case "NOT":
		return "KNot (" + k.Sub[0].coq(enc) + ")"
	case "OR":
		return "KOr (" + k.Sub[0].coq(enc) + ") (" + k.Sub[1].coq(enc) + ")"
	case "LIST":
		return "KList " + keysCoq(k.Sub, enc)
	case "SEQSET":
		return "L (LSeqSet " + setCoq(k.Set) + ")"
	case "UID":
		return "L (LUid " + setCoq(k.Set) + ")"
	case "KEYWORD", "UNKEYWORD":
		return "L (" + coqLeaf[k.Kind] + " (" + coqBytes([]byte(k.Str)) + "))"
	case "BCC", "CC", "FROM", "SUBJECT", "TO", "BODY", "TEXT":
		return "L (" + coqLeaf[k.Kind] + " (" + coqBytes(enc(k.Str)) + "))"
	case "HEADER":
		return "L (LHeader (" + coqBytes([]byte(k.Fld)) + ") (" + coqBytes(enc(k.Str)) + "))"
	case "LARGER", "SMALLER":
		return "L (" + coqLeaf[k.Kind] + " " + k.Num.String() + ")"
	case "BEFORE", "ON", "SINCE", "SENTBEFORE", "SENTON", "SENTSINCE":
		return fmt.Sprintf("L (%s %d)", coqLeaf[k.Kind], dayNumber(k.Date.Y, k.Date.M, k.Date.D))
	default:
		return "L " + coqLeaf[k.Kind]
	}
}

func keysCoq(keys []*key, enc func(string) []byte) string {
	s := make([]string, len(keys))
	for i, k := range keys {
		s[i] = k.coq(enc)
	}
	return "[" + strings.Join(s, "; ") + "]"
}

// coqBytes renders bytes as a Gallina term of type `bytes`: printable runs as bs "...", the rest as numbers.
func coqBytes(b []byte) string {
	if len(b) == 0 {
		return "[]"
	}
	var segs []string
	i := 0
	for i < len(b) {
		if b[i] >= 32 && b[i] <= 126 {
			j := i
			var sb strings.Builder
			for j < len(b) && b[j] >= 32 && b[j] <= 126 {
				if b[j] == '"' {
					sb.WriteString(`""`)
				} else {
					sb.WriteByte(b[j])
				}
				j++
			}
			segs = append(segs, `bs "`+sb.String()+`"`)
			i = j
		} else if b[i] == 13 && i+1 < len(b) && b[i+1] == 10 {
			segs = append(segs, "crlf")
			i += 2
		} else {
			segs = append(segs, fmt.Sprintf("[%d]", b[i]))
			i++
		}
	}
	return strings.Join(segs, " ++ ")
}

func (k *key) size() int {
	n := 1
	for _, s := range k.Sub {
		n += s.size()
	}
	return n
}

func (k *key) depth() int {
	d := 0
	for _, s := range k.Sub {
		if x := s.depth(); x > d {
			d = x
		}
	}
	return d + 1
}

func (k *key) walk(f func(*key)) {
	f(k)
	for _, s := range k.Sub {
		s.walk(f)
	}
}

var _ = common.CoqBool
