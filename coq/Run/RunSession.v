(* Correspondence runner for the session model (C01, C02, C05): a case is a history executed on the real server with
   the untagged responses each step produced; the model must produce the same trace (after projection). *)
From Coq Require Import List NArith Bool.
From Gluon Require Export Base.ListX Model.Responders Model.Session.
Import ListNotations.
Open Scope N_scope.

Record case := mkCase {
  c_id : nat; c_nsess : nat; c_nmbox : nat; c_bulk : bool; c_hist : list op;
  c_obs : list (list resp * outcome);
  c_views : list (nat * N * list (uid * flagset)) }.

(* projection: \Recent is ignored, flag sets are compared as sorted sets *)
Definition proj_flags (f : flagset) : flagset := ndedup_sorted (nsort (filter (fun x => negb (x =? fl_recent)) f)).
Definition proj_resp (r : resp) : list resp :=
  match r with
  | PRecent _ => []
  | PFetch k f u => [PFetch k (proj_flags f) u]
  | _ => [r]
  end.
(* FETCH responses for different messages produced by one update come in database order (message ids are random):
   maximal runs of consecutive FETCH responses are compared sorted by sequence number (stable) *)
Definition fetch_seq (r : resp) : option N := match r with PFetch k _ _ => Some k | _ => None end.
Fixpoint finsert (x : resp) (l : list resp) : list resp :=
  match l with
  | [] => [x]
  | y :: t => match fetch_seq x, fetch_seq y with
              | Some a, Some b => if a <=? b then x :: l else y :: finsert x t
              | _, _ => x :: l end
  end.
(* insert from the right so that equal keys keep their order *)
Fixpoint sort_runs (rs : list resp) : list resp :=
  match rs with
  | [] => []
  | x :: t => match fetch_seq x with
              | Some _ => finsert x (sort_runs t)
              | None => x :: sort_runs t end
  end.
Definition proj (rs : list resp) : list resp := sort_runs (concat (map proj_resp rs)).

Definition opt_eqb (a b : option N) : bool :=
  match a, b with Some x, Some y => x =? y | None, None => true | _, _ => false end.
Definition resp_eqb (a b : resp) : bool :=
  match a, b with
  | PExists x, PExists y => x =? y
  | PRecent x, PRecent y => x =? y
  | PExpunge x, PExpunge y => x =? y
  | PFetch k f u, PFetch k' f' u' => (k =? k') && nlist_eqb f f' && opt_eqb u u'
  | _, _ => false
  end.
Definition outcome_eqb (a b : outcome) : bool :=
  match a, b with
  | OOk, OOk | OOkIssued, OOkIssued | ONo, ONo | OBadState, OBadState | OFail, OFail => true
  | _, _ => false end.

(* the harness reads what an idling session received only when it sends DONE: move the model's outputs of the steps
   between CIdle and CDone of a session to its CDone step *)
Definition sess_of (o : op) : option nat := match o with Cmd s _ => Some s | Deliver s => Some s | Conn _ => None end.
Fixpoint buf_get (b : list (nat * list resp)) (s : nat) : list resp :=
  match b with [] => [] | (s', l) :: t => if Nat.eqb s s' then l else buf_get t s end.
Fixpoint buf_set (b : list (nat * list resp)) (s : nat) (l : list resp) : list (nat * list resp) :=
  match b with [] => [(s, l)] | (s', l') :: t => if Nat.eqb s s' then (s, l) :: t else (s', l') :: buf_set t s l end.
Fixpoint buf_has (b : list (nat * list resp)) (s : nat) : bool :=
  match b with [] => false | (s', _) :: t => Nat.eqb s s' || buf_has t s end.
Fixpoint buf_del (b : list (nat * list resp)) (s : nat) : list (nat * list resp) :=
  match b with [] => [] | (s', l) :: t => if Nat.eqb s s' then t else (s', l) :: buf_del t s end.

(* With a bulk time the responses produced while idling are buffered and sent merged (sendMergedResponses) when the
   IDLE ends; the responses of the flush at the beginning of IDLE are sent at once. b holds them, b2 the buffered ones. *)
Fixpoint regroup (bulk : bool) (h : list op) (tr : list (list resp * outcome)) (b b2 : list (nat * list resp))
  : list (list resp * outcome) :=
  match h, tr with
  | o :: h', (out, oc) :: tr' =>
      match o with
      | Cmd s CIdle => ([], oc) :: regroup bulk h' tr' (buf_set b s out) (buf_set b2 s [])
      | Cmd s CDone =>
          let idle_out := buf_get b2 s in
          let sent := if bulk then match merge idle_out with Some l => l | None => idle_out end else idle_out in
          (buf_get b s ++ sent ++ out, oc) :: regroup bulk h' tr' (buf_del b s) (buf_del b2 s)
      | _ => match sess_of o with
             | Some s => if buf_has b s then ([], oc) :: regroup bulk h' tr' b (buf_set b2 s (buf_get b2 s ++ out))
                         else (out, oc) :: regroup bulk h' tr' b b2
             | None => (out, oc) :: regroup bulk h' tr' b b2
             end
      end
  | _, _ => []
  end.

Definition model_trace (c : case) : list (list resp * outcome) :=
  let '(_, tr) := run (init_world (c_nsess c) (c_nmbox c)) (c_hist c) in
  map (fun p => (proj (fst p), snd p)) (regroup (c_bulk c) (c_hist c) tr [] []).

Definition step_eqb (a b : list resp * outcome) : bool :=
  list_eqb resp_eqb (fst a) (fst b) && outcome_eqb (snd a) (snd b).

Definition view_of (c : case) (k : nat) (mb : N) : list (uid * flagset) :=
  let '(w, _) := run (init_world (c_nsess c) (c_nmbox c)) (firstn k (c_hist c)) in
  map (fun x => (sm_uid x, proj_flags (sm_flags x))) (fresh_view w mb).

Definition view_eqb (a b : list (uid * flagset)) : bool :=
  list_eqb (fun x y => (fst x =? fst y) && nlist_eqb (snd x) (snd y)) a b.

Definition case_ok (c : case) : bool :=
  list_eqb step_eqb (model_trace c) (map (fun p => (proj (fst p), snd p)) (c_obs c)) &&
  forallb (fun v => match v with (k, mb, obs) =>
     view_eqb (view_of c k mb) (map (fun x => (fst x, proj_flags (snd x))) obs) end) (c_views c).

Definition mismatches (cs : list case) : list nat := map c_id (filter (fun c => negb (case_ok c)) cs).

(* diagnostics: index of the first differing step (or 1000+k for the k-th view) *)
Fixpoint first_diff (a b : list (list resp * outcome)) (i : nat) : option nat :=
  match a, b with
  | [], [] => None
  | x :: a', y :: b' => if step_eqb x y then first_diff a' b' (S i) else Some i
  | _, _ => Some i
  end.
Definition diag (c : case) :=
  (c_id c, first_diff (model_trace c) (map (fun p => (proj (fst p), snd p)) (c_obs c)) 0,
   match first_diff (model_trace c) (map (fun p => (proj (fst p), snd p)) (c_obs c)) 0 with
   | Some i => nth_error (model_trace c) i | None => None end).
