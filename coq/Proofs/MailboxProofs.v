(* Lemmas for C03: the command transactions of Model/MailboxActions.v (db operations at the impl level with facts that
   pass facts_ok, case-insensitive flag removal) simulate the reference semantics of Model/MailboxRef.v. *)
From Coq Require Import String Ascii.
From Coq Require Import List NArith Bool Arith Lia.
From Gluon Require Import Model.Chunks Model.SqlBindFacts Model.RelDb Model.RelDbFacts Model.MailboxRef Model.MailboxActions
  Proofs.ChunksProofs Proofs.RelDbProofs.
Import ListNotations.
Open Scope list_scope.
Open Scope N_scope.

(* ------------------------------------------------------------------ small facts *)
Lemma nmem_In : forall x l, nmem x l = true <-> In x l.
Proof.
  intros x l. unfold nmem. rewrite existsb_exists. split.
  - intros [y [Hy E]]. apply N.eqb_eq in E. subst. exact Hy.
  - intros H. exists x. split; [exact H | apply N.eqb_refl].
Qed.

Lemma nmem_false : forall x l, nmem x l = false <-> ~ In x l.
Proof. intros. rewrite <- nmem_In. destruct (nmem x l); split; congruence. Qed.

Lemma ci_refl : forall f, flag_eqb_ci f f = true.
Proof. intros. unfold flag_eqb_ci. apply String.eqb_refl. Qed.
Lemma ci_sym : forall a b, flag_eqb_ci a b = flag_eqb_ci b a.
Proof. intros. unfold flag_eqb_ci. apply String.eqb_sym. Qed.
Lemma ci_trans : forall a b c, flag_eqb_ci a b = true -> flag_eqb_ci b c = flag_eqb_ci a c.
Proof. intros a b c H. unfold flag_eqb_ci in *. apply String.eqb_eq in H. rewrite H. reflexivity. Qed.

Lemma nodupb_NoDup : forall l, nodupb l = true <-> NoDup l.
Proof.
  induction l as [|x t IH]; cbn [nodupb].
  - split; [constructor | reflexivity].
  - rewrite andb_true_iff, negb_true_iff, nmem_false, IH. split.
    + intros [H1 H2]. constructor; assumption.
    + intros H. inversion H; subst. split; assumption.
Qed.

Lemma filter_ext_in' : forall {A} (p q : A -> bool) l, (forall x, In x l -> p x = q x) -> filter p l = filter q l.
Proof.
  intros A p q l H. induction l as [|a t IH]; [reflexivity|]. cbn [filter].
  rewrite (H a (or_introl eq_refl)). rewrite IH; [reflexivity|]. intros x Hx. apply H. right. exact Hx.
Qed.

Lemma nmem_equiv : forall l1 l2 x, (forall y, In y l1 <-> In y l2) -> nmem x l1 = nmem x l2.
Proof.
  intros l1 l2 x H. destruct (nmem x l1) eqn:E1, (nmem x l2) eqn:E2; try reflexivity.
  - apply nmem_In in E1. apply H in E1. apply nmem_In in E1. congruence.
  - apply nmem_In in E2. apply H in E2. apply nmem_In in E2. congruence.
Qed.

(* ------------------------------------------------------------------ what the db operations do (impl level) *)
Section WithFacts.
  Variable F : list stmt_fact.
  Hypothesis HF : facts_ok F = true.
  Let ci := true.

  Lemma ex_remove : forall b ids d, ex F ci (ORemoveMessages b ids) d = sp_remove_messages b ids d.
  Proof. intros. unfold ex. rewrite (remove_messages_refines F ci b ids d HF). reflexivity. Qed.
  Lemma ex_set_deleted : forall b ids v d, ex F ci (OSetDeleted b ids v) d = sp_set_deleted b ids v d.
  Proof. intros. unfold ex. rewrite (set_deleted_refines F ci b ids v d HF). reflexivity. Qed.
  Lemma ex_add_flag : forall ids f d, ex F ci (OAddFlag ids f) d = sp_add_flag ids f d.
  Proof. intros. unfold ex. rewrite (add_flag_refines F ci ids f d HF). reflexivity. Qed.
  Lemma ex_remove_flag : forall ids f d, ex F ci (ORemoveFlag ids f) d = sp_remove_flag ci ids f d.
  Proof. intros. unfold ex. rewrite (remove_flag_refines F ci ids f d HF). reflexivity. Qed.
  Lemma ex_set_flags : forall ids fs d, ex F ci (OSetFlags ids fs) d = sp_set_flags ids fs d.
  Proof. intros. unfold ex. rewrite (set_flags_refines F ci ids fs d HF). reflexivity. Qed.

  (* reads: the list is the spec list as a set *)
  Lemma ex_filter_contains : forall b ids d,
    match find_tab b (d_tabs d) with
    | Some t => exists l, ex F ci (OFilterContains b ids) d = Ok d (RNums l) /\
                forall m, In m l <-> (In m ids /\ existsb (fun x => N.eqb (r_msg x) m) (t_rows t) = true)
    | None => ex F ci (OFilterContains b ids) d = match ids with [] => Ok d (RNums []) | _ => Fail EOther end
    end.
  Proof.
    intros b ids d. pose proof (filter_contains_refines F ci b ids d HF) as H.
    unfold ex. cbn [exec_spec] in H. unfold sp_filter_contains, sel_contains in H.
    destruct (find_tab b (d_tabs d)) as [t|].
    - cbn [res_opt] in H. destruct (exec_impl F ci (OFilterContains b ids) d) as [d1 r1|e]; cbn in H; [|contradiction].
      destruct H as [Hd Hr]. subst d1. destruct r1; cbn in Hr; try discriminate.
      exists l. split; [reflexivity|]. intros m. rewrite Hr, in_map_iff. split.
      + intros [x [Hx Hin]]. apply filter_In in Hin. destruct Hin as [Hin Hm]. subst m. split.
        * apply nmem_In. exact Hm.
        * apply existsb_exists. exists x. split; [exact Hin | apply N.eqb_refl].
      + intros [Hm Hex]. apply existsb_exists in Hex. destruct Hex as [x [Hin E]]. apply N.eqb_eq in E.
        exists x. split; [exact E|]. apply filter_In. split; [exact Hin|]. rewrite E. apply nmem_In. exact Hm.
    - destruct ids; cbn [res_opt] in H.
      + destruct (exec_impl F ci (OFilterContains b []) d) as [d1 r1|e]; cbn in H; [|contradiction].
        destruct H as [Hd Hr]. subst d1. destruct r1; cbn in Hr; try discriminate.
        destruct l as [|y l]; [reflexivity|]. exfalso. apply (proj1 (Hr y)). left. reflexivity.
      + destruct (exec_impl F ci (OFilterContains b (n :: ids)) d) as [d1 r1|e]; cbn in H; [contradiction|]. subst. reflexivity.
  Qed.

  Lemma ex_get_flags : forall ids d, exists l, ex F ci (OGetMessagesFlags ids) d = Ok d (RMsgFlags l) /\
    forall x, In x l <-> exists g, In g (d_msgs d) /\ In (mg_id g) ids /\ x = (mg_id g, mg_remote g, flags_of (mg_id g) (d_flags d)).
  Proof.
    intros ids d. pose proof (get_messages_flags_refines F ci ids d HF) as H.
    unfold ex. cbn [exec_spec] in H. unfold sp_get_messages_flags, sel_msg_flags in H. cbn [res_opt] in H.
    destruct (exec_impl F ci (OGetMessagesFlags ids) d) as [d1 r1|e]; cbn in H; [|contradiction].
    destruct H as [Hd Hr]. subst d1. destruct r1; cbn in Hr; try discriminate.
    exists l. split; [reflexivity|]. intros x. rewrite Hr, in_map_iff. split.
    - intros [g [Hx Hin]]. apply filter_In in Hin. destruct Hin as [Hin Hm]. exists g.
      split; [exact Hin|]. split; [apply nmem_In; exact Hm | symmetry; exact Hx].
    - intros [g [Hin [Hm Hx]]]. exists g. split; [symmetry; exact Hx|]. apply filter_In. split; [exact Hin | apply nmem_In; exact Hm].
  Qed.
End WithFacts.
