(* C03 — the order in which COPY / MOVE hand the selected messages to the destination.

   internal/state/snapshot.go getMessagesInRange lists the messages of a sequence / UID set in the order in which the set
   names them (`3,1` gives [row 3; row 1]); Mailbox.Copy / Mailbox.Move sort that list by source UID
   (sort.SliceStable, `.UID <`) before they build the id list for the database, which assigns destination UIDs in the
   order of the list (Model/MailboxRef.v `rb_append`).  `handed_over sorts req` is that id list; `sorts` says whether
   the sort precedes the construction of the id list (generated fact, Gen/FactsTargetOrder.v). *)
From Coq Require Import String Ascii.
From Coq Require Import List NArith Bool.
Import ListNotations.
Open Scope list_scope.
Open Scope N_scope.

(* a selected message: (source UID, message) *)
Definition sel := (N * N)%type.

(* sort.SliceStable with less = `.UID <`: stable insertion sort *)
Fixpoint insert_uid (p : sel) (l : list sel) : list sel :=
  match l with
  | [] => [p]
  | q :: t => if fst p <=? fst q then p :: l else q :: insert_uid p t
  end.
Fixpoint sort_uid (l : list sel) : list sel :=
  match l with [] => [] | p :: t => insert_uid p (sort_uid t) end.

Definition handed_over (sorts : bool) (req : list sel) : list N := map snd (if sorts then sort_uid req else req).

(* the rows of the session's view that the request names, in the order of the view (ascending UID) *)
Definition in_request (req : list sel) (p : sel) : bool := existsb (fun q => N.eqb (fst q) (fst p) && N.eqb (snd q) (snd p)) req.
Definition source_order (view req : list sel) : list N := map snd (filter (in_request req) view).

(* the generated facts: both methods sort first, with the stable sort and the ascending comparison *)
Definition target_order_ok (facts : list (string * bool * string * string)) : bool :=
  forallb (fun f => match f with (_, first, sorter, less) =>
     first && String.eqb sorter "sort.SliceStable" && String.eqb less "messages[i].UID < messages[j].UID" end) facts
  && existsb (fun f => String.eqb (fst (fst (fst f))) "Copy") facts
  && existsb (fun f => String.eqb (fst (fst (fst f))) "Move") facts.
Definition sorts_first (facts : list (string * bool * string * string)) (fn : string) : bool :=
  existsb (fun f => String.eqb (fst (fst (fst f))) fn) facts &&
  forallb (fun f => negb (String.eqb (fst (fst (fst f))) fn) || snd (fst (fst f))) facts.
