(* C06 — model of the application of connector updates.

   Mirrors /repo/internal/backend/connector_updates.go (user.apply and the twelve apply* functions, setMessageMailboxes,
   setMessageFlags, userDBWrite), the statements they reach in internal/db_impl/sqlite3/{read_ops,write_ops}.go
   (UNIQUE constraints of the tables mailboxes/messages/mailbox_message_<id>, the per-mailbox AUTOINCREMENT UID),
   internal/state/updates_mailbox.go (AddMessagesToMailbox / RemoveMessagesFromMailbox) and the state updates they
   queue.  The model follows the code AFTER notes/C08-fix-3 (= C06-fix-1), C06-fix-2 (MessageIDChanged also rewrites the
   per-mailbox remote-id column) and C06-fix-3 (MessageDeleted releases the remote id at once) and C06-fix-4 (the sessions learn a new message remote id
   through a queued state update).

   One connector update runs in ONE database transaction: the body is a function into [option]; [None] is "an error
   was returned" = the transaction is rolled back (SQLite atomic commit) and the error is handed to Done(err).
   External inputs of an update are explicit: [e_fresh] = the internal message ids drawn by NewInternalMessageID,
   [e_uidv] = the values handed out by the UIDVALIDITY generator.  IMAP limits are not modelled (default limits are far
   away).  Flags, names, literals and remote ids are tokens (N); flag tokens are case-normalised by the harness.
   No proofs in this file. *)
From Coq Require Import List NArith Bool.
Import ListNotations.
Open Scope N_scope.

(* ---- tokens ---- *)
Definition cu_recovery_rid : N := 0.          (* ids.GluonInternalRecoveryMailboxRemoteID *)
(* mailbox names: 0 = "INBOX", 1 and 2 = other spellings of it ("inbox", "Inbox"), >= 3 anything else *)
Definition cu_canon_name (n : N) : N := if (n =? 1) || (n =? 2) then 0 else n.

Definition cu_mem (x : N) (l : list N) : bool := existsb (N.eqb x) l.

Fixpoint cu_dedup (l : list N) : list N :=
  match l with [] => [] | x :: t => if cu_mem x t then cu_dedup t else x :: cu_dedup t end.

(* ---- relational state ---- *)
(* mb_flags / mb_perm / mb_attrs: the FLAGS, PERMANENTFLAGS and attribute sets of the mailbox (three separate tables) *)
Record cu_mb := mkMb { mb_id : N; mb_rid : N; mb_name : N; mb_uidv : N; mb_sub : bool;
                       mb_flags : list N; mb_perm : list N; mb_attrs : list N }.
(* ms_rid = None: the random "DELETED-<uuid>" remote id no connector id ever equals *)
Record cu_ms := mkMs { ms_id : N; ms_rid : option N; ms_lit : N; ms_flags : list N; ms_del : bool }.
(* one row of mailbox_message_<me_mb> (and of message_to_mailbox) *)
Record cu_me := mkMe { me_mb : N; me_uid : N; me_ms : N; me_rid : N }.

Record cu_state := mkSt {
  st_mb : list cu_mb;            (* table mailboxes, in row order *)
  st_ms : list cu_ms;            (* table messages (+ message_flags) *)
  st_me : list cu_me;            (* the mailbox_message_<id> tables *)
  st_seq : list (N * N);         (* sqlite_sequence: mailbox id -> last UID handed out *)
  st_nextmb : N;                 (* AUTOINCREMENT of mailboxes.id *)
  st_dsub : list (N * N)         (* deleted_subscriptions (name, remote id) *)
}.

Record cu_env := mkEnv { e_fresh : list N; e_uidv : list N }.

(* state updates queued for the sessions *)
Inductive cu_su :=
| SuExists (mb : N) (items : list (N * N))     (* (message, uid) *)
| SuExpunge (mb ms : N)
| SuFlagAdd (ms f : N)
| SuFlagRem (ms f : N)
| SuMailboxDeleted (mb : N)
| SuMailboxRid (mb rid : N)
| SuMessageRid (ms rid : N)          (* C06-fix-4: the sessions patch the remote id in their snapshots themselves *)
| SuUidValidityBumped.

(* what a client can notice: everything except the bookkeeping of a mailbox's remote id *)
Definition cu_visible (u : cu_su) : bool := match u with SuMailboxRid _ _ | SuMessageRid _ _ => false | _ => true end.

Record cu_item := mkItem { it_rid : N; it_lit : N; it_flags : list N; it_mboxes : list N }.

Inductive cu_update :=
| UMailboxCreated (rid name : N) (flags perm attrs : list N)
| UMailboxDeleted (rid : N)
| UMailboxUpdated (rid name : N)
| UMailboxIDChanged (iid rid : N)
| UMessagesCreated (ignore_unknown : bool) (items : list cu_item)
| UMessageMailboxesUpdated (rid : N) (mboxes flags : list N)
| UMessageFlagsUpdated (rid : N) (flags : list N)
| UMessageUpdated (rid lit : N) (flags mboxes : list N) (allow_create : bool)
| UMessageDeleted (rid : N)
| UMessageIDChanged (iid rid : N)
| UUIDValidityBumped
| UNoop.

Inductive cu_ack := AOk | AErr.

(* ---- reads ---- *)
Definition cu_rid_is (r : option N) (x : N) : bool := match r with Some y => y =? x | None => false end.

Definition cu_find_mb_rid (s : cu_state) (rid : N) : option cu_mb := find (fun m => mb_rid m =? rid) (st_mb s).
Definition cu_find_mb_id (s : cu_state) (id : N) : option cu_mb := find (fun m => mb_id m =? id) (st_mb s).
Definition cu_find_mb_name (s : cu_state) (n : N) : option cu_mb := find (fun m => mb_name m =? n) (st_mb s).
Definition cu_find_ms_rid (s : cu_state) (rid : N) : option cu_ms := find (fun m => cu_rid_is (ms_rid m) rid) (st_ms s).
Definition cu_find_ms_id (s : cu_state) (id : N) : option cu_ms := find (fun m => ms_id m =? id) (st_ms s).

(* GetMessageMailboxIDs *)
Definition cu_ms_mailboxes (s : cu_state) (ms : N) : list N :=
  map me_mb (filter (fun e => me_ms e =? ms) (st_me s)).
Definition cu_in_mailbox (s : cu_state) (mb ms : N) : bool :=
  existsb (fun e => (me_mb e =? mb) && (me_ms e =? ms)) (st_me s).
Definition cu_rid_in_mailbox (s : cu_state) (mb rid : N) : bool :=
  existsb (fun e => (me_mb e =? mb) && (me_rid e =? rid)) (st_me s).

Definition cu_seq_of (s : cu_state) (mb : N) : N :=
  match find (fun p => fst p =? mb) (st_seq s) with Some p => snd p | None => 0 end.
Definition cu_set_seq (q : list (N * N)) (mb v : N) : list (N * N) :=
  (mb, v) :: filter (fun p => negb (fst p =? mb)) q.

(* ---- writes ---- *)
Definition cu_with_mb (s : cu_state) (l : list cu_mb) : cu_state :=
  mkSt l (st_ms s) (st_me s) (st_seq s) (st_nextmb s) (st_dsub s).
Definition cu_with_ms (s : cu_state) (l : list cu_ms) : cu_state :=
  mkSt (st_mb s) l (st_me s) (st_seq s) (st_nextmb s) (st_dsub s).
Definition cu_with_me (s : cu_state) (l : list cu_me) : cu_state :=
  mkSt (st_mb s) (st_ms s) l (st_seq s) (st_nextmb s) (st_dsub s).

(* one row INSERT into mailbox_message_<mb> (+ message_to_mailbox): both columns are UNIQUE; the UID is the
   AUTOINCREMENT value.  Returns the uid. *)
Definition cu_add_one (s : cu_state) (mb ms rid : N) : option (cu_state * N) :=
  if cu_in_mailbox s mb ms || cu_rid_in_mailbox s mb rid then None
  else let uid := cu_seq_of s mb + 1 in
       Some (mkSt (st_mb s) (st_ms s) (st_me s ++ [mkMe mb uid ms rid]) (cu_set_seq (st_seq s) mb uid)
                  (st_nextmb s) (st_dsub s), uid).

(* state.AddMessagesToMailbox for a list of (message, remote id) *)
Fixpoint cu_add_many (s : cu_state) (mb : N) (l : list (N * N)) : option (cu_state * list (N * N)) :=
  match l with
  | [] => Some (s, [])
  | (ms, rid) :: t =>
      match cu_add_one s mb ms rid with
      | None => None
      | Some (s1, uid) =>
          match cu_add_many s1 mb t with
          | None => None
          | Some (s2, r) => Some (s2, (ms, uid) :: r)
          end
      end
  end.

(* state.RemoveMessagesFromMailbox for one message *)
Definition cu_remove_from (s : cu_state) (mb ms : N) : cu_state :=
  cu_with_me s (filter (fun e => negb ((me_mb e =? mb) && (me_ms e =? ms))) (st_me s)).

Fixpoint cu_remove_all (s : cu_state) (ms : N) (mbs : list N) : cu_state * list cu_su :=
  match mbs with
  | [] => (s, [])
  | mb :: t => let '(s1, r) := cu_remove_all (cu_remove_from s mb ms) ms t in (s1, SuExpunge mb ms :: r)
  end.

Definition cu_upd_ms (s : cu_state) (id : N) (f : cu_ms -> cu_ms) : cu_state :=
  cu_with_ms s (map (fun m => if ms_id m =? id then f m else m) (st_ms s)).

(* setMessageFlags: remove what is not wanted, add what is missing; one state update per flag *)
Definition cu_set_flags (s : cu_state) (ms : N) (want : list N) : cu_state * list cu_su :=
  match cu_find_ms_id s ms with
  | None => (s, [])
  | Some m =>
      let want := cu_dedup want in
      let cur := ms_flags m in
      let rems := filter (fun f => negb (cu_mem f want)) cur in
      let adds := filter (fun f => negb (cu_mem f cur)) want in
      (cu_upd_ms s ms (fun m => mkMs (ms_id m) (ms_rid m) (ms_lit m)
                                 (filter (fun f => cu_mem f want) cur ++ adds) (ms_del m)),
       map (SuFlagRem ms) rems ++ map (SuFlagAdd ms) adds)
  end.

Fixpoint cu_add_each (s : cu_state) (ms rid : N) (mbs : list N) : option (cu_state * list cu_su) :=
  match mbs with
  | [] => Some (s, [])
  | mb :: t =>
      match cu_add_one s mb ms rid with
      | None => None
      | Some (s1, uid) =>
          match cu_add_each s1 ms rid t with
          | None => None
          | Some (s2, r) => Some (s2, SuExists mb [(ms, uid)] :: r)
          end
      end
  end.

(* setMessageMailboxes: add to the wanted mailboxes the message is not in, remove from the others *)
Definition cu_set_mailboxes (s : cu_state) (ms rid : N) (want : list N) : option (cu_state * list cu_su) :=
  let cur := cu_ms_mailboxes s ms in
  match cu_add_each s ms rid (filter (fun mb => negb (cu_mem mb cur)) want) with
  | None => None
  | Some (s1, a) =>
      let '(s2, r) := cu_remove_all s1 ms (filter (fun mb => negb (cu_mem mb want)) cur) in
      Some (s2, a ++ r)
  end.

(* MailboxTranslateRemoteIDs: SELECT id FROM mailboxes WHERE remote_id IN (..) — table order, unknown ids dropped *)
Definition cu_translate (s : cu_state) (rids : list N) : list N :=
  map mb_id (filter (fun m => cu_mem (mb_rid m) rids) (st_mb s)).

(* GetMailboxIDFromRemoteID for each id, in argument order; an unknown id is an error *)
Fixpoint cu_lookup_all (s : cu_state) (rids : list N) : option (list N) :=
  match rids with
  | [] => Some []
  | r :: t => match cu_find_mb_rid s r, cu_lookup_all s t with
              | Some m, Some l => Some (mb_id m :: l)
              | _, _ => None
              end
  end.

(* ---- MessagesCreated ---- *)
Record cu_acc := mkAcc {
  a_create : list cu_ms;                   (* messagesToCreate *)
  a_filter : list (N * N);                 (* messagesToCreateFilter: remote id -> internal id *)
  a_formbox : list (N * list (N * N));     (* messageForMBox: mailbox -> (message, remote id), first-insertion order *)
  a_fresh : list N
}.

Definition cu_assoc (k : N) (l : list (N * N)) : option N :=
  match find (fun p => fst p =? k) l with Some p => Some (snd p) | None => None end.

Fixpoint cu_fm_add (fm : list (N * list (N * N))) (mb ms rid : N) : list (N * list (N * N)) :=
  match fm with
  | [] => [(mb, [(ms, rid)])]
  | (k, l) :: t =>
      if k =? mb then (k, if existsb (fun p => fst p =? ms) l then l else l ++ [(ms, rid)]) :: t
      else (k, l) :: cu_fm_add t mb ms rid
  end.

Fixpoint cu_mc_mboxes (s : cu_state) (ignore : bool) (ms rid : N) (mbs : list N) (fm : list (N * list (N * N)))
  : option (list (N * list (N * N))) :=
  match mbs with
  | [] => Some fm
  | r :: t => match cu_find_mb_rid s r with
              | None => if ignore then cu_mc_mboxes s ignore ms rid t fm else None
              | Some m => cu_mc_mboxes s ignore ms rid t (cu_fm_add fm (mb_id m) ms rid)
              end
  end.

Fixpoint cu_mc_collect (s : cu_state) (ignore : bool) (items : list cu_item) (a : cu_acc) : option cu_acc :=
  match items with
  | [] => Some a
  | it :: t =>
      if cu_mem cu_recovery_rid (it_mboxes it) then cu_mc_collect s ignore t a
      else
        let r :=
          match cu_assoc (it_rid it) (a_filter a) with
          | Some i => Some (i, a)
          | None =>
              match cu_find_ms_rid s (it_rid it) with
              | Some m => Some (ms_id m, a)
              | None =>
                  match a_fresh a with
                  | [] => None
                  | f :: fr => Some (f, mkAcc (a_create a ++ [mkMs f (Some (it_rid it)) (it_lit it) (cu_dedup (it_flags it)) false])
                                              (a_filter a ++ [(it_rid it, f)]) (a_formbox a) fr)
                  end
              end
          end in
        match r with
        | None => None
        | Some (i, a1) =>
            match cu_mc_mboxes s ignore i (it_rid it) (it_mboxes it) (a_formbox a1) with
            | None => None
            | Some fm => cu_mc_collect s ignore t (mkAcc (a_create a1) (a_filter a1) fm (a_fresh a1))
            end
        end
  end.

(* CreateMessages: ids and remote ids are UNIQUE *)
Fixpoint cu_insert_msgs (s : cu_state) (l : list cu_ms) : option cu_state :=
  match l with
  | [] => Some s
  | m :: t =>
      if existsb (fun x => (ms_id x =? ms_id m) ||
                           match ms_rid m with Some r => cu_rid_is (ms_rid x) r | None => false end) (st_ms s)
      then None
      else cu_insert_msgs (cu_with_ms s (st_ms s ++ [m])) t
  end.

Fixpoint cu_mc_assign (s : cu_state) (fm : list (N * list (N * N))) : option (cu_state * list cu_su) :=
  match fm with
  | [] => Some (s, [])
  | (mb, l) :: t =>
      let toadd := filter (fun p => negb (cu_in_mailbox s mb (fst p))) l in
      match toadd with
      | [] => cu_mc_assign s t
      | _ => match cu_add_many s mb toadd with
             | None => None
             | Some (s1, ex) => match cu_mc_assign s1 t with
                                | None => None
                                | Some (s2, r) => Some (s2, SuExists mb ex :: r)
                                end
             end
      end
  end.

Definition cu_messages_created (s : cu_state) (fresh : list N) (ignore : bool) (items : list cu_item)
  : option (cu_state * list cu_su) :=
  match cu_mc_collect s ignore items (mkAcc [] [] [] fresh) with
  | None => None
  | Some a =>
      match a_create a, a_formbox a with
      | [], [] => Some (s, [])
      | _, _ => match cu_insert_msgs s (a_create a) with
                | None => None
                | Some s1 => cu_mc_assign s1 (a_formbox a)
                end
      end
  end.

(* applyUIDValidityBumped: one generated value per mailbox, in table order *)
Fixpoint cu_bump (l : list cu_mb) (vs : list N) : option (list cu_mb) :=
  match l with
  | [] => Some []
  | m :: t => match vs with
              | [] => None
              | v :: vs' => match cu_bump t vs' with
                            | None => None
                            | Some r => Some (mkMb (mb_id m) (mb_rid m) (mb_name m) v (mb_sub m) (mb_flags m) (mb_perm m) (mb_attrs m) :: r)
                            end
              end
  end.

(* ---- the transaction of each update kind ---- *)
Definition cu_tx (s : cu_state) (e : cu_env) (u : cu_update) : option (cu_state * list cu_su) :=
  match u with
  | UNoop => Some (s, [])

  | UMailboxCreated rid name0 fl pf att =>
      let name := cu_canon_name name0 in       (* user.joinMailboxName: INBOX is stored with its canonical spelling *)
      if rid =? cu_recovery_rid then None
      else match cu_find_mb_rid s rid with
           | Some _ => Some (s, [])
           | None =>
               match e_uidv e with
               | [] => None
               | v :: _ =>
                   match cu_find_mb_name s name with
                   | Some _ => None                                  (* UNIQUE(name) *)
                   | None => Some (mkSt (st_mb s ++ [mkMb (st_nextmb s) rid name v true fl pf att]) (st_ms s) (st_me s)
                                        (st_seq s) (st_nextmb s + 1) (st_dsub s), [])
                   end
               end
           end

  | UMailboxDeleted rid =>
      if rid =? cu_recovery_rid then None
      else match cu_find_mb_rid s rid with
           | None => Some (s, [])
           | Some m =>
               Some (mkSt (filter (fun x => negb (mb_rid x =? rid)) (st_mb s)) (st_ms s)
                          (filter (fun x => negb (me_mb x =? mb_id m)) (st_me s))
                          (filter (fun p => negb (fst p =? mb_id m)) (st_seq s)) (st_nextmb s)
                          (filter (fun p => negb (fst p =? mb_name m)) (st_dsub s)),
                     [SuMailboxDeleted (mb_id m)])
           end

  | UMailboxUpdated rid name0 =>
      let name := cu_canon_name name0 in       (* the comparison is EXACT: a change of letter case is a rename *)
      if rid =? cu_recovery_rid then None
      else match cu_find_mb_rid s rid with
           | None => Some (s, [])
           | Some m =>
               if mb_name m =? name then Some (s, [])
               else if existsb (fun x => (mb_name x =? name) && negb (mb_rid x =? rid)) (st_mb s) then None
               else Some (cu_with_mb s (map (fun x => if mb_rid x =? rid
                                                      then mkMb (mb_id x) (mb_rid x) name (mb_uidv x) (mb_sub x) (mb_flags x) (mb_perm x) (mb_attrs x) else x)
                                            (st_mb s)), [])
           end

  | UMailboxIDChanged iid rid =>
      match cu_find_mb_id s iid with
      | None => None
      | Some m =>
          if mb_rid m =? cu_recovery_rid then None
          else if existsb (fun x => (mb_rid x =? rid) && negb (mb_id x =? iid)) (st_mb s) then None
          else Some (cu_with_mb s (map (fun x => if mb_id x =? iid
                                                 then mkMb (mb_id x) rid (mb_name x) (mb_uidv x) (mb_sub x) (mb_flags x) (mb_perm x) (mb_attrs x) else x)
                                       (st_mb s)), [SuMailboxRid iid rid])
      end

  | UMessagesCreated ignore items => cu_messages_created s (e_fresh e) ignore items

  | UMessageMailboxesUpdated rid mboxes flags =>
      if cu_mem cu_recovery_rid mboxes then None
      else match cu_find_ms_rid s rid with
           | None => None
           | Some m =>
               match cu_set_mailboxes s (ms_id m) rid (cu_translate s mboxes) with
               | None => None
               | Some (s1, a) => let '(s2, b) := cu_set_flags s1 (ms_id m) flags in Some (s2, a ++ b)
               end
           end

  | UMessageFlagsUpdated rid flags =>
      match cu_find_ms_rid s rid with
      | None => None
      | Some m => Some (cu_set_flags s (ms_id m) flags)
      end

  | UMessageUpdated rid lit flags mboxes allow =>
      match cu_find_ms_rid s rid with
      | None =>
          if allow then cu_messages_created s (e_fresh e) true [mkItem rid lit flags mboxes] else Some (s, [])
      | Some m =>
          if ms_lit m =? lit then
            match cu_lookup_all s mboxes with
            | None => None
            | Some targets =>
                let '(s1, a) := cu_set_flags s (ms_id m) flags in
                match cu_set_mailboxes s1 (ms_id m) rid targets with
                | None => None
                | Some (s2, b) => Some (s2, a ++ b)
                end
            end
          else
            let '(s1, a) := cu_remove_all s (ms_id m) (cu_ms_mailboxes s (ms_id m)) in
            let s2 := cu_upd_ms s1 (ms_id m) (fun x => mkMs (ms_id x) None (ms_lit x) (ms_flags x) true) in
            match e_fresh e with
            | [] => None
            | f :: _ =>
                match cu_insert_msgs s2 [mkMs f (Some rid) lit (cu_dedup flags) false] with
                | None => None
                | Some s3 =>
                    match cu_lookup_all s3 mboxes with
                    | None => None
                    | Some targets =>
                        match cu_add_each s3 f rid targets with
                        | None => None
                        | Some (s4, b) => Some (s4, a ++ b)
                        end
                    end
                end
            end
      end

  | UMessageDeleted rid =>
      match cu_find_ms_rid s rid with
      | None => Some (s, [])
      | Some m =>
          let s1 := cu_upd_ms s (ms_id m) (fun x => mkMs (ms_id x) None (ms_lit x) (ms_flags x) true) in
          Some (cu_remove_all s1 (ms_id m) (cu_ms_mailboxes s1 (ms_id m)))
      end

  | UMessageIDChanged iid rid =>
      match cu_find_ms_id s iid with
      | None => None
      | Some _ =>
          if existsb (fun x => cu_rid_is (ms_rid x) rid && negb (ms_id x =? iid)) (st_ms s) then None
          else if existsb (fun x => (me_rid x =? rid) && negb (me_ms x =? iid)
                                    && cu_mem (me_mb x) (cu_ms_mailboxes s iid)) (st_me s) then None
          else
            let s1 := cu_upd_ms s iid (fun x => mkMs (ms_id x) (Some rid) (ms_lit x) (ms_flags x) (ms_del x)) in
            Some (cu_with_me s1 (map (fun x => if me_ms x =? iid then mkMe (me_mb x) (me_uid x) (me_ms x) rid else x)
                                     (st_me s1)), [SuMessageRid iid rid])
      end

  | UUIDValidityBumped =>
      match cu_bump (st_mb s) (e_uidv e) with
      | None => None
      | Some l => Some (cu_with_mb s l, [SuUidValidityBumped])
      end
  end.

(* user.apply: run the transaction, hand the result to Done — exactly one acknowledgement per update; on an
   error nothing of the transaction remains *)
Definition cu_apply (s : cu_state) (e : cu_env) (u : cu_update) : cu_state * cu_ack * list cu_su :=
  match cu_tx s e u with
  | Some (s', sus) => (s', AOk, sus)
  | None => (s, AErr, [])
  end.

(* ---- the protected mailbox ---- *)
(* the four updates that work on the mailbox table *)
Definition cu_mailbox_kind (u : cu_update) : bool :=
  match u with
  | UMailboxCreated _ _ _ _ _ | UMailboxDeleted _ | UMailboxUpdated _ _ | UMailboxIDChanged _ _ => true
  | _ => false
  end.

(* the update names the recovery mailbox: MailboxCreated / MailboxDeleted / MailboxUpdated by REMOTE id, MailboxIDChanged
   by INTERNAL id *)
Definition cu_aimed_at_recovery (s : cu_state) (u : cu_update) : bool :=
  match u with
  | UMailboxCreated rid _ _ _ _ => rid =? cu_recovery_rid
  | UMailboxDeleted rid => rid =? cu_recovery_rid
  | UMailboxUpdated rid _ => rid =? cu_recovery_rid
  | UMailboxIDChanged iid _ =>
      match cu_find_mb_id s iid with Some m => mb_rid m =? cu_recovery_rid | None => false end
  | _ => false
  end.

(* the update goroutine: updates are taken from the channel one by one; whatever the outcome of one, the next is
   applied to the state the previous left *)
Fixpoint cu_run (s : cu_state) (l : list (cu_env * cu_update)) : cu_state * list cu_ack :=
  match l with
  | [] => (s, [])
  | (e, u) :: t => let '(s1, a, _) := cu_apply s e u in
                   let '(s2, r) := cu_run s1 t in (s2, a :: r)
  end.
