(* C09 — the per-message lock table of store/write_controlled_store.go as a small-step interleaving model.
   Impl model of WriteControlledStore.{acquireSyncRef, releaseSyncRef, Get, Set, Delete}:
     entryTable  : message ID -> lock object (syncRef)            s_table
     lockPool    : sync.Pool of lock objects                      s_pool (Get may hand out ANY pooled object or a new one)
     syncRef     : { lock sync.RWMutex; counter int32 }           s_cnt; the RWMutex is not stored: a goroutine may enter
                                                                   iff the goroutines that are inside on the same object allow it
   Every goroutine runs  acquire ; Lock/RLock ; impl.Get/Set/Delete ; Unlock/RUnlock ; release  (the deferred unlock runs
   before the deferred release).  Steps:
     acquire   one step (the whole function holds w.lock): entry found -> counter+1; otherwise take an object from the
               pool or a new one (lockPool.New: counter 1), set counter := 1 ([reset]), insert it
     enter     blocks while a writer is inside on that object (and, for a writer, while anybody is)
     leave
     release   fixed code  ([atomic] = true): ONE step under w.lock: counter-1; if <= 0 then delete(entryTable, id), Put
               old code    ([atomic] = false): step 1 (no lock): counter-1, if <= 0 go on to
                                               step 2 (under w.lock): if counter <= 0 then delete(entryTable, id), Put
   delete(entryTable, id) removes WHATEVER entry the ID has at that moment.
   Delete(ids...) is the loop the code has: for each id  acquire(id) ; Lock ; impl.Delete(id) ; Unlock ; release(id, ref);
   [samekey] = the deferred releaseSyncRef is called with the ID that was acquired.
   A schedule names, step by step, the goroutine that moves (and, for an acquire, message ID, reader/writer, the pool's
   choice and the rest of a Delete batch).  No proofs in this file. *)
From Coq Require Import List NArith ZArith Bool.
Import ListNotations.

(* b = (first ID of the operation's batch, IDs still to be deleted): Get/Set are batches of one; Delete(ids...) runs
   acquire(id) ; Lock ; impl.Delete(id) ; Unlock ; release(id, ref) for one ID after the other *)
Definition batch := (N * list N)%type.

Inductive pc :=
| PIdle                                      (* between two operations *)
| PNext (b : batch)                          (* Delete(ids...): between two IDs of the batch *)
| PAcq (i r : N) (w : bool) (b : batch)      (* acquireSyncRef returned object r for message i; w: Set/Delete, else Get *)
| PIn (i r : N) (w : bool) (b : batch)       (* holds r's RWMutex: inside the wrapped store *)
| POut (i r : N) (b : batch)                 (* RWMutex released, releaseSyncRef not yet run *)
| PDec (i r : N) (b : batch).                (* old release only: brought the counter to <= 0, waiting for w.lock *)

Record state := mkS {
  s_table : N -> option N;
  s_pool : list N;
  s_next : N;                      (* objects >= s_next have never been allocated *)
  s_cnt : N -> Z;
  s_thr : list pc
}.

Fixpoint set_nth {A} (t : nat) (x : A) (l : list A) : list A :=
  match l, t with
  | [], _ => []
  | _ :: l', O => x :: l'
  | y :: l', S t' => y :: set_nth t' x l'
  end.

(* sync.Pool.Get: the object at position [pick], if there is one *)
Fixpoint take (pick : nat) (l : list N) : option (N * list N) :=
  match l, pick with
  | [], _ => None
  | x :: l', O => Some (x, l')
  | x :: l', S p => match take p l' with Some (y, r) => Some (y, x :: r) | None => None end
  end.

Definition upd {A} (f : N -> A) (k : N) (v : A) : N -> A := fun x => if N.eqb x k then v else f x.

(* may a goroutine take r's RWMutex (w: for writing)?  the others that are inside on r decide *)
Definition allows (r : N) (w : bool) (p : pc) : bool :=
  match p with
  | PIn _ r' w' _ => negb (N.eqb r' r) || (negb w && negb w')
  | _ => true
  end.
Definition can_enter (r : N) (w : bool) (thr : list pc) : bool := forallb (allows r w) thr.

(* m_rest: the further IDs of a Delete(ids...) that starts with m_id (only read when an operation starts) *)
Record move := mkM { m_thr : nat; m_id : N; m_write : bool; m_pick : nat; m_rest : list N }.

(* acquireSyncRef(i) by goroutine t, one critical section *)
Definition acquire (reset : bool) (s : state) (t : nat) (i : N) (w : bool) (b : batch) (pick : nat) : state :=
  match s_table s i with
  | Some r =>
      mkS (s_table s) (s_pool s) (s_next s) (upd (s_cnt s) r (s_cnt s r + 1)%Z) (set_nth t (PAcq i r w b) (s_thr s))
  | None =>
      match take pick (s_pool s) with
      | Some (r, pool') =>
          mkS (upd (s_table s) i (Some r)) pool' (s_next s)
              (if reset then upd (s_cnt s) r 1%Z else s_cnt s) (set_nth t (PAcq i r w b) (s_thr s))
      | None =>
          let r := s_next s in
          mkS (upd (s_table s) i (Some r)) (s_pool s) (r + 1)%N (upd (s_cnt s) r 1%Z)
              (set_nth t (PAcq i r w b) (s_thr s))
      end
  end.

(* where a goroutine goes after releaseSyncRef *)
Definition after_release (b : batch) : pc :=
  match snd b with [] => PIdle | _ :: _ => PNext b end.

(* atomic: releaseSyncRef is one critical section; reset: acquireSyncRef sets the counter of an inserted object;
   samekey: releaseSyncRef is called with the ID that was acquired (otherwise with the first ID of the batch) *)
Definition step (atomic reset samekey : bool) (s : state) (m : move) : state :=
  let t := m_thr m in
  match nth_error (s_thr s) t with
  | None => s
  | Some PIdle => acquire reset s t (m_id m) (m_write m) (m_id m, m_rest m) (m_pick m)
  | Some (PNext b) =>
      match snd b with
      | [] => mkS (s_table s) (s_pool s) (s_next s) (s_cnt s) (set_nth t PIdle (s_thr s))
      | i :: rest => acquire reset s t i true (fst b, rest) (m_pick m)
      end
  | Some (PAcq i r w b) =>
      if can_enter r w (s_thr s)
      then mkS (s_table s) (s_pool s) (s_next s) (s_cnt s) (set_nth t (PIn i r w b) (s_thr s))
      else s
  | Some (PIn i r w b) => mkS (s_table s) (s_pool s) (s_next s) (s_cnt s) (set_nth t (POut i r b) (s_thr s))
  | Some (POut i r b) =>
      let key := if samekey then i else fst b in
      let c := (s_cnt s r - 1)%Z in
      if atomic then
        if (c <=? 0)%Z
        then mkS (upd (s_table s) key None) (r :: s_pool s) (s_next s) (upd (s_cnt s) r c)
                 (set_nth t (after_release b) (s_thr s))
        else mkS (s_table s) (s_pool s) (s_next s) (upd (s_cnt s) r c) (set_nth t (after_release b) (s_thr s))
      else
        mkS (s_table s) (s_pool s) (s_next s) (upd (s_cnt s) r c)
            (set_nth t (if (c <=? 0)%Z then PDec i r b else after_release b) (s_thr s))
  | Some (PDec i r b) =>
      let key := if samekey then i else fst b in
      if (s_cnt s r <=? 0)%Z
      then mkS (upd (s_table s) key None) (r :: s_pool s) (s_next s) (s_cnt s) (set_nth t (after_release b) (s_thr s))
      else mkS (s_table s) (s_pool s) (s_next s) (s_cnt s) (set_nth t (after_release b) (s_thr s))
  end.

Definition run (atomic reset samekey : bool) (s : state) (sched : list move) : state :=
  fold_left (step atomic reset samekey) sched s.

(* n goroutines, empty table, empty pool *)
Definition init (n : nat) : state := mkS (fun _ => None) [] 0%N (fun _ => 0%Z) (repeat PIdle n).

(* mutual exclusion per message ID: two goroutines inside on the same ID are both readers *)
Definition exclusive (s : state) : Prop :=
  forall t1 t2 i r1 r2 w1 w2, t1 <> t2 ->
    forall b1 b2, nth_error (s_thr s) t1 = Some (PIn i r1 w1 b1) -> nth_error (s_thr s) t2 = Some (PIn i r2 w2 b2) ->
    w1 = false /\ w2 = false.
