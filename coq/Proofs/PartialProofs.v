(* C13 — lemmas about WithPartial (as translated from the Go source into Gen/FactsPartial.v) and literal framing. *)
From Coq Require Import List ZArith NArith Bool Lia.
From Gluon Require Import Base.DecBytes Gen.FactsPartial Model.Partial.
Import ListNotations.
Local Open Scope Z_scope.

Lemma wrap64_id : forall z, -9223372036854775808 <= z < 9223372036854775808 -> wrap64 z = z.
Proof.
  intros z H. unfold wrap64. rewrite Z.mod_small by lia. lia.
Qed.

Lemma wrap64_range : forall z, -9223372036854775808 <= wrap64 z < 9223372036854775808.
Proof.
  intros z. unfold wrap64.
  pose proof (Z.mod_pos_bound (z + 9223372036854775808) 18446744073709551616 ltac:(lia)). lia.
Qed.

Lemma go_slice_ok : forall lit lo hi, 0 <= lo -> lo <= hi -> hi <= Z.of_nat (length lit) ->
  go_slice lit lo hi = Some (firstn (Z.to_nat (hi - lo)) (skipn (Z.to_nat lo) lit)).
Proof.
  intros lit lo hi H1 H2 H3. unfold go_slice.
  destruct (Z.leb_spec 0 lo); [|lia]. destruct (Z.leb_spec lo hi); [|lia].
  destruct (Z.leb_spec hi (Z.of_nat (length lit))); [|lia]. reflexivity.
Qed.

Lemma spec_partial_past_end : forall lit o n, Z.of_nat (length lit) <= o -> spec_partial lit o n = [].
Proof.
  intros lit o n H. unfold spec_partial. rewrite skipn_all2 by lia. apply firstn_nil.
Qed.

Lemma spec_partial_to_end : forall lit o n, 0 <= o -> Z.of_nat (length lit) - o <= n ->
  spec_partial lit o n = skipn (Z.to_nat o) lit.
Proof.
  intros lit o n Ho H. unfold spec_partial. apply firstn_all2. rewrite skipn_length. lia.
Qed.

Ltac split_cmp :=
  repeat match goal with
  | |- context [Z.ltb ?a ?b] => destruct (Z.ltb_spec a b)
  | |- context [Z.leb ?a ?b] => destruct (Z.leb_spec a b)
  | |- context [Z.eqb ?a ?b] => destruct (Z.eqb_spec a b)
  end; cbn [orb andb negb].

Ltac finish_sel lit o n :=
  cbn [apply_sel];
  first
  [ (* r.literal = nil *)
    rewrite spec_partial_past_end by lia; reflexivity
  | (* r.literal[lo:hi] *)
    rewrite go_slice_ok by lia;
    first [ rewrite spec_partial_to_end by lia; f_equal; apply firstn_all2; rewrite skipn_length; lia
          | unfold spec_partial; do 2 f_equal; lia ]
  | exfalso; lia ].

(* FETCH BODY[..]<o.n>: for every literal and every offset/count a client can write (the command parser accepts
   0 <= o <= 2^63-1 and 1 <= n <= 2^63-1; o+n may exceed the int64 range) the code selects exactly the demanded slice
   and no slice expression panics. *)
Lemma partial_is_slice : forall lit o n,
  0 <= o <= max_int64 -> 0 <= n <= max_int64 -> Z.of_nat (length lit) <= max_int64 ->
  with_partial lit o n = Some (spec_partial lit o n).
Proof.
  intros lit o n Ho Hn Hl. unfold max_int64 in *.
  unfold with_partial, with_partial_code.
  set (len := Z.of_nat (length lit)) in *.
  assert (Hlen : 0 <= len) by (unfold len; lia).
  rewrite ?(wrap64_id (len - o)) by lia.
  pose proof (wrap64_range (o + n)) as Hr.
  assert (Hid : o + n < 9223372036854775808 -> wrap64 (o + n) = o + n) by (intros; apply wrap64_id; lia).
  split_cmp; try (rewrite Hid in * by lia); finish_sel lit o n.
Qed.

(* whatever two int64 values reach WithPartial, no slice expression panics *)
Lemma partial_never_panics : forall lit o n,
  -9223372036854775808 <= o <= max_int64 -> -9223372036854775808 <= n <= max_int64 ->
  Z.of_nat (length lit) <= max_int64 ->
  exists r, with_partial lit o n = Some r.
Proof.
  intros lit o n Ho Hn Hl. unfold max_int64 in *.
  unfold with_partial, with_partial_code.
  set (len := Z.of_nat (length lit)) in *.
  assert (Hlen : 0 <= len) by (unfold len; lia).
  pose proof (wrap64_range (o + n)) as Hr.
  assert (Hid : -9223372036854775808 <= o + n < 9223372036854775808 -> wrap64 (o + n) = o + n) by (intros; apply wrap64_id; lia).
  assert (Hid2 : -9223372036854775808 <= len - o < 9223372036854775808 -> wrap64 (len - o) = len - o) by (intros; apply wrap64_id; lia).
  pose proof (wrap64_range (len - o)) as Hr2.
  split_cmp; cbn [apply_sel]; try (eexists; reflexivity);
    try (rewrite Hid2 in * by lia); try (rewrite Hid in * by lia);
    try (rewrite go_slice_ok by lia; eexists; reflexivity); exfalso; lia.
Qed.

(* the value printed between < > is the requested offset *)
Lemma partial_origin : forall len o n, with_partial_origin len o n = o.
Proof. reflexivity. Qed.


(* ---------- reassembly: consecutive partial fetches tile the section ---------- *)
Lemma skipn_add {A} (a b : nat) (l : list A) : skipn (a + b) l = skipn b (skipn a l).
Proof.
  revert l. induction a as [|a IH]; intros l; [reflexivity|].
  destruct l as [|x t]; [cbn; destruct b; reflexivity|]. cbn [Nat.add skipn]. apply IH.
Qed.

Lemma firstn_add {A} (a b : nat) (l : list A) : firstn (a + b) l = firstn a l ++ firstn b (skipn a l).
Proof.
  revert l. induction a as [|a IH]; intros l; [reflexivity|].
  destruct l as [|x t]; [cbn; destruct b; reflexivity|]. cbn [Nat.add firstn skipn app]. f_equal. apply IH.
Qed.

(* a client that downloads a section in pieces <o.n> then <o+n.m> holds exactly what one fetch <o.n+m> returns:
   no byte lost, repeated or shifted at the seam *)
Lemma partial_chunks_concat : forall lit o n m a b,
  0 <= o -> 0 <= n -> 0 <= m -> o + n <= max_int64 -> n + m <= max_int64 -> Z.of_nat (length lit) <= max_int64 ->
  with_partial lit o n = Some a -> with_partial lit (o + n) m = Some b ->
  with_partial lit o (n + m) = Some (a ++ b).
Proof.
  intros lit o n m a b Ho Hn Hm Hon Hnm Hl Ha Hb.
  rewrite partial_is_slice in Ha by (unfold max_int64 in *; lia).
  rewrite partial_is_slice in Hb by (unfold max_int64 in *; lia).
  rewrite partial_is_slice by (unfold max_int64 in *; lia).
  injection Ha as <-. injection Hb as <-. unfold spec_partial.
  rewrite (Z2Nat.inj_add n m) by lia. rewrite (Z2Nat.inj_add o n) by lia.
  rewrite firstn_add, skipn_add. reflexivity.
Qed.

(* <0.len> (and any longer count) is the whole section *)
Lemma partial_whole : forall lit n, Z.of_nat (length lit) <= n <= max_int64 ->
  with_partial lit 0 n = Some lit.
Proof.
  intros lit n Hn. rewrite partial_is_slice by (unfold max_int64 in *; lia).
  unfold spec_partial. cbn [Z.to_nat skipn]. rewrite firstn_all2 by lia. reflexivity.
Qed.
