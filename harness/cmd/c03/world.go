package main

import (
	"fmt"
	"os"
	"regexp"
	"sort"
	"strconv"
	"strings"
	"time"

	"github.com/ProtonMail/gluon/verifhook"

	"verifharness/common"
	"verifharness/imapc"
	"verifharness/srv"
)

// op is one command of a scenario (replayable: message sets are kept as the text that was sent).
type op struct {
	Kind    string   `json:"kind"` // SELECT EXAMINE APPEND STORE EXPUNGE UIDEXPUNGE CLOSE COPY MOVE NOOP
	S       int      `json:"s"`    // session index (0-based)
	UID     bool     `json:"uid,omitempty"`
	Set     string   `json:"set,omitempty"`
	Act     string   `json:"act,omitempty"` // STORE: "+", "-", "="
	Silent  bool     `json:"silent,omitempty"`
	Flags   []string `json:"flags,omitempty"`
	Box     string   `json:"box,omitempty"`   // APPEND/COPY/MOVE destination, SELECT box, CLOSE: mailbox selected afterwards
	Count   int      `json:"count,omitempty"` // APPEND: number of identical APPENDs (batch loop); 0 = 1
	Setup   bool     `json:"setup,omitempty"` // first SELECT of the session
	NoCheck bool     `json:"nocheck,omitempty"`
}

var reNums = regexp.MustCompile(`[0-9]+`)

// reasonOf renders the text of a NO/BAD completion without the parts that vary (numbers, timings, error offsets).
func reasonOf(text string) string {
	t := text
	if i := strings.LastIndex(t, ": "); i >= 0 {
		t = t[i+2:]
	}
	t = reNums.ReplaceAllString(t, "N")
	if len(t) > 60 {
		t = t[:60]
	}
	return strings.TrimSpace(t)
}

func actWord(a string) string {
	switch a {
	case "+":
		return "+FLAGS"
	case "-":
		return "-FLAGS"
	}
	return "FLAGS"
}

func (o op) String() string {
	p := fmt.Sprintf("S%d:", o.S+1)
	u := ""
	if o.UID {
		u = "UID "
	}
	switch o.Kind {
	case "SELECT":
		return p + "SELECT " + o.Box
	case "EXAMINE":
		return p + "EXAMINE " + o.Box
	case "APPEND":
		s := p + "APPEND " + o.Box + " (" + strings.Join(o.Flags, " ") + ")"
		if o.Count > 1 {
			s += fmt.Sprintf(" x%d", o.Count)
		}
		return s
	case "STORE":
		sil := ""
		if o.Silent {
			sil = ".SILENT"
		}
		return p + u + "STORE " + o.Set + " " + actWord(o.Act) + sil + " (" + strings.Join(o.Flags, " ") + ")"
	case "EXPUNGE":
		return p + "EXPUNGE"
	case "NOOP":
		return p + "NOOP"
	case "UIDEXPUNGE":
		return p + "UID EXPUNGE " + o.Set
	case "CLOSE":
		return p + "CLOSE,SELECT " + o.Box
	case "COPY", "MOVE":
		return p + u + o.Kind + " " + o.Set + " " + o.Box
	}
	return p + o.Kind
}

func opsString(ops []op) string {
	s := make([]string, len(ops))
	for i, o := range ops {
		s[i] = o.String()
	}
	return strings.Join(s, ";")
}

// vrow is one row of a session's view.
type vrow struct {
	Seq, UID int
	Flags    []string // lower-case
	Ent      int
	Stale    bool // the reference mailbox no longer has this entry
	Ghost    bool // the reference mailbox never had an entry with this UID while the session had it selected (Ent = 0)
}

func (r vrow) deleted() bool { return hasFlagCI(r.Flags, fDeleted) }

type session struct {
	c    *imapc.Client
	id   int64
	box  string
	ro   bool        // the mailbox was opened with EXAMINE: every mutating command must be refused, CLOSE expunges nothing
	seen map[int]int // uid -> entity, pairs seen since the SELECT
	view []vrow
}

type failure struct {
	Idx    int    `json:"idx"`
	Kind   string `json:"kind"` // "<command kind>/<difference kind>"
	Detail string `json:"detail"`
	Text   string `json:"text,omitempty"` // tagged response of the failing command
}

type world struct {
	s     *srv.Server
	sess  []*session
	m     *model
	ops   []op     // executed so far
	steps []string // Coq steps (only when record)
	fail  *failure
	evals int
	// bookkeeping for the result (only in recording runs)
	record  bool
	res     *common.Result
	ctx     *common.Ctx
	label   string
	nontriv map[string]bool
}

const quietTimeout = 10 * time.Second

var trace bool // wire trace of the acting sessions on stderr (replay mode)

func traceResult(who, cmd string, r imapc.Result) {
	if !trace {
		return
	}
	fmt.Fprintf(os.Stderr, "%s> %s\n", who, cmd)
	for _, l := range r.Untagged {
		fmt.Fprintf(os.Stderr, "%s<   %s\n", who, l.Text)
	}
	fmt.Fprintf(os.Stderr, "%s<   %s %s\n", who, r.Status, r.Text)
}

func startWorld(k int) (*world, error) {
	verifhook.Reset()
	s, err := srv.Start(srv.Options{})
	if err != nil {
		return nil, err
	}
	w := &world{s: s, m: newModel(), nontriv: map[string]bool{}}
	for i := 0; i < k; i++ {
		before := verifhook.CurrentStateID()
		c, err := s.Login()
		if err != nil {
			w.stop()
			return nil, err
		}
		c.Timeout = 120 * time.Second
		id := verifhook.CurrentStateID()
		if id != before+1 {
			w.stop()
			return nil, fmt.Errorf("state id after login: %d, before %d", id, before)
		}
		w.sess = append(w.sess, &session{c: c, id: id, seen: map[int]int{}})
	}
	for _, b := range boxNames {
		r, err := w.sess[0].c.Cmd("CREATE " + b)
		if err != nil || r.Status != "OK" {
			w.stop()
			return nil, fmt.Errorf("create %s: %v %s %s", b, err, r.Status, r.Text)
		}
	}
	for _, b := range w.m.Boxes {
		w.steps = append(w.steps, fmt.Sprintf("mkStep (KCreate %d) true None", b.Num))
	}
	return w, nil
}

func logout(c *imapc.Client) {
	if _, err := c.Cmd("LOGOUT"); err == nil {
		// the server releases the state of the session before it closes the connection: wait for the end of file
		for i := 0; i < 100; i++ {
			if _, err := c.ReadLine(20 * time.Second); err != nil {
				break
			}
		}
	}
	c.Close()
}

func (w *world) stop() {
	for _, s := range w.sess {
		logout(s.c)
	}
	w.sess = nil
	w.s.Stop()
}

func (w *world) waitQuiet() error {
	for i, s := range w.sess {
		if !verifhook.WaitQuiet(s.id, quietTimeout) {
			q, a := verifhook.Counts(s.id)
			return fmt.Errorf("session S%d (state %d): queued updates not applied within %v (queued %d applied %d)", i+1, s.id, quietTimeout, q, a)
		}
	}
	return nil
}

// noteSeen: every entry the reference mailbox holds while a session has it selected reaches that session's view (the
// EXISTS update is applied even when a later expunge of the same message is still withheld), so remember its entity.
func (w *world) noteSeen() {
	for _, s := range w.sess {
		if s.box == "" {
			continue
		}
		if b := w.m.box(s.box); b != nil {
			for _, e := range b.Ents {
				s.seen[e.UID] = e.Ent
			}
		}
	}
}

// refresh makes the view of session si current and known.
func (w *world) refresh(si int) error {
	s := w.sess[si]
	s.view = nil
	if s.box == "" {
		return nil
	}
	if err := w.waitQuiet(); err != nil {
		return err
	}
	// gluon applies the queued updates of other sessions to the session's view when it flushes the responses of the
	// next command (after executing it): the first FETCH only brings the view up to date (EXISTS, flag changes; no
	// expunges), the second one reads it.
	var r imapc.Result
	for pass := 0; ; pass++ {
		var err error
		r, err = s.c.Cmd("FETCH 1:* (UID FLAGS)")
		if err != nil {
			return fmt.Errorf("view fetch S%d: %v", si+1, err)
		}
		traceResult(fmt.Sprintf("S%d", si+1), "FETCH 1:* (UID FLAGS)", r)
		if r.Status != "OK" && r.Status != "BAD" {
			return fmt.Errorf("view fetch S%d: %s %s", si+1, r.Status, r.Text)
		}
		settled := pass > 0
		for _, e := range imapc.Evs(r) {
			if e.Kind == "EXISTS" || (e.Kind == "FETCH" && e.UID == 0) {
				settled = false // the view changed while this response was produced
			}
		}
		if settled {
			break
		}
		if pass >= 4 {
			return fmt.Errorf("view of S%d does not settle", si+1)
		}
	}
	if r.Status == "BAD" {
		return nil // empty view
	}
	rows := map[int]*vrow{}
	for _, e := range imapc.Evs(r) {
		if e.Kind != "FETCH" {
			continue
		}
		row := rows[e.N]
		if row == nil {
			row = &vrow{Seq: e.N}
			rows[e.N] = row
		}
		if e.UID != 0 {
			row.UID = e.UID
		}
		if e.HasFl {
			row.Flags = append([]string{}, e.Flags...)
		}
	}
	b := w.m.box(s.box)
	for q := 1; q <= len(rows); q++ {
		row := rows[q]
		if row == nil || row.UID == 0 {
			return fmt.Errorf("view fetch S%d: no row with UID for sequence number %d of %d", si+1, q, len(rows))
		}
		if e, ok := b.byUID(row.UID); ok {
			row.Ent = e.Ent
			s.seen[row.UID] = e.Ent
		} else if ent, ok := s.seen[row.UID]; ok {
			row.Ent = ent
			row.Stale = true
		} else {
			// a message that was never in the selected mailbox: the reference resolves message sets over the messages of the
			// mailbox, so the row denotes nothing; exec reports it unless the command already shows a difference of content
			row.Ghost = true
		}
		s.view = append(s.view, *row)
	}
	return nil
}

// ---- message sets ----

type rng2 struct{ lo, hi int } // -1 = *

func parseSet(set string) ([]rng2, bool) {
	var out []rng2
	num := func(x string) (int, bool) {
		if x == "*" {
			return -1, true
		}
		n, err := strconv.Atoi(x)
		if err != nil || n < 0 {
			return 0, false
		}
		return n, true
	}
	for _, p := range strings.Split(set, ",") {
		if i := strings.Index(p, ":"); i >= 0 {
			a, ok1 := num(p[:i])
			b, ok2 := num(p[i+1:])
			if !ok1 || !ok2 {
				return nil, false
			}
			out = append(out, rng2{a, b})
		} else {
			a, ok := num(p)
			if !ok {
				return nil, false
			}
			out = append(out, rng2{a, a})
		}
	}
	return out, len(out) > 0
}

// targetsAscending selects how the rows a message set denotes are ORDERED (the order decides the order in which COPY
// and MOVE hand out the new UIDs).  false: in the order the set enumerates them (element by element, ascending inside
// a range, each message once at its first mention) -- IMAP leaves the order in which a server walks through a
// sequence set open (RFC 9051 section 9: "servers MAY ... execute the sequence in any order"), so `COPY 3,1 box` may
// create the copies as 3,1.  true: ascending UID (= ascending sequence number) regardless of how the set is written.
const targetsAscending = true // since /repo b3397cc COPY and MOVE hand the messages over in ascending UID order (COPYUID pairing)

// resolveRows: the rows of the view a message set denotes (each once; order see targetsAscending); valid = false if
// the set is invalid for the view (expected BAD).
func resolveRows(view []vrow, set string, uid bool) ([]vrow, bool) {
	rs, ok := parseSet(set)
	if !ok {
		return nil, false
	}
	n := len(view)
	taken := make([]bool, n)
	var out []vrow
	if !uid {
		if n == 0 {
			return nil, false
		}
		for _, r := range rs {
			lo, hi := r.lo, r.hi
			if lo == -1 {
				lo = n
			}
			if hi == -1 {
				hi = n
			}
			if lo < 1 || hi < 1 || lo > n || hi > n {
				return nil, false
			}
			if lo > hi {
				lo, hi = hi, lo
			}
			for q := lo; q <= hi; q++ {
				if !taken[q-1] {
					taken[q-1] = true
					out = append(out, view[q-1])
				}
			}
		}
	} else {
		maxUID := 0
		for _, row := range view {
			if row.UID > maxUID {
				maxUID = row.UID
			}
		}
		for _, r := range rs {
			if r.lo == 0 || r.hi == 0 {
				return nil, false // 0 is not a UID
			}
		}
		for _, r := range rs {
			lo, hi := r.lo, r.hi
			if lo == -1 {
				lo = maxUID
			}
			if hi == -1 {
				hi = maxUID
			}
			if lo > hi {
				lo, hi = hi, lo
			}
			for i, row := range view {
				if row.UID >= lo && row.UID <= hi && !taken[i] {
					taken[i] = true
					out = append(out, row)
				}
			}
		}
	}
	if targetsAscending {
		// Mailbox.Copy / Mailbox.Move sort the selected snapshot messages by UID (a view is ordered by UID, so this is the sequence order)
		sort.SliceStable(out, func(i, j int) bool { return out[i].UID < out[j].UID })
	}
	return out, true
}

// seesEnt: the entities the rows show.  EXPUNGE and CLOSE remove the \Deleted entries of the mailbox that the session
// sees; like STORE the session names a message by the row it has, also when the message has meanwhile re-entered the
// mailbox under a new UID (gluon withholds that new row from the session as long as the expunge of the old one is
// withheld), so "sees" is decided by the message entity.
func seesEnt(rows []vrow) func(e entry) bool {
	m := map[int]bool{}
	for _, r := range rows {
		if !r.Ghost {
			m[r.Ent] = true
		}
	}
	return func(e entry) bool { return m[e.Ent] }
}

func entsOf(rows []vrow) []int {
	var out []int
	seen := map[int]bool{}
	for _, r := range rows {
		if !r.Ghost && !seen[r.Ent] {
			seen[r.Ent] = true
			out = append(out, r.Ent)
		}
	}
	return out
}

func setHasOverlap(set string) bool {
	rs, ok := parseSet(set)
	if !ok {
		return false
	}
	for i := range rs {
		for j := i + 1; j < len(rs); j++ {
			a, b := rs[i], rs[j]
			if a.lo == -1 || a.hi == -1 || b.lo == -1 || b.hi == -1 {
				continue
			}
			alo, ahi, blo, bhi := a.lo, a.hi, b.lo, b.hi
			if alo > ahi {
				alo, ahi = ahi, alo
			}
			if blo > bhi {
				blo, bhi = bhi, blo
			}
			if alo <= bhi && blo <= ahi {
				return true
			}
		}
	}
	return false
}

// setAscending: the elements of the set are written in ascending order without overlap (1,3  2:4,6  but not 3,1  4:2  2,2:3).
func setAscending(set string) bool {
	rs, ok := parseSet(set)
	if !ok {
		return true
	}
	last := 0
	for _, r := range rs {
		if r.lo == -1 || r.hi == -1 {
			if r.lo != -1 && r.lo <= last {
				return false
			}
			last = 1 << 30
			continue
		}
		if r.lo > r.hi || r.lo <= last {
			return false
		}
		last = r.hi
	}
	return true
}

// ---- fresh observation ----

var reMarker = regexp.MustCompile(`(?i)X-Marker:\s*m(\d+)`)

func (w *world) observe() (map[string]boxObs, error) {
	c, err := w.s.Login()
	if err != nil {
		return nil, fmt.Errorf("observer login: %v", err)
	}
	c.Timeout = 120 * time.Second
	defer logout(c)
	out := map[string]boxObs{}
	for _, b := range boxNames {
		r, err := c.Cmd("EXAMINE " + b)
		if err != nil {
			return nil, fmt.Errorf("observer examine %s: %v", b, err)
		}
		if r.Status != "OK" {
			out[b] = boxObs{Err: "EXAMINE " + r.Status}
			continue
		}
		r, err = c.Cmd("FETCH 1:* (UID FLAGS BODY.PEEK[HEADER.FIELDS (X-Marker)])")
		if err != nil {
			return nil, fmt.Errorf("observer fetch %s: %v", b, err)
		}
		if r.Status == "BAD" {
			out[b] = boxObs{}
			continue
		}
		if r.Status != "OK" {
			out[b] = boxObs{Err: "FETCH " + r.Status}
			continue
		}
		var rows []orow
		for _, e := range imapc.Evs(r) {
			if e.Kind != "FETCH" || e.UID == 0 {
				continue
			}
			row := orow{Seq: e.N, UID: e.UID, Ent: -1}
			for _, l := range e.Lits {
				if m := reMarker.FindSubmatch(l); m != nil {
					row.Ent, _ = strconv.Atoi(string(m[1]))
				}
			}
			fs := map[string]bool{}
			for _, f := range e.Flags {
				switch f {
				case fDeleted:
					row.Del = true
				case fRecent:
				default:
					fs[f] = true
				}
			}
			for f := range fs {
				row.Flags = append(row.Flags, f)
			}
			sort.Strings(row.Flags)
			rows = append(rows, row)
		}
		sort.SliceStable(rows, func(i, j int) bool { return rows[i].Seq < rows[j].Seq })
		out[b] = boxObs{Rows: rows}
	}
	return out, nil
}

// ---- executing one command ----

func classOf(status string) string {
	if status == "OK" {
		return "OK"
	}
	return "FAIL"
}

func flagArg(fs []string) string { return "(" + strings.Join(fs, " ") + ")" }

func (w *world) sit(o op, s string) {
	if w.record {
		w.res.Nontrivial(o.Kind + "/" + s)
		w.res.Count("sit:" + o.Kind + "/" + s)
		w.nontriv[o.Kind+"/"+s] = true
	}
}

// exec runs one command: view refresh, oracle, wire, fresh observation, comparison.  Returns an error only for
// infrastructure problems; a property failure is stored in w.fail.
func (w *world) exec(o op) error {
	defer w.noteSeen()
	s := w.sess[o.S]
	idx := len(w.ops)
	w.ops = append(w.ops, o)
	if w.record {
		w.ctx.Current(fmt.Sprintf("%s: %s", w.label, opsString(w.ops)), map[string]interface{}{"sessions": len(w.sess), "ops": w.ops})
	}
	needSel := o.Kind != "APPEND" && o.Kind != "SELECT" && o.Kind != "EXAMINE"
	if needSel && s.box == "" {
		w.ops = w.ops[:idx] // session without a selected mailbox (only in shrunk replays): skip
		return nil
	}
	if needSel && o.Kind != "NOOP" {
		if err := w.refresh(o.S); err != nil {
			return err
		}
	}
	if o.Kind == "NOOP" || (!needSel && o.Kind != "APPEND" && s.box != "") {
		// NOOP: the session is told everything that is pending (expunges included), without the FETCH of a view refresh before it.
		// SELECT / EXAMINE while a mailbox is selected: no refresh either, so that the news of the mailbox that is left are still
		// pending in the session when it switches; waiting for the queues makes that the case in every run.
		if err := w.waitQuiet(); err != nil {
			return err
		}
		s.view = nil
	}
	selBox, viewAt := s.box, s.view // the mailbox and view the command works on (CLOSE re-selects)
	pre := w.m
	post := w.m.clone()
	expect := "OK"
	var rows []vrow
	var targets []int
	valid := true
	coq := ""      // the ccmd term
	coqAfter := "" // a second step (the SELECT after CLOSE)
	src := post.box(s.box)
	var r imapc.Result
	var err error

	// a read-only selection: STORE, EXPUNGE, UID EXPUNGE, COPY and MOVE are refused (gluon answers NO also for COPY), nothing changes
	roRefused := s.ro && (o.Kind == "STORE" || o.Kind == "EXPUNGE" || o.Kind == "UIDEXPUNGE" || o.Kind == "COPY" || o.Kind == "MOVE")
	roClose := s.ro && o.Kind == "CLOSE"
	if roRefused || roClose {
		post = w.m.clone() // whatever the cases below compute on it is thrown away again further down
	}
	switch o.Kind {
	case "SELECT", "EXAMINE":
		if w.record && s.box != "" && s.box != o.Box {
			w.sit(o, "switch-without-flush")
		}
		r, err = s.c.Cmd(o.Kind + " " + o.Box)
		if err == nil && r.Status == "OK" {
			s.box = o.Box
			s.ro = o.Kind == "EXAMINE"
			s.seen = map[int]int{}
		}
		coq = fmt.Sprintf("KClearRecent %d", boxNum(o.Box))
	case "NOOP":
		r, err = s.c.Cmd("NOOP")
		if w.record {
			w.sit(o, "flush")
			for j, t := range w.sess {
				if j != o.S && t.box != "" && t.box != s.box {
					w.sit(o, "flush-before-session-of-other-mailbox")
				}
			}
		}
	case "APPEND":
		n := o.Count
		if n < 1 {
			n = 1
		}
		first := post.NEnt + 1
		for i := 0; i < n; i++ {
			marker := fmt.Sprintf("m%d", post.NEnt+1)
			if !post.oAppend(o.Box, o.Flags) {
				expect = "FAIL"
			}
			r, err = s.c.Append(o.Box, strings.Join(o.Flags, " "), common.Message(marker, "x"))
			if err != nil {
				break
			}
			if n > 1 && r.Status != "OK" {
				// a refused APPEND inside the batch loop
				w.fail = &failure{Idx: idx, Kind: "APPEND/status", Detail: fmt.Sprintf("APPEND #%d of %d answered %s want OK", i+1, n, r.Status)}
				return nil
			}
		}
		coq = fmt.Sprintf("KAppend %d %d %d %s", boxNum(o.Box), first, n, coqFlags(o.Flags))
		if w.record {
			switch {
			case expect != "OK":
				w.sit(o, "no-such-mailbox")
			case hasFlagCI(o.Flags, fDeleted):
				w.sit(o, "with-deleted")
			case len(o.Flags) == 0:
				w.sit(o, "no-flags")
			default:
				w.sit(o, "flags")
			}
			if n > 1 {
				w.sit(o, fmt.Sprintf("batch-%d", n))
			}
		}
	case "STORE":
		rows, valid = resolveRows(s.view, o.Set, o.UID)
		targets = entsOf(rows)
		switch {
		case hasFlagCI(o.Flags, fRecent):
			expect = "FAIL"
		case !valid:
			expect = "FAIL"
		default:
			post.oStore(src, o.Act, o.Flags, targets)
		}
		cmd := "STORE " + o.Set + " " + actWord(o.Act)
		if o.Silent {
			cmd += ".SILENT"
		}
		if o.UID {
			cmd = "UID " + cmd
		}
		r, err = s.c.Cmd(cmd + " " + flagArg(o.Flags))
		act := map[string]string{"+": "SAdd", "-": "SRemove", "=": "SSet"}[o.Act]
		coq = fmt.Sprintf("KStore %d %s %s %s", src.Num, act, coqFlags(o.Flags), coqSegs(targets))
	case "EXPUNGE", "UIDEXPUNGE", "CLOSE":
		var del []vrow
		switch o.Kind {
		case "UIDEXPUNGE":
			rows, valid = resolveRows(s.view, o.Set, true)
			if !valid {
				expect = "FAIL"
			} else {
				post.oExpunge(src, seesEnt(rows))
			}
			r, err = s.c.Cmd("UID EXPUNGE " + o.Set)
		case "EXPUNGE":
			rows = s.view
			post.oExpunge(src, seesEnt(s.view))
			r, err = s.c.Cmd("EXPUNGE")
		case "CLOSE":
			rows = s.view
			post.oExpunge(src, seesEnt(s.view))
			r, err = s.c.Cmd("CLOSE")
			if err == nil && r.Status == "OK" {
				s.box = ""
				r2, err2 := s.c.Cmd("SELECT " + o.Box)
				if err2 != nil || r2.Status != "OK" {
					return fmt.Errorf("SELECT %s after CLOSE: %v %s %s", o.Box, err2, r2.Status, r2.Text)
				}
				s.box = o.Box
				s.ro = false
				s.seen = map[int]int{}
				coqAfter = fmt.Sprintf("mkStep (KClearRecent %d) true None", boxNum(o.Box))
			}
		}
		for _, x := range rows {
			if x.deleted() {
				del = append(del, x)
			}
		}
		targets = entsOf(del)
		coq = fmt.Sprintf("KExpunge %d %s", src.Num, coqSegs(targets))
	case "COPY", "MOVE":
		rows, valid = resolveRows(s.view, o.Set, o.UID)
		targets = entsOf(rows)
		d := post.box(o.Box)
		switch {
		case !valid || d == nil:
			expect = "FAIL"
		case o.Kind == "COPY":
			post.oCopy(d, targets)
		default:
			post.oMove(src, d, targets)
		}
		cmd := o.Kind + " " + o.Set + " " + o.Box
		if o.UID {
			cmd = "UID " + cmd
		}
		r, err = s.c.Cmd(cmd)
		coq = fmt.Sprintf("K%s %d %d %s", strings.Title(strings.ToLower(o.Kind)), src.Num, boxNum(o.Box), coqSegs(targets))
	default:
		return fmt.Errorf("unknown op kind %q", o.Kind)
	}
	if (roRefused || roClose) && w.record {
		w.sit(o, "read-only")
	}
	if roRefused {
		expect = "FAIL"
		post = w.m.clone()
	}
	if roClose {
		post = w.m.clone() // CLOSE of a read-only selection expunges nothing
	}
	if err != nil {
		return fmt.Errorf("%s: %v", o.String(), err)
	}
	traceResult("", o.String(), r)
	if r.Status != "OK" && r.Status != "NO" && r.Status != "BAD" {
		return fmt.Errorf("%s: unexpected completion %q %s", o.String(), r.Status, r.Text)
	}

	// situations (non-trivial coverage)
	if w.record {
		w.recordSituations(o, s, selBox, viewAt, pre, rows, targets, valid, expect)
		w.res.Count("kind:" + o.Kind)
		w.res.Count("status:" + r.Status)
		w.res.Count("expect:" + expect)
		if o.UID || o.Kind == "UIDEXPUNGE" {
			w.res.Count("form:uid")
		}
	}

	got := classOf(r.Status)
	want := pre // the content the mailboxes must have now
	if got == "OK" {
		want = post
	}
	if o.NoCheck {
		if got != expect {
			w.fail = &failure{Idx: idx, Kind: o.Kind + "/status", Detail: fmt.Sprintf("answered %s want %s", r.Status, expectWord(expect))}
		}
		w.m = want
		w.steps = append(w.steps, fmt.Sprintf("mkStep (%s) %s None", coq, common.CoqBool(got == "OK")))
		return nil
	}
	obs, err := w.observe()
	if err != nil {
		return err
	}
	w.evals++
	if trace {
		for _, b := range boxNames {
			var p []string
			for _, r := range obs[b].Rows {
				d := ""
				if r.Del {
					d = " \\Deleted"
				}
				p = append(p, fmt.Sprintf("%s#%d[%s%s]", entName(r.Ent), r.UID, strings.Join(r.Flags, " "), d))
			}
			fmt.Fprintf(os.Stderr, "   fresh %s: %s %s\n", b, strings.Join(p, " "), obs[b].Err)
		}
	}
	dk, dd := diffModel(obs, want)
	switch {
	case got != expect:
		det := fmt.Sprintf("answered %s want %s", r.Status, expectWord(expect))
		if r.Status != "OK" {
			det = fmt.Sprintf("answered %s (%s) want %s", r.Status, reasonOf(r.Text), expectWord(expect))
		}
		if dk != "" {
			det += "; " + dd
		}
		w.fail = &failure{Idx: idx, Kind: o.Kind + "/status", Detail: det}
	case dk != "":
		k := dk
		if got != "OK" {
			k = "changed-on-" + r.Status + "/" + dk
			dd = "answered " + r.Status + " but " + dd
		}
		w.fail = &failure{Idx: idx, Kind: o.Kind + "/" + k, Detail: dd}
	}
	if w.fail == nil && got == "OK" && expect == "OK" && (o.Kind == "COPY" || o.Kind == "MOVE") {
		nCopied := len(targets)
		if o.Kind == "MOVE" { // only what the mailbox still holds is moved
			nCopied = 0
			if b := pre.box(selBox); b != nil {
				for _, t := range targets {
					if b.find(t) >= 0 {
						nCopied++
					}
				}
			}
		}
		if d := checkCopyUID(r, viewAt, post.box(o.Box), nCopied); d != "" {
			w.fail = &failure{Idx: idx, Kind: o.Kind + "/copyuid", Detail: d}
		} else if w.record && len(targets) > 1 {
			w.sit(o, "copyuid-pairs-checked")
		}
	}
	if w.fail == nil {
		for _, x := range viewAt {
			if x.Ghost {
				w.fail = &failure{Idx: idx, Kind: o.Kind + "/foreign-message-in-view", Detail: fmt.Sprintf("S%d has %s selected and is shown a message with UID %d at sequence number %d, which %s never held since S%d selected it: message sets of S%d denote other messages than in the reference",
					o.S+1, selBox, x.UID, x.Seq, selBox, o.S+1, o.S+1)}
				break
			}
		}
	}
	if w.fail != nil {
		w.fail.Text = r.Status + " " + r.Text
	}
	w.m = want

	// Coq step: commands refused because of an invalid message set are not part of the model's input
	if !valid && got != "OK" {
		return nil
	}
	if roRefused && got != "OK" || o.Kind == "EXAMINE" {
		return nil // read-only selections are not part of the Coq model: a refused command / EXAMINE is no step
	}
	views := "(" + coqViews(obs) + ")"
	if o.Kind == "SELECT" {
		views = "None" // environment step
	}
	if roClose {
		coq = "" // no implicit expunge; only the SELECT that follows is a step
	}
	if coq == "" {
		if coqAfter != "" {
			w.steps = append(w.steps, coqAfter)
		}
		return nil
	}
	w.steps = append(w.steps, fmt.Sprintf("mkStep (%s) %s %s", coq, common.CoqBool(got == "OK"), views))
	if coqAfter != "" {
		w.steps = append(w.steps, coqAfter)
	}
	return nil
}

var reCopyUID = regexp.MustCompile(`\[COPYUID \d+ (\S+) (\S+)\]`)

// expandUIDSet lists the UIDs of a set of COPYUID in the order written (ranges ascending).
func expandUIDSet(set string) ([]int, bool) {
	var out []int
	for _, p := range strings.Split(set, ",") {
		lo, hi := p, p
		if i := strings.Index(p, ":"); i >= 0 {
			lo, hi = p[:i], p[i+1:]
		}
		a, err1 := strconv.Atoi(lo)
		b, err2 := strconv.Atoi(hi)
		if err1 != nil || err2 != nil || a < 1 || b < 1 || b-a > 1<<20 || a-b > 1<<20 {
			return nil, false
		}
		if a > b {
			a, b = b, a
		}
		for u := a; u <= b; u++ {
			out = append(out, u)
		}
	}
	return out, true
}

// checkCopyUID: the COPYUID response code of an accepted COPY / MOVE (tagged for COPY, untagged for MOVE) pairs source and
// destination UIDs position by position; every pair must name the same message: the row of the session's view with the
// source UID and the entry of the destination with the destination UID (reference after the command) hold the same entity.
func checkCopyUID(r imapc.Result, view []vrow, dst *mbox, nTargets int) string {
	text := r.Text
	for _, l := range r.Untagged {
		if strings.Contains(l.Text, "[COPYUID ") {
			text = l.Text
		}
	}
	m := reCopyUID.FindStringSubmatch(text)
	if m == nil {
		if nTargets > 0 && dst != nil {
			return "no COPYUID response code although messages were copied"
		}
		return ""
	}
	src, ok1 := expandUIDSet(m[1])
	dstU, ok2 := expandUIDSet(m[2])
	if !ok1 || !ok2 || len(src) != len(dstU) {
		return fmt.Sprintf("COPYUID %s %s: the sets do not have the same number of UIDs", m[1], m[2])
	}
	for i := range src {
		se := 0
		for _, x := range view {
			if x.UID == src[i] && !x.Ghost {
				se = x.Ent
			}
		}
		de, ok := dst.byUID(dstU[i])
		if se == 0 || !ok || de.Ent != se {
			dn := "nothing"
			if ok {
				dn = entName(de.Ent)
			}
			return fmt.Sprintf("COPYUID %s %s pairs source UID %d (%s) with destination UID %d (%s)", m[1], m[2], src[i], entName(se), dstU[i], dn)
		}
	}
	return ""
}

func expectWord(e string) string {
	if e == "OK" {
		return "OK"
	}
	return "NO/BAD"
}

func (w *world) recordSituations(o op, s *session, selBox string, view []vrow, pre *model, rows []vrow, targets []int, valid bool, expect string) {
	switch o.Kind {
	case "STORE", "COPY", "MOVE", "UIDEXPUNGE", "EXPUNGE", "CLOSE":
	default:
		return
	}
	stale := false
	for _, r := range rows {
		if r.Stale {
			stale = true
		}
	}
	n := len(targets)
	big := ""
	if n >= 900 {
		big = fmt.Sprintf("%d", n)
	}
	switch o.Kind {
	case "STORE":
		if !valid {
			w.sit(o, "bad-set")
			return
		}
		cls := "keyword"
		switch {
		case len(o.Flags) == 0:
			cls = "empty-list"
		case hasFlagCI(o.Flags, fRecent):
			cls = "recent"
		case hasFlagCI(o.Flags, "$forwarded") || hasFlagCI(o.Flags, "forwarded"):
			cls = "forwarded"
		case strings.Contains(strings.Join(o.Flags, " "), ","):
			cls = "comma-keyword"
		case len(o.Flags) == 1 && hasFlagCI(o.Flags, fDeleted):
			cls = "deleted-only"
		case hasFlagCI(o.Flags, fDeleted):
			cls = "deleted+other"
		default:
			sys := true
			for _, f := range o.Flags {
				if !strings.HasPrefix(f, `\`) {
					sys = false
				}
			}
			if sys {
				cls = "system"
			} else {
				// a keyword that some target holds in another spelling? (we only know lower-case: compare with case)
				for _, f := range o.Flags {
					if f != strings.ToLower(f) {
						cls = "keyword-mixed-case"
					}
				}
			}
		}
		w.sit(o, actWord(o.Act)+"/"+cls)
		if stale {
			w.sit(o, "stale")
		}
		if setHasOverlap(o.Set) {
			w.sit(o, "overlap-set")
		}
		if n > 1 {
			w.sit(o, "multi")
		}
		if big != "" {
			w.sit(o, big)
		}
		if o.Silent {
			w.sit(o, "silent")
		}
	case "COPY", "MOVE":
		if !valid {
			w.sit(o, "bad-set")
			return
		}
		d := pre.box(o.Box)
		if d == nil {
			w.sit(o, "no-such-mailbox")
			return
		}
		if stale {
			w.sit(o, "stale")
		}
		if o.Box == selBox {
			w.sit(o, "same-box")
		} else {
			already := false
			for _, t := range targets {
				if d.find(t) >= 0 {
					already = true
				}
			}
			if already {
				w.sit(o, "already-in-dst")
				if stale {
					w.sit(o, "stale+already-in-dst")
				}
			} else {
				w.sit(o, "plain")
			}
		}
		if setHasOverlap(o.Set) {
			w.sit(o, "overlap-set")
		}
		if n > 1 && !setAscending(o.Set) {
			w.sit(o, "set-not-ascending")
			if o.UID {
				w.sit(o, "uid-set-not-ascending")
			}
		}
		if n > 1 {
			w.sit(o, "multi")
		}
		if big != "" {
			w.sit(o, big)
		}
	case "EXPUNGE", "CLOSE", "UIDEXPUNGE":
		if stale {
			w.sit(o, "stale-in-view")
		}
		if b := pre.box(selBox); b != nil {
			seen := seesEnt(view)
			for _, e := range b.Ents {
				if e.Del && !seen(e) {
					w.sit(o, "deleted-entry-withheld-from-view")
				}
			}
			for _, r := range view {
				if e, ok := b.byUID(r.UID); ok && r.deleted() != e.Del {
					w.sit(o, "view-flag-differs-from-mailbox")
				}
				if r.Stale && r.deleted() && b.find(r.Ent) >= 0 {
					w.sit(o, "stale-deleted-row-of-reentered-message")
				}
			}
		}
		switch {
		case n == 0:
			w.sit(o, "nothing-deleted")
		case big != "":
			w.sit(o, big)
		default:
			w.sit(o, "some-deleted")
		}
	}
	if len(w.sess) > 1 {
		w.res.Count("multi-session-command")
	}
}
