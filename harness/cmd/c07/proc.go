package main

// Parent side: child process management, wire views, store directory listing.

import (
	"bufio"
	"crypto/sha256"
	"encoding/hex"
	"encoding/json"
	"fmt"
	"os"
	"os/exec"
	"path/filepath"
	"regexp"
	"sort"
	"strconv"
	"strings"
	"time"

	"verifharness/imapc"
)

type proc struct {
	cmd  *exec.Cmd
	in   *json.Encoder
	out  *bufio.Scanner
	addr string
	done chan struct{}
	dir  string
	// boundaries seen / fired during start-up (when armed through the environment)
	startSeen  int
	startFired bool
}

var incarnation int

// startChild starts a server process on dir. armStart = "k:mode" arms the recorder for the start-up itself.
func startChild(dir string, armStart string, traceStart bool) (*proc, error) {
	incarnation++
	exe, err := os.Executable()
	if err != nil {
		return nil, err
	}
	c := exec.Command(exe)
	c.Env = append(os.Environ(), "VERIF_C07_CHILD=1", "VERIF_C07_DIR="+dir, fmt.Sprintf("VERIF_C07_PREFIX=c%d-", incarnation))
	if armStart != "" {
		c.Env = append(c.Env, "VERIF_C07_ARM_START="+armStart)
	}
	if traceStart {
		c.Env = append(c.Env, "VERIF_C07_TRACE_START=1")
	}
	if f, err := os.OpenFile(filepath.Join(filepath.Dir(dir), filepath.Base(dir)+".stderr"), os.O_APPEND|os.O_CREATE|os.O_WRONLY, 0o600); err == nil {
		c.Stderr = f
	} else {
		c.Stderr = os.Stderr
	}
	stdin, err := c.StdinPipe()
	if err != nil {
		return nil, err
	}
	stdout, err := c.StdoutPipe()
	if err != nil {
		return nil, err
	}
	if err := c.Start(); err != nil {
		return nil, err
	}
	p := &proc{cmd: c, in: json.NewEncoder(stdin), out: bufio.NewScanner(stdout), done: make(chan struct{}), dir: dir}
	p.out.Buffer(make([]byte, 1<<20), 1<<28)
	go func() { c.Wait(); close(p.done) }()
	r, err := p.read(60 * time.Second)
	if err != nil {
		return p, err
	}
	if !r.OK {
		return p, fmt.Errorf("child start: %s", r.Err)
	}
	p.addr, p.startSeen, p.startFired = r.Addr, r.Seen, r.Fired
	return p, nil
}

func (p *proc) read(timeout time.Duration) (resp, error) {
	type res struct {
		r   resp
		err error
	}
	ch := make(chan res, 1)
	go func() {
		if !p.out.Scan() {
			ch <- res{err: fmt.Errorf("child closed its output")}
			return
		}
		var r resp
		err := json.Unmarshal(p.out.Bytes(), &r)
		ch <- res{r, err}
	}()
	select {
	case x := <-ch:
		return x.r, x.err
	case <-time.After(timeout):
		return resp{}, fmt.Errorf("child did not answer within %v", timeout)
	}
}

func (p *proc) call(q req) (resp, error) {
	if err := p.in.Encode(q); err != nil {
		return resp{}, err
	}
	r, err := p.read(90 * time.Second)
	if err != nil {
		return r, err
	}
	if !r.OK {
		return r, fmt.Errorf("child %s: %s", q.Op, r.Err)
	}
	return r, nil
}

// died waits for the child to exit.
func (p *proc) died(timeout time.Duration) bool {
	select {
	case <-p.done:
		return true
	case <-time.After(timeout):
		return false
	}
}

func (p *proc) kill() {
	if p.cmd != nil && p.cmd.Process != nil {
		p.cmd.Process.Kill()
	}
	<-p.done
}

// quit asks for a clean shutdown (RemoveUser + Close). hung=true: the server did not finish within 20 s and was killed.
func (p *proc) quit() (hung bool, err error) {
	if err := p.in.Encode(req{Op: "quit"}); err != nil {
		p.kill()
		return false, err
	}
	r, err := p.read(20 * time.Second)
	if err != nil {
		p.kill()
		return true, nil
	}
	p.died(10 * time.Second)
	if r.Err != "" {
		return false, fmt.Errorf("%s", r.Err)
	}
	return false, nil
}

func (p *proc) login() (*imapc.Client, error) {
	c, err := imapc.Dial(p.addr)
	if err != nil {
		return nil, err
	}
	c.Timeout = 30 * time.Second
	r, err := c.Cmd("LOGIN user pass")
	if err != nil || r.Status != "OK" {
		c.Close()
		return nil, fmt.Errorf("login: %v %s", err, r.Text)
	}
	return c, nil
}

// ---- wire view ----
type vmsg struct {
	UID    int
	Marker string
	Flags  []string
	SHA    string
}

type mview struct {
	Name string
	UIDV int
	Next int
	Sub  bool
	Msgs []vmsg
}

var (
	reListName = regexp.MustCompile(`^\* (LIST|LSUB) \(([^)]*)\) "(.)" (.*)$`)
	reUIDV     = regexp.MustCompile(`\[UIDVALIDITY (\d+)\]`)
	reUIDNext  = regexp.MustCompile(`\[UIDNEXT (\d+)\]`)
	reMarker   = regexp.MustCompile(`(?m)^X-Marker: (\S+)\r?$`)
	reGluonID  = regexp.MustCompile(`(?mi)^X-Pm-Gluon-Id: (\S+)\r?\n`)
)

func unquote(s string) string {
	s = strings.TrimSpace(s)
	if len(s) >= 2 && s[0] == '"' && s[len(s)-1] == '"' {
		s = s[1 : len(s)-1]
		s = strings.ReplaceAll(s, `\"`, `"`)
		s = strings.ReplaceAll(s, `\\`, `\`)
	}
	return s
}

func okCmd(c *imapc.Client, line string) (imapc.Result, error) {
	r, err := c.Cmd(line)
	if err != nil {
		return r, fmt.Errorf("%s: %w", line, err)
	}
	if r.Status != "OK" {
		return r, fmt.Errorf("%s: %s %s", line, r.Status, r.Text)
	}
	return r, nil
}

func normFlags(fs []string) []string {
	m := map[string]bool{}
	for _, f := range fs {
		f = strings.ToLower(strings.TrimSpace(f))
		if f == "" || f == `\recent` {
			continue
		}
		m[f] = true
	}
	r := make([]string, 0, len(m))
	for f := range m {
		r = append(r, f)
	}
	sort.Strings(r)
	return r
}

// litSHA hashes the literal without the internal-id header line (the id differs between two runs of the same scenario)
func litSHA(lit []byte) string {
	b := reGluonID.ReplaceAll(lit, nil)
	h := sha256.Sum256(b)
	return hex.EncodeToString(h[:8])
}

// viewOf reads the mailboxes whose name starts with prefix on a fresh connection and renders them canonically.
// fetchErr lists messages that are listed but could not be fetched.
func viewOf(p *proc, prefix string) (string, []string, error) {
	c, err := p.login()
	if err != nil {
		return "", nil, err
	}
	defer c.Close()
	r, err := okCmd(c, `LIST "" "*"`)
	if err != nil {
		return "", nil, err
	}
	var names []string
	for _, l := range r.Untagged {
		if m := reListName.FindStringSubmatch(l.Text); m != nil {
			n := unquote(m[4])
			if (strings.HasPrefix(n, prefix) || n == recoveryName) && !strings.Contains(strings.ToLower(m[2]), `\noselect`) {
				names = append(names, n)
			}
		}
	}
	sort.Strings(names)
	subs := map[string]bool{}
	r, err = okCmd(c, `LSUB "" "*"`)
	if err != nil {
		return "", nil, err
	}
	for _, l := range r.Untagged {
		if m := reListName.FindStringSubmatch(l.Text); m != nil {
			subs[unquote(m[4])] = true
		}
	}
	var sb strings.Builder
	var bad []string
	for _, name := range names {
		r, err := okCmd(c, "EXAMINE "+imapc.Quote(name))
		if err != nil {
			return "", nil, err
		}
		all := r.Text
		exists := 0
		for _, l := range r.Untagged {
			all += "\n" + l.Text
			if e := imapc.ParseEv(l); e.Kind == "EXISTS" {
				exists = e.N
			}
		}
		uidv, next := 0, 0
		if m := reUIDV.FindStringSubmatch(all); m != nil {
			uidv, _ = strconv.Atoi(m[1])
		}
		if m := reUIDNext.FindStringSubmatch(all); m != nil {
			next, _ = strconv.Atoi(m[1])
		}
		if name != recoveryName {
			fmt.Fprintf(&sb, "%s{v%d n%d s%v:", name, uidv, next, subs[name])
		}
		r, ferr := c.Cmd("UID FETCH 1:* (UID FLAGS BODY.PEEK[])")
		if ferr != nil {
			return "", nil, ferr
		}
		n := 0
		var ms []vmsg
		for _, e := range imapc.Evs(r) {
			if e.Kind != "FETCH" {
				continue
			}
			m := vmsg{UID: e.UID, Flags: normFlags(e.Flags)}
			if len(e.Lits) > 0 {
				lit := e.Lits[len(e.Lits)-1]
				if x := reMarker.FindSubmatch(lit); x != nil {
					m.Marker = string(x[1])
				}
				m.SHA = litSHA(lit)
				if m.Marker != "" && m.SHA != litSHA(literalOf(m.Marker)) {
					bad = append(bad, fmt.Sprintf("%s uid %d: bytes differ from the literal of %s", name, e.UID, m.Marker))
				}
			} else {
				bad = append(bad, fmt.Sprintf("%s uid %d: no literal", name, e.UID))
			}
			ms = append(ms, m)
			n++
		}
		if r.Status != "OK" {
			bad = append(bad, fmt.Sprintf("%s: FETCH %s %s", name, r.Status, r.Text))
		}
		if n != exists {
			bad = append(bad, fmt.Sprintf("%s: EXISTS %d but %d messages fetched", name, exists, n))
		}
		sort.Slice(ms, func(i, j int) bool { return ms[i].UID < ms[j].UID })
		if name == recoveryName {
			// shared by all cases: only this case's messages, without UIDs; nothing at all when there is none
			var mine []string
			for _, m := range ms {
				if strings.HasPrefix(m.Marker, prefix) {
					mine = append(mine, fmt.Sprintf("%s%v", m.Marker, m.Flags))
				}
			}
			if len(mine) > 0 {
				fmt.Fprintf(&sb, "%s{%s} ", name, strings.Join(mine, " "))
			}
			okCmd(c, "CLOSE")
			continue
		}
		for _, m := range ms {
			fmt.Fprintf(&sb, " %d=%s%v", m.UID, m.Marker, m.Flags)
		}
		sb.WriteString("} ")
		okCmd(c, "CLOSE")
	}
	c.Cmd("LOGOUT")
	return strings.TrimSpace(sb.String()), bad, nil
}

const recoveryName = "Recovered Messages"

var reUUID = regexp.MustCompile(`^[0-9a-f]{8}-[0-9a-f]{4}-[0-9a-f]{4}-[0-9a-f]{4}-[0-9a-f]{12}$`)

// storeFiles lists the cache files (uuid-named) below dir/store.
func storeFiles(dir string) []string {
	var out []string
	filepath.Walk(filepath.Join(dir, "store"), func(path string, info os.FileInfo, err error) error {
		if err == nil && !info.IsDir() && reUUID.MatchString(info.Name()) {
			out = append(out, info.Name())
		}
		return nil
	})
	sort.Strings(out)
	return out
}

func storeDirOf(dir string) string { return filepath.Join(dir, "store", "user-0") }

func imapcQuote(s string) string          { return imapc.Quote(s) }
func imapcEvs(r imapc.Result) []imapc.Ev { return imapc.Evs(r) }

var reSize = regexp.MustCompile(`RFC822\.SIZE (\d+)`)

// fullState renders EVERYTHING a client can see: LSUB, and for every listed mailbox UIDVALIDITY, UIDNEXT and every
// message's UID, flags, RFC822.SIZE and the hash of its exact bytes (BODY[], internal-id header included: within one
// directory the bytes served for a message never change). bad lists messages that cannot be fetched or whose
// RFC822.SIZE differs from the length of the bytes served.
func fullState(p *proc) (string, []string, error) {
	c, err := p.login()
	if err != nil {
		return "", nil, err
	}
	defer c.Close()
	r, err := okCmd(c, `LIST "" "*"`)
	if err != nil {
		return "", nil, err
	}
	var names []string
	for _, l := range r.Untagged {
		if m := reListName.FindStringSubmatch(l.Text); m != nil && !strings.Contains(strings.ToLower(m[2]), `\noselect`) {
			names = append(names, unquote(m[4]))
		}
	}
	sort.Strings(names)
	r, err = okCmd(c, `LSUB "" "*"`)
	if err != nil {
		return "", nil, err
	}
	var subs []string
	for _, l := range r.Untagged {
		if m := reListName.FindStringSubmatch(l.Text); m != nil {
			subs = append(subs, unquote(m[4]))
		}
	}
	sort.Strings(subs)
	var sb strings.Builder
	var bad []string
	fmt.Fprintf(&sb, "LSUB %q\n", subs)
	for _, name := range names {
		r, err := okCmd(c, "EXAMINE "+imapc.Quote(name))
		if err != nil {
			return "", nil, err
		}
		all := r.Text
		exists := 0
		for _, l := range r.Untagged {
			all += "\n" + l.Text
			if e := imapc.ParseEv(l); e.Kind == "EXISTS" {
				exists = e.N
			}
		}
		uidv, next := "?", "?"
		if m := reUIDV.FindStringSubmatch(all); m != nil {
			uidv = m[1]
		}
		if m := reUIDNext.FindStringSubmatch(all); m != nil {
			next = m[1]
		}
		fmt.Fprintf(&sb, "%s v%s n%s:", name, uidv, next)
		r, ferr := c.Cmd("UID FETCH 1:* (UID FLAGS RFC822.SIZE BODY.PEEK[])")
		if ferr != nil {
			return "", nil, ferr
		}
		evs := imapc.Evs(r)
		if r.Status != "OK" {
			// some listed message cannot be served: find out which
			bad = append(bad, fmt.Sprintf("%s: FETCH of all messages: %s %s", name, r.Status, r.Text))
			r2, err := okCmd(c, "UID FETCH 1:* (UID FLAGS RFC822.SIZE)")
			if err != nil {
				return "", nil, err
			}
			evs = nil
			for _, e := range imapc.Evs(r2) {
				if e.Kind != "FETCH" {
					continue
				}
				r3, err := c.Cmd(fmt.Sprintf("UID FETCH %d (BODY.PEEK[])", e.UID))
				if err != nil {
					return "", nil, err
				}
				if r3.Status != "OK" {
					bad = append(bad, fmt.Sprintf("%s uid %d: BODY[] %s %s", name, e.UID, r3.Status, r3.Text))
					e.Lits = [][]byte{[]byte("?unfetchable")}
				} else {
					for _, b := range imapc.Evs(r3) {
						if b.Kind == "FETCH" {
							e.Lits = b.Lits
						}
					}
				}
				evs = append(evs, e)
			}
		}
		type row struct {
			uid  int
			line string
		}
		var rows []row
		for _, e := range evs {
			if e.Kind != "FETCH" {
				continue
			}
			size := -1
			if m := reSize.FindStringSubmatch(e.Raw); m != nil {
				size, _ = strconv.Atoi(m[1])
			}
			sha, n := "-", -1
			if len(e.Lits) > 0 {
				lit := e.Lits[len(e.Lits)-1]
				h := sha256.Sum256(lit)
				sha, n = hex.EncodeToString(h[:8]), len(lit)
				if string(lit) != "?unfetchable" && size != n {
					bad = append(bad, fmt.Sprintf("%s uid %d: RFC822.SIZE %d but BODY[] has %d bytes", name, e.UID, size, n))
				}
			} else {
				bad = append(bad, fmt.Sprintf("%s uid %d: no BODY[]", name, e.UID))
			}
			rows = append(rows, row{e.UID, fmt.Sprintf(" %d%v/%d/%s", e.UID, normFlags(e.Flags), size, sha)})
		}
		sort.Slice(rows, func(i, j int) bool { return rows[i].uid < rows[j].uid })
		if len(rows) != exists {
			bad = append(bad, fmt.Sprintf("%s: EXISTS %d but %d messages fetched", name, exists, len(rows)))
		}
		for _, x := range rows {
			sb.WriteString(x.line)
		}
		sb.WriteString("\n")
		okCmd(c, "CLOSE")
	}
	c.Cmd("LOGOUT")
	return sb.String(), bad, nil
}

// firstDiff returns the first line in which two rendered states differ.
func firstDiff(a, b string) string {
	la, lb := strings.Split(a, "\n"), strings.Split(b, "\n")
	for i := 0; i < len(la) || i < len(lb); i++ {
		x, y := "", ""
		if i < len(la) {
			x = la[i]
		}
		if i < len(lb) {
			y = lb[i]
		}
		if x != y {
			if len(x) > 600 {
				x = x[:600] + "..."
			}
			if len(y) > 600 {
				y = y[:600] + "..."
			}
			return fmt.Sprintf("before: %q | now: %q", x, y)
		}
	}
	return ""
}

func litSHAFull(lit []byte) string {
	h := sha256.Sum256(lit)
	return hex.EncodeToString(h[:8])
}
