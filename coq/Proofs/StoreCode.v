(* C09 — the lemmas of Proofs/StoreFrameProofs.v instantiated with the constants that the translator reads from
   store/disk.go (Gen/FactsStore.v): block size, header bytes, nonce length, GCM overhead. *)
From Coq Require Import List NArith Arith Bool Lia.
From Gluon Require Import Model.StoreFrame Proofs.StoreFrameProofs Proofs.StoreToy Gen.FactsStore.
From Gluon Require Import Model.LockTable Proofs.LockTableProofs.
Import ListNotations.
Local Open Scope nat_scope.

Definition code_bsz : nat := N.to_nat block_size.
Definition code_ovh : nat := N.to_nat gcm_overhead.
Definition code_nlen : nat := N.to_nat nonce_len.
Definition code_hdr : bytes := store_header.

Lemma code_bsz_pos : 0 < code_bsz.
Proof. unfold code_bsz, block_size. lia. Qed.

(* the structural facts the model relies on, as found in the source by the translator *)
Definition code_structure : bool :=
  header_written_first && nonce_drawn_once_per_file && seal_per_block_same_nonce_no_aad && set_cuts_at_block_size
  && open_same_nonce_no_aad && get_reads_block_plus_overhead && builder_installs_no_fallback
  && (N.of_nat (length store_header) =? header_len)%N.

Lemma code_structure_ok : code_structure = true.
Proof. vm_compute. reflexivity. Qed.

(* Get treats the end of the decrypted data before the end of the frame as an error (C09-fix-1); executed by the
   translator on a file cut after header and nonce *)
Lemma code_end_of_data_is_error : get_rejects_end_of_data = true.
Proof. reflexivity. Qed.

Definition code_assumptions (key : Type) (seal : key -> bytes -> bytes -> bytes)
  (open : key -> bytes -> bytes -> option bytes) (compress : bytes -> bytes) (dec : bytes -> dres) : Prop :=
  store_assumptions key seal open compress dec code_bsz code_ovh code_nlen.

Section Code.
  Variable key : Type.
  Variable seal : key -> bytes -> bytes -> bytes.
  Variable open : key -> bytes -> bytes -> option bytes.
  Variable compress : bytes -> bytes.
  Variable dec : bytes -> dres.
  Hypothesis HA : code_assumptions key seal open compress dec.

  Definition c_write := write_file key seal compress code_hdr code_bsz.
  Definition c_read := read_file key open dec code_hdr code_bsz code_ovh code_nlen.
  Definition c_set := store_set key seal compress code_hdr code_bsz.
  Definition c_get := store_get key open dec code_hdr code_bsz code_ovh code_nlen.
  Definition c_apply := sop_apply key seal compress code_hdr code_bsz.
  Definition c_sop_ok := sop_ok code_nlen.

  Lemma c_read_write : forall k n d, length n = code_nlen -> c_read k (c_write k n d) = ROk d.
  Proof. intros. apply (read_write key seal open compress dec code_hdr code_bsz code_ovh code_nlen code_bsz_pos HA); auto. Qed.

  Lemma c_file_size : forall k n d, length n = code_nlen ->
    length (c_write k n d) = length code_hdr + code_nlen + length (compress d)
                             + code_ovh * ((length (compress d) + code_bsz - 1) / code_bsz).
  Proof. intros. apply (write_file_length key seal open compress dec code_hdr code_bsz code_ovh code_nlen code_bsz_pos HA); auto. Qed.

  Lemma c_get_set : forall k n st id d, length n = code_nlen -> c_get k (c_set k n st id d) id = GOk d.
  Proof. intros. apply (store_get_set key seal open compress dec code_hdr code_bsz code_ovh code_nlen code_bsz_pos HA); auto. Qed.

  Lemma c_get_set_other : forall k n st id id' d, id <> id' -> c_get k (c_set k n st id d) id' = c_get k st id'.
  Proof. intros. apply store_get_set_other; auto. Qed.

  Lemma c_overwrite : forall k n1 n2 st id d1 d2, length n2 = code_nlen ->
    c_get k (c_set k n2 (c_set k n1 st id d1) id d2) id = GOk d2
    /\ (forall id', id <> id' -> c_get k (c_set k n2 (c_set k n1 st id d1) id d2) id' = c_get k st id').
  Proof.
    intros. split; [apply c_get_set; auto|]. intros. unfold c_get, c_set. rewrite !store_get_set_other by auto. reflexivity.
  Qed.

  Lemma c_delete : forall k st st' id, dir_delete st id = Some st' ->
    c_get k st' id = GNoFile /\ (forall id', id <> id' -> c_get k st' id' = c_get k st id')
    /\ (forall x, In x (dir_list st') <-> In x (dir_list st) /\ x <> id).
  Proof. intros. apply store_delete; auto. Qed.

  (* Delete(ids...): whatever happens every ID is either untouched or gone; if the call reports success every ID of the
     batch is gone and no other; the listing is exactly the IDs that can still be read *)
  Lemma c_delete_all : forall k ids st,
    let r := dir_delete_all st ids in
    (forall id, c_get k (fst r) id = c_get k st id \/ c_get k (fst r) id = GNoFile)
    /\ (snd r = true -> forall id, c_get k (fst r) id = if existsb (N.eqb id) ids then GNoFile else c_get k st id)
    /\ (forall id, In id (dir_list (fst r)) <-> dir_get (fst r) id <> None).
  Proof. intros. apply store_delete_all. Qed.

  Lemma c_history : forall k ops, Forall c_sop_ok ops ->
    let st := fold_left (c_apply k) ops [] in
    let r := fold_left sop_ref ops (fun _ => None) in
    NoDup (dir_list st)
    /\ (forall id, c_get k st id = match r id with Some d => GOk d | None => GNoFile end)
    /\ (forall id, In id (dir_list st) <-> r id <> None).
  Proof.
    intros k ops Hok st r.
    pose proof (sop_run_empty key seal open compress dec code_hdr code_bsz code_ovh code_nlen code_bsz_pos HA k ops Hok) as Hag.
    fold st r in Hag. destruct (list_exact key open dec code_hdr code_bsz code_ovh code_nlen k st r Hag) as [H1 H2].
    destruct Hag as [_ H3]. auto.
  Qed.

  Lemma c_truncated : forall k n d m, length n = code_nlen -> m < length (c_write k n d) ->
    is_err (c_read k (firstn m (c_write k n d))) = true.
  Proof. intros. apply (read_truncated key seal open compress dec code_hdr code_bsz code_ovh code_nlen code_bsz_pos HA); auto. Qed.

  Lemma c_other_key : forall k k' n d, length n = code_nlen -> k <> k' -> c_read k' (c_write k n d) = RErrOpen.
  Proof. intros. apply (read_other_key key seal open compress dec code_hdr code_bsz code_ovh code_nlen code_bsz_pos HA); auto. Qed.

  Lemma c_other_nonce : forall k n n' d, length n = code_nlen -> length n' = code_nlen -> n <> n' ->
    c_read k (code_hdr ++ n' ++ frame key seal code_bsz k n (compress d)) = RErrOpen.
  Proof. intros. apply (read_other_nonce key seal open compress dec code_hdr code_bsz code_ovh code_nlen code_bsz_pos HA); auto. Qed.

  Lemma c_other_header : forall k (hdr' rest : bytes), length hdr' = length code_hdr -> hdr' <> code_hdr ->
    c_read k (hdr' ++ rest) = RErrHeader.
  Proof. intros. apply read_other_header; auto. Qed.

  Lemma c_altered_block : forall k n d pl1 b pl2 c', length n = code_nlen ->
    plain_blocks code_bsz (compress d) = pl1 ++ b :: pl2 ->
    length c' = length (seal k n b) -> open k n c' = None ->
    c_read k (code_hdr ++ n ++ concat (map (seal k n) pl1 ++ c' :: map (seal k n) pl2)) = RErrOpen.
  Proof. intros. eapply (read_altered_block key seal open compress dec code_hdr code_bsz code_ovh code_nlen code_bsz_pos HA); eauto. Qed.

  Lemma c_sealed_blocks : forall k n pl, length n = code_nlen -> wf_blocks code_bsz pl ->
    c_read k (code_hdr ++ n ++ concat (map (seal k n) pl)) = feed dec [] pl.
  Proof. intros. apply (read_sealed_blocks key seal open compress dec code_hdr code_bsz code_ovh code_nlen code_bsz_pos HA); auto. Qed.
End Code.

(* generic framing round trip: every block size > 0, every overhead, every stream length *)
Lemma unframe_frame_all : forall key seal open compress dec bsz ovh nlen, 0 < bsz ->
  store_assumptions key seal open compress dec bsz ovh nlen ->
  forall k n s, unframe key open bsz ovh k n (frame key seal bsz k n s) = Some s.
Proof. intros. eapply unframe_frame; eauto. Qed.

(* the assumptions do not exclude each other: the toy instance satisfies them (block size 2, overhead 1, nonce length 1) *)
Lemma assumptions_satisfiable :
  exists key seal open compress dec bsz ovh nlen, 0 < bsz /\ store_assumptions key seal open compress dec bsz ovh nlen.
Proof. exists N, toy_seal, toy_open, toy_compress, toy_dec, 2, 1, 1. split; [lia|exact toy_assumptions]. Qed.

(* ... and they do not imply that every altered file is rejected *)
Lemma altered_file_accepted_witness :
  exists key seal open compress dec bsz ovh nlen (hdr : bytes) (k : key) (n d f' d' : bytes),
    0 < bsz /\ store_assumptions key seal open compress dec bsz ovh nlen /\ length n = nlen /\
    f' <> write_file key seal compress hdr bsz k n d /\
    read_file key open dec hdr bsz ovh nlen k f' = ROk d' /\ d' <> d.
Proof.
  exists N, toy_seal, toy_open, toy_compress, toy_dec, 2, 1, 1, toy_hdr, 3%N, [9%N], [5%N; 6%N; 7%N],
    (toy_altered 3 [9%N]), [5%N; 7%N].
  split; [lia|]. split; [exact toy_assumptions|]. split; [reflexivity|].
  split; [vm_compute; discriminate|]. split; [vm_compute; reflexivity|discriminate].
Qed.

(* ---------- the lock table of WriteControlledStore with the protocol the translator found in the source ---------- *)
Definition lock_table_structure : bool :=
  release_deletes_entry_and_pools && acquire_is_one_critical_section && ops_unlock_before_release
  && batch_delete_is_per_id_loop.

Lemma lock_table_structure_ok : lock_table_structure = true.
Proof. vm_compute. reflexivity. Qed.

(* releaseSyncRef decrements inside the critical section and acquireSyncRef resets the counter of an inserted object:
   then every schedule keeps writers alone (fails to type-check when one of the two facts is false) *)
Lemma exclusive_code : forall n sched,
  exclusive (run release_decrements_under_lock acquire_resets_counter release_uses_acquired_id (init n) sched).
Proof.
  change release_decrements_under_lock with true. change acquire_resets_counter with true.
  change release_uses_acquired_id with true. exact exclusive_fixed.
Qed.

(* ---------- Delete(ids...) on the directory ---------- *)
Lemma disk_delete_structure_ok : disk_delete_stops_with_the_error = true.
Proof. reflexivity. Qed.

(* ---------- List over file names ---------- *)
(* files written by Set are named str(id) and parse back (uuid.Parse (uuid.String id) = id, assumed); other files in the
   directory have names that are no IDs.  The listing is exactly the stored IDs - the zero ID (nil UUID) included, the
   foreign files ignored - in whatever order the directory is read *)
Lemma list_names_exact : forall (name : Type) (str : N -> name) (parse : name -> option N),
  (forall i, parse (str i) = Some i) ->
  forall (entries : list (N + name)), (forall f, In (inr f) entries -> parse f = None) ->
  list_names parse list_yields_every_file list_skips_foreign_names
             (map (fun e => match e with inl i => str i | inr f => f end) entries)
  = flat_map (fun e => match e with inl i => [i] | inr _ => [] end) entries.
Proof.
  intros name str parse Hrt entries Hf. unfold list_names.
  change list_yields_every_file with true. change list_skips_foreign_names with true. cbv iota.
  induction entries as [|e t IH]; [reflexivity|]. cbn [map flat_map].
  rewrite IH by (intros f Hin; apply Hf; right; exact Hin). destruct e as [i|f].
  - rewrite Hrt. reflexivity.
  - rewrite (Hf f (or_introl eq_refl)). reflexivity.
Qed.

(* if entries equal to the zero ID were dropped, a stored ID would be missing *)
Lemma list_names_filter_refuted : exists (ids : list N),
  list_names (fun n : N => Some n) false true ids <> ids.
Proof. exists [0%N; 5%N]. vm_compute. discriminate. Qed.

(* before C09-fix-3: a foreign file is listed as the zero ID, which nobody stored *)
Lemma list_names_foreign_refuted :
  list_names (fun n : N => if N.eqb n 9 then None else Some n) true false [5%N; 9%N] = [5%N; 0%N].
Proof. vm_compute. reflexivity. Qed.
