// Command c05: harness of property C05 (see verifharness/sess).
package main

import (
	"verifharness/common"
	"verifharness/sess"
)

func main() { common.Main("C05", sess.Harness("C05")) }
