package main

import (
	"fmt"
	"sort"
	"strings"

	"verifharness/common"
)

// sx is the generic S-expression in which parsed commands are compared: written command (generator) vs. Go parser result
// (goast.go) vs. Coq model (Run/RunC10.v, type sx).
type sx struct {
	kind byte // 'n' number, 'b' bytes, 's' symbol, 'l' list
	n    uint64
	b    []byte
	s    string
	l    []*sx
}

func xn(n uint64) *sx   { return &sx{kind: 'n', n: n} }
func xb(b []byte) *sx   { return &sx{kind: 'b', b: append([]byte{}, b...)} }
func xstr(s string) *sx { return &sx{kind: 'b', b: []byte(s)} }
func xs(s string) *sx   { return &sx{kind: 's', s: s} }
func xl(l ...*sx) *sx   { return &sx{kind: 'l', l: l} }
func xbool(b bool) *sx {
	if b {
		return xn(1)
	}
	return xn(0)
}

// String is the canonical rendering used by the oracle comparison and in failure reports.
func (x *sx) String() string {
	switch x.kind {
	case 'n':
		return fmt.Sprint(x.n)
	case 'b':
		return fmt.Sprintf("%q", x.b)
	case 's':
		return x.s
	default:
		p := make([]string, len(x.l))
		for i, e := range x.l {
			p[i] = e.String()
		}
		return "(" + strings.Join(p, " ") + ")"
	}
}

// Coq renders the term of type RunC10.sx.
func (x *sx) Coq() string {
	switch x.kind {
	case 'n':
		return fmt.Sprintf("XN %d", x.n)
	case 'b':
		return "XB " + common.CoqHex(x.b)
	case 's':
		if knownSyms[x.s] {
			return "XS s_" + x.s // constants of Run/RunC10.v
		}
		return fmt.Sprintf("XS %q", x.s)
	default:
		p := make([]string, len(x.l))
		for i, e := range x.l {
			p[i] = e.Coq()
		}
		return "XL [" + strings.Join(p, "; ") + "]"
	}
}

func xseq(rs [][2]uint64) *sx {
	l := make([]*sx, len(rs))
	for i, r := range rs {
		l[i] = xl(xn(r[0]), xn(r[1]))
	}
	return xl(l...)
}

func xstrs(ss [][]byte) *sx {
	l := make([]*sx, len(ss))
	for i, s := range ss {
		l[i] = xb(s)
	}
	return xl(l...)
}

// xkv renders ID parameters the way a Go map sees them: last value of a key wins, sorted by key.
func xkv(keys, vals [][]byte) *sx {
	m := map[string][]byte{}
	for i := range keys {
		m[string(keys[i])] = vals[i]
	}
	ks := make([]string, 0, len(m))
	for k := range m {
		ks = append(ks, k)
	}
	sort.Strings(ks)
	l := make([]*sx, len(ks))
	for i, k := range ks {
		l[i] = xl(xstr(k), xb(m[k]))
	}
	return xl(l...)
}

// knownSyms: the symbols for which Run/RunC10.v defines a constant s_<name>.
var knownSyms = map[string]bool{
	"add":           true,
	"all":           true,
	"answered":      true,
	"append":        true,
	"bcc":           true,
	"before":        true,
	"body":          true,
	"bodysection":   true,
	"bodystructure": true,
	"capability":    true,
	"cc":            true,
	"check":         true,
	"close":         true,
	"copy":          true,
	"create":        true,
	"delete":        true,
	"deleted":       true,
	"done":          true,
	"draft":         true,
	"envelope":      true,
	"examine":       true,
	"expunge":       true,
	"fast":          true,
	"fetch":         true,
	"flagged":       true,
	"flags":         true,
	"from":          true,
	"full":          true,
	"header":        true,
	"headerfields":  true,
	"idget":         true,
	"idle":          true,
	"idset":         true,
	"internaldate":  true,
	"keyword":       true,
	"larger":        true,
	"list":          true,
	"login":         true,
	"logout":        true,
	"lsub":          true,
	"messages":      true,
	"mime":          true,
	"move":          true,
	"new":           true,
	"noop":          true,
	"not":           true,
	"old":           true,
	"on":            true,
	"or":            true,
	"part":          true,
	"recent":        true,
	"rem":           true,
	"rename":        true,
	"rfc822":        true,
	"rfc822header":  true,
	"rfc822size":    true,
	"rfc822text":    true,
	"search":        true,
	"seen":          true,
	"select":        true,
	"sentbefore":    true,
	"senton":        true,
	"sentsince":     true,
	"seqset":        true,
	"set":           true,
	"since":         true,
	"smaller":       true,
	"starttls":      true,
	"status":        true,
	"store":         true,
	"subject":       true,
	"subscribe":     true,
	"text":          true,
	"to":            true,
	"uid":           true,
	"uidexpunge":    true,
	"uidnext":       true,
	"uidvalidity":   true,
	"unanswered":    true,
	"undeleted":     true,
	"undraft":       true,
	"unflagged":     true,
	"unkeyword":     true,
	"unseen":        true,
	"unselect":      true,
	"unsubscribe":   true,
}
