(* C14 — the Impl model of the namespace operations (Split/Join, sorted inferiors, a sequence of UPDATEs under
   UNIQUE constraints) against the reference hierarchy (superior relation, one simultaneous substitution). *)
From Coq Require Import List NArith Bool Lia PeanoNat Arith.
From Gluon Require Import Model.MboxNames Model.WildcardSpec Model.MboxNamespace Model.MboxMatch.
From Gluon Require Import Proofs.MboxNamesProofs Proofs.MboxListProofs Proofs.MboxNamespaceProofs.
Import ListNotations.
Open Scope N_scope.

(* ---------- trimming ---------- *)
Lemma adjacent_app_dd : forall d a, mb_adjacent d (a ++ [d; d]) = true.
Proof.
  induction a as [|x a IH].
  - simpl. rewrite N.eqb_refl. reflexivity.
  - destruct a as [|y a].
    + simpl. rewrite N.eqb_refl. simpl. apply orb_true_r.
    + change ((x :: y :: a) ++ [d; d]) with (x :: (y :: a) ++ [d; d]).
      change (mb_adjacent d (x :: (y :: a) ++ [d; d])) with
        (((x =? d) && (y =? d)) || mb_adjacent d ((y :: a) ++ [d; d])).
      rewrite IH. apply orb_true_r.
Qed.

Lemma trim_create_eq : forall d n, mb_adjacent d n = false ->
  (if mb_ends d n then trim_right d n else n) = trim_suffix d n.
Proof.
  intros d n A. unfold mb_ends, trim_right, trim_suffix.
  destruct (rev n) as [|c t] eqn:R; auto.
  destruct (c =? d) eqn:C; auto. apply N.eqb_eq in C. subst c.
  cbn [drop_while_eq]. rewrite N.eqb_refl.
  destruct t as [|c2 t]; auto. cbn [drop_while_eq].
  destruct (c2 =? d) eqn:C2; auto. apply N.eqb_eq in C2. subst c2. exfalso.
  assert (E : n = rev t ++ [d; d]).
  { rewrite <- (rev_involutive n), R. simpl. rewrite <- app_assoc. reflexivity. }
  rewrite E, adjacent_app_dd in A. discriminate.
Qed.

(* ---------- the superiors are distinct ---------- *)
Lemma NoDup_map_cons : forall (c : N) l, NoDup l -> NoDup (map (cons c) l).
Proof.
  induction l as [|x l IH]; intro H; simpl; [constructor|].
  inversion H; subst. constructor; auto.
  intro X. apply in_map_iff in X. destruct X as [y [E Y]]. injection E as E. subst. auto.
Qed.

Lemma prefixes_at_NoDup : forall d n, NoDup (prefixes_at d n).
Proof.
  induction n as [|c n IH]; simpl; [constructor|].
  destruct (c =? d); simpl.
  - constructor; [|apply NoDup_map_cons; auto].
    intro X. apply in_map_iff in X. destruct X as [y [E Y]]. discriminate.
  - apply NoDup_map_cons; auto.
Qed.

(* ---------- a list of CreateMailbox calls = adding the rows ---------- *)
Lemma create_all_spec : forall ns st, NoDup ns -> (forall x, In x ns -> ~ In x (names_of (st_rows st))) ->
  create_all st ns = Some (spec_add st ns).
Proof.
  unfold create_all, spec_add. induction ns as [|n ns IH]; intros st N H; simpl; auto.
  inversion N as [|? ? N1 N2]; subst.
  assert (E : db_create st n = Some (mkSt (st_rows st ++ [mkRow (st_next st) n true]) (remove_name n (st_dsubs st)) (st_next st + 1))).
  { unfold db_create. assert (X : db_exists (st_rows st) n = false) by (apply db_exists_false; apply H; left; auto).
    rewrite X. reflexivity. }
  rewrite E. apply IH; auto.
  intros x X. cbn [st_rows]. rewrite names_of_app. cbn [names_of map m_name]. rewrite in_app_iff.
  intros [Y|[Y|[]]].
  - apply (H x); auto. right. auto.
  - subst. auto.
Qed.

Lemma missing_ok : forall d rows n, ~ In n (names_of rows) ->
  NoDup (missing_superiors d rows n ++ [n]) /\
  (forall x, In x (missing_superiors d rows n ++ [n]) -> ~ In x (names_of rows)).
Proof.
  intros d rows n H. unfold missing_superiors. split.
  - apply NoDup_app_single.
    + apply NoDup_filter. apply prefixes_at_NoDup.
    + intro X. apply filter_In in X. destruct X as [X _]. apply prefixes_at_spec in X.
      apply is_superior_neq in X. auto.
  - intros x X. apply in_app_iff in X. destruct X as [X|[X|[]]].
    + apply filter_In in X. destruct X as [_ X]. apply negb_true_iff in X. apply db_exists_false. auto.
    + subst. auto.
Qed.

Lemma bad_new_name_adjacent : forall d n, bad_new_name d n = false -> mb_adjacent d n = false.
Proof. intros d n H. unfold bad_new_name in H. apply orb_false_iff in H. tauto. Qed.

(* ---------- CREATE ---------- *)
Lemma create_refines : forall d st raw, delim_ok d -> impl_create d st raw = spec_create d st raw.
Proof.
  intros d st raw D. unfold impl_create, spec_create.
  rewrite canon_first_eqfold_inbox; auto.
  destruct (name_eqb (canon_first d raw) INBOX); auto. cbn [orb].
  destruct (bad_new_name d (canon_first d raw)) eqn:B; auto.
  rewrite (trim_create_eq d _ (bad_new_name_adjacent d _ B)).
  destruct (db_exists (st_rows st) (trim_suffix d (canon_first d raw))) eqn:E; auto.
  apply db_exists_false in E. rewrite list_superiors_prefixes.
  destruct (missing_ok d (st_rows st) _ E) as [M1 M2].
  unfold missing_superiors in *. rewrite (create_all_spec _ st M1 M2). reflexivity.
Qed.

(* ---------- DELETE ---------- *)
Lemma by_id_of_row : forall rows r, NoDup (ids_of rows) -> In r rows -> db_by_id rows (m_id r) = Some r.
Proof.
  intros rows r N I. destruct (db_by_id rows (m_id r)) as [r'|] eqn:B.
  - apply db_by_id_some in B. destruct B as [B1 B2]. f_equal.
    apply (nodup_map_inj _ _ m_id rows); auto.
  - exfalso. apply db_by_id_none in B. apply B. unfold ids_of. apply in_map. auto.
Qed.

Lemma delete_refines : forall d st raw, delim_ok d -> ns_wf st -> impl_delete d st raw = spec_delete d st raw.
Proof.
  intros d st raw D [W1 [W2 _]]. unfold impl_delete, spec_delete.
  rewrite canon_first_eqfold_inbox; auto.
  destruct (name_eqb (canon_first d raw) INBOX); auto. cbn [orb].
  destruct (mb_eqfold (canon_first d raw) RECOVERY); auto.
  destruct (db_by_name (st_rows st) (canon_first d raw)) as [r|] eqn:B; auto.
  apply db_by_name_some in B. destruct B as [B1 B2].
  unfold db_delete. rewrite (by_id_of_row _ r W2 B1). rewrite B2. reflexivity.
Qed.

(* ---------- what the reference operations guarantee ---------- *)
Lemma spec_add_rows : forall ns st, names_of (st_rows (spec_add st ns)) = names_of (st_rows st) ++ ns.
Proof.
  unfold spec_add. induction ns as [|n ns IH]; intro st; simpl; [rewrite app_nil_r; auto|].
  rewrite IH. cbn [st_rows]. rewrite names_of_app. cbn [names_of map m_name]. rewrite <- app_assoc. reflexivity.
Qed.

Lemma spec_add_keeps : forall ns st r, In r (st_rows st) -> In r (st_rows (spec_add st ns)).
Proof.
  unfold spec_add. induction ns as [|n ns IH]; intros st r H; simpl; auto.
  apply IH. cbn [st_rows]. apply in_app_iff. auto.
Qed.

(* CREATE makes the mailbox and every missing superior *)
Lemma create_makes_parents : forall d st raw st', delim_ok d -> impl_create d st raw = (st', ROk) ->
  let n := trim_suffix d (canon_first d raw) in
  In n (names_of (st_rows st')) /\ (forall p, is_superior d p n -> In p (names_of (st_rows st'))) /\
  (forall r, In r (st_rows st) -> In r (st_rows st')).
Proof.
  intros d st raw st' D H n. rewrite create_refines in H; auto. unfold spec_create in H.
  destruct (name_eqb (canon_first d raw) INBOX || bad_new_name d (canon_first d raw)); [discriminate|].
  fold n in H. destruct (db_exists (st_rows st) n) eqn:E; [discriminate|].
  injection H as H. subst st'. rewrite spec_add_rows. split; [|split].
  - rewrite !in_app_iff. right. right. left. auto.
  - intros p P. rewrite !in_app_iff.
    destruct (db_exists (st_rows st) p) eqn:Ep.
    + left. apply db_exists_In. auto.
    + right. left. unfold missing_superiors. apply filter_In. split.
      * apply prefixes_at_spec. auto.
      * rewrite Ep. auto.
  - intros r R. apply spec_add_keeps. auto.
Qed.

(* the reference RENAME: the mailbox and all its inferiors get the new prefix, keep identity and subscription;
   nothing else changes its name *)
Lemma spec_moved_inferior : forall d o n rest, spec_moved d o n (o ++ d :: rest) = n ++ d :: rest.
Proof.
  intros d o n rest. unfold spec_moved.
  assert (X : name_eqb (o ++ d :: rest) o = false).
  { apply name_eqb_neq. intro E. assert (L : length (o ++ d :: rest) = length o) by (rewrite E; auto).
    rewrite app_length in L. simpl in L. lia. }
  rewrite X.
  assert (Y : is_superior_b d o (o ++ d :: rest) = true) by (apply is_superior_b_spec; exists rest; auto).
  rewrite Y. f_equal. rewrite skipn_app, skipn_all, Nat.sub_diag. reflexivity.
Qed.

Lemma spec_rename_carries : forall d st rawo rawn st', spec_rename d st rawo rawn = (st', ROk) ->
  let o := canon_first d rawo in
  let n := trim_suffix d (canon_first d rawn) in
  name_eqb o INBOX = false ->
  forall r, In r (st_rows st) ->
    In (mkRow (m_id r) (spec_moved d o n (m_name r)) (m_sub r)) (st_rows st').
Proof.
  intros d st rawo rawn st' H o n NI r R. unfold spec_rename in H. fold o in H.
  destruct (mb_eqfold o RECOVERY || bad_new_name d (canon_first d rawn)); [discriminate|].
  fold n in H.
  destruct (negb (db_exists (st_rows st) o) || db_exists (st_rows st) n || is_superior_b d o n); [discriminate|].
  rewrite NI in H.
  match type of H with (if ?c then _ else _) = _ => destruct c; [|discriminate] end.
  injection H as H. subst st'. cbn [st_rows].
  apply in_map_iff. exists r. split; auto. apply spec_add_keeps. auto.
Qed.

(* renaming INBOX leaves INBOX and its inferiors where they are and creates the new mailbox *)
Lemma spec_rename_inbox : forall d st rawo rawn st', spec_rename d st rawo rawn = (st', ROk) ->
  name_eqb (canon_first d rawo) INBOX = true ->
  (forall r, In r (st_rows st) -> In r (st_rows st')) /\
  In (trim_suffix d (canon_first d rawn)) (names_of (st_rows st')).
Proof.
  intros d st rawo rawn st' H NI. unfold spec_rename in H.
  destruct (mb_eqfold (canon_first d rawo) RECOVERY || bad_new_name d (canon_first d rawn)); [discriminate|].
  match type of H with (if ?c then _ else _) = _ => destruct c; [discriminate|] end.
  rewrite NI in H. injection H as H. subst st'. split.
  - intros r R. cbn [st_rows]. apply in_app_iff. left. apply spec_add_keeps. auto.
  - cbn [st_rows]. rewrite names_of_app. apply in_app_iff. right. left. auto.
Qed.
