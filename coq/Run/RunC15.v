(* Correspondence runner for C15: the harness writes the mailboxes (per-message data as it knows it), the key
   trees it sent and what the server answered; `mismatches` lists the case ids on which the Impl model disagrees. *)
From Coq Require Import List NArith Bool String.
From Gluon Require Export Base.ListX Model.SeqSet Model.SearchSpec Model.SearchImpl.
Import ListNotations.
Open Scope N_scope.

Inductive obs := OBad | ONo | OSel (l : list N) | OOther.

Record case := mkCase { c_id : nat; c_uid : bool; c_cs : charset; c_snap : list msgdata; c_keys : list key; c_obs : obs }.

Definition model_obs (c : case) : obs :=
  match search (c_cs c) (c_uid c) (c_keys c) (c_snap c) with
  | RBad => OBad | RNo => ONo | ROk l => OSel l end.

Definition obs_eqb (a b : obs) : bool :=
  match a, b with
  | OBad, OBad => true | ONo, ONo => true | OOther, OOther => true
  | OSel x, OSel y => nlist_eqb x y          (* order matters: the answer must be ascending as the model's is *)
  | _, _ => false end.

(* a case whose view is not well formed is reported too (the theorems would not apply to it) *)
Definition case_ok (c : case) : bool := wf_snapb (c_snap c) && obs_eqb (model_obs c) (c_obs c).

Definition mismatches (cs : list case) : list nat :=
  map c_id (filter (fun c => negb (case_ok c)) cs).

(* constructors used by the harness to keep cases.v short *)
Definition mk (seq uid : N) (fl : list bytes) (size iday : N) (sent : option N) (h : list (bytes * bytes))
  (body text : bytes) : msgdata := mkMsg seq uid fl size iday sent h body text true true true.
Definition mkx (seq uid : N) (fl : list bytes) (size iday : N) (sent : option N) (h : list (bytes * bytes))
  (body text : bytes) (db lit hdr : bool) : msgdata := mkMsg seq uid fl size iday sent h body text db lit hdr.
Definition crlf : bytes := [13; 10].
Definition L := KLeaf.
