(* C16 — the hand-written model of snapMsgList.uidRange / getWithSeqID / existsWithSeqID (Model/SeqSet.v) IS the code
   translated from internal/state/snapshot_messages.go (Gen/FactsUidRange.v, regenerated on every check):
   the model's selection is the Go slice list.msg[lo:hi] whose bounds the translated code computes, that slice
   expression never panics, and the bounds checks of the sequence-number mode are the translated conditions. *)
From Coq Require Import List NArith ZArith Bool Lia.
From Coq Require Import ZifyBool ZifyNat ZifyN.
From Gluon Require Import Gen.FactsUidRange Model.SeqSet Proofs.SeqSetProofs.
Import ListNotations.

(* list.msg[a:b] of a Go slice; None = "slice bounds out of range" panic *)
Definition go_slice_N (l : list N) (a b : Z) : option (list N) :=
  if ((0 <=? a) && (a <=? b) && (b <=? Z.of_nat (length l)))%Z
  then Some (firstn (Z.to_nat b - Z.to_nat a) (skipn (Z.to_nat a) l)) else None.

(* uidRange as the translated code runs it: the two binary searches, then the translated index arithmetic, then the slice *)
Definition uid_range_by_code (uids : list N) (lo hi : N) : option (list N) :=
  match uid_range_code (Z.of_nat (length uids)) (Z.of_nat (lower_bound lo uids)) (Z.of_nat (lower_bound hi uids))
                       (bs_found lo uids) (bs_found hi uids) with
  | None => Some []
  | Some (a, b) => go_slice_N uids a b
  end.

Lemma lower_bound_mono lo hi l : (lo <= hi)%N -> (lower_bound lo l <= lower_bound hi l)%nat.
Proof.
  intros H. induction l as [|u t IH]; cbn [lower_bound]; [lia|].
  destruct (N.ltb_spec u lo) as [A|A]; destruct (N.ltb_spec u hi) as [B|B]; lia.
Qed.

(* for every list and every pair lo <= hi, lo <> hi: the translated code does not panic and selects what the model selects *)
Lemma uid_range_code_is_model uids lo hi : (lo <= hi)%N -> (lo =? hi)%N = false ->
  uid_range_by_code uids lo hi = Some (uid_interval_msgs uids (lo, hi)).
Proof.
  intros Hle Hne. unfold uid_range_by_code, uid_range_code, uid_interval_msgs. rewrite Hne.
  pose proof (lower_bound_le lo uids) as L1. pose proof (lower_bound_le hi uids) as L2.
  pose proof (lower_bound_mono lo hi uids Hle) as L3.
  set (len := length uids) in *. set (ilo := lower_bound lo uids) in *. set (ihi := lower_bound hi uids) in *.
  destruct (Nat.leb_spec len ilo) as [A|A].
  - replace (Z.of_nat len <=? Z.of_nat ilo)%Z with true by lia. reflexivity.
  - replace (Z.of_nat len <=? Z.of_nat ilo)%Z with false by lia.
    unfold go_slice_N. fold len.
    destruct (bs_found hi uids).
    + destruct (Nat.leb_spec len (S ihi)) as [B|B].
      * replace (Z.of_nat len <=? Z.of_nat ihi + 1)%Z with true by lia.
        replace ((0 <=? Z.of_nat ilo) && (Z.of_nat ilo <=? Z.of_nat len) && (Z.of_nat len <=? Z.of_nat len))%Z with true by lia.
        rewrite !Nat2Z.id. reflexivity.
      * replace (Z.of_nat len <=? Z.of_nat ihi + 1)%Z with false by lia.
        replace ((0 <=? Z.of_nat ilo) && (Z.of_nat ilo <=? Z.of_nat ihi + 1) && (Z.of_nat ihi + 1 <=? Z.of_nat len))%Z with true by lia.
        rewrite Nat2Z.id. replace (Z.to_nat (Z.of_nat ihi + 1)) with (S ihi) by lia. reflexivity.
    + destruct (Nat.leb_spec len ihi) as [B|B].
      * replace (Z.of_nat len <=? Z.of_nat ihi)%Z with true by lia.
        replace ((0 <=? Z.of_nat ilo) && (Z.of_nat ilo <=? Z.of_nat len) && (Z.of_nat len <=? Z.of_nat len))%Z with true by lia.
        rewrite !Nat2Z.id. reflexivity.
      * replace (Z.of_nat len <=? Z.of_nat ihi)%Z with false by lia.
        replace ((0 <=? Z.of_nat ilo) && (Z.of_nat ilo <=? Z.of_nat ihi) && (Z.of_nat ihi <=? Z.of_nat len))%Z with true by lia.
        rewrite !Nat2Z.id. reflexivity.
Qed.

(* the sequence number the translated copy loop gives the i-th selected message is its 1-based position in the view *)
Lemma uid_range_seq_is_position len i1 i2 o1 o2 i :
  uid_range_seq_code len i1 i2 o1 o2 i = (i1 + i + 1)%Z.
Proof. unfold uid_range_seq_code. lia. Qed.

(* sequence-number mode: the model's two bounds checks are the translated conditions (for every nz-number) *)
Lemma seq_checks_are_code cnt id : (1 <= id)%N ->
  get_with_seq_fails_code (Z.of_N cnt) (Z.of_N id) = ((cnt =? 0) || (cnt <? id))%N /\
  exists_with_seq_fails_code (Z.of_N cnt) (Z.of_N id) = (cnt <? id)%N.
Proof.
  intros H. unfold get_with_seq_fails_code, exists_with_seq_fails_code. split.
  - destruct (N.eqb_spec cnt 0) as [A|A]; destruct (N.ltb_spec cnt id) as [B|B]; cbn [orb]; lia.
  - destruct (N.ltb_spec cnt id) as [B|B]; lia.
Qed.

(* hence seq_interval_msgs (the model of getMessagesInSeqRange for one interval) written over the translated checks *)
Lemma seq_interval_by_code cnt lo hi : (1 <= lo)%N -> (1 <= hi)%N ->
  seq_interval_msgs cnt (lo, hi) =
  if (lo =? hi)%N then (if get_with_seq_fails_code (Z.of_N cnt) (Z.of_N lo) then None else Some [lo])
  else if exists_with_seq_fails_code (Z.of_N cnt) (Z.of_N lo) || exists_with_seq_fails_code (Z.of_N cnt) (Z.of_N hi)
       then None else Some (interval_list lo hi).
Proof.
  intros Hlo Hhi. unfold seq_interval_msgs.
  destruct (seq_checks_are_code cnt lo Hlo) as [G1 E1]. destruct (seq_checks_are_code cnt hi Hhi) as [_ E2].
  rewrite G1, E1, E2. replace (lo =? 0)%N with false by lia. reflexivity.
Qed.
