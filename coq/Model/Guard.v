(* C19 — a field of one goroutine's data that other goroutines may read: the lock discipline.
   Instance: State.snap (guarded by State.snapLock) and snapMsgList.idx (guarded by snapMsgList.idxLock) in
   internal/state/{state,snapshot_messages}.go.  A State belongs to the goroutine of its session ("this code is expected to
   run on one single goroutine", state.go); the only accesses from elsewhere are the reads of State.HasMessage, called by
   user.removeState of another session.  Which writes and foreign reads exist and whether they hold the lock is extracted
   from the source (Gen/FactsGuard.v).  No proofs in this file. *)
From Coq Require Import Arith Bool.

Inductive akind := ARead | AWrite.
Inductive lmode := LNone | LShared | LExcl.        (* how the access holds the field's RWMutex *)

Record access := mkAccess { a_thread : nat; a_kind : akind; a_lock : lmode }.

(* the two accesses can overlap in time and at least one of them writes: a data race unless the lock keeps them apart *)
Definition conflicting (a b : access) : Prop :=
  a_thread a <> a_thread b /\ (a_kind a = AWrite \/ a_kind b = AWrite).

(* an RWMutex never lets an exclusive holder overlap with any other holder *)
Definition kept_apart (a b : access) : bool :=
  match a_lock a, a_lock b with
  | LExcl, LShared | LExcl, LExcl | LShared, LExcl => true
  | _, _ => false
  end.

(* the discipline: only the owner writes, and it writes with the lock held exclusively; whoever else reads holds the
   lock (at least shared); the owner may read without it *)
Definition disciplined (owner : nat) (a : access) : Prop :=
  match a_kind a with
  | AWrite => a_thread a = owner /\ a_lock a = LExcl
  | ARead => a_thread a = owner \/ a_lock a <> LNone
  end.
