// Command c19: the runtime part of C19 (no data race, no deadlock, no goroutine left after Close).
//
// THIS IS A SEARCH, NOT A PROOF. It builds ./cmd/c19child with the race detector, runs a number of stress scenarios
// (N sessions on the same and on different mailboxes issuing random commands, the connector pushing updates, sessions
// ending in every protocol state incl. IDLE / mid-literal / mid-command, RemoveUser and Close racing with all of it) and
// treats as failures: a report of the race detector that involves gluon code, a watchdog expiry (60 s on every client
// call, on RemoveUser and on Close), use of the database/store after they were closed, and goroutines with gluon frames
// that are still there after Close. The scenario (seed + parameters) is the replay. What is proved about the lock order
// and the teardown protocol is in coq/Props/C19.v; the traces observed here are also handed to that model (cases.v).
package main

import (
	"crypto/sha1"
	"encoding/hex"
	"encoding/json"
	"fmt"
	"os"
	"os/exec"
	"path/filepath"
	"regexp"
	"sort"
	"strings"
	"time"

	"verifharness/common"
)

func main() { common.Main("C19", runC19) }

type childFailure struct {
	Kind      string `json:"kind"`
	Canonical string `json:"canonical"`
	Detail    string `json:"detail"`
}

type userTrace struct {
	User              string `json:"user"`
	DbOps             int64  `json:"db_ops"`
	DbOpsAfterClose   int64  `json:"db_ops_after_close"`
	DbInflightAtClose int64  `json:"db_inflight_when_close_returned"`
	DbClosed          bool   `json:"db_closed"`
	StoreOps          int64  `json:"store_ops"`
	StoreOpsAfter     int64  `json:"store_ops_after_close"`
	StoreClosed       bool   `json:"store_closed"`
	StoreBeforeDb     bool   `json:"store_closed_before_db"`
	CloserReturned    bool   `json:"closer_returned"`
	ClosedBeforeRet   bool   `json:"db_closed_before_closer_returned"`
}

type childReport struct {
	Scenario map[string]interface{} `json:"scenario"`
	Failures []childFailure         `json:"failures"`
	Stats    map[string]int         `json:"stats"`
	Traces   []userTrace            `json:"traces"`
	Notes    []string               `json:"notes"`
	Complete bool                   `json:"complete"`
}

// harnessDir: where the sources of this harness are (the driver builds from a copy when VERIF_REPO is set).
func harnessDir() string {
	if r := os.Getenv("VERIF_REPO"); r != "" && r != "/repo" {
		// lib/verifcheck.py prepare_go_dir: build/alt-<first 8 hex digits of sha1(VERIF_REPO)>-harness
		h := sha1.Sum([]byte(r))
		return "/verif/build/alt-" + hex.EncodeToString(h[:])[:8] + "-harness"
	}
	return "/verif/harness"
}

var (
	reFuncLine = regexp.MustCompile(`^  (\S+)\(\)$`)
	reSuffix   = regexp.MustCompile(`(\.func\d+)+(\.\d+)*$`)
)

type access struct {
	head   string   // "Write at ... by goroutine N" without addresses
	frames []string // function names, innermost first
}

type raceReport struct {
	acc  [2]access
	text string
}

func parseRaces(txt string) []raceReport {
	var out []raceReport
	for _, rp := range strings.Split(txt, "==================") {
		if !strings.Contains(rp, "WARNING: DATA RACE") {
			continue
		}
		blocks := strings.Split(strings.TrimSpace(rp), "\n\n")
		var r raceReport
		r.text = strings.TrimSpace(rp)
		n := 0
		for _, b := range blocks {
			if n >= 2 {
				break
			}
			lines := strings.Split(b, "\n")
			var a access
			for _, l := range lines {
				if strings.HasPrefix(l, "WARNING") {
					continue
				}
				if a.head == "" && !strings.HasPrefix(l, " ") {
					a.head = strings.Fields(l)[0]
					if strings.HasPrefix(l, "Previous ") {
						a.head = strings.Fields(l)[1]
					}
					continue
				}
				if m := reFuncLine.FindStringSubmatch(l); m != nil {
					a.frames = append(a.frames, m[1])
				}
			}
			if len(a.frames) > 0 {
				r.acc[n] = a
				n++
			}
		}
		if n == 2 {
			out = append(out, r)
		}
	}
	return out
}

func firstNonRuntime(fr []string) string {
	for _, f := range fr {
		if !strings.HasPrefix(f, "runtime.") && !strings.HasPrefix(f, "sync.") && !strings.HasPrefix(f, "sync/atomic.") {
			return f
		}
	}
	return "?"
}

func isGluon(f string) bool { return strings.HasPrefix(f, "github.com/ProtonMail/gluon") }

func hasFrame(fr []string, sub string) bool {
	for _, f := range fr {
		if strings.Contains(f, sub) {
			return true
		}
	}
	return false
}

func shortFn(f string) string {
	f = strings.TrimPrefix(f, "github.com/ProtonMail/gluon/")
	f = strings.TrimPrefix(f, "github.com/ProtonMail/")
	return reSuffix.ReplaceAllString(f, "")
}

// firstGluonCaller: the innermost gluon function of the access, and the next distinct gluon function above it
func gluonPath(fr []string) string {
	var g []string
	for _, f := range fr {
		if isGluon(f) {
			s := shortFn(f)
			if len(g) == 0 || g[len(g)-1] != s {
				g = append(g, s)
			}
		}
		if len(g) == 2 {
			break
		}
	}
	return strings.Join(g, " <- ")
}

func runC19(ctx *common.Ctx) error {
	res := ctx.Res
	res.Rule = "SEARCH (not proof): stress scenarios under the race detector; one evaluation = one scenario (two of them: async.QueuedChannel queues closed while readers and producers are busy and 24 goroutines reading/writing/deleting two literals through store.WriteControlledStore, with and without the race detector; the others: 11 concurrent sessions of 2 users on shared and own mailboxes, random commands, connector updates, session ends in every protocol state, RemoveUser and Close racing with all of it); non-trivial = distinct scenarios in which RemoveUser and Close both ran while sessions were active (always) and in which the teardown variants differ (late dial, files removed, connector pushing)"
	if ctx.Replay != "" {
		if b, err := os.ReadFile(ctx.Replay); err == nil {
			var rp struct {
				Seed int64 `json:"seed"`
			}
			if json.Unmarshal(b, &rp) == nil && rp.Seed != 0 {
				ctx.Seed, ctx.Rng = rp.Seed, common.NewRng(rp.Seed)
				res.Seed = rp.Seed
			}
		}
	}
	// 1. build the child with the race detector
	bin := filepath.Join(ctx.Out, "c19race")
	build := exec.Command("go", "build", "-race", "-tags", "verif", "-o", bin, "./cmd/c19child")
	build.Dir = harnessDir()
	build.Env = append(os.Environ(), "GOFLAGS=-mod=mod", "GOPROXY=off", "GOSUMDB=off", "GOTOOLCHAIN=local", "CGO_ENABLED=1")
	t0 := time.Now()
	if outb, err := build.CombinedOutput(); err != nil {
		return fmt.Errorf("go build -race of the stress child failed: %v\n%s", err, outb)
	}
	res.Notes = append(res.Notes, fmt.Sprintf("go build -race: %.1fs", time.Since(t0).Seconds()))

	// 1b. the QueuedChannel stress: a plain build for volume (the lost wake-up needs Close to fall into a window of a few
	// nanoseconds; without the race detector 60000 queues take about a second), and a smaller run under the race detector
	plain := filepath.Join(ctx.Out, "c19plain")
	build2 := exec.Command("go", "build", "-tags", "verif", "-o", plain, "./cmd/c19child")
	build2.Dir = harnessDir()
	build2.Env = build.Env
	if outb, err := build2.CombinedOutput(); err != nil {
		return fmt.Errorf("go build of the stress child failed: %v\n%s", err, outb)
	}
	for qi, q := range []struct {
		bin  string
		n    int
		race bool
	}{{plain, ctx.Budget(60000, 600000), false}, {bin, ctx.Budget(6000, 60000), true}} {
		seed := ctx.Seed*1000 + int64(ctx.Rng.Intn(900)) + int64(qi)
		dir := filepath.Join(ctx.Out, fmt.Sprintf("queues%d", qi))
		os.RemoveAll(dir)
		os.MkdirAll(dir, 0o755)
		scen := map[string]interface{}{"queue_stress": true, "seed": seed, "queues": q.n, "race_detector": q.race,
			"how": fmt.Sprintf("c19child -queues %d -queues-only -seed %d -out DIR (built %s -race)", q.n, seed, map[bool]string{true: "with", false: "without"}[q.race])}
		ctx.Current(fmt.Sprintf("queue stress seed=%d n=%d race=%v", seed, q.n, q.race), scen)
		wcsMs := ctx.Budget(800, 5000)
		scen["write_controlled_store_ms"] = wcsMs
		cmd := exec.Command(q.bin, "-queues", fmt.Sprint(q.n), "-wcs-ms", fmt.Sprint(wcsMs), "-queues-only", "-seed", fmt.Sprint(seed), "-out", dir)
		cmd.Env = append(os.Environ(), "GORACE=halt_on_error=0 exitcode=0 history_size=3 log_path="+filepath.Join(dir, "race"))
		outb, werr := cmd.CombinedOutput()
		res.Evaluations++
		var cr childReport
		b, rerr := os.ReadFile(filepath.Join(dir, "child.json"))
		if rerr == nil {
			rerr = json.Unmarshal(b, &cr)
		}
		if m := regexp.MustCompile(`(?m)^(fatal error: .*|panic: .*)$`).FindString(string(outb)); m != "" {
			res.Fail("CRASH "+m, "the queue stress crashed:\n"+tail(string(outb), 6000), scen)
			continue
		}
		if rerr != nil || werr != nil || !cr.Complete {
			res.Infra("queue stress %d: %v / %v: %s", qi, werr, rerr, tail(string(outb), 1500))
			continue
		}
		for _, f := range cr.Failures {
			res.Fail(f.Canonical, f.Detail, scen)
			res.Count("failure:" + f.Kind)
		}
		var rtxt strings.Builder
		files, _ := filepath.Glob(filepath.Join(dir, "race.*"))
		for _, f := range files {
			if b, err := os.ReadFile(f); err == nil {
				rtxt.Write(b)
			}
		}
		rtxt.Write(outb)
		for _, r := range parseRaces(rtxt.String()) {
			a0, a1 := firstNonRuntime(r.acc[0].frames), firstNonRuntime(r.acc[1].frames)
			if isGluon(a0) || isGluon(a1) {
				p := []string{gluonPath(r.acc[0].frames), gluonPath(r.acc[1].frames)}
				sort.Strings(p)
				res.Fail("DATA RACE "+p[0]+" / "+p[1], r.text, scen)
				res.Count("failure:race")
			}
		}
		res.Distribution["queues-closed"] += cr.Stats["queues-closed"]
		res.Distribution["wcs-operations"] += cr.Stats["wcs-operations"]
		res.Nontrivial(fmt.Sprintf("queue-stress race=%v seed=%d", q.race, seed))
	}
	os.Remove(plain)

	nScen := ctx.Budget(3, 12)
	runMs := 2000
	if ctx.Tier == "thorough" {
		runMs = 6000
	}
	var lines []string
	caseID := 0
	hookRaces, harnessRaces := 0, 0
	for i := 0; i < nScen; i++ {
		seed := ctx.Seed*100000 + int64(ctx.Rng.Intn(90000)) + int64(i)
		dir := filepath.Join(ctx.Out, fmt.Sprintf("scen%d", i))
		os.RemoveAll(dir)
		os.MkdirAll(dir, 0o755)
		scen := map[string]interface{}{"seed": seed, "run_ms": runMs, "sessions": 8, "child": "harness/cmd/c19child", "how": fmt.Sprintf("go build -race -tags verif ./cmd/c19child && GORACE=halt_on_error=0 ./c19child -seed %d -run-ms %d -sessions 8 -out DIR", seed, runMs)}
		ctx.Current(fmt.Sprintf("scenario seed=%d", seed), scen)
		args := []string{"-seed", fmt.Sprint(seed), "-out", dir, "-run-ms", fmt.Sprint(runMs), "-sessions", "8"}
		if i%3 == 1 { // one scenario in three runs gluon with its log statements formatted (logrus at debug level)
			args = append(args, "-debuglog")
			scen["debuglog"] = true
			scen["how"] = scen["how"].(string) + " -debuglog"
		}
		cmd := exec.Command(bin, args...)
		cmd.Env = append(os.Environ(), "GORACE=halt_on_error=0 exitcode=0 history_size=3 log_path="+filepath.Join(dir, "race"))
		var stderr strings.Builder
		cmd.Stderr = &stderr
		cmd.Stdout = &stderr
		done := make(chan error, 1)
		if err := cmd.Start(); err != nil {
			return err
		}
		go func() { done <- cmd.Wait() }()
		var werr error
		select {
		case werr = <-done:
		case <-time.After(8 * time.Minute):
			cmd.Process.Kill()
			werr = fmt.Errorf("child did not finish within 8 minutes")
		}
		res.Evaluations++
		var cr childReport
		b, rerr := os.ReadFile(filepath.Join(dir, "child.json"))
		if rerr == nil {
			rerr = json.Unmarshal(b, &cr)
		}
		errOut := stderr.String()
		if m := regexp.MustCompile(`(?m)^(fatal error: .*|panic: .*)$`).FindString(errOut); m != "" {
			// the process died inside gluon (e.g. "concurrent map read and map write" is how an unsynchronised map shows without -race luck)
			res.Fail("CRASH "+m, "the stress child crashed:\n"+tail(errOut, 6000), scen)
			continue
		}
		if rerr != nil || werr != nil {
			res.Infra("scenario %d: child error %v / report %v: %s", i, werr, rerr, tail(errOut, 1500))
			continue
		}
		for k, v := range cr.Scenario {
			scen[k] = v
		}
		for _, f := range cr.Failures {
			res.Fail(f.Canonical, f.Detail, scen)
			res.Count("failure:" + f.Kind)
		}
		if !cr.Complete && len(cr.Failures) == 0 {
			res.Infra("scenario %d did not complete: %v %s", i, cr.Notes, tail(errOut, 1500))
		}
		// race reports
		var rtxt strings.Builder
		files, _ := filepath.Glob(filepath.Join(dir, "race.*"))
		sort.Strings(files)
		for _, f := range files {
			if b, err := os.ReadFile(f); err == nil {
				rtxt.Write(b)
			}
		}
		rtxt.WriteString(errOut)
		for _, r := range parseRaces(rtxt.String()) {
			a0, a1 := firstNonRuntime(r.acc[0].frames), firstNonRuntime(r.acc[1].frames)
			switch {
			case hasFrame(r.acc[0].frames, "verifAfterApply") || hasFrame(r.acc[1].frames, "verifAfterApply") ||
				hasFrame(r.acc[0].frames, "gluon/verifhook.") || hasFrame(r.acc[1].frames, "gluon/verifhook.") ||
				hasFrame(r.acc[0].frames, "verifHoldQueue") || hasFrame(r.acc[1].frames, "verifHoldQueue"):
				// reached only through the verification hooks (build tag verif): not a property of the server
				hookRaces++
			case !isGluon(a0) && !isGluon(a1):
				// both accesses are in the harness' own code (e.g. the scriptable connector closing its channel)
				harnessRaces++
			default:
				p := []string{gluonPath(r.acc[0].frames), gluonPath(r.acc[1].frames)}
				sort.Strings(p)
				res.Fail("DATA RACE "+p[0]+" / "+p[1], r.text, scen)
				res.Count("failure:race")
			}
		}
		for k, v := range cr.Stats {
			if strings.HasPrefix(k, "cmd:") || strings.HasPrefix(k, "end:") || strings.HasPrefix(k, "parked") || k == "push" || k == "sessions" {
				res.Distribution[k] += v
			}
			if strings.HasPrefix(k, "log: ") && !strings.Contains(k, "Command failed") {
				res.Distribution[k] += v
			}
		}
		res.Nontrivial(fmt.Sprintf("late=%v files=%v push=%v seed=%d", cr.Scenario["dial_between_close_and_listener_close"], cr.Scenario["remove_user1_with_files"], cr.Scenario["connector_pushing_during_close"], seed))
		res.Sample(map[string]interface{}{"scenario": scen, "sessions_run": cr.Stats["sessions"], "pushes": cr.Stats["push"], "failures": len(cr.Failures)})
		// the teardown traces for the model: per user what was observed around the close of its database
		for _, t := range cr.Traces {
			caseID++
			lines = append(lines, fmt.Sprintf("mkCase %d %d %d %d %s %s %s", caseID, t.DbOpsAfterClose, t.DbInflightAtClose, t.StoreOpsAfter,
				common.CoqBool(t.StoreBeforeDb), common.CoqBool(t.DbClosed), common.CoqBool(t.ClosedBeforeRet)))
		}
		os.Remove(bin + ".tmp")
	}
	if hookRaces > 0 {
		res.Notes = append(res.Notes, fmt.Sprintf("%d race reports reached only through the verification hook verifAfterApply (it calls Update.String(), which reads ExistsStateUpdate.targetStateID without its lock) were not counted; the same read happens in production when logrus is at debug level", hookRaces))
	}
	if harnessRaces > 0 {
		res.Notes = append(res.Notes, fmt.Sprintf("%d race reports inside the harness' own connector (close of its update channel vs a push) were not counted", harnessRaces))
	}
	res.ModelCases = len(lines)
	os.Remove(bin)
	return common.WriteCases(ctx.Out, "Run.RunC19", "case", lines, "")
}

func tail(s string, n int) string {
	if len(s) > n {
		return s[len(s)-n:]
	}
	return s
}
