(* C09 — the on-disk message store.
   Impl model of /repo/store/disk.go:
     onDiskStore.Set   -> write_file  (header, nonce, LZ4 frame cut into blocks of [bsz] bytes by io.ReadAtLeast,
                                       every block sealed with AES-GCM under the same nonce, no additional data)
     onDiskStore.Get   -> read_file   (header check, nonce, file.Read of at most bsz+ovh bytes per chunk, gcm.Open,
                                       io.Pipe into lz4.Reader.WriteTo; the decompressor pulls chunk after chunk and
                                       stops at the end mark of the frame; with the repair C09-fix-1 running into the
                                       end of the decrypted data is an error)
     Delete / List     -> dir_delete / dir_list (one file per ID in one directory)
   and of store/write_controlled_store.go (per-ID reader/writer lock: Get/Set/Delete of one ID are atomic steps,
   which is how the directory functions below treat them).
   AES-GCM and LZ4 are abstract (Section variables); their assumed behaviour is stated in Proofs/StoreFrameProofs.v.
   No fallback reader is configured (store/fallback.go: `fallback == nil`, as in OnDiskStoreBuilder).
   No proofs in this file. *)
From Coq Require Import List NArith Arith Bool.
Import ListNotations.

Definition byte := N.
Definition bytes := list byte.

Fixpoint bytes_eqb (a b : bytes) : bool :=
  match a, b with
  | [], [] => true
  | x :: a', y :: b' => N.eqb x y && bytes_eqb a' b'
  | _, _ => false
  end.

(* ---------- cutting a byte stream into blocks of n bytes (the last one may be shorter, never empty) ---------- *)
Section Cut.
  Context {A : Type}.
  Fixpoint cut_fuel (f n : nat) (l : list A) : list (list A) :=
    match f with
    | O => []
    | S f' => match l with
              | [] => []
              | _ :: _ => firstn n l :: cut_fuel f' n (skipn n l)
              end
    end.
  (* fuel = length: enough for every n > 0 *)
  Definition cut (n : nat) (l : list A) : list (list A) := cut_fuel (length l) n l.
End Cut.

Fixpoint mapM {A B} (f : A -> option B) (l : list A) : option (list B) :=
  match l with
  | [] => Some []
  | x :: t => match f x, mapM f t with
              | Some y, Some r => Some (y :: r)
              | _, _ => None
              end
  end.

(* what the streaming decompressor says about the bytes it has been given so far *)
Inductive dres :=
| DDone (d : bytes)      (* a complete frame has been read (end mark seen): content d; later bytes are not looked at *)
| DMore                  (* valid so far, the frame is not complete: wants more input *)
| DBad.                  (* not a frame *)

Inductive rres :=
| ROk (d : bytes)
| RErrHeader             (* short or wrong header: "file is not a valid store file" / EOF *)
| RErrNonce              (* "failed to read nonce" *)
| RErrOpen               (* "failed to decrypt block" *)
| RErrDecomp             (* error of the LZ4 reader *)
| RErrTrunc.             (* decrypted data ended before the end of the frame (C09-fix-1) *)

Definition is_err (r : rres) : bool := match r with ROk _ => false | _ => true end.

Section Store.
  Variable key : Type.
  Variable seal : key -> bytes -> bytes -> bytes.            (* gcm.Seal(nil, nonce, plain, nil) *)
  Variable open : key -> bytes -> bytes -> option bytes.     (* gcm.Open(nil, nonce, sealed, nil) *)
  Variable compress : bytes -> bytes.                         (* lz4.Writer, 64 KiB blocks, no checksum: one frame *)
  Variable dec : bytes -> dres.                               (* lz4.Reader on the bytes received so far *)
  Variable hdr : bytes.                                       (* storeHeaderBytes *)
  Variable bsz ovh nlen : nat.                                (* blockSize, gcm.Overhead(), gcm.NonceSize() *)

  (* Set: the blocks written after header and nonce *)
  Definition plain_blocks (s : bytes) : list bytes := cut bsz s.
  Definition frame (k : key) (n : bytes) (s : bytes) : bytes := concat (map (seal k n) (plain_blocks s)).
  Definition write_file (k : key) (n : bytes) (d : bytes) : bytes := hdr ++ n ++ frame k n (compress d).

  (* Get: all-at-once view used for the round trip (every chunk opened, then concatenated) *)
  Definition unframe (k : key) (n : bytes) (body : bytes) : option bytes :=
    option_map (@concat byte) (mapM (open k n) (cut (bsz + ovh) body)).

  (* Get: the pipe between the decrypting goroutine and the decompressor.  The next chunk is read and opened only
     when the decompressor wants more input; acc = decrypted bytes handed over so far. *)
  Fixpoint pump (k : key) (n : bytes) (acc : bytes) (chunks : list bytes) : rres :=
    match dec acc with
    | DDone d => ROk d
    | DBad => RErrDecomp
    | DMore =>
        match chunks with
        | [] => RErrTrunc
        | c :: cs => match open k n c with
                     | None => RErrOpen
                     | Some p => pump k n (acc ++ p) cs
                     end
        end
    end.

  Definition read_file (k : key) (f : bytes) : rres :=
    if length f <? length hdr then RErrHeader
    else if negb (bytes_eqb (firstn (length hdr) f) hdr) then RErrHeader
    else
      let r := skipn (length hdr) f in
      if length r <? nlen then RErrNonce
      else pump k (firstn nlen r) [] (cut (bsz + ovh) (skipn nlen r)).

  (* ---------- the directory: one file per ID ---------- *)
  Definition dir := list (N * bytes).

  Fixpoint dir_get (st : dir) (id : N) : option bytes :=
    match st with
    | [] => None
    | (i, f) :: t => if N.eqb i id then Some f else dir_get t id
    end.
  Fixpoint dir_remove (st : dir) (id : N) : dir :=
    match st with
    | [] => []
    | (i, f) :: t => if N.eqb i id then dir_remove t id else (i, f) :: dir_remove t id
    end.
  (* os.OpenFile(O_CREATE|O_TRUNC): the file of that ID is replaced *)
  Definition dir_set (st : dir) (id : N) (f : bytes) : dir := (id, f) :: dir_remove st id.
  (* os.Remove: error if there is no such file *)
  Definition dir_delete (st : dir) (id : N) : option dir :=
    match dir_get st id with None => None | Some _ => Some (dir_remove st id) end.
  Definition dir_list (st : dir) : list N := map fst st.
  (* onDiskStore.Delete(ids...): one os.Remove after the other; the first error ends the loop and is returned
     (false); the IDs before it are gone, the ones after it are untouched *)
  Fixpoint dir_delete_all (st : dir) (ids : list N) : dir * bool :=
    match ids with
    | [] => (st, true)
    | i :: t => match dir_delete st i with
                | None => (st, false)
                | Some st' => dir_delete_all st' t
                end
    end.

  (* onDiskStore.List on the names found in the directory: every regular file whose name is an ID yields that ID.  A name
     that is not an ID (imap.InternalMessageIDFromString fails: logged) is skipped ([skip], C09-fix-3) or, before that fix,
     listed under the zero ID.  [every] = nothing that parses is filtered (otherwise entries equal to the zero ID are
     dropped).  A file is named id.String(). *)
  Definition list_names {name : Type} (parse : name -> option N) (every skip : bool) (names : list name) : list N :=
    let l := flat_map (fun n => match parse n with Some i => [i] | None => if skip then [] else [0%N] end) names in
    if every then l else filter (fun i => negb (N.eqb i 0)) l.

  Inductive gres := GOk (d : bytes) | GNoFile | GErr (r : rres).

  Definition store_set (k : key) (n : bytes) (st : dir) (id : N) (d : bytes) : dir :=
    dir_set st id (write_file k n d).
  Definition store_get (k : key) (st : dir) (id : N) : gres :=
    match dir_get st id with
    | None => GNoFile
    | Some f => match read_file k f with ROk d => GOk d | r => GErr r end
    end.
End Store.
