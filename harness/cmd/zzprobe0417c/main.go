package main

import (
	"fmt"
	"strings"

	"verifharness/common"
	"verifharness/imapc"
	"verifharness/srv"
)

func show(tag string, r imapc.Result, err error) {
	var u []string
	for _, l := range r.Untagged {
		u = append(u, l.Text)
	}
	fmt.Printf("%-34s -> %s %s | %v | err=%v\n", tag, r.Status, r.Text, strings.Join(u, " ; "), err)
}

func main() {
	s, err := srv.Start(srv.Options{})
	if err != nil {
		panic(err)
	}
	defer s.Stop()
	a, _ := s.Login()
	b, _ := s.Login()
	cmd := func(c *imapc.Client, who, l string) imapc.Result { r, e := c.Cmd(l); show(who+" "+l, r, e); return r }
	cmd(a, "A", "CREATE src")
	cmd(a, "A", "CREATE dst")
	cmd(a, "A", "CREATE dst2")
	for i := 1; i <= 3; i++ {
		r, e := a.Append("src", "", common.Message(fmt.Sprintf("m%d", i), "x"))
		show("A APPEND", r, e)
	}
	cmd(a, "A", "SELECT src")
	cmd(a, "A", "UID COPY 3,1 dst")
	cmd(a, "A", "EXAMINE dst")
	cmd(a, "A", "UID FETCH 1:* (UID BODY.PEEK[HEADER.FIELDS (SUBJECT)])")
	cmd(a, "A", "SELECT src")
	// B expunges uid 2 of src while A keeps its snapshot
	cmd(b, "B", "SELECT src")
	cmd(b, "B", `UID STORE 2 +FLAGS.SILENT (\Deleted)`)
	cmd(b, "B", "UID EXPUNGE 2")
	cmd(a, "A", "UID MOVE 1:3 dst2")
	cmd(a, "A", "EXAMINE dst2")
	cmd(a, "A", "UID FETCH 1:* (UID BODY.PEEK[HEADER.FIELDS (SUBJECT)])")
}
