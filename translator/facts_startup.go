package main

import (
	"fmt"
	"go/ast"
	"go/token"
	"strings"
)

// FactsStartup (C07): the order of the clean-up steps the crash model's [cs_recover] relies on.
//   - internal/backend/user.go newUser: deleteAllMessagesMarkedDeleted is called BEFORE cleanupStaleStoreData (the
//     sweep is the safety net for files the purge's store.Delete loop left behind);
//   - deleteAllMessagesMarkedDeleted and removeState: the database transaction precedes store.Delete;
//   - internal/backend/connector_updates.go applyMessageDeleted: the row is marked with
//     MarkMessageAsDeletedAndAssignRandomRemoteID (a row waiting for the purge cannot be found by remote id again).
func init() { register("Startup", extractStartup) }

// firstCall returns the position of the first call whose selector name is sel inside body (token.NoPos if none).
func firstCall(body ast.Node, sel string) token.Pos {
	pos := token.NoPos
	ast.Inspect(body, func(n ast.Node) bool {
		if pos != token.NoPos {
			return false
		}
		c, ok := n.(*ast.CallExpr)
		if !ok {
			return true
		}
		switch f := c.Fun.(type) {
		case *ast.SelectorExpr:
			if f.Sel.Name == sel {
				pos = c.Pos()
			}
		case *ast.Ident:
			if f.Name == sel {
				pos = c.Pos()
			}
		case *ast.IndexExpr: // generic instantiation f[T](...)
			if s, ok := f.X.(*ast.SelectorExpr); ok && s.Sel.Name == sel {
				pos = c.Pos()
			}
		}
		return true
	})
	return pos
}

func before(a, b token.Pos) string {
	if a == token.NoPos || b == token.NoPos {
		return "" // pattern not found: the definition is omitted and the dependent theorem stops compiling
	}
	if a < b {
		return "true"
	}
	return "false"
}

func extractStartup(t *T) (string, error) {
	var sb strings.Builder
	sb.WriteString("From Coq Require Import Bool.\n\n")
	def := func(name, val, comment string) {
		if val == "" {
			fmt.Fprintf(&sb, "(* %s : pattern not found *)\n", name)
			return
		}
		fmt.Fprintf(&sb, "(* %s *)\nDefinition %s : bool := %s.\n", comment, name, val)
	}
	uf, err := t.ParseFile("internal/backend/user.go")
	if err != nil {
		return "", err
	}
	if nu := FuncDecl(uf, "", "newUser"); nu != nil {
		def("startup_purge_before_sweep", before(firstCall(nu.Body, "deleteAllMessagesMarkedDeleted"), firstCall(nu.Body, "cleanupStaleStoreData")),
			"newUser: deleteAllMessagesMarkedDeleted precedes cleanupStaleStoreData")
	} else {
		def("startup_purge_before_sweep", "", "")
	}
	if fd := FuncDecl(uf, "user", "deleteAllMessagesMarkedDeleted"); fd != nil {
		def("startup_rows_before_files", before(firstCall(fd.Body, "DeleteMessages"), firstCall(fd.Body, "Delete")),
			"deleteAllMessagesMarkedDeleted: the rows are deleted (transaction) before the cache files")
	} else {
		def("startup_rows_before_files", "", "")
	}
	if fd := FuncDecl(uf, "user", "removeState"); fd != nil {
		def("session_end_rows_before_files", before(firstCall(fd.Body, "DeleteMessages"), firstCall(fd.Body, "Delete")),
			"removeState: the rows are deleted (transaction) before the cache files")
	} else {
		def("session_end_rows_before_files", "", "")
	}
	cf, err := t.ParseFile("internal/backend/connector_updates.go")
	if err != nil {
		return "", err
	}
	if fd := FuncDecl(cf, "user", "applyMessageDeleted"); fd != nil {
		v := "false"
		if firstCall(fd.Body, "MarkMessageAsDeletedAndAssignRandomRemoteID") != token.NoPos &&
			firstCall(fd.Body, "MarkMessageAsDeleted") == token.NoPos && firstCall(fd.Body, "MarkMessageAsDeletedWithRemoteID") == token.NoPos {
			v = "true"
		}
		def("conn_delete_releases_remote_id", v, "applyMessageDeleted marks the row with MarkMessageAsDeletedAndAssignRandomRemoteID only")
	} else {
		def("conn_delete_releases_remote_id", "", "")
	}
	return sb.String(), nil
}
