(* C13 — partial fetch <o.n> and literal framing.
   Impl model of: internal/response/item_body_literal.go itemBodyLiteral.WithPartial — the decision code itself is
   NOT written here: it is Gen/FactsPartial.with_partial_code, regenerated from the Go source on every check (T1) —
   and of itemBodyLiteral.String / itemRFC822Literal.String (`{len}CRLF` followed by the bytes).
   Go slice expressions are modelled with their run-time check (None = "slice bounds out of range" panic).
   No proofs in this file. *)
From Coq Require Import List ZArith NArith Bool.
From Gluon Require Import Base.DecBytes Gen.FactsPartial.
From Gluon Require Export Model.LiteralFrame.
Import ListNotations.

Definition max_int64 : Z := 9223372036854775807.

(* lit[lo:hi] for a slice whose capacity is its length; None = panic *)
Definition go_slice (lit : bytes) (lo hi : Z) : option bytes :=
  if ((0 <=? lo) && (lo <=? hi) && (hi <=? Z.of_nat (length lit)))%Z
  then Some (firstn (Z.to_nat (hi - lo)) (skipn (Z.to_nat lo) lit)) else None.

Definition apply_sel (lit : bytes) (s : psel) : option bytes :=
  match s with
  | PNil => Some []
  | PKeep => Some lit
  | PSlice lo hi => go_slice lit lo hi
  end.

(* item.WithPartial(int(o), int(n)); the literal that is then written.  None = the process panics. *)
Definition with_partial (lit : bytes) (o n : Z) : option bytes :=
  apply_sel lit (with_partial_code (Z.of_nat (length lit)) o n).

(* what the property demands: octets o .. o+n-1 of the section, clipped at its end *)
Definition spec_partial (lit : bytes) (o n : Z) : bytes := firstn (Z.to_nat n) (skipn (Z.to_nat o) lit).

