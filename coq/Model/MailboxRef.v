(* MailboxRef — reference semantics of the message commands APPEND, STORE (+FLAGS, -FLAGS, FLAGS),
   EXPUNGE / UID EXPUNGE / CLOSE, COPY and MOVE (property C03).  No code is modelled here: this is the
   specification that Model/MailboxActions.v (the model of /repo/internal/state/{mailbox,actions,updates,
   updates_mailbox}.go over the relational index) is proved to refine in Props/C03.v.

   The reference state is what a fresh session can see plus the message entities:
     - per mailbox: the next UID to hand out and the ordered list of (uid, message, \Deleted, \Recent);
       \Deleted and \Recent belong to the (mailbox, message) pair;
     - per message entity: a set of flags shared by all mailboxes that hold the message; flag names are
       case-insensitive (the set is kept as the list of spellings, membership compares lower-cased names);
     - message entities outlive mailbox membership (as in the code: the row in `messages_v2` stays until purged).
   The bytes of a message are the entity itself (its number); APPEND creates a new entity.

   Commands carry RESOLVED targets: the acting session's view (which message entities a sequence set denotes in
   that session, each once — C16 —, in the order in which the server hands them to the index: Mailbox.Copy / Mailbox.Move
   sort the selection by ascending UID since /repo b3397cc; for the other commands the order does not matter) is an input, because a session may still
   see a message that another session has expunged.  Semantics of such stale targets: STORE changes the shared
   flags only; COPY lets the entity re-enter the destination under a new UID; MOVE and EXPUNGE ignore it.

   Non-standard but documented gluon behaviour kept in the reference: `$Forwarded` and `Forwarded` are aliases
   (naming one names both); a message is in a mailbox at most once, so COPY/MOVE of a message that the destination
   already holds gives that message a new UID at the end of the destination (its old entry disappears). *)
From Coq Require Import String Ascii.
From Coq Require Import List NArith Bool.
From Gluon Require Import Model.RelDb.
Import ListNotations.
Open Scope list_scope.
Open Scope N_scope.

Record rrow := mkRR { rr_uid : N; rr_msg : N; rr_deleted : bool; rr_recent : bool }.
Record rbox := mkRB { rb_id : N; rb_last : N (* last UID handed out *); rb_rows : list rrow }.
Record ref := mkRef {
  rf_boxes : list rbox;
  rf_msgs : list N;               (* message entities that exist *)
  rf_flags : list (N * flag)      (* (message, flag spelling) *)
}.
Definition empty_ref : ref := mkRef [] [] [].

Inductive store_action := SAdd | SRemove | SSet.

Inductive cmd :=
| CAppend (box msg : N) (flags : list flag)                 (* msg: the new entity *)
| CStore (box : N) (act : store_action) (flags : list flag) (targets : list N)
| CExpunge (box : N) (targets : list N)                     (* EXPUNGE, UID EXPUNGE, CLOSE: targets = what the session sees as \Deleted (within the UID set) *)
| CCopy (src dst : N) (targets : list N)
| CMove (src dst : N) (targets : list N)
| CClearRecent (box : N).                                   (* environment: SELECT clears \Recent *)

(* ---- flags ---- *)
Definition deleted_flag : flag := deleted_flag_name.
Definition recent_flag : flag := recent_flag_name.
Definition fwd_flags : list flag := ["$Forwarded"%string; "Forwarded"%string].

Definition has_ci (f : flag) (l : list flag) : bool := fmem_ci f l.
(* naming one forward flag names both *)
Definition fwd_expand (fs : list flag) : list flag :=
  if existsb (fun f => has_ci f fs) fwd_flags then fs ++ filter (fun f => negb (has_ci f fs)) fwd_flags else fs.
Definition without_deleted (fs : list flag) : list flag := filter (fun f => negb (flag_eqb_ci f deleted_flag)) fs.
(* the spellings of a flag list without case-insensitive repetitions (imap.FlagSet keeps the first spelling) *)
Fixpoint dedup_ci (fs : list flag) : list flag :=
  match fs with
  | [] => []
  | f :: t => f :: filter (fun g => negb (flag_eqb_ci g f)) (dedup_ci t)
  end.

Definition ref_has_flag (r : ref) (m : N) (f : flag) : bool :=
  existsb (fun p => N.eqb (fst p) m && flag_eqb_ci (snd p) f) (rf_flags r).

Definition rf_add_flag (targets : list N) (f : flag) (fl : list (N * flag)) : list (N * flag) :=
  fold_left (fun acc m => if existsb (fun p => N.eqb (fst p) m && flag_eqb_ci (snd p) f) acc then acc else acc ++ [(m, f)]) targets fl.
Definition rf_remove_flag (targets : list N) (f : flag) (fl : list (N * flag)) : list (N * flag) :=
  filter (fun p => negb (nmem (fst p) targets && flag_eqb_ci (snd p) f)) fl.
Definition rf_set_flags (targets : list N) (fs : list flag) (fl : list (N * flag)) : list (N * flag) :=
  fold_left (fun acc f => rf_add_flag targets f acc) fs
            (filter (fun p => negb (nmem (fst p) targets)) fl).

(* ---- mailboxes ---- *)
Definition find_rbox (b : N) (r : ref) : option rbox := find (fun x => N.eqb (rb_id x) b) (rf_boxes r).
Definition put_rbox (x : rbox) (l : list rbox) : list rbox := map (fun y => if N.eqb (rb_id y) (rb_id x) then x else y) l.
Definition set_boxes (r : ref) (l : list rbox) : ref := mkRef l (rf_msgs r) (rf_flags r).
Definition set_rflags (r : ref) (l : list (N * flag)) : ref := mkRef (rf_boxes r) (rf_msgs r) l.

Definition rb_remove (ms : list N) (x : rbox) : rbox :=
  mkRB (rb_id x) (rb_last x) (filter (fun e => negb (nmem (rr_msg e) ms)) (rb_rows x)).
(* the messages enter at the end, one new UID each, in the given order; not \Deleted, \Recent *)
Fixpoint rb_append (ms : list N) (x : rbox) : rbox :=
  match ms with
  | [] => x
  | m :: t => rb_append t (mkRB (rb_id x) (rb_last x + 1) (rb_rows x ++ [mkRR (rb_last x + 1) m false true]))
  end.
Definition rb_set_deleted (ms : list N) (v : bool) (x : rbox) : rbox :=
  mkRB (rb_id x) (rb_last x) (map (fun e => if nmem (rr_msg e) ms then mkRR (rr_uid e) (rr_msg e) v (rr_recent e) else e) (rb_rows x)).
(* EXPUNGE removes the named messages that are \Deleted in this mailbox, and only those *)
Definition rb_expunge (ms : list N) (x : rbox) : rbox :=
  mkRB (rb_id x) (rb_last x) (filter (fun e => negb (nmem (rr_msg e) ms && rr_deleted e)) (rb_rows x)).
Definition rb_holds (x : rbox) (m : N) : bool := existsb (fun e => N.eqb (rr_msg e) m) (rb_rows x).

Inductive outcome := OK | NO.

(* the flag list of a STORE as the server reads it: forward aliases expanded, \Deleted taken out (it is handled per
   mailbox), one spelling per name *)
Definition norm_store_flags (fs : list flag) : list flag := dedup_ci (without_deleted (fwd_expand fs)).

(* Well-formed input: targets are existing entities without repetition (a session can only name what it once saw,
   and a message set selects each message once — C16); an appended message is a new entity. *)
Fixpoint nodupb (l : list N) : bool := match l with [] => true | x :: t => negb (nmem x t) && nodupb t end.
Definition targets_ok (r : ref) (ts : list N) : bool := nodupb ts && forallb (fun m => nmem m (rf_msgs r)) ts.
(* EXPUNGE: what the session sees as \Deleted is \Deleted in the mailbox (for the messages the mailbox still
   holds).  This fails for a session whose view still shows the old, \Deleted instance of a message that was copied or
   moved onto its own mailbox (finding C03-expunge-removes-readded-message, Props/C03.v `_refuted`). *)
Definition expunge_view_ok (r : ref) (b : N) (ts : list N) : bool :=
  match find (fun x => N.eqb (rb_id x) b) (rf_boxes r) with
  | None => true
  | Some x => forallb (fun e => negb (nmem (rr_msg e) ts) || rr_deleted e) (rb_rows x)
  end.
Definition cmd_wf (c : cmd) (r : ref) : bool :=
  match c with
  | CAppend _ m _ => negb (nmem m (rf_msgs r))
  | CExpunge b ts => targets_ok r ts && expunge_view_ok r b ts
  | CStore _ _ _ ts | CCopy _ _ ts | CMove _ _ ts => targets_ok r ts
  | CClearRecent _ => true
  end.

Definition ref_step (c : cmd) (r : ref) : ref * outcome :=
  match c with
  | CAppend b m fs =>
    match find_rbox b r with
    | None => (r, NO)
    | Some x =>
      if has_ci recent_flag fs then (r, NO)
      else
        let x1 := rb_append [m] x in
        let x2 := if has_ci deleted_flag fs then rb_set_deleted [m] true x1 else x1 in
        (mkRef (put_rbox x2 (rf_boxes r)) (rf_msgs r ++ [m])
               (rf_flags r ++ map (fun f => (m, f)) (dedup_ci (without_deleted fs))), OK)
    end
  | CStore b act fs ts =>
    match find_rbox b r with
    | None => (r, NO)
    | Some x =>
      if has_ci recent_flag fs then (r, NO)
      else
        let fs' := norm_store_flags fs in
        let del := has_ci deleted_flag fs in
        match act with
        | SAdd =>
          let x' := if del then rb_set_deleted ts true x else x in
          (mkRef (put_rbox x' (rf_boxes r)) (rf_msgs r) (fold_left (fun acc f => rf_add_flag ts f acc) fs' (rf_flags r)), OK)
        | SRemove =>
          let x' := if del then rb_set_deleted ts false x else x in
          (mkRef (put_rbox x' (rf_boxes r)) (rf_msgs r) (fold_left (fun acc f => rf_remove_flag ts f acc) fs' (rf_flags r)), OK)
        | SSet =>
          let x' := rb_set_deleted ts del x in
          (mkRef (put_rbox x' (rf_boxes r)) (rf_msgs r) (rf_set_flags ts fs' (rf_flags r)), OK)
        end
    end
  | CExpunge b ts =>
    match find_rbox b r with
    | None => (r, NO)
    | Some x => (set_boxes r (put_rbox (rb_expunge ts x) (rf_boxes r)), OK)
    end
  | CCopy s d ts =>
    match find_rbox s r, find_rbox d r with
    | Some _, Some y => (set_boxes r (put_rbox (rb_append ts (rb_remove ts y)) (rf_boxes r)), OK)
    | _, _ => (r, NO)
    end
  | CMove s d ts =>
    match find_rbox s r, find_rbox d r with
    | Some x, Some y =>
        let moved := filter (rb_holds x) ts in
        if N.eqb s d then (set_boxes r (put_rbox (rb_append moved (rb_remove moved x)) (rf_boxes r)), OK)
        else (set_boxes r (put_rbox (rb_append moved (rb_remove moved y)) (put_rbox (rb_remove moved x) (rf_boxes r))), OK)
    | _, _ => (r, NO)
    end
  | CClearRecent b =>
    match find_rbox b r with
    | None => (r, NO)
    | Some x => (set_boxes r (put_rbox (mkRB (rb_id x) (rb_last x)
                   (map (fun e => mkRR (rr_uid e) (rr_msg e) (rr_deleted e) false) (rb_rows x))) (rf_boxes r)), OK)
    end
  end.

Fixpoint run_spec (cs : list cmd) (r : ref) : ref :=
  match cs with [] => r | c :: t => run_spec t (fst (ref_step c r)) end.

(* every command of the run is well-formed in the state in which it is issued *)
Fixpoint run_wf (cs : list cmd) (r : ref) : bool :=
  match cs with [] => true | c :: t => cmd_wf c r && run_wf t (fst (ref_step c r)) end.
