(* Correspondence runner for C11: the harness sends a byte stream to a real server (child process), half-closes the
   connection and records every completion result line ("<tag> OK|NO|BAD ...") until the server closes.  The ServeLoop
   model predicts the same list from the same bytes; `mismatches` lists the ids where they differ. *)
From Coq Require Import List NArith Bool String.
From Gluon Require Export Base.ImapHex Gen.FactsTokens Model.ImapTokens Model.ImapGrammar Model.ServeLoop Model.ImapCollector.
Import ListNotations.
Open Scope N_scope.

(* observed status: 0 = BAD, 1 = NO, 2 = OK *)
(* a session case (c_tls: the server had a TLS configuration) or a drive of the real InputCollector: the operations as the
   collector saw them and what Bytes() returned afterwards *)
Inductive case :=
| mkCase (c_id : N) (c_tls : bool) (c_in : bytes) (c_obs : list (bytes * N))
| mkColl (c_id : N) (ops : list cop) (observed : bytes).

Definition c_id (c : case) : N := match c with mkCase i _ _ _ => i | mkColl i _ _ => i end.

(* the harness' server has one user: user / pass *)
Definition login_ok (u p : bytes) : bool := bytes_eqb u (s2b "user"%string) && bytes_eqb p (s2b "pass"%string).

Definition status_ok (s : status) (o : N) : bool :=
  match s with SBad => o =? 0 | SNo => o =? 1 | SOk => o =? 2 | SAny => true end.

Fixpoint events_ok (evs : list event) (obs : list (bytes * N)) : bool :=
  match evs, obs with
  | [], [] => true
  | EvDone t s :: evs', (t', o) :: obs' => bytes_eqb t t' && status_ok s o && events_ok evs' obs'
  | _, _ => false
  end.

Definition case_ok (c : case) : bool :=
  match c with
  | mkCase _ tls inp obs =>
      match serve_stream login_ok tls inp with
      | (evs, EndClosed) => events_ok (completions evs) obs
      | _ => false
      end
  | mkColl _ ops observed => bytes_eqb (collected ops) observed
  end.

Definition mismatches (cs : list case) : list nat :=
  map (fun c => N.to_nat (c_id c)) (filter (fun c => negb (case_ok c)) cs).
