package main

import (
	"bytes"
	"fmt"
	"go/ast"
	"go/token"
	"os"
	"path/filepath"
	"strconv"
	"strings"
	"time"

	"github.com/ProtonMail/gluon/imap"
	"github.com/ProtonMail/gluon/store"
)

// FactsStore (C09): the framing constants of store/disk.go.
//   - blockSize, storeVersion, StoreHeaderID and the shape of the header (go/ast over store/disk.go);
//   - nonce size and ciphertext expansion of the AEAD returned by the real store.NewCipher (executed);
//   - structural facts about Set/Get: one nonce per file (drawn before the block loop), no additional data in Seal/Open,
//     Set cuts with io.ReadAtLeast(.., blockSize), Get reads chunks of getEncryptedBlockSize(gcm, blockSize) =
//     blockSize + Overhead(), no Fallback installed by OnDiskStoreBuilder;
//   - executed: what Get answers for a file that ends after header and nonce (the shortest possible truncation at a
//     block boundary).
func init() { register("Store", extractStore) }

func evalConstInt(e ast.Expr, env map[string]int64) (int64, bool) {
	switch x := e.(type) {
	case *ast.BasicLit:
		if x.Kind == token.INT {
			v, err := strconv.ParseInt(x.Value, 0, 64)
			return v, err == nil
		}
	case *ast.ParenExpr:
		return evalConstInt(x.X, env)
	case *ast.Ident:
		v, ok := env[x.Name]
		return v, ok
	case *ast.CallExpr: // conversions like uint32(1), int(…)
		if id, ok := x.Fun.(*ast.Ident); ok && len(x.Args) == 1 {
			switch id.Name {
			case "int", "int32", "int64", "uint", "uint32", "uint64":
				return evalConstInt(x.Args[0], env)
			}
		}
	case *ast.BinaryExpr:
		a, ok1 := evalConstInt(x.X, env)
		b, ok2 := evalConstInt(x.Y, env)
		if !ok1 || !ok2 {
			return 0, false
		}
		switch x.Op {
		case token.MUL:
			return a * b, true
		case token.ADD:
			return a + b, true
		case token.SUB:
			return a - b, true
		case token.QUO:
			if b == 0 {
				return 0, false
			}
			return a / b, true
		case token.SHL:
			return a << uint(b), true
		}
	}
	return 0, false
}

func isNilIdent(e ast.Expr) bool {
	id, ok := e.(*ast.Ident)
	return ok && id.Name == "nil"
}

func extractStore(t *T) (string, error) {
	const rel = "store/disk.go"
	f, err := t.ParseFile(rel)
	if err != nil {
		return "", err
	}
	env := map[string]int64{}
	strConsts := map[string]string{}
	collectConsts := func(decls []ast.Spec) {
		for _, sp := range decls {
			vs, ok := sp.(*ast.ValueSpec)
			if !ok {
				continue
			}
			for i, n := range vs.Names {
				if i >= len(vs.Values) {
					continue
				}
				if v, ok := evalConstInt(vs.Values[i], env); ok {
					env[n.Name] = v
				}
				if bl, ok := vs.Values[i].(*ast.BasicLit); ok && bl.Kind == token.STRING {
					if s, err := strconv.Unquote(bl.Value); err == nil {
						strConsts[n.Name] = s
					}
				}
			}
		}
	}
	ast.Inspect(f, func(n ast.Node) bool {
		if gd, ok := n.(*ast.GenDecl); ok && gd.Tok == token.CONST {
			collectConsts(gd.Specs)
		}
		return true
	})
	blockSize, ok := env["blockSize"]
	if !ok || blockSize <= 0 {
		return "", fmt.Errorf("const blockSize not found in %s", rel)
	}
	version, ok := env["storeVersion"]
	if !ok {
		return "", fmt.Errorf("const storeVersion not found")
	}
	hid, ok := strConsts["StoreHeaderID"]
	if !ok {
		return "", fmt.Errorf("const StoreHeaderID not found")
	}
	// header = append([]byte(StoreHeaderID), version...) with version = make([]byte, 4) filled by LittleEndian.PutUint32
	mk := FuncDecl(f, "", "makeGluonHeaderBytes")
	if mk == nil {
		return "", fmt.Errorf("makeGluonHeaderBytes not found")
	}
	verLen := int64(-1)
	little := false
	appendShape := false
	ast.Inspect(mk.Body, func(n ast.Node) bool {
		call, ok := n.(*ast.CallExpr)
		if !ok {
			return true
		}
		if id, ok := call.Fun.(*ast.Ident); ok && id.Name == "make" && len(call.Args) == 2 {
			if v, ok := evalConstInt(call.Args[1], env); ok {
				verLen = v
			}
		}
		if id, ok := call.Fun.(*ast.Ident); ok && id.Name == "append" && len(call.Args) == 2 && call.Ellipsis.IsValid() {
			if strings.Contains(t.Src(rel, call.Args[0]), "StoreHeaderID") {
				appendShape = true
			}
		}
		if sel, ok := call.Fun.(*ast.SelectorExpr); ok && sel.Sel.Name == "PutUint32" {
			if strings.Contains(t.Src(rel, sel.X), "LittleEndian") {
				little = true
			}
		}
		return true
	})
	if verLen != 4 || !little || !appendShape {
		return "", fmt.Errorf("makeGluonHeaderBytes has an unexpected shape (verLen=%d little=%v append=%v)", verLen, little, appendShape)
	}
	header := []byte(hid)
	for i := 0; i < 4; i++ {
		header = append(header, byte(uint32(version)>>(8*uint(i))))
	}

	// Set: nonce drawn once before the loop; Seal(.., nonce, .., nil); ReadAtLeast(.., blockSize)
	set := FuncDecl(f, "onDiskStore", "Set")
	get := FuncDecl(f, "onDiskStore", "Get")
	if set == nil || get == nil {
		return "", fmt.Errorf("onDiskStore.Set/Get not found")
	}
	sealNilAAD, sealInLoop, nonceOutsideLoop, readAtLeastBlock := false, false, false, false
	var setLoop *ast.ForStmt
	for _, st := range set.Body.List {
		if fs, ok := st.(*ast.ForStmt); ok {
			setLoop = fs
		}
	}
	if setLoop == nil {
		return "", fmt.Errorf("Set: block loop not found")
	}
	ast.Inspect(set.Body, func(n ast.Node) bool {
		as, ok := n.(*ast.AssignStmt)
		if !ok || len(as.Lhs) != 1 || len(as.Rhs) != 1 {
			return true
		}
		if id, ok := as.Lhs[0].(*ast.Ident); ok && id.Name == "nonce" {
			if as.Pos() < setLoop.Pos() {
				nonceOutsideLoop = true
			} else {
				nonceOutsideLoop = false
			}
		}
		return true
	})
	ast.Inspect(setLoop, func(n ast.Node) bool {
		call, ok := n.(*ast.CallExpr)
		if !ok {
			return true
		}
		if sel, ok := call.Fun.(*ast.SelectorExpr); ok {
			if sel.Sel.Name == "Seal" && len(call.Args) == 4 {
				sealInLoop = true
				if id, ok := call.Args[1].(*ast.Ident); ok && id.Name == "nonce" && isNilIdent(call.Args[3]) {
					sealNilAAD = true
				}
			}
			if sel.Sel.Name == "ReadAtLeast" && len(call.Args) == 3 {
				if v, ok := evalConstInt(call.Args[2], env); ok && v == blockSize {
					readAtLeastBlock = true
				}
			}
		}
		return true
	})
	openNilAAD, readBufEnc := false, false
	ast.Inspect(get.Body, func(n ast.Node) bool {
		switch x := n.(type) {
		case *ast.CallExpr:
			if sel, ok := x.Fun.(*ast.SelectorExpr); ok && sel.Sel.Name == "Open" && len(x.Args) == 4 {
				if id, ok := x.Args[1].(*ast.Ident); ok && id.Name == "nonce" && isNilIdent(x.Args[3]) {
					openNilAAD = true
				}
			}
		case *ast.AssignStmt:
			if len(x.Lhs) == 1 && len(x.Rhs) == 1 {
				if id, ok := x.Lhs[0].(*ast.Ident); ok && id.Name == "readBuffer" {
					src := t.Src(rel, x.Rhs[0])
					if strings.Contains(src, "make([]byte") && strings.Contains(src, "encryptedBlockSize") {
						readBufEnc = true
					}
				}
			}
		}
		return true
	})
	encSizeOK := false
	if g := FuncDecl(f, "", "getEncryptedBlockSize"); g != nil && len(g.Body.List) == 1 {
		if rs, ok := g.Body.List[0].(*ast.ReturnStmt); ok && len(rs.Results) == 1 {
			src := strings.ReplaceAll(t.Src(rel, rs.Results[0]), " ", "")
			if src == "blockSize+aead.Overhead()" || src == "aead.Overhead()+blockSize" {
				encSizeOK = true
			}
		}
	}
	encUsesBlockSize := false
	ast.Inspect(get.Body, func(n ast.Node) bool {
		if call, ok := n.(*ast.CallExpr); ok {
			if id, ok := call.Fun.(*ast.Ident); ok && id.Name == "getEncryptedBlockSize" && len(call.Args) == 2 {
				if v, ok := evalConstInt(call.Args[1], env); ok && v == blockSize {
					encUsesBlockSize = true
				}
			}
		}
		return true
	})
	builderNoFallback := false
	if b := FuncDecl(f, "OnDiskStoreBuilder", "New"); b != nil {
		src := t.Src(rel, b.Body)
		builderNoFallback = strings.Contains(src, "NewOnDiskStore(storePath, passphrase)")
	}

	// executed facts
	gcm, err := store.NewCipher([]byte("srcfacts"))
	if err != nil {
		return "", err
	}
	nonceLen, overhead := gcm.NonceSize(), gcm.Overhead()

	tmp, err := os.MkdirTemp("", "srcfacts-store-*")
	if err != nil {
		return "", err
	}
	defer os.RemoveAll(tmp)
	st, err := store.NewOnDiskStore(tmp, []byte("srcfacts"))
	if err != nil {
		return "", err
	}
	id := imap.NewInternalMessageID()
	if err := st.Set(id, bytes.NewReader([]byte("content"))); err != nil {
		return "", err
	}
	p := filepath.Join(tmp, id.String())
	fb, err := os.ReadFile(p)
	if err != nil {
		return "", err
	}
	headerOnDisk := len(fb) >= len(header) && bytes.Equal(fb[:len(header)], header)
	cut := len(header) + nonceLen
	if len(fb) <= cut {
		return "", fmt.Errorf("store file shorter than header+nonce")
	}
	if err := os.WriteFile(p, fb[:cut], 0o600); err != nil {
		return "", err
	}
	// the call runs under a watchdog: a Get that does not return is not a Get that rejects
	type getRes struct {
		b   []byte
		err error
	}
	getCh := make(chan getRes, 1)
	go func() {
		b, err := st.Get(id)
		getCh <- getRes{b, err}
	}()
	rejectsNoBlocks, getReturns := false, true
	select {
	case r := <-getCh:
		rejectsNoBlocks = r.err != nil
	case <-time.After(10 * time.Second):
		getReturns = false
	}

	// ---- store/write_controlled_store.go: the per-message lock table ----
	const wrel = "store/write_controlled_store.go"
	wf, err := t.ParseFile(wrel)
	if err != nil {
		return "", err
	}
	// position of the first top-level `w.lock.Lock()` statement followed by `defer w.lock.Unlock()` in a function body
	topLock := func(fd *ast.FuncDecl) token.Pos {
		for i, st := range fd.Body.List {
			if normSrc(t.Src(wrel, st)) == "w.lock.Lock()" && i+1 < len(fd.Body.List) &&
				normSrc(t.Src(wrel, fd.Body.List[i+1])) == "defer w.lock.Unlock()" {
				return st.Pos()
			}
		}
		return token.NoPos
	}
	relDecUnderLock, relKnown, relDeletesAndPuts := false, false, false
	if fd := FuncDecl(wf, "WriteControlledStore", "releaseSyncRef"); fd != nil {
		lockPos := topLock(fd)
		var decPos token.Pos
		ast.Inspect(fd.Body, func(n ast.Node) bool {
			if call, ok := n.(*ast.CallExpr); ok && decPos == token.NoPos {
				if normSrc(t.Src(wrel, call)) == "atomic.AddInt32(&ref.counter, -1)" {
					decPos = call.Pos()
				}
			}
			return true
		})
		if decPos != token.NoPos {
			relKnown = true
			relDecUnderLock = lockPos != token.NoPos && lockPos < decPos
		}
		src := normSrc(t.Src(wrel, fd.Body))
		relDeletesAndPuts = strings.Contains(src, "delete(w.entryTable, id) w.lockPool.Put(ref)")
	}
	if !relKnown {
		return "", fmt.Errorf("releaseSyncRef: the decrement of the counter was not recognised")
	}
	acqUnderLock, acqResets, acqIncrements, poolNewOne := false, false, false, false
	if fd := FuncDecl(wf, "WriteControlledStore", "acquireSyncRef"); fd != nil {
		lockPos := topLock(fd)
		acqUnderLock = lockPos != token.NoPos && len(fd.Body.List) > 0 && fd.Body.List[0].Pos() == lockPos
		src := normSrc(t.Src(wrel, fd.Body))
		iReset := strings.Index(src, "v.counter = 1")
		iIns := strings.Index(src, "w.entryTable[id] = v")
		acqResets = iReset >= 0 && iIns >= 0 && iReset < iIns
		acqIncrements = strings.Contains(src, "atomic.AddInt32(&v.counter, 1) return v")
	}
	if fd := FuncDecl(wf, "", "NewWriteControlledStore"); fd != nil {
		poolNewOne = strings.Contains(normSrc(t.Src(wrel, fd.Body)), "return &syncRef{counter: 1}")
	}
	// Get / Set / Delete: acquire; defer release; take the object's RWMutex; defer its unlock (runs before the release)
	opsShape := true
	for _, o := range []struct{ fn, lock, unlock string }{
		{"Get", "syncRef.lock.RLock()", "defer syncRef.lock.RUnlock()"},
		{"Set", "syncRef.lock.Lock()", "defer syncRef.lock.Unlock()"},
		{"Delete", "syncRef.lock.Lock()", "defer syncRef.lock.Unlock()"},
	} {
		fd := FuncDecl(wf, "WriteControlledStore", o.fn)
		if fd == nil {
			opsShape = false
			continue
		}
		src := normSrc(t.Src(wrel, fd.Body))
		i1 := strings.Index(src, "syncRef := w.acquireSyncRef(")
		i2 := strings.Index(src, "defer w.releaseSyncRef(")
		i3 := strings.Index(src, o.lock)
		i4 := strings.Index(src, o.unlock)
		i5 := strings.Index(src, "return w.impl."+o.fn+"(")
		if !(i1 >= 0 && i1 < i2 && i2 < i3 && i3 < i4 && i4 < i5) {
			opsShape = false
		}
	}

	// every acquireSyncRef(x) in Get/Set/Delete is paired with releaseSyncRef(x, ref): same ID expression
	relSameID := true
	for _, fn := range []string{"Get", "Set", "Delete"} {
		fd := FuncDecl(wf, "WriteControlledStore", fn)
		if fd == nil {
			relSameID = false
			continue
		}
		var acq, rel []string
		ast.Inspect(fd.Body, func(n ast.Node) bool {
			call, ok := n.(*ast.CallExpr)
			if !ok {
				return true
			}
			if sel, ok := call.Fun.(*ast.SelectorExpr); ok {
				if sel.Sel.Name == "acquireSyncRef" && len(call.Args) == 1 {
					acq = append(acq, normSrc(t.Src(wrel, call.Args[0])))
				}
				if sel.Sel.Name == "releaseSyncRef" && len(call.Args) == 2 {
					rel = append(rel, normSrc(t.Src(wrel, call.Args[0])))
				}
			}
			return true
		})
		if len(acq) != 1 || len(rel) != 1 || acq[0] != rel[0] {
			relSameID = false
		}
	}
	// Delete(ids...) of the wrapper: one acquire/lock/impl.Delete(id)/unlock/release per ID inside a range loop;
	// DeleteUnchecked hands the whole batch to the wrapped store
	wcsDeleteLoop, uncheckedForwards := false, false
	if fd := FuncDecl(wf, "WriteControlledStore", "Delete"); fd != nil && len(fd.Body.List) == 2 {
		if rs, ok := fd.Body.List[0].(*ast.RangeStmt); ok {
			src := normSrc(t.Src(wrel, rs.Body))
			wcsDeleteLoop = strings.Contains(src, "return w.impl.Delete(id)") && strings.Contains(src, "}(); err != nil { return err }")
		}
	}
	if fd := FuncDecl(wf, "WriteControlledStore", "DeleteUnchecked"); fd != nil {
		uncheckedForwards = normSrc(t.Src(wrel, fd.Body)) == "{ return w.impl.Delete(messageIDs...) }"
	}
	// onDiskStore.Delete: inside the loop over the IDs the only way out is `return err` of a failed os.Remove
	diskDeleteStops := false
	if fd := FuncDecl(f, "onDiskStore", "Delete"); fd != nil {
		for _, st := range fd.Body.List {
			rs, ok := st.(*ast.RangeStmt)
			if !ok {
				continue
			}
			okShape := strings.Contains(normSrc(t.Src(rel, rs.Body)), "os.Remove(filepath.Join(c.path, messageID.String()))")
			ast.Inspect(rs.Body, func(n ast.Node) bool {
				switch x := n.(type) {
				case *ast.ReturnStmt:
					if len(x.Results) != 1 || normSrc(t.Src(rel, x.Results[0])) != "err" {
						okShape = false
					}
				case *ast.BranchStmt: // continue / break / goto inside the loop
					okShape = false
				}
				return true
			})
			diskDeleteStops = okShape
		}
	}

	// onDiskStore.List: every regular file of the directory yields one entry (a name that does not parse is logged and
	// yields the zero ID); nothing that parses is dropped
	listAppendsEvery, listSkipsOnlyDirs, listSkipsUnparsable := false, false, false
	if fd := FuncDecl(f, "onDiskStore", "List"); fd != nil {
		ast.Inspect(fd.Body, func(n ast.Node) bool {
			fl, ok := n.(*ast.FuncLit)
			if !ok {
				return true
			}
			okSoFar, seenAppend, seenParse := true, false, false
			for _, st := range fl.Body.List {
				src := normSrc(t.Src(rel, st))
				if seenAppend {
					continue
				}
				switch x := st.(type) {
				case *ast.IfStmt:
					cond := normSrc(t.Src(rel, x.Cond))
					body := normSrc(t.Src(rel, x.Body))
					switch {
					case cond == "err != nil" && !seenParse && body == "{ return err }":
					case cond == "err != nil" && seenParse && !strings.Contains(body, "return"):
						// a name that is no ID is only logged: it is listed under the zero ID
					case cond == "err != nil" && seenParse && strings.HasSuffix(body, "return nil }") && strings.Count(body, "return") == 1:
						listSkipsUnparsable = true // a name that is no ID is logged and skipped
					case cond == "info.IsDir()" && body == "{ return nil }":
						listSkipsOnlyDirs = true
					default:
						okSoFar = false // some other way not to list a file
					}
				case *ast.AssignStmt:
					if src == "ids = append(ids, id)" {
						seenAppend = true
					}
					if src == "id, err := imap.InternalMessageIDFromString(info.Name())" {
						seenParse = true
					}
				default:
					if strings.Contains(src, "return") || strings.Contains(src, "continue") {
						okSoFar = false
					}
				}
			}
			listAppendsEvery = okSoFar && seenAppend && seenParse
			return false
		})
	}

	var sb strings.Builder
	sb.WriteString("From Coq Require Import List NArith Bool.\nImport ListNotations.\nLocal Open Scope N_scope.\n\n")
	sb.WriteString("(* store/disk.go *)\n")
	sb.WriteString(fmt.Sprintf("Definition block_size : N := %d.\n", blockSize))
	sb.WriteString(fmt.Sprintf("Definition store_version : N := %d.\n", version))
	hb := make([]string, len(header))
	for i, b := range header {
		hb[i] = fmt.Sprint(int(b))
	}
	sb.WriteString(fmt.Sprintf("Definition store_header : list N := [%s].   (* %q ++ little-endian storeVersion *)\n", strings.Join(hb, "; "), hid))
	sb.WriteString(fmt.Sprintf("Definition header_len : N := %d.\n", len(header)))
	sb.WriteString("(* executed: store.NewCipher(pass).NonceSize() / .Overhead() *)\n")
	sb.WriteString(fmt.Sprintf("Definition nonce_len : N := %d.\n", nonceLen))
	sb.WriteString(fmt.Sprintf("Definition gcm_overhead : N := %d.\n", overhead))
	sb.WriteString("(* structure of Set / Get *)\n")
	sb.WriteString("Definition header_written_first : bool := " + coqBool(headerOnDisk) + ".\n")
	sb.WriteString("Definition nonce_drawn_once_per_file : bool := " + coqBool(nonceOutsideLoop) + ".\n")
	sb.WriteString("Definition seal_per_block_same_nonce_no_aad : bool := " + coqBool(sealInLoop && sealNilAAD) + ".\n")
	sb.WriteString("Definition set_cuts_at_block_size : bool := " + coqBool(readAtLeastBlock) + ".\n")
	sb.WriteString("Definition open_same_nonce_no_aad : bool := " + coqBool(openNilAAD) + ".\n")
	sb.WriteString("Definition get_reads_block_plus_overhead : bool := " + coqBool(readBufEnc && encSizeOK && encUsesBlockSize) + ".\n")
	sb.WriteString("Definition builder_installs_no_fallback : bool := " + coqBool(builderNoFallback) + ".\n")
	sb.WriteString("(* executed: Get on a file cut after header and nonce reports an error *)\n")
	sb.WriteString("Definition get_rejects_end_of_data : bool := " + coqBool(rejectsNoBlocks && getReturns) + ".\n")
	sb.WriteString("Definition get_returns_on_end_of_data : bool := " + coqBool(getReturns) + ".   (* false: the call was still running after 10 s *)\n")
	sb.WriteString("(* store/write_controlled_store.go: the lock table *)\n")
	sb.WriteString("Definition release_decrements_under_lock : bool := " + coqBool(relDecUnderLock) + ".\n")
	sb.WriteString("Definition release_deletes_entry_and_pools : bool := " + coqBool(relDeletesAndPuts) + ".\n")
	sb.WriteString("Definition acquire_is_one_critical_section : bool := " + coqBool(acqUnderLock && acqIncrements) + ".\n")
	sb.WriteString("Definition acquire_resets_counter : bool := " + coqBool(acqResets && poolNewOne) + ".\n")
	sb.WriteString("Definition ops_unlock_before_release : bool := " + coqBool(opsShape) + ".\n")
	sb.WriteString("Definition release_uses_acquired_id : bool := " + coqBool(relSameID) + ".\n")
	sb.WriteString("Definition batch_delete_is_per_id_loop : bool := " + coqBool(wcsDeleteLoop && uncheckedForwards) + ".\n")
	sb.WriteString("(* store/disk.go Delete: the loop over the IDs is left only by returning the error of a failed os.Remove *)\n")
	sb.WriteString("Definition disk_delete_stops_with_the_error : bool := " + coqBool(diskDeleteStops) + ".\n")
	sb.WriteString("(* store/disk.go List: every regular file whose name is an ID yields that ID; only directories and (if\n   list_skips_foreign_names) files whose name is no ID are skipped - otherwise those are listed under the zero ID *)\n")
	sb.WriteString("Definition list_yields_every_file : bool := " + coqBool(listAppendsEvery && listSkipsOnlyDirs) + ".\n")
	sb.WriteString("Definition list_skips_foreign_names : bool := " + coqBool(listSkipsUnparsable) + ".\n")
	return sb.String(), nil
}
