(* C13 — FETCH returns byte-exact message data for every section and partial.
   Property theorems only; every proof is `exact <lemma>` and is followed by Print Assumptions.
   The decision code of WithPartial is Gen/FactsPartial.v, regenerated from internal/response/item_body_literal.go
   on every check; the other models are hand-written (Model/Partial.v, Rfc822Split.v, Rfc822Header.v,
   Rfc822Sections.v) and tied to the server by the wire correspondence run. *)
From Coq Require Import List ZArith NArith Bool Arith.
From Gluon Require Import Base.DecBytes Gen.FactsPartial Model.Partial Model.Rfc822Split Model.Rfc822Header
  Model.Rfc822Sections Proofs.PartialProofs Proofs.LiteralFrameProofs Proofs.Rfc822HeaderProofs Proofs.Rfc822SectionsProofs
  Proofs.Rfc822SpliceProofs Gen.FactsCreatedChunk.
Import ListNotations.

(* A partial <o.n> is exactly that slice: for every literal and every offset / count the command parser can deliver
   (0 <= o, n <= 2^63-1; the sum may exceed the int64 range) the code translated from the Go source selects
   octets o .. o+n-1 clipped at the end of the section, and no slice expression panics. *)
Theorem C13_partial_is_slice : forall lit o n,
  (0 <= o <= max_int64)%Z -> (0 <= n <= max_int64)%Z -> (Z.of_nat (length lit) <= max_int64)%Z ->
  with_partial lit o n = Some (firstn (Z.to_nat n) (skipn (Z.to_nat o) lit)).
Proof. exact partial_is_slice. Qed.
Print Assumptions C13_partial_is_slice.

(* whatever two int64 values reach WithPartial, the server does not panic *)
Theorem C13_partial_never_panics : forall lit o n,
  (-9223372036854775808 <= o <= max_int64)%Z -> (-9223372036854775808 <= n <= max_int64)%Z ->
  (Z.of_nat (length lit) <= max_int64)%Z -> exists r, with_partial lit o n = Some r.
Proof. exact partial_never_panics. Qed.
Print Assumptions C13_partial_never_panics.

(* A section downloaded in consecutive pieces is the section: <o.n> followed by <o+n.m> is exactly <o.n+m>, for every
   literal and every split, and <0.n> with n at least the length is the whole section. *)
Theorem C13_partial_chunks_concat : forall lit o n m a b,
  (0 <= o)%Z -> (0 <= n)%Z -> (0 <= m)%Z -> (o + n <= max_int64)%Z -> (n + m <= max_int64)%Z ->
  (Z.of_nat (length lit) <= max_int64)%Z ->
  with_partial lit o n = Some a -> with_partial lit (o + n) m = Some b ->
  with_partial lit o (n + m) = Some (a ++ b).
Proof. exact partial_chunks_concat. Qed.
Print Assumptions C13_partial_chunks_concat.

Theorem C13_partial_whole : forall lit n, (Z.of_nat (length lit) <= n <= max_int64)%Z ->
  with_partial lit 0 n = Some lit.
Proof. exact partial_whole. Qed.
Print Assumptions C13_partial_whole.

(* Every literal's announced length equals the bytes that follow: a reader taking `{n}CRLF` and then n bytes gets
   the literal back and stands exactly behind it. *)
Theorem C13_literal_length_matches : forall lit rest, read_literal (frame_literal lit ++ rest) = Some (lit, rest).
Proof. exact read_frame_literal. Qed.
Print Assumptions C13_literal_length_matches.

(* BODY[HEADER] followed by BODY[TEXT] is BODY[] (Split cuts, it never drops or copies bytes) *)
Theorem C13_header_plus_text : forall lit, split_header lit ++ split_body lit = lit.
Proof. exact split_header_body. Qed.
Print Assumptions C13_header_plus_text.

(* ... on the level of FETCH: BODY[HEADER] ++ BODY[TEXT] = BODY[] for every message, also one whose own Content-Type is
   message/rfc822 (code after notes/C13-fix-4.diff: the message itself is never treated as an embedded part) *)
Theorem C13_fetch_header_plus_text : forall ctype_of lit,
  exists h t, fetch_section ctype_of lit [] SpHeader = Some h /\ fetch_section ctype_of lit [] SpText = Some t /\
              h ++ t = lit /\ fetch_section ctype_of lit [] SpAll = Some lit.
Proof. exact fetch_header_plus_text. Qed.
Print Assumptions C13_fetch_header_plus_text.

(* a message whose own type is message/rfc822 and whose embedded message is not a multipart (code after
   notes/C13-fix-5.diff): its single part 1 is its own body, as BODYSTRUCTURE describes it *)
Theorem C13_message_root_part1 : forall ctype_of lit,
  ctype_of (sect_header lit (root_sect lit)) = CtMessage ->
  direct_children ctype_of (S (length lit)) lit (root_sect lit) = Some [] ->
  fetch_section ctype_of lit [1] SpBody = fetch_section ctype_of lit [] SpText /\
  fetch_section ctype_of lit [1] SpMime = Some (sect_header lit (root_sect lit)) /\
  fetch_section ctype_of lit [2] SpBody = None.
Proof. exact message_root_part1. Qed.
Print Assumptions C13_message_root_part1.

Theorem C13_section_header_plus_body : forall ctype_of lit s path,
  part_of ctype_of lit (root_sect lit) path = Some s ->
  sect_header lit s ++ sect_body lit s = sect_literal lit s.
Proof. exact part_header_plus_body. Qed.
Print Assumptions C13_section_header_plus_body.

(* The ID header: SetHeaderValue inserts exactly one line `key: value CRLF` and nothing else, in front of the first
   header field (the first entry with a key, in parse order); if the header has no field, at the end of the header. *)
Theorem C13_id_header_inserted : forall lit key val es,
  new_header (split_header lit) = HOk es ->
  set_header_value lit key val =
    Some (firstn (first_field_offset (split_header lit) es) lit ++ join_line key val
          ++ skipn (first_field_offset (split_header lit) es) lit).
Proof. exact set_header_inserts_one_line. Qed.
Print Assumptions C13_id_header_inserted.

(* ... in BOTH branches (a header field exists / the header has no field at all, e.g. the message starts with the blank
   line or its header has only colon-less lines): every other byte is preserved, the result is the literal with one line
   put in at an offset inside the header part, and its length is the old length plus the length of that line *)
Theorem C13_id_header_preserves_every_other_byte : forall lit key val out,
  set_header_value lit key val = Some out ->
  exists k, k <= length (split_header lit) /\
            out = firstn k lit ++ join_line key val ++ skipn k lit /\
            length out = length lit + length (join_line key val).
Proof. exact set_header_preserves. Qed.
Print Assumptions C13_id_header_preserves_every_other_byte.

(* T1 (translator/facts_createdchunk.go): applyMessagesCreated stores literals chunk by chunk (db.ChunkLimit); inside the
   chunk loop only the chunk is indexed with the chunk-local index, the whole list is not mentioned *)
Theorem C13_created_messages_are_stored_from_their_chunk : created_chunk_loop_uses_only_chunk = true.
Proof. exact (eq_refl true). Qed.
Print Assumptions C13_created_messages_are_stored_from_their_chunk.

(* ... and erasing it gives back the appended message byte for byte, whenever the message has a header field
   (APPEND requires Date and From).  key: non-empty printable ASCII without ':' ; value: no CR / LF. *)
Theorem C13_id_header_splice : forall lit key val out,
  valid_key key -> no_crlf val = true -> has_field lit = true ->
  set_header_value lit key val = Some out ->
  erase_header_value out key = Some lit.
Proof. exact erase_set_header. Qed.
Print Assumptions C13_id_header_splice.

(* the hypothesis "has a header field" is needed: a message that starts with a blank line gets the line behind its
   (empty) header, where EraseHeaderValue does not look for it *)
Theorem C13_id_header_splice_needs_a_field :
  let lit := [13; 10; 98; 111; 100; 121]%N in
  let key := [88; 45; 73; 100]%N in
  has_field lit = false /\
  exists out, set_header_value lit key [49%N] = Some out /\ erase_header_value out key <> Some lit.
Proof. exact erase_set_header_needs_a_field. Qed.
Print Assumptions C13_id_header_splice_needs_a_field.

(* The entries of a parsed header tile it: no byte of the header is lost or duplicated by them
   (code after notes/C13-fix-2.diff). *)
Theorem C13_entries_tile_header : forall h es, new_header h = HOk es -> flat_map (e_all h) es = h.
Proof. exact new_header_entries_tile_header. Qed.
Print Assumptions C13_entries_tile_header.

(* HEADER.FIELDS and HEADER.FIELDS.NOT split the header fields between them without loss or duplication:
   both are sub-sequences of the entries in their original order (filter), every key-bearing entry is in exactly one of
   them, the blank line that ends the header is in both, lines without a key are in neither. *)
Theorem C13_fields_partition : forall h es fields e,
  new_header h = HOk es -> In e es ->
  (has_key e = true -> field_sel false h fields e = negb (field_sel true h fields e)) /\
  (blank (e_all h e) = true -> field_sel false h fields e = true /\ field_sel true h fields e = true) /\
  (has_key e = false -> blank (e_all h e) = false ->
     field_sel false h fields e = false /\ field_sel true h fields e = false).
Proof. exact fields_partition. Qed.
Print Assumptions C13_fields_partition.

Theorem C13_fields_are_filters : forall neg h fields es,
  new_header h = HOk es ->
  header_fields neg h fields = Some (flat_map (e_all h) (filter (field_sel neg h fields) es)).
Proof. exact header_fields_filter. Qed.
Print Assumptions C13_fields_are_filters.

(* Each BODY[n.m...] is a sub-slice of the message, and of the part it is numbered under. *)
Theorem C13_part_is_subslice : forall ctype_of lit path n s p,
  part_of ctype_of lit (root_sect lit) path = Some p ->
  part_of ctype_of lit (root_sect lit) (path ++ [n]) = Some s ->
  s_h p <= s_h s /\ s_h s <= s_b s /\ s_b s <= s_e s /\ s_e s <= s_e p /\ s_e p <= length lit.
Proof. exact part_inside_parent. Qed.
Print Assumptions C13_part_is_subslice.

(* whatever BODY[path], BODY[path.MIME], BODY[path.HEADER], BODY[path.TEXT] answer is a slice lit[a:b] of BODY[] *)
Theorem C13_section_is_slice_of_message : forall ctype_of lit path sp bs,
  (match sp with SpFields _ _ => False | _ => True end) ->
  fetch_section ctype_of lit path sp = Some bs ->
  exists a b, a <= b /\ b <= length lit /\ bs = slice lit a b.
Proof. exact fetch_section_subslice. Qed.
Print Assumptions C13_section_is_slice_of_message.

(* non-vacuity *)
Example C13_splice_example :
  let lit := [68; 58; 32; 120; 13; 10; 70; 58; 32; 121; 13; 10; 13; 10; 98]%N in     (* "D: x" CRLF "F: y" CRLF CRLF "b" *)
  let key := [88; 45; 73; 100]%N in
  valid_key key /\ has_field lit = true /\
  exists out, set_header_value lit key [49%N] = Some out /\ erase_header_value out key = Some lit.
Proof. vm_compute. repeat split; try discriminate. eexists. split; reflexivity. Qed.

Example C13_partial_example :
  with_partial [1;2;3;4;5]%N 1 9223372036854775807 = Some [2;3;4;5]%N /\
  with_partial [1;2;3;4;5]%N 9223372036854775807 9223372036854775807 = Some [] /\
  with_partial [1;2;3;4;5]%N 1 2 = Some [2;3]%N.
Proof. vm_compute. repeat split. Qed.

(* non-vacuity of the reassembly theorem: a split whose second piece runs past the end *)
Example C13_chunks_example :
  with_partial [1;2;3;4;5]%N 1 2 = Some [2;3]%N /\ with_partial [1;2;3;4;5]%N (1 + 2) 9 = Some [4;5]%N /\
  with_partial [1;2;3;4;5]%N 1 (2 + 9) = Some ([2;3] ++ [4;5])%N /\ with_partial [1;2;3;4;5]%N 0 5 = Some [1;2;3;4;5]%N.
Proof. vm_compute. repeat split. Qed.
