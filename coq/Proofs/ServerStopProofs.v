(* C19 — lemmas about Model/ServerStop.v: every kind of session has a stop signal that Close itself raises. *)
From Coq Require Import List Arith Bool Lia.
From Gluon Require Import Gen.FactsServe Model.ServerStop.
Import ListNotations.

Lemma fact_close_closes_conns : close_closes_accepted_conns = true.
Proof. reflexivity. Qed.

Lemma Forall_upd_nth (P : ssn -> Prop) l i x : Forall P l -> P x -> Forall P (upd_nth i x l).
Proof.
  revert i. induction l as [|z t IH]; intros i HF Hx; [destruct i; constructor|].
  inversion HF; subst. destruct i; cbn; constructor; auto.
Qed.

Record SInv (s : sst) : Prop := mkSInv {
  sinv_closed : 2 <= pidx (phase s) -> Forall (fun x => conn_closed x = true) (sessions s);
  sinv_sig : 3 <= pidx (phase s) -> Forall (fun x => is_stateful x = true -> sig x = true) (sessions s) }.

Lemma sinv_init ks : SInv (sinit ks).
Proof. constructor; cbn; intros; lia. Qed.

Lemma sinv_step s l s' : SInv s -> sstep true s l = Some s' -> SInv s'.
Proof.
  intros [I1 I2] H. destruct l as [i|i|]; cbn [sstep] in H.
  - destruct (nth_error (sessions s) i) as [x|] eqn:E; [|discriminate]. injection H as <-.
    pose proof (nth_error_In _ _ E) as Hin.
    constructor; cbn [sessions phase]; intros Hp; apply Forall_upd_nth; auto.
    + specialize (I1 Hp). rewrite Forall_forall in I1. apply (I1 x Hin).
    + specialize (I2 Hp). rewrite Forall_forall in I2. apply (I2 x Hin).
  - destruct (nth_error (sessions s) i) as [x|] eqn:E; [|discriminate].
    destruct (serving x && can_end x); [|discriminate]. injection H as <-.
    pose proof (nth_error_In _ _ E) as Hin.
    constructor; cbn [sessions phase]; intros Hp; apply Forall_upd_nth; auto.
    + specialize (I1 Hp). rewrite Forall_forall in I1. apply (I1 x Hin).
    + specialize (I2 Hp). rewrite Forall_forall in I2. apply (I2 x Hin).
  - destruct (phase s) eqn:Ep; cbn [pidx] in *.
    + injection H as <-. constructor; cbn; intros; lia.
    + injection H as <-. constructor; cbn [sessions phase pidx]; intros Hp; [|lia].
      unfold close_all. apply Forall_forall. intros x Hx. apply in_map_iff in Hx as (y & <- & _). reflexivity.
    + injection H as <-. constructor; cbn [sessions phase pidx]; intros Hp.
      * specialize (I1 ltac:(lia)). unfold signal_stateful. rewrite Forall_forall in *. intros x Hx.
        apply in_map_iff in Hx as (y & <- & Hy). cbn. apply (I1 y Hy).
      * unfold signal_stateful. apply Forall_forall. intros x Hx. apply in_map_iff in Hx as (y & <- & _).
        unfold is_stateful at 1. cbn [sk sig]. intros E. fold (is_stateful y) in E. rewrite E. apply orb_true_r.
    + destruct (stateful_all_ended (sessions s)); [|discriminate]. injection H as <-.
      constructor; cbn [sessions phase pidx]; intros Hp; [apply I1|apply I2]; lia.
    + discriminate.
Qed.

Lemma sinv_run s tr s' : SInv s -> srun true s tr = Some s' -> SInv s'.
Proof.
  revert s. induction tr as [|l t IH]; intros s I H; cbn in H.
  - injection H as <-. exact I.
  - destruct (sstep true s l) as [s1|] eqn:E; [|discriminate]. apply (IH s1); [apply (sinv_step s l); auto|exact H].
Qed.

Lemma sinv_reachable ks s : sreachable true ks s -> SInv s.
Proof. intros [tr H]. apply (sinv_run (sinit ks) tr); [apply sinv_init|exact H]. Qed.

(* once serve has returned, every session that is still alive — with or without a state, whatever its client does —
   can leave its loop *)
Theorem stop_signal_lemma ks s i x : sreachable true ks s -> 2 <= pidx (phase s) ->
  nth_error (sessions s) i = Some x -> serving x = true -> exists s', sstep true s (SEnd i) = Some s'.
Proof.
  intros R Hp E Hs. pose proof (sinv_reachable ks s R) as I. pose proof (sinv_closed s I Hp) as C.
  rewrite Forall_forall in C. specialize (C x (nth_error_In _ _ E)).
  cbn [sstep]. rewrite E, Hs. unfold can_end. rewrite C. cbn. eauto.
Qed.

Lemma not_all_ended_witness l : stateful_all_ended l = false ->
  exists i x, nth_error l i = Some x /\ is_stateful x = true /\ serving x = true.
Proof.
  induction l as [|z t IH]; cbn; [discriminate|].
  destruct (is_stateful z && serving z) eqn:E; cbn.
  - intros _. apply andb_true_iff in E as [A B]. exists 0, z. auto.
  - intros H. destruct (IH H) as (i & x & Hi & Hx). exists (S i), x. auto.
Qed.

Theorem server_close_progress_lemma ks s : sreachable true ks s -> returned s = false ->
  exists l s', server_side l = true /\ sstep true s l = Some s'.
Proof.
  intros R F. unfold returned in F. destruct (phase s) eqn:Ep; try discriminate.
  - exists SCloser. cbn. rewrite Ep. eauto.
  - exists SCloser. cbn. rewrite Ep. eauto.
  - exists SCloser. cbn. rewrite Ep. eauto.
  - destruct (stateful_all_ended (sessions s)) eqn:Ea.
    + exists SCloser. cbn. rewrite Ep, Ea. eauto.
    + destruct (not_all_ended_witness _ Ea) as (i & x & Hi & _ & Hs).
      destruct (stop_signal_lemma ks s i x R ltac:(rewrite Ep; cbn; lia) Hi Hs) as [s' H].
      exists (SEnd i), s'. auto.
Qed.

(* "once closed it leaves no goroutine behind": when Close has returned and the server has nothing left to do, no
   session is alive — without any help from the clients *)
Theorem none_left_lemma ks s : sreachable true ks s -> returned s = true -> quiescent true s -> none_left s = true.
Proof.
  intros R F Q. unfold none_left. apply forallb_forall. intros x Hx.
  destruct (serving x) eqn:Es; [|reflexivity]. exfalso.
  destruct (In_nth_error _ _ Hx) as [i Hi].
  unfold returned in F. destruct (phase s) eqn:Ep; try discriminate.
  destruct (stop_signal_lemma ks s i x R ltac:(rewrite Ep; cbn; lia) Hi Es) as [s' H].
  rewrite (Q (SEnd i) eq_refl) in H. discriminate.
Qed.

(* the closing of the accepted connections is what the stateless sessions depend on: without it Close returns and a
   session that never logged in stays behind for as long as its client keeps the socket open *)
Theorem conn_close_needed_lemma :
  exists s, sreachable false [Stateless; Stateful] s /\ returned s = true /\ quiescent false s /\ none_left s = false.
Proof.
  eexists. split; [exists [SCloser; SCloser; SCloser; SEnd 1; SCloser]; vm_compute; reflexivity|].
  split; [reflexivity|]. split; [|reflexivity].
  intros l Hl. destruct l as [i|i|]; [discriminate| |reflexivity].
  destruct i as [|[|i]]; try reflexivity. cbn. destruct i; reflexivity.
Qed.

(* the same statements for what the source does today *)
Theorem stop_signal_src ks s i x : sreachable close_closes_accepted_conns ks s -> 2 <= pidx (phase s) ->
  nth_error (sessions s) i = Some x -> serving x = true ->
  exists s', sstep close_closes_accepted_conns s (SEnd i) = Some s'.
Proof. rewrite fact_close_closes_conns. apply stop_signal_lemma. Qed.

Theorem server_close_progress_src ks s : sreachable close_closes_accepted_conns ks s -> returned s = false ->
  exists l s', server_side l = true /\ sstep close_closes_accepted_conns s l = Some s'.
Proof. rewrite fact_close_closes_conns. apply server_close_progress_lemma. Qed.

Theorem none_left_src ks s : sreachable close_closes_accepted_conns ks s -> returned s = true ->
  quiescent close_closes_accepted_conns s -> none_left s = true.
Proof. rewrite fact_close_closes_conns. apply none_left_lemma. Qed.
