package mstore

import (
	"fmt"
	"os"
	"path/filepath"
	"strings"
)

// GCase is one direct observation of EpochUIDValidityGenerator.Generate: the previous value, the clock bracket
// (seconds since the epoch start, measured before and after the call) and the value returned (-1 = error).
type GCase struct {
	ID, Last, Lo, Hi, Obs int
}

// WriteCases writes <dir>/cases.v for Run/RunMailStore.v (store cases + generator cases).
func WriteCases(dir, runModule string, cases []string, gcases []GCase) error {
	var sb strings.Builder
	sb.WriteString("From Coq Require Import List NArith ZArith Bool.\n")
	sb.WriteString("From Gluon Require Import " + runModule + ".\n")
	sb.WriteString("Import ListNotations.\nOpen Scope Z_scope.\n")
	const chunk = 50
	var names []string
	for i := 0; i < len(cases); i += chunk {
		j := i + chunk
		if j > len(cases) {
			j = len(cases)
		}
		name := fmt.Sprintf("cases_%d", i/chunk)
		names = append(names, "mismatches "+name)
		sb.WriteString(fmt.Sprintf("Definition %s : list case :=\n  [%s].\n", name, strings.Join(cases[i:j], ";\n   ")))
	}
	var gs []string
	for _, g := range gcases {
		obs := "None"
		if g.Obs >= 0 {
			obs = fmt.Sprintf("(Some %d)", g.Obs)
		}
		gs = append(gs, fmt.Sprintf("mkGCase %d %d %d %d %s", g.ID, g.Last, g.Lo, g.Hi, obs))
	}
	sb.WriteString("Definition gcases : list gcase :=\n  [" + strings.Join(gs, ";\n   ") + "].\n")
	names = append(names, "gmismatches gcases")
	sb.WriteString("Definition M := Eval vm_compute in (" + strings.Join(names, " ++ ") + ").\nPrint M.\n")
	return os.WriteFile(filepath.Join(dir, "cases.v"), []byte(sb.String()), 0o644)
}

// Shrink removes operations from a failing history while `fails` keeps returning true (at most budget re-runs).
func Shrink(ops []Op, budget int, fails func([]Op) bool) []Op {
	cur := append([]Op{}, ops...)
	n := 2
	for len(cur) > 1 && budget > 0 {
		chunk := (len(cur) + n - 1) / n
		reduced := false
		for i := 0; i < len(cur) && budget > 0; i += chunk {
			j := i + chunk
			if j > len(cur) {
				j = len(cur)
			}
			cand := append(append([]Op{}, cur[:i]...), cur[j:]...)
			if len(cand) == 0 {
				continue
			}
			budget--
			if fails(cand) {
				cur = cand
				if n > 2 {
					n--
				}
				reduced = true
				break
			}
		}
		if !reduced {
			if chunk == 1 {
				break
			}
			n *= 2
			if n > len(cur) {
				n = len(cur)
			}
		}
	}
	return cur
}

func OpsString(ops []Op) string {
	s := make([]string, len(ops))
	for i, o := range ops {
		s[i] = o.String()
	}
	return strings.Join(s, "; ")
}
