package main

// T1 extractor for C13: internal/backend/connector_updates.go applyMessagesCreated writes the literals to the store and
// the rows to the database chunk by chunk: `for _, chunk := range xslices.Chunk(<all>, db.ChunkLimit) { ... }`.
// Fact: inside that loop the whole list <all> is never mentioned (in particular never indexed with the chunk-local
// index) and the chunk variable is indexed at least once. Fails if the loop is not found.

import (
	"fmt"
	"go/ast"
)

func init() { register("CreatedChunk", factsCreatedChunk) }

func factsCreatedChunk(t *T) (string, error) {
	const file = "internal/backend/connector_updates.go"
	f, err := t.ParseFile(file)
	if err != nil {
		return "", err
	}
	fd := FuncDecl(f, "user", "applyMessagesCreated")
	if fd == nil {
		return "", fmt.Errorf("applyMessagesCreated not found")
	}
	var loop *ast.RangeStmt
	all := ""
	ast.Inspect(fd, func(n ast.Node) bool {
		rs, ok := n.(*ast.RangeStmt)
		if !ok {
			return true
		}
		call, ok := rs.X.(*ast.CallExpr)
		if !ok || len(call.Args) != 2 {
			return true
		}
		sel, ok := call.Fun.(*ast.SelectorExpr)
		if !ok || sel.Sel.Name != "Chunk" {
			return true
		}
		if id, ok := call.Args[0].(*ast.Ident); ok {
			if loop != nil {
				loop = nil
				all = "?"
				return false
			}
			loop, all = rs, id.Name
		}
		return true
	})
	if loop == nil {
		return "", fmt.Errorf("exactly one `for _, chunk := range xslices.Chunk(<all>, ...)` expected in applyMessagesCreated")
	}
	chunk, ok := loop.Value.(*ast.Ident)
	if !ok {
		return "", fmt.Errorf("chunk loop without value variable")
	}
	mentionsAll, indexesChunk := false, 0
	ast.Inspect(loop.Body, func(n ast.Node) bool {
		switch x := n.(type) {
		case *ast.Ident:
			if x.Name == all {
				mentionsAll = true
			}
		case *ast.IndexExpr:
			if id, ok := x.X.(*ast.Ident); ok && id.Name == chunk.Name {
				indexesChunk++
			}
		}
		return true
	})
	return fmt.Sprintf("(* C13: applyMessagesCreated: `for _, %s := range xslices.Chunk(%s, db.ChunkLimit)`: inside the loop body the whole list\n   %s is mentioned: %v ; %s[...] is indexed %d time(s). *)\n"+
		"Definition created_chunk_loop_uses_only_chunk : bool := %v.\n", chunk.Name, all, all, mentionsAll, chunk.Name, indexesChunk, !mentionsAll && indexesChunk > 0), nil
}
