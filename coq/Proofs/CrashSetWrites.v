(* C07 — inside store.Set: the cache file is written by several write calls and the process can die between (or inside)
   any of them.  Lemmas about Model/CrashSteps.v Section SetWrites, then their instance for the file format of
   store/disk.go as modelled for C09 (Proofs/StoreCode.v: c_write / c_read with the constants read from the source). *)
From Coq Require Import List Arith NArith Bool Lia PeanoNat.
From Gluon Require Import Model.CrashSteps Model.StoreFrame Proofs.StoreCode.
Import ListNotations.
Local Open Scope nat_scope.

Section ListBits.
  Context {A : Type}.

  Lemma firstn_len_app : forall (l1 l2 : list A), firstn (length l1) (l1 ++ l2) = l1.
  Proof. induction l1 as [|x l1 IH]; intros l2; simpl; [reflexivity | now rewrite IH]. Qed.

  Lemma skipn_len_app_plus : forall (l1 l2 : list A) n, skipn (length l1 + n) (l1 ++ l2) = skipn n l2.
  Proof. induction l1 as [|x l1 IH]; intros l2 n; simpl; [reflexivity | apply IH]. Qed.

  Lemma skipn_plus : forall a b (l : list A), skipn b (skipn a l) = skipn (a + b) l.
  Proof.
    induction a as [|a IH]; intros b l; simpl; [reflexivity|].
    destruct l as [|x l]; [now destruct b | apply IH].
  Qed.

  Lemma skipn_of_nil : forall n, skipn n (@nil A) = [].
  Proof. now destruct n. Qed.

  Lemma concat_firstn_is_prefix : forall (ps : list (list A)) k,
    concat (firstn k ps) = firstn (length (concat (firstn k ps))) (concat ps).
  Proof.
    intros ps k. rewrite <- (firstn_skipn k ps) at 3. rewrite concat_app. symmetry. apply firstn_len_app.
  Qed.

  Lemma concat_firstn_length : forall (ps : list (list A)) k, length (concat (firstn k ps)) <= length (concat ps).
  Proof.
    intros ps k. rewrite <- (firstn_skipn k ps) at 2. rewrite concat_app, app_length. lia.
  Qed.
End ListBits.

Section SetWritesProofs.
  Context {B Msg : Type}.

  (* sequential writes from offset [off] into a file that is at least that long: the written bytes replace what was
     there, the rest of the previous content stays *)
  Lemma file_writes_general : forall (ps : list (list B)) off file, off <= length file ->
    cs_file_writes off ps file = firstn off file ++ concat ps ++ skipn (off + length (concat ps)) file.
  Proof.
    induction ps as [|p ps IH]; intros off file Hoff; simpl.
    - rewrite Nat.add_0_r. symmetry. apply firstn_skipn.
    - assert (Hlen : length (firstn off file ++ p) = off + length p)
        by (rewrite app_length, firstn_length; lia).
      rewrite IH.
      + unfold cs_file_write. rewrite (app_assoc (firstn off file) p).
        rewrite <- Hlen. rewrite firstn_len_app, skipn_len_app_plus.
        rewrite Hlen, skipn_plus, app_length. rewrite <- !app_assoc.
        now rewrite Nat.add_assoc.
      + unfold cs_file_write. rewrite !app_length, firstn_length. lia.
  Qed.

  (* with O_TRUNC: after k write calls the file is exactly what was written so far, whatever it contained before *)
  Lemma set_file_trunc : forall (old : list B) ps k, cs_set_file true old ps k = concat (firstn k ps).
  Proof.
    intros old ps k. unfold cs_set_file, cs_file_open. rewrite file_writes_general by (simpl; lia).
    simpl. now rewrite skipn_of_nil, app_nil_r.
  Qed.

  (* without it: what was written so far, followed by the previous content beyond that length *)
  Lemma set_file_keep : forall (old : list B) ps k,
    cs_set_file false old ps k = concat (firstn k ps) ++ skipn (length (concat (firstn k ps))) old.
  Proof.
    intros old ps k. unfold cs_set_file, cs_file_open. rewrite file_writes_general by lia. reflexivity.
  Qed.

  Lemma set_complete_replaces : forall (old : list B) ps k, length ps <= k -> cs_set_file true old ps k = concat ps.
  Proof. intros old ps k Hk. rewrite set_file_trunc, firstn_all2 by exact Hk. reflexivity. Qed.

  Lemma set_complete_keeps_tail : forall (old : list B) ps k, length ps <= k ->
    cs_set_file false old ps k = concat ps ++ skipn (length (concat ps)) old.
  Proof. intros old ps k Hk. rewrite set_file_keep, firstn_all2 by exact Hk. reflexivity. Qed.

  Lemma set_without_trunc_differs : forall (old : list B) ps k, length ps <= k -> length (concat ps) < length old ->
    cs_set_file false old ps k <> concat ps.
  Proof.
    intros old ps k Hk Hlen Heq. rewrite set_complete_keeps_tail in Heq by exact Hk.
    apply (f_equal (@length B)) in Heq. rewrite app_length, skipn_length in Heq. lia.
  Qed.

  (* the decoder: a complete file decodes to its literal, every strict prefix of it is rejected *)
  Variable enc : Msg -> list B.
  Variable strict lenient : list B -> option Msg.
  Hypothesis Hrt : forall b, strict (enc b) = Some b.
  Hypothesis Hcut : forall b m, m < length (enc b) -> strict (firstn m (enc b)) = None.

  (* the process dies after k write calls of Set(b), cut anywhere ([ps] is any cutting of the new content): the file is
     complete, or it is a strict prefix of the new content and Get rejects it — so the entry counts as absent and the
     step model's "SSet did not happen / the file is missing" state describes it *)
  Lemma torn_set_view : forall b (old : list B) ps k, concat ps = enc b ->
    let f := cs_set_file true old ps k in
    (f = enc b /\ cs_file_view (cs_file_decoder true strict lenient) (Some f) = Some b)
    \/ (length f < length (enc b) /\ cs_file_view (cs_file_decoder true strict lenient) (Some f) = None).
  Proof.
    intros b old ps k Hps f. subst f. rewrite set_file_trunc. simpl.
    rewrite (concat_firstn_is_prefix ps k), Hps.
    pose proof (concat_firstn_length ps k) as Hle. rewrite Hps in Hle.
    remember (length (concat (firstn k ps))) as n eqn:Hn. clear Hn.
    destruct (Nat.eq_dec n (length (enc b))) as [He|Hne].
    - left. subst n. rewrite firstn_all. split; [reflexivity | apply Hrt].
    - right. split.
      + rewrite firstn_length. lia.
      + apply Hcut. lia.
  Qed.

  (* Set went through: the file is the encoding of the new literal and reads back as it, whatever was there before
     (a longer file, a damaged file, a file written under another key) *)
  Lemma complete_set_view : forall b (old : list B) ps k, concat ps = enc b -> length ps <= k ->
    cs_set_file true old ps k = enc b
    /\ cs_file_view (cs_file_decoder true strict lenient) (Some (cs_set_file true old ps k)) = Some b.
  Proof.
    intros b old ps k Hps Hk. rewrite set_complete_replaces by exact Hk. rewrite Hps. split; [reflexivity | apply Hrt].
  Qed.
End SetWritesProofs.

(* a rejected cache file is, for a fetch, a missing cache file: State.getLiteral looks at the result of Get only *)
Lemma fetch_sees_rejected_as_missing : forall remote recovered served_form fact m id,
  cs_store_get (m_store m) id = None ->
  cs_fetch_refill remote recovered served_form fact m id
  = cs_fetch_refill remote recovered served_form fact (mkM (cs_store_del (m_store m) id) (m_db m) (m_pend m)) id
    \/ recovered id = true \/ remote id = None.
Proof.
  intros remote recovered served_form fact m id Hget. unfold cs_fetch_refill. rewrite Hget. simpl.
  destruct (recovered id); [right; left; reflexivity|].
  destruct (remote id) as [b|]; [|right; right; reflexivity].
  left.
  assert (Hdd : cs_store_del (cs_store_del (m_store m) id) id = cs_store_del (m_store m) id).
  { clear Hget. unfold cs_store_del. generalize (m_store m) as s0. induction s0 as [|p s IH]; simpl; [reflexivity|].
    destruct (negb (N.eqb (fst p) id)) eqn:E; simpl; [rewrite E, IH; reflexivity | exact IH]. }
  assert (Hgd : cs_store_get (cs_store_del (m_store m) id) id = None).
  { clear Hget Hdd. unfold cs_store_get, cs_store_del. generalize (m_store m) as s0.
    induction s0 as [|p s IH]; simpl; [reflexivity|].
    destruct (N.eqb (fst p) id) eqn:E; simpl; [exact IH | rewrite E; exact IH]. }
  rewrite Hgd, Hdd. reflexivity.
Qed.

(* ---------- the file format of store/disk.go (C09's model of Set / Get) ---------- *)
Section CodeInstance.
  Variable key : Type.
  Variable seal : key -> bytes -> bytes -> bytes.
  Variable open : key -> bytes -> bytes -> option bytes.
  Variable compress : bytes -> bytes.
  Variable dec : bytes -> dres.
  Hypothesis HA : code_assumptions key seal open compress dec.

  Definition code_get (k : key) (f : bytes) : option bytes :=
    match c_read key open dec k f with ROk d => Some d | _ => None end.

  Lemma code_get_roundtrip : forall k n, length n = code_nlen ->
    forall d, code_get k (c_write key seal compress k n d) = Some d.
  Proof. intros k n Hn d. unfold code_get. rewrite (c_read_write key seal open compress dec HA) by exact Hn. reflexivity. Qed.

  (* Proofs/StoreCode.v c_truncated = Props/C09.v C09_truncated_is_error *)
  Lemma code_get_rejects_prefix : forall k n, length n = code_nlen ->
    forall d m, m < length (c_write key seal compress k n d) ->
    code_get k (firstn m (c_write key seal compress k n d)) = None.
  Proof.
    intros k n Hn d m Hm. unfold code_get.
    pose proof (c_truncated key seal open compress dec HA k n d m Hn Hm) as He.
    destruct (c_read key open dec k (firstn m (c_write key seal compress k n d))); [discriminate He | reflexivity..].
  Qed.

  Lemma code_torn_set : forall lenient k n d (old : bytes) ps j, length n = code_nlen ->
    concat ps = c_write key seal compress k n d ->
    let f := cs_set_file true old ps j in
    (f = c_write key seal compress k n d /\ cs_file_view (cs_file_decoder true (code_get k) lenient) (Some f) = Some d)
    \/ (length f < length (c_write key seal compress k n d)
        /\ cs_file_view (cs_file_decoder true (code_get k) lenient) (Some f) = None).
  Proof.
    intros lenient k n d old ps j Hn Hps.
    exact (torn_set_view (c_write key seal compress k n) (code_get k) lenient
             (code_get_roundtrip k n Hn) (code_get_rejects_prefix k n Hn) d old ps j Hps).
  Qed.

  Lemma code_complete_set : forall lenient k n d (old : bytes) ps j, length n = code_nlen ->
    concat ps = c_write key seal compress k n d -> length ps <= j ->
    cs_set_file true old ps j = c_write key seal compress k n d
    /\ cs_file_view (cs_file_decoder true (code_get k) lenient) (Some (cs_set_file true old ps j)) = Some d.
  Proof.
    intros lenient k n d old ps j Hn Hps Hj.
    exact (complete_set_view (c_write key seal compress k n) (code_get k) lenient
             (code_get_roundtrip k n Hn) d old ps j Hps Hj).
  Qed.
End CodeInstance.
